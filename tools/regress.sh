#!/bin/bash
# regression for the checker itself: (1) unchanged tree silent, (2) every seeded change caught by its property's check, (3) benign refactors: report alarms
export GOFLAGS=-mod=mod GOPROXY=off GOSUMDB=off GOTOOLCHAIN=local; unset GOWORK
(cd /verif/checker && go build -o /verif/bin/dstverif ./cmd/dstverif) || exit 1
echo "== unchanged tree"; /verif/tools/run_all.sh | grep -v "rc=0" ; echo "(done)"
echo "== seeded"
for d in /verif/seeded/*/; do
  name=$(basename $d); props=$(python3 -c "import json;m=json.load(open('$d/meta.json'));print(' '.join([m['property']]+m.get('also_for',[])))")
  rm -rf /tmp/rg && mkdir -p /tmp/rg/verif && rsync -a --exclude .git /repo/ /tmp/rg/repo/ && cp /verif/known-findings.json /tmp/rg/verif/
  if ! patch -p1 -s -f -d /tmp/rg/repo -i $d/patch.diff >/dev/null 2>&1; then echo "  $name: PATCH DOES NOT APPLY"; continue; fi
  res=""
  for p in $props; do
    DSTVERIF_REPO=/tmp/rg/repo DSTVERIF_DIR=/tmp/rg/verif /verif/bin/dstverif -prop $p > /tmp/rg/$p.log 2>&1; rc=$?
    res="$res $p=$rc"
  done
  echo "  $name:$res"
done
if [ "$1" != "nobenign" ]; then
echo "== benign"; /verif/tools/benign_eval.sh /verif/benign/*/benign-*.diff 2>&1 | grep "^==" | sed 's#/verif/benign/##'
fi
rm -rf /tmp/rg
