#!/bin/bash
# regression for the checker itself: (1) unchanged tree silent, (2) every seeded change caught by its property's check, (3) benign refactors: report alarms
export GOFLAGS=-mod=mod GOPROXY=off GOSUMDB=off GOTOOLCHAIN=local; unset GOWORK
(cd /verif/checker && go build -o /verif/bin/dstverif ./cmd/dstverif) || exit 1
echo "== unchanged tree"; /verif/tools/run_all.sh | grep -v "rc=0" ; echo "(done)"
echo "== seeded"
R=$(mktemp -d /tmp/rg.XXXXXX)
for d in /verif/seeded/*/; do
  name=$(basename $d); props=$(python3 -c "import json;m=json.load(open('$d/meta.json'));print(' '.join([m['property']]+m.get('also_for',[])))")
  rm -rf $R && mkdir -p $R/verif && rsync -a --exclude .git /repo/ $R/repo/ && cp /verif/known-findings.json $R/verif/
  if ! patch -p1 -s -f -d $R/repo -i $d/patch.diff >/dev/null 2>&1; then echo "  $name: PATCH DOES NOT APPLY"; continue; fi
  res=""
  for p in $props; do
    DSTVERIF_REPO=$R/repo DSTVERIF_DIR=$R/verif /verif/bin/dstverif -prop $p > $R/$p.log 2>&1; rc=$?
    res="$res $p=$rc"
  done
  echo "  $name:$res"
done
if [ "$1" != "nobenign" ]; then
echo "== benign"; /verif/tools/benign_par.sh /verif/benign/*/benign-*.diff 2>&1 | grep "^==\|DOES NOT APPLY" | sed 's#/verif/benign/##'
fi
rm -rf $R
