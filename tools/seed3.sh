#!/bin/bash
# seed3.sh <Rid e.g. R4C05> <prop> [more props]: confirm a seeded change (build, baseline, demo both ways) and run the
# checks against a scratch copy of /repo with the patch applied (does not touch /repo).
rid=$1; shift; props="$*"
out=/tmp/wt/out/$rid; wt=/tmp/wt/$rid
export GOFLAGS=-mod=mod GOPROXY=off GOSUMDB=off GOTOOLCHAIN=local; unset GOWORK
(cd $wt && go build ./... ) && echo build-ok || { echo BUILD-FAILED; exit 1; }
python3 /verif/tools/baseline.py $wt | head -2
D=$(mktemp -d /tmp/seed_demo.XXXXXX); cp -r $out/demo/. $D/ && cd $D && sed -i "s#=> .*#=> $wt#" go.mod && cp $wt/go.sum . && (go run . 2>&1 | tail -2 | cut -c1-300; echo "changed: exit=${PIPESTATUS[0]}")
sed -i "s#=> .*#=> /repo#" go.mod && (go run . 2>&1 | tail -2 | cut -c1-200; echo "pristine: exit=${PIPESTATUS[0]}")
cd /; rm -rf $D
T=$(mktemp -d /tmp/seed_chk.XXXXXX); mkdir -p $T/verif; rsync -a --exclude .git /repo/ $T/repo/; cp /verif/known-findings.json $T/verif/
patch -p1 -s -f -d $T/repo -i $out/patch.diff || { echo APPLY-FAILED; rm -rf $T; exit 1; }
for p in $props; do
  DSTVERIF_REPO=$T/repo DSTVERIF_DIR=$T/verif ${DV:-/verif/bin/dstverif} -prop $p > $T/$p.log 2>&1; rc=$?
  echo "$p rc=$rc"; grep -A2 "^VIOLATION\|^UNDECIDED\|PANIC\|LOAD-FAILED" $T/$p.log | sed "s#$T/repo/##" | head -${SEED_LINES:-6} | cut -c1-420
done
rm -rf $T
