#!/bin/bash
rid=$1; shift; out=/tmp/wt/out/$rid
export GOFLAGS=-mod=mod GOPROXY=off GOSUMDB=off GOTOOLCHAIN=local; unset GOWORK
for kind in patch twin; do
  [ -f $out/$kind.diff ] || { echo "$kind.diff MISSING"; continue; }
  T=$(mktemp -d /tmp/evalr.XXXXXX); mkdir -p $T/verif; rsync -a --exclude .git /repo/ $T/repo/; cp /verif/known-findings.json $T/verif/
  patch -p1 -s -f -d $T/repo -i $out/$kind.diff || echo "APPLY-FAILED $kind"
  (cd $T/repo && go build ./... 2>&1 | head -3)
  b=$(python3 /verif/tools/baseline.py $T/repo | head -1)
  mkdir $T/demo; cp -r $out/demo/. $T/demo/; (cd $T/demo; sed -i "s#=> .*#=> $T/repo#" go.mod; cp $T/repo/go.sum .; go run . 2>&1 | tail -1 | cut -c1-160 > $T/demo.out)
  DSTVERIF_REPO=$T/repo DSTVERIF_DIR=$T/verif ${DV:-/tmp/dv} -prop all > $T/log 2>/dev/null
  echo "== $rid $kind: $b | demo: $(tr '\n' ' ' < $T/demo.out) | alarms: $(grep '^RC' $T/log | grep -v 'rc=0' | sed 's/RC prop=//' | tr '\n' ' ')"
  grep -A1 '^VIOLATION\|^UNDECIDED' $T/log | grep 'rule=\|UNDECIDED' | sed "s#$T/repo/##" | sort -u | head -4 | cut -c1-260
  rm -rf $T
done
