#!/bin/bash
# mkhunt.sh <id> "<props>" "<focus text>"
id=$1; props=$2; focus=$3
git -C /repo worktree add --detach /tmp/wt/$id HEAD >/dev/null 2>&1
mkdir -p /tmp/wt/out/$id
python3 - "$id" "$props" "$focus" <<'PY'
import json,sys
id,props,focus=sys.argv[1],sys.argv[2].split(),sys.argv[3]
ps=[json.loads(l) for l in open('/verif/properties.jsonl')]
json.dump([p for p in ps if p['id'] in props],open(f'/tmp/wt/out/{id}/properties.json','w'),indent=1)
t=open('/tmp/wt/HUNT.tpl').read().replace('@ID@',id)
t+=f'''

THIRD ROUND. Earlier rounds already found the following; do NOT report them again (variants with the same root cause do not count either):
 - a column-1 `//line` directive inside an indented block is printed indented;
 - empty lines that are not the single byte "\\n" (CRLF files, lines holding only blanks) are decorated as ordinary line breaks (import groups merge, free comments become doc comments);
 - a path imported by two import specs of one file (duplicate import) is mishandled by import management;
 - Restorer.Extras: object Decl/Data nodes outside the tree get positions past the end of the file, depend on map order, and multi-file packages with cross-file references cannot be restored;
 - ast.RangeStmt.Range and the Arrow of `<-chan T` are never given a position;
 - the `=` of a generic type alias `type A[P any] = B[P]` is positioned before the type parameter list;
 - restoring the same dst tree twice with one Restorer panics with "duplicate node" (documented behaviour).
 - a decoration carries no column: an own-line comment after a wrapped last list element and a hanging comment of that element are the same tree, so after appending an element the comment is printed one level deeper; a comment aligned with a closing paren likewise;
 - cursor operations after Cursor.Delete behave like astutil (not a defect); File.Imports of a clone are separate clones (not a defect).
About thirty other defects found in those rounds have been repaired in your worktree already.

FOCUS FOR YOU: {focus}
Prefer systematic exploration over guessing: write a small generator or a table-driven program that builds many inputs of the kind described, runs the library on each, and checks the property mechanically (e.g. compare with go/format of the same text, compare token sequences with go/scanner, compare positions with a re-parse), then minimise whatever fails and read the code to explain it.
'''
open(f'/tmp/wt/out/{id}/prompt.txt','w').write(t)
PY
echo prepared $id
