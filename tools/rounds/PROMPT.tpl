You are helping test a verification effort for the Go library github.com/dave/dst (Decorated Syntax Tree: a go/ast variant that carries comments and spacing on nodes, with ast<->dst conversion, Clone, Walk/Apply and import management).

Your private scratch git worktree of the library is at: /tmp/wt/@ID@   (work ONLY there and in /tmp/wt/out/@ID@; never touch /repo or /verif, and do not read anything under /verif).

The property under test is in /tmp/wt/out/@ID@/property.json. Read it first (title, statement, quantifier, anchors). Its statement:

  @TITLE@
  @STATEMENT@

YOUR TASK: produce ONE realistic change (a bug a maintainer could plausibly introduce: a slip in a refactor, an off-by-one, a dropped line, a wrong condition, a reordered pair of statements, an "optimisation") to the library source in your worktree that BREAKS this property, while
  (a) the library still compiles (`go build ./...`, and `go vet` is not required), and
  (b) the existing baseline test-suite still passes: run `python3 /tmp/wt/tools/baseline.py /tmp/wt/@ID@` — it must print `baseline-missing 0` (only the 109 baseline tests count; other tests in the repo crash in this sandbox for unrelated reasons and are ignored), and
  (c) the breakage needs something SPECIFIC to manifest — a particular input shape, a particular sequence of operations, an unusual but legal configuration, a specific interleaving/fault point, or two cooperating sites that each look fine alone — NOT something that any ordinary use would expose at once. Prefer a change in non-test library code that a reviewer could miss. Do not edit or add files under any *_test.go of the library, do not change go.mod, and do not touch the generators' data tables only (gendst/data): change code that actually runs. Generated files (*-generated.go) are fair game, as are the hand-written ones.

Also write a DEMONSTRATION: a small standalone Go program (package main) in /tmp/wt/out/@ID@/demo/ with its own go.mod that does `require github.com/dave/dst v0.0.0` + `replace github.com/dave/dst => <DIR>` where <DIR> is taken from the environment variable DST_DIR at build time — simplest: write go.mod with `replace github.com/dave/dst => /tmp/wt/@ID@` and tell me; I will re-point it. Copy /tmp/wt/@ID@/go.sum next to it. The program must exit 0 and print PASS on the UNCHANGED library, and exit 1 and print FAIL (with a one-line reason) on your changed library. Verify both: run it against your changed worktree (must FAIL) and against a pristine tree (do NOT use `git stash`: the stash is shared between all worktrees of the repository and other people use it concurrently; use `git -C /tmp/wt/@ID@ diff > /tmp/wt/out/@ID@/patch.diff; git -C /tmp/wt/@ID@ checkout .; run; git -C /tmp/wt/@ID@ apply /tmp/wt/out/@ID@/patch.diff`) (must PASS).

Sandbox facts: there is NO network. Prefix every shell command that runs go with:
  export GOFLAGS=-mod=mod GOPROXY=off GOSUMDB=off GOTOOLCHAIN=local; unset GOWORK;
The default go is 1.23.5. Only modules already in the module cache are available (the library's own deps: golang.org/x/tools v0.1.12, github.com/dave/jennifer, etc.).

DELIVERABLES (all under /tmp/wt/out/@ID@/):
  patch.diff   — `git -C /tmp/wt/@ID@ diff` of your change (library files only)
  demo/        — the demonstration program (main.go, go.mod, go.sum)
  meta.json    — {"property": "@ID@", "summary": "<what the change does>", "needs": "<what specific input/sequence/config is needed for it to manifest>", "files": [...], "ran": ["<commands you ran and their outcome>"]}
Leave your worktree with the change APPLIED (uncommitted). Finish by reporting: the one-paragraph description of the change, what it needs to manifest, and the exact commands to reproduce FAIL/PASS. Keep the change small (ideally < 15 changed lines).
