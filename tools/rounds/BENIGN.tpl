You are helping test a static-analysis based verification effort for the Go library github.com/dave/dst (Decorated Syntax Tree: a go/ast variant that carries comments and spacing on nodes, with ast<->dst conversion, Clone, Walk/Apply and import management). The analysers must stay SILENT on code whose behaviour is unchanged. Your job is to produce BEHAVIOUR-PRESERVING edits (the kind of refactoring, clean-up or micro-optimisation a maintainer might really commit) so we can check that they raise no false alarm.

Your private scratch git worktree of the library is at: /tmp/wt/@ID@   (work ONLY there and in /tmp/wt/out/@ID@; never touch /repo or /verif, and do not read anything under /verif). Do NOT use `git stash` (it is shared between worktrees).

AREA assigned to you: @AREA@

Produce SIX separate, independent patches, each a realistic behaviour-preserving change inside your area, of different kinds — for example: rename a local variable or parameter; extract a small helper function or inline one; hoist a loop-invariant sub-expression into a local; reorder two independent statements; replace an if/else chain by a switch (or vice versa); invert a condition and swap branches; replace `x = append(x, y)` idioms by equivalent forms; early-return instead of nesting (only where it is truly equivalent!); replace a manual loop by an equivalent library call; change comments / add documentation; add a defensive check that can never trigger; add a new unused-by-default exported helper; introduce a named constant. Make them non-trivial enough to change the syntax tree of the functions involved (pure comment/whitespace edits may be at most one of the six). Each patch must:
  (a) compile: `go build ./...`
  (b) keep the baseline green: `python3 /tmp/wt/tools/baseline.py /tmp/wt/@ID@` must print `baseline-missing 0`
  (c) be behaviour-preserving for ALL inputs (not merely for the tests): reason carefully; if in doubt, pick another edit. Do not change exported API signatures or remove anything exported.
Work one patch at a time: edit, build, run baseline, save `git -C /tmp/wt/@ID@ diff > /tmp/wt/out/@ID@/benign-<n>.diff`, then `git -C /tmp/wt/@ID@ checkout .` before the next one. Also write /tmp/wt/out/@ID@/README.md with one paragraph per patch: what it changes and why behaviour is preserved.

Sandbox facts: there is NO network. Prefix every shell command that runs go with:
  export GOFLAGS=-mod=mod GOPROXY=off GOSUMDB=off GOTOOLCHAIN=local; unset GOWORK;
The default go is 1.23.5. If you regenerate code do not: generated files (*-generated.go) should be edited by hand for this exercise (and only the generated file, not the generator), as an experiment.

Finish by listing the six patches with a one-line description each.
