You are helping test the Go library github.com/dave/dst (Decorated Syntax Tree: a go/ast variant that carries comments and spacing on nodes, with ast<->dst conversion, Clone, Walk/Apply and import management) against a list of semantic properties its users rely on.

Your private scratch git worktree of the library is at: /tmp/wt/@ID@   (work ONLY there and in /tmp/wt/out/@ID@; never touch /repo or /verif, and do not read anything under /verif). Do NOT use `git stash`.

The properties assigned to you are in /tmp/wt/out/@ID@/properties.json (id, title, statement, quantifier, anchors). Read them carefully.

YOUR TASK: find GENUINE DEFECTS — legal inputs, call sequences or configurations for which the UNMODIFIED library violates one of your properties as stated. Do not change the library. Think about unusual but legal inputs: generated code (//line directives, cgo, build constraints), empty or comment-only files, unusual formatting that gofmt accepts, type parameters, labelled statements, import blocks with dot/blank/cgo/aliased/duplicate imports, vendored paths, packages with several files, reused decorators/restorers, nodes moved between files, Restorer.Extras, decorations edited by hand (legal values only), nil optional children, and so on. Read the code the property's anchors point at and look for assumptions that an input can break. Use small Go programs to confirm: a finding only counts if you have a standalone program that demonstrates it.

For each defect you can demonstrate (aim for one to three; quality over quantity; none is an acceptable answer if you truly find nothing after a serious search) write:
  /tmp/wt/out/@ID@/finding-<n>/main.go + go.mod (module demo; `require github.com/dave/dst v0.0.0`; `replace github.com/dave/dst => /tmp/wt/@ID@`; copy /tmp/wt/@ID@/go.sum next to it) — the program must print FAIL with a one-line reason and exit 1 on the unmodified library (it would print PASS and exit 0 if the property held);
  /tmp/wt/out/@ID@/finding-<n>/README.md — which property, the exact input/sequence, what the library does, what the property requires, where in the code the cause is (file, function, the assumption that breaks), and whether the input is something a real user could plausibly have.
Do NOT report: behaviour the property's statement explicitly excludes (read the provisos), problems that only arise from illegal trees (e.g. a node used twice without Clone when the property says that is illegal), go/printer or go/parser limitations that gofmt itself has, or anything you could not reproduce with a program.

Sandbox facts: there is NO network. Prefix every shell command that runs go with:
  export GOFLAGS=-mod=mod GOPROXY=off GOSUMDB=off GOTOOLCHAIN=local; unset GOWORK;
The default go is 1.23.5. Only modules already in the module cache are available (the library's own deps: golang.org/x/tools v0.1.12 etc.). The repository's own test-suite partly crashes in this sandbox for unrelated reasons; ignore it.

Finish by listing your findings (or stating that you found none and what you tried).
