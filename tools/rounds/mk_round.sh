#!/bin/bash
# mk9.sh <prop> <where text> : round 9 (places no earlier change touched)
prop=$1; where=$2; id=R16$prop
git -C /repo worktree add --detach /tmp/wt/$id HEAD >/dev/null 2>&1
mkdir -p /tmp/wt/out/$id
python3 - "$prop" "$id" "$where" <<'PY'
import json,sys
prop,id,where=sys.argv[1],sys.argv[2],sys.argv[3]
for l in open('/verif/properties.jsonl'):
    p=json.loads(l)
    if p['id']==prop:
        json.dump(p,open(f'/tmp/wt/out/{id}/property.json','w'),indent=1)
        t=open('/tmp/wt/PROMPT.tpl').read().replace('@ID@',id).replace('@TITLE@',p['title']).replace('@STATEMENT@',p['statement'])
        t=t.replace('{"property": "'+id+'"','{"property": "'+prop+'"')
        t+=f'''

EXTRA GUIDANCE FOR THIS ROUND: make your change INSIDE this area of the code: {where}. Disguise it as (part of) a plausible refactoring of that code - a helper or local closure extracted, a loop rewritten, a condition folded or split, two steps merged, a value hoisted into a local - where the refactoring as a whole looks behaviour-preserving but one detail is wrong (the wrong one of two similar variables, a condition that differs in one rare case, a step in the wrong order, a boundary case lost). The wrong detail must be what breaks the property; the rest of the refactoring must be correct. If the file is generated (*-generated.go), edit the generated file itself (not the generator) and keep the edit to one or two cases so that it looks like a generator glitch or a hand patch.

ALSO WRITE THE CORRECT TWIN: when you are done, save your change as /tmp/wt/out/{id}/patch.diff (git diff), then correct the one wrong detail (keeping the whole refactoring), check that the library builds, that baseline.py still reports baseline-missing 0 and that your demo now prints PASS, and save that tree as /tmp/wt/out/{id}/twin.diff (git diff against the pristine tree). Finally put the WRONG version back into the worktree (git checkout . ; git apply /tmp/wt/out/{id}/patch.diff).
'''
        open(f'/tmp/wt/out/{id}/prompt.txt','w').write(t)
PY
echo prepared $id
