#!/usr/bin/env python3
"""regress2.py [workers]: the checker's own regression in one pass, one process per patched tree (dstverif -prop all):
 (1) the unchanged tree is silent; (2) every seeded change is reported by the check of its property (and of also_for);
 (3) every behaviour-preserving patch: which checks alarm. $DV selects the binary (default: build /verif/bin/dstverif)."""
import json, os, subprocess, sys, shutil, glob, concurrent.futures as cf
W = int(sys.argv[1]) if len(sys.argv) > 1 else 6
env = dict(os.environ, GOFLAGS="-mod=mod", GOPROXY="off", GOSUMDB="off", GOTOOLCHAIN="local"); env.pop("GOWORK", None)
DV = os.environ.get("DV")
if not DV:
    subprocess.run(["go", "build", "-o", "/verif/bin/dstverif", "./cmd/dstverif"], cwd="/verif/checker", env=env, check=True)
    DV = "/verif/bin/dstverif"
def run(patch, tag):
    root = f"/tmp/rg2/{tag}"
    shutil.rmtree(root, ignore_errors=True); os.makedirs(root + "/verif")
    subprocess.run(["rsync", "-a", "--exclude", ".git", "/repo/", root + "/repo/"], check=True)
    shutil.copy("/verif/known-findings.json", root + "/verif/")
    try:
        if patch:
            p = subprocess.run(["patch", "-p1", "-s", "-f", "-d", root + "/repo", "-i", patch], capture_output=True, text=True)
            if p.returncode != 0:
                return None, "PATCH DOES NOT APPLY"
        c = subprocess.run([DV, "-prop", "all"], env=dict(env, DSTVERIF_REPO=root + "/repo", DSTVERIF_DIR=root + "/verif"), capture_output=True, text=True)
        rc = {l.split()[1][5:]: int(l.split()[2][3:]) for l in c.stdout.splitlines() if l.startswith("RC prop=")}
        rules = sorted(set(l.strip()[:200] for l in c.stdout.splitlines() if l.startswith("  rule=")))
        if not rc:
            return None, "NO RESULT: " + c.stdout[-300:]
        return rc, rules
    finally:
        shutil.rmtree(root, ignore_errors=True)
jobs = [("unchanged", None, None)]
for d in sorted(glob.glob("/verif/seeded/*/")):
    m = json.load(open(d + "meta.json"))
    jobs.append(("seed", d + "patch.diff", (os.path.basename(d[:-1]), [m["property"]] + m.get("also_for", []))))
for d in sorted(glob.glob("/verif/seeded-mutants/*/")):
    m = json.load(open(d + "meta.json"))
    jobs.append(("mutant", d + "patch.diff", (os.path.basename(d[:-1]), m.get("property"), m["file"] + " " + m["func"])))
for p in sorted(glob.glob("/verif/benign/*/*.diff")):
    jobs.append(("benign", p, p.replace("/verif/benign/", "")))
def work(i_job):
    i, (kind, patch, info) = i_job
    return kind, info, run(patch, f"j{i}")
out = {"unchanged": [], "seed": [], "benign": [], "mutant": []}
with cf.ThreadPoolExecutor(W) as ex:
    for kind, info, (rc, rules) in ex.map(work, enumerate(jobs)):
        out[kind].append((info, rc, rules))
print("== unchanged tree")
for info, rc, rules in out["unchanged"]:
    bad = {p: v for p, v in (rc or {}).items() if v}
    print("  ", "silent" if rc and not bad else f"ALARM {bad} {rules}")
print("== seeded")
miss = 0
for (name, props), rc, rules in out["seed"]:
    if rc is None:
        print(f"  {name}: {rules}"); miss += 1; continue
    res = " ".join(f"{p}={rc.get(p)}" for p in props)
    flag = "" if rc.get(props[0]) else "   <-- MISSED by its own property"
    if flag: miss += 1
    print(f"  {name}: {res}{flag}")
print(f"   {len(out['seed'])} seeds, {miss} missed")
print("== property-breaking mutants of the sweep (DESIGN 8.21): reported by any check / by the check of the property the triage named")
rep = own = 0
for (name, prop, where), rc, rules in out["mutant"]:
    if rc is None:
        print(f"  {name}: {rules}"); continue
    hit = sorted(p for p, v in rc.items() if v)
    rep += bool(hit); own += bool(prop in hit)
    if not hit:
        print(f"  {name} ({prop}, {where}): NOT REPORTED")
print(f"   {len(out['mutant'])} mutants, {rep} reported, {own} by the named property's check")
print("== benign")
al = 0
for name, rc, rules in out["benign"]:
    if rc is None:
        print(f"  {name}: {rules}"); al += 1; continue
    bad = [f"{p}(rc={v})" for p, v in sorted(rc.items()) if v]
    if bad:
        al += 1
        print(f"  {name}: " + " ".join(bad)); [print("       ", r) for r in rules[:4]]
print(f"   {len(out['benign'])} benign patches, {al} with an alarm")
