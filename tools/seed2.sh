#!/bin/bash
# seed2.sh <Rid e.g. R2C06> <prop> [extra props]: evaluate a round-2 seed
rid=$1; prop=$2; shift 2
SEED_LINES=${SEED_LINES:-6} /verif/tools/seed_eval.sh /tmp/wt/out/$rid /tmp/wt/$rid $prop "$prop $*" 2>&1 | tail -${TAILN:-12} | cut -c1-420
