#!/usr/bin/env python3
"""mutsweep.py <mutants.jsonl> <out.jsonl> [workers]: for every mutant (cmd/mutgen) splice it into a scratch copy of /repo,
build, run the pinned tests (baseline.py), and on the survivors run all checks in one process (dstverif -prop all).
A measuring instrument for the checker: nothing here decides a property. Scratch copies live under /tmp/ms and are removed."""
import json, os, subprocess, sys, shutil, threading, queue, time
muts = [json.loads(l) for l in open(sys.argv[1])]
out = open(sys.argv[2], "a")
done = set()
try:
    for l in open(sys.argv[2]):
        done.add(json.loads(l)["id"])
except Exception:
    pass
W = int(sys.argv[3]) if len(sys.argv) > 3 else 6
DV = os.environ.get("DV", "/verif/bin/dstverif")
env = dict(os.environ, GOFLAGS="-mod=mod", GOPROXY="off", GOSUMDB="off", GOTOOLCHAIN="local")
env.pop("GOWORK", None)
q = queue.Queue()
for m in muts:
    if m["id"] not in done:
        q.put(m)
lock = threading.Lock()
def work(i):
    root = f"/tmp/ms/w{i}"
    shutil.rmtree(root, ignore_errors=True)
    os.makedirs(root + "/verif")
    subprocess.run(["rsync", "-a", "--exclude", ".git", "/repo/", root + "/repo/"], check=True)
    shutil.copy("/verif/known-findings.json", root + "/verif/")
    while True:
        try:
            m = q.get_nowait()
        except queue.Empty:
            break
        path = f"{root}/repo/{m['file']}"
        src = open(path, "rb").read()
        res = dict(m)
        try:
            assert src[m["off"]:m["end"]].decode() == m["orig"]
            open(path, "wb").write(src[:m["off"]] + m["repl"].encode() + src[m["end"]:])
            b = subprocess.run(["go", "build", "./..."], cwd=root + "/repo", env=env, capture_output=True, text=True)
            if b.returncode != 0:
                res["status"] = "nocompile"
            else:
                try:
                    t = subprocess.run(["python3", "/verif/tools/baseline.py", root + "/repo"], env=env, capture_output=True, text=True, timeout=240)
                    ok = t.returncode == 0
                except subprocess.TimeoutExpired:
                    ok = False
                if not ok:
                    res["status"] = "killed"
                else:
                    e2 = dict(env, DSTVERIF_REPO=root + "/repo", DSTVERIF_DIR=root + "/verif")
                    c = subprocess.run([DV, "-prop", "all"], env=e2, capture_output=True, text=True, timeout=600)
                    rcs = {}
                    for line in c.stdout.splitlines():
                        if line.startswith("RC prop="):
                            p, r = line.split()[1:3]
                            rcs[p[5:]] = int(r[3:])
                    res["status"] = "survivor"
                    res["caught_by"] = sorted(p for p, r in rcs.items() if r == 1)
                    res["undecided_by"] = sorted(p for p, r in rcs.items() if r == 2)
                    if not rcs:
                        res["checker_output"] = c.stdout[-400:]
                    first = [l for l in c.stdout.splitlines() if l.startswith("  rule=")]
                    res["first_report"] = first[0][:300] if first else ""
        except Exception as ex:
            res["status"] = "error"; res["error"] = str(ex)[:200]
        finally:
            open(path, "wb").write(src)
        with lock:
            out.write(json.dumps(res) + "\n"); out.flush()
    shutil.rmtree(root, ignore_errors=True)
ts = [threading.Thread(target=work, args=(i,)) for i in range(W)]
for t in ts: t.start()
for t in ts: t.join()
