#!/bin/bash
# seed_verify.sh <seed-name>...: re-confirm archived seeds against the current /repo: the patch applies, the library
# builds, the baseline passes, the demo FAILs with the patch and PASSes without it.
export GOFLAGS=-mod=mod GOPROXY=off GOSUMDB=off GOTOOLCHAIN=local; unset GOWORK
for name in "$@"; do
  d=/verif/seeded/$name
  T=$(mktemp -d /tmp/sv.XXXXXX); rsync -a --exclude .git /repo/ $T/repo/
  if ! patch -p1 -s -f -d $T/repo -i $d/patch.diff >/dev/null 2>&1; then echo "$name: PATCH DOES NOT APPLY"; rm -rf $T; continue; fi
  b=$( (cd $T/repo && go build ./... 2>&1 | head -2) )
  base=$(python3 /verif/tools/baseline.py $T/repo | head -1)
  cp -r $d/demo $T/demo; (cd $T/demo && sed -i "s#=> .*#=> $T/repo#" go.mod && cp $T/repo/go.sum . && go run . >$T/out1 2>&1; echo $? > $T/rc1; sed -i "s#=> .*#=> /repo#" go.mod && go run . >$T/out2 2>&1; echo $? > $T/rc2)
  echo "$name: build[${b:-ok}] $base | patched exit=$(cat $T/rc1) pristine exit=$(cat $T/rc2)"
  rm -rf $T
done
