#!/bin/bash
# run every claimed check (quick by default) and summarise
tier=${1:-quick}
for p in $(python3 -c "import json;print(' '.join(c['property_id'] for c in json.load(open('/verif/MANIFEST.json'))['checks']))"); do
  /verif/bin/dstverif -prop $p -tier $tier > /tmp/run_$p.log 2>&1; rc=$?
  echo "$p rc=$rc $(tail -1 /tmp/run_$p.log)"
done
