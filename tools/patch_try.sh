#!/bin/bash
# patch_try.sh <patch> <prop>...: apply a patch to a scratch copy of /repo, build, and run the named checks (DV selects the binary)
patch=$1; shift
export GOFLAGS=-mod=mod GOPROXY=off GOSUMDB=off GOTOOLCHAIN=local; unset GOWORK
T=$(mktemp -d /tmp/pt.XXXXXX); mkdir -p $T/verif; rsync -a --exclude .git /repo/ $T/repo/; cp /verif/known-findings.json $T/verif/
patch -p1 -s -f -d $T/repo -i $patch || { echo APPLY-FAILED; rm -rf $T; exit 1; }
(cd $T/repo && go build ./... 2>&1 | head -3)
for p in "$@"; do
  DSTVERIF_REPO=$T/repo DSTVERIF_DIR=$T/verif ${DV:-/verif/bin/dstverif} -prop $p > $T/$p.log 2>&1; rc=$?
  echo "$p rc=$rc"; grep -A2 "^VIOLATION\|^UNDECIDED\|PANIC\|LOAD-FAILED" $T/$p.log | sed "s#$T/repo/##" | head -${SEED_LINES:-9} | cut -c1-420
done
rm -rf $T
