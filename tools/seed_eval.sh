#!/bin/bash
# usage: seed_eval.sh <outdir (/tmp/wt/out/Cxx)> <worktree> <prop> — confirm a seeded change and run the checks against it
# 1. changed worktree builds + baseline passes  2. demo FAILs on changed, PASSes on /repo  3. apply to /repo, run check(s), undo
out=$1; wt=$2; prop=$3
export GOFLAGS=-mod=mod GOPROXY=off GOSUMDB=off GOTOOLCHAIN=local; unset GOWORK
echo "== build"; (cd $wt && go build ./... ) && echo build-ok || { echo BUILD-FAILED; exit 1; }
echo "== baseline"; python3 /verif/tools/baseline.py $wt | head -5
echo "== demo on changed"; rm -rf /tmp/seed_demo && cp -r $out/demo /tmp/seed_demo && cd /tmp/seed_demo && sed -i "s#=> .*#=> $wt#" go.mod && cp $wt/go.sum . && (go run . 2>&1 | tail -3; echo "exit=${PIPESTATUS[0]}")
echo "== demo on /repo"; sed -i "s#=> .*#=> /repo#" go.mod && (go run . 2>&1 | tail -3; echo "exit=${PIPESTATUS[0]}")
cd /; rm -rf /tmp/seed_demo
cp /verif/known-findings.json /tmp/seed_verif/ 2>/dev/null; echo "== checks on patched /repo"
git -C /repo status --short | grep -v '^??' && { echo "/repo dirty"; exit 1; }
git -C /repo apply $out/patch.diff || { echo APPLY-FAILED; exit 1; }
props=${4:-$prop}
for p in $props; do
  DSTVERIF_DIR=/tmp/seed_verif /verif/bin/dstverif -prop $p > /tmp/seed_$p.log 2>&1; rc=$?
  echo "$p rc=$rc"; grep -A2 "VIOLATION\|UNDECIDED\|PANIC\|LOAD-FAILED" /tmp/seed_$p.log | head -${SEED_LINES:-9}
done
git -C /repo checkout -- . 
git -C /repo status --short | grep -v '^??'
