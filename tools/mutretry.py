#!/usr/bin/env python3
"""mutretry.py <out.jsonl> [ids...]: re-run the checks (current $DV) on the surviving mutants no check reported, against the
CURRENT /repo (the mutated text is re-located near its old offset). Prints one line per mutant."""
import json, os, subprocess, sys, shutil
rs = [json.loads(l) for l in open(sys.argv[1])]
ids = set(sys.argv[2:])
DV = os.environ.get("DV", "/verif/bin/dstverif")
env = dict(os.environ, GOFLAGS="-mod=mod", GOPROXY="off", GOSUMDB="off", GOTOOLCHAIN="local"); env.pop("GOWORK", None)
SH = os.environ.get("SHARD", "0/1"); shard, nsh = [int(x) for x in SH.split("/")]
root = f"/tmp/ms_retry_{shard}"
shutil.rmtree(root, ignore_errors=True); os.makedirs(root + "/verif")
subprocess.run(["rsync", "-a", "--exclude", ".git", "/repo/", root + "/repo/"], check=True)
shutil.copy("/verif/known-findings.json", root + "/verif/")
still = []
cand = [r for r in sorted(rs, key=lambda r: (r["file"], r["line"], r["id"])) if r["status"] == "survivor" and not (r.get("caught_by") or r.get("undecided_by"))]
for idx, r in enumerate(cand):
    if idx % nsh != shard:
        continue
    if ids and r["id"] not in ids:
        continue
    path = f"{root}/repo/{r['file']}"
    src = open(path, "rb").read()
    o = r["orig"].encode()
    # map the old offset into the current file through the common prefix/suffix blocks of a diff
    base = os.environ.get("MUT_BASE", "9257afd")
    oldsrc = subprocess.run(["git", "-C", "/repo", "show", f"{base}:{r['file']}"], capture_output=True).stdout
    want = r["off"]
    if oldsrc and oldsrc != src:
        import difflib
        sm = difflib.SequenceMatcher(None, oldsrc.decode(errors="replace").splitlines(True), src.decode(errors="replace").splitlines(True), autojunk=False)
        oldlines = oldsrc.decode(errors="replace").splitlines(True)
        newlines = src.decode(errors="replace").splitlines(True)
        # line index of the old offset
        acc, li = 0, 0
        for li, ln in enumerate(oldlines):
            if acc + len(ln.encode()) > r["off"]:
                break
            acc += len(ln.encode())
        col = r["off"] - acc
        for tag, i1, i2, j1, j2 in sm.get_opcodes():
            if tag == "equal" and i1 <= li < i2:
                nl = j1 + (li - i1)
                want = sum(len(x.encode()) for x in newlines[:nl]) + col
    best = want if src[want:want + len(o)] == o else None
    if best is None:
        print(r["id"], "NOT-LOCATED", r["file"], r["line"]); continue
    open(path, "wb").write(src[:best] + r["repl"].encode() + src[best + len(o):])
    b = subprocess.run(["go", "build", "./..."], cwd=root + "/repo", env=env, capture_output=True, text=True)
    if b.returncode != 0:
        print(r["id"], "NOCOMPILE"); open(path, "wb").write(src); continue
    c = subprocess.run([DV, "-prop", "all"], env=dict(env, DSTVERIF_REPO=root + "/repo", DSTVERIF_DIR=root + "/verif"), capture_output=True, text=True)
    rc = {l.split()[1][5:]: int(l.split()[2][3:]) for l in c.stdout.splitlines() if l.startswith("RC prop=")}
    hit = sorted(p for p, v in rc.items() if v)
    first = [l for l in c.stdout.splitlines() if l.startswith("  rule=")]
    print(r["id"], f'{r["file"]}:{r["line"]}', r["op"], "->", hit if hit else "STILL-UNREPORTED", (first[0][:160] if first else ""))
    if not hit: still.append(r)
    open(path, "wb").write(src)
shutil.rmtree(root, ignore_errors=True)
print(len(still), "still unreported")
json.dump(still, open(f"/tmp/mut_still_{shard}.json", "w"), indent=1)
