#!/bin/bash
# usage: benign_par.sh <patch>... — like benign_eval.sh, but the 19 checks of one patch run in parallel
export GOFLAGS=-mod=mod GOPROXY=off GOSUMDB=off GOTOOLCHAIN=local; unset GOWORK
props=$(python3 -c "import json;print(' '.join(c['property_id'] for c in json.load(open('/verif/MANIFEST.json'))['checks']))")
T=$(mktemp -d /tmp/ben.XXXXXX)
for patch in "$@"; do
  rm -rf $T && mkdir -p $T/verif && rsync -a --exclude .git /repo/ $T/repo/ && cp /verif/known-findings.json $T/verif/
  if ! patch -p1 -s -f -d $T/repo -i $patch >/dev/null 2>&1; then echo "$patch: DOES NOT APPLY"; continue; fi
  (cd $T/repo && go build ./... 2>&1 | head -3)
  for p in $props; do mkdir -p $T/v_$p; cp /verif/known-findings.json $T/v_$p/; done
  echo $props | tr ' ' '\n' | xargs -P 10 -I{} sh -c "DSTVERIF_REPO=$T/repo DSTVERIF_DIR=$T/v_{} ${DV:-/verif/bin/dstverif} -prop {} > $T/{}.log 2>&1; echo \$? > $T/{}.rc"
  alarms=""
  for p in $props; do rc=$(cat $T/$p.rc); if [ "$rc" != "0" ]; then alarms="$alarms $p(rc=$rc)"; fi; done
  echo "== $patch:${alarms:- silent}"
  for p in $props; do grep -h -A1 "^VIOLATION\|^UNDECIDED\|PANIC\|LOAD-FAILED" $T/$p.log 2>/dev/null | grep "rule=\|UNDECIDED\|PANIC\|LOAD" | cut -c1-230 | sort -u | head -4; done | sort -u | head -12
done
rm -rf $T
