#!/bin/bash
# usage: benign_eval.sh <patch>... — apply each behaviour-preserving patch to a scratch copy of /repo and run every check; print any alarm
export GOFLAGS=-mod=mod GOPROXY=off GOSUMDB=off GOTOOLCHAIN=local; unset GOWORK
props=$(python3 -c "import json;print(' '.join(c['property_id'] for c in json.load(open('/verif/MANIFEST.json'))['checks']))")
T=$(mktemp -d /tmp/ben.XXXXXX)
for patch in "$@"; do
  rm -rf $T && mkdir -p $T/verif && rsync -a --exclude .git /repo/ $T/repo/ && cp /verif/known-findings.json $T/verif/
  if ! patch -p1 -s -f -d $T/repo -i $patch >/dev/null 2>&1; then echo "$patch: DOES NOT APPLY"; continue; fi
  (cd $T/repo && go build ./... 2>&1 | head -3)
  alarms=""
  for p in $props; do
    DSTVERIF_REPO=$T/repo DSTVERIF_DIR=$T/verif /verif/bin/dstverif -prop $p > $T/$p.log 2>&1; rc=$?
    if [ $rc -ne 0 ]; then alarms="$alarms $p(rc=$rc)"; fi
  done
  echo "== $patch:${alarms:- silent}"
  for p in $props; do grep -h -A1 "^VIOLATION\|^UNDECIDED\|PANIC\|LOAD-FAILED" $T/$p.log 2>/dev/null | grep "rule=\|UNDECIDED\|PANIC\|LOAD" | cut -c1-230 | sort -u | head -4; done | sort -u | head -12
done
rm -rf $T
