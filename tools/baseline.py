#!/usr/bin/env python3
"""Run the repository's baseline test command (guard off) and compare with BASELINE.json."""
import json, subprocess, sys, os
repo = sys.argv[1] if len(sys.argv) > 1 else "/repo"
env = dict(os.environ, GOFLAGS="", GOPROXY="off", GOSUMDB="off", GOTOOLCHAIN="local")
env.pop("GOWORK", None)
p = subprocess.run(["go", "test", "-mod=mod", "-json", "-vet=off", "-count=1", "-timeout", "25m", "./..."], cwd=repo, env=env, capture_output=True, text=True)
passed, failed = set(), set()
for line in p.stdout.splitlines():
    try:
        ev = json.loads(line)
    except Exception:
        continue
    if ev.get("Test") and ev.get("Action") in ("pass", "fail"):
        name = ev["Package"] + "::" + ev["Test"]
        (passed if ev["Action"] == "pass" else failed).add(name)
base = set(json.load(open("/root/.vp/BASELINE.json"))["stable_pass"])
missing = sorted(base - passed)
print(f"baseline {len(base)} passed-now {len(passed)} failed-now {len(failed)} baseline-missing {len(missing)}")
for m in missing[:20]:
    print("  MISSING", m)
newfail = sorted(failed & base)
for m in newfail[:20]:
    print("  FAIL", m)
sys.exit(1 if missing else 0)
