#!/usr/bin/env python3
"""mutreport.py <out.jsonl>: summary of a mutation sweep and the list of surviving mutants no check reported."""
import json, sys, collections
rs = [json.loads(l) for l in open(sys.argv[1])]
c = collections.Counter(r["status"] for r in rs)
surv = [r for r in rs if r["status"] == "survivor"]
caught = [r for r in surv if r.get("caught_by") or r.get("undecided_by")]
print(f"mutants {len(rs)}: {dict(c)}; survivors {len(surv)}, reported by a check {len(caught)} ({100*len(caught)//max(1,len(surv))}%)")
if len(sys.argv) > 2:
    for r in sorted(surv, key=lambda r: (r["file"], r["line"])):
        if not (r.get("caught_by") or r.get("undecided_by")):
            print(f'{r["id"]} {r["file"]}:{r["line"]} {r["func"]} {r["op"]}  {r["orig"][:60]!r} -> {r["repl"][:60]!r}')
