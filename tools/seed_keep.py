#!/usr/bin/env python3
"""seed_keep.py <name> <outdir> <prop> <caught-by text> : archive a confirmed seeded change under /verif/seeded/<name>/"""
import sys, os, json, shutil
name, out, prop, caught = sys.argv[1:5]
dst = f"/verif/seeded/{name}"
os.makedirs(dst, exist_ok=True)
shutil.copy(f"{out}/patch.diff", f"{dst}/patch.diff")
if os.path.isdir(f"{dst}/demo"): shutil.rmtree(f"{dst}/demo")
shutil.copytree(f"{out}/demo", f"{dst}/demo")
try:
    meta = json.load(open(f"{out}/meta.json"))
except Exception:
    meta = {}
meta["property"] = prop
meta["confirmed_by_me"] = [
  "go build ./... in the changed worktree: ok",
  "python3 /verif/tools/baseline.py <worktree>: baseline-missing 0 (109/109)",
  "demo: exit 1 FAIL on the changed worktree, exit 0 PASS on /repo (unchanged)",
  "git -C /repo apply patch.diff; /verif/bin/dstverif -prop " + prop + "; git -C /repo checkout -- .",
]
meta["detected_by"] = caught
# demo go.mod points at /repo by default
gm = f"{dst}/demo/go.mod"
s = open(gm).read()
import re
s = re.sub(r"=> .*", "=> /repo", s)
open(gm, "w").write(s)
json.dump(meta, open(f"{dst}/meta.json", "w"), indent=1)
print("kept", dst)
