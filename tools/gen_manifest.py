#!/usr/bin/env python3
"""Generate /verif/MANIFEST.json from the table below (single source of truth for claims)."""
import json, subprocess

CLAIMS = {
 "C01": ("sibling-schema agreement over typed AST (fragger/decorate/restore), entry-point reachability and flag/FileSet dataflow, per-file scoping rules of the fragment pass (state allocated per file, also when written through local closures, avoided line ranges span one entity and are counted in line breaks of the text, not in bytes of scanner-normalised text, attachment searches stop at file boundaries, search loops separate found from not found), kind-world path conditions on the hanging-indent rule of link() (clauses are searched at the indent of their body), line-state machine of the restorer incl. content-end tracking (a line-break decoration never starts the new line where the restored content ends), the comment-field rule of the parser (no Comment field behind a multi-line raw string), no position inserted between a comment and the token after it",
         "Exhaustive static comparison of the three converters for all 54 node types plus entry-point rules: necessary conditions of byte-exact round trip, decided for all inputs; byte equality itself goes through go/printer and is not decided. Two known findings (column-1 //line directives are printed indented; a multi-line comment glued to the package clause is reformatted).", "4 C01"),
 "C02": ("locality analysis of every render operand + restorer field-write inventory + decorate/Clone carriage rules + clause-kind symmetry of the attachment conditions",
         "Decides that whatever is attached to a node travels with it (rendering reads only the node's own storage; Clone and decorate carry it); which node a comment is attached to is decided by positional heuristics in link() and is NOT decided.", "4 C02"),
 "C03": ("field-completeness and sibling agreement over go/types struct facts + typed AST; line-discovery rules of the fragment pass: text extents never taken from len(text) or ast End() of comments/literals (the scanner strips carriage returns), emptiness of a line never decided by a fixed byte distance; line-state machine of the restorer with content-end tracking; comment-group rule (comments without an empty line between them share a group)",
         "Decides that no token/child/value field of any go/ast node type is dropped in either direction and that no converter assertion can fail; does not decide text equality after go/printer. Two known findings (empty lines other than a single \\n byte — CRLF files, blanks — are not recognised; the working repair contradicts an existing test; a multi-line comment glued to the package clause is reformatted).", "4 C03"),
 "C04": ("render-site analysis of the generated restorer against go/types Decs structs, fragger order and listing/accessor; path-condition rule on the decorator's attachment searches (a fragment is collected only while unattached)",
         "Each decoration point rendered exactly once, unconditionally, after its namesake; no attachment search stores a comment or line break that an earlier search stored (once-only on the decorate side); listing/accessor clauses decided; placement is relative to synthetic positions, not through go/printer.", "4 C04"),
 "C05": ("abstract interpretation of the restorer's line-break state machine: applySpace over its complete 24-class input partition, applyDecorations against a reference machine by product fixpoint over all decoration lists (5 decoration classes x 16 environments), plus the symbolic effect of every line-break block over the entry cursor (recorded line start, exit cursor)",
         "Decides the restorer's half of the non-additive spacing rule (number of line breaks handed to go/printer per SpaceType and fresh-line state); the visible max(After,Before) outcome is produced by go/printer and is not decided.", "4 C05"),
 "C06": ("per-field completeness + alias-freedom analysis of Clone against restore's reads and go/types struct facts",
         "Decides Clone completeness/alias-freedom and duplicate rejection structurally for every node type.", "4 C06"),
 "C07": ("structural rules on updateImports/restoreIdent: discovery scan, deterministic ordering (map-range classification, comparator totality), conflict-set/chosen-name agreement, alias flow, single writer/reader of the name table, selector layout; roles of blank / dot / cgo imports on path conditions (R-ROLE), removal rules for declarations (marked only when empty, kept exactly when unmarked, a declaration that receives a new spec is not marked), parenthesis flags paired and cleared only for one spec without comments, vendor-stripped local-path comparison",
         "Necessary conditions of correct import management decided for all configurations; exactness of the import set, block layout preservation and byte output are not decided. One known finding (a path imported by two specs of one file).", "4 C07"),
 "C08": ("CFG rule on updateImports (mutation-free path, no store before an error return) + change-guard rule on every re-sort/re-spacing/re-parenthesising (path conditions) + resolver-domain rule + constant propagation through mergeDecorations against the restorer's spacing state machine + slot-order rule on decorateSelectorExpr (reaching definitions) + selector layout agreement + alias-kept rule (an alias is dropped only when none was requested)",
         "Necessary conditions of transparency decided for all inputs; byte equality and resolver accuracy are not decided. One known finding (a path imported by two specs of one file is rewritten).", "4 C08"),
 "C09": ("role-filter exhaustiveness (avoid table vs static field types in both converters), carriage rule (resolver answer and selected name stored on every returning path), path-condition specifications (propositional equivalence of return conditions over reaching definitions) of resolvePath, gotypes/goast ResolveIdent and goast's import table (callback or loop form, with a pruning rule: every import spec reaches the table), vendor anchoring, file-argument provenance (a nil file is an error, not a dereference; a package's file is chosen by containment), gates of the syntax-only resolver (default name resolver only when none was given, aliases read under their nil test), error discipline",
         "Decides the structural part of 'paths exactly on remote references' (which positions may ever be resolved, vendor stripping on element boundaries, errors surfacing); the classification of an identifier is a runtime fact about go/types objects and is not decided. The clause-presence rule is a frozen-fragment rule and fires on rewrites of the two small resolvers.", "4 C09"),
 "C10": ("composition of carriage rules over the typed AST: which identifier positions may be resolved (role filter), path-condition specification of resolvePath and the two decorator resolvers, dataflow rule that the resolver's answer and the selected name are stored on every returning path (reaching definitions + path conditions), per-field Clone completeness, and on the restore side the discovery scan, every-missing-import-added, unique-name, alias-flow, single-writer/reader and selector-construction rules",
         "Decides only structural necessary conditions: a reference is recorded, carried and re-bound as (package path, object name), independent of the import names of the file it came from. That the moved code type-checks and denotes the same objects needs a type checker over output programs and is not decided. One known finding (a path imported by two specs of one file).", "4 C10"),
 "C11": ("allocation/registration ordering analysis of both converters (event order, non-nil keys, memo lookup)",
         "Decides the node-map laws for all inputs by induction over the converter cases.", "4 C11"),
 "C12": ("cursor/position-store/line-table rules over the typed AST of the restorer (hand-written and generated; offsets as sums over reaching definitions, line-break blocks by symbolic effect), statement-order rule on RestoreFile, escape analysis of the per-file buffers (a truncated buffer must not have been handed out), value rule on File.FileStart/FileEnd (base and base+size of the registered file, resolved through helper parameters), file size covers comments and line starts, line starts inside texts recorded for exactly the newline characters, declaration-order rule against go/ast structs",
         "Decides cursor monotonicity, that positions are cursor-or-NoPos, base-relative strictly growing line offsets, append-only comments, file registration covering all positions; rank equality with a re-parse is not decided. Three known defects, listed as four findings (Extras post-pass at its two sites, TypeSpec alias order, RangeStmt.Range never stored).", "4 C12"),
 "C13": ("case-by-case comparison of dst.Walk with go/ast.Walk (GOROOT source) and the dst struct definitions",
         "Decides the whole statement by structural induction over Walk's cases.", "4 C13"),
 "C14": ("child-table agreement apply/Walk/struct + equality of canonical forms of the fork and astutil v0.1.12 (meaning-preserving rewrites applied to both sides: helper inlining under an argument discipline, guard/nesting, negation, if-initialiser hoisting, named results, pure locals, slice bounds, alpha-renaming)",
         "Same code as upstream modulo the node table, which is checked semantically, and modulo the canonical rewrites; a behaviour-preserving rewrite outside them (e.g. another defer/recover structure) is still reported (stated limitation).", "4 C14"),
 "C15": ("path-condition rules on ParseFile (nil file never decorated, parse error always reported), nil-result and nil-file rules, resolver file-argument provenance, optional-child guards taken from go/ast.Walk, assertion and coverage rules, map-allocation rule, index proofs (loop-bounded, constant-bounded) with a small inventory, classified inventory of explicit panic sites",
         "Decides the type- and nil-related panic sources for all inputs; the positional 'no decoration found' panics in link() are not decided (new unclassified panic sites are reported as undecided).", "4 C15"),
 "C16": ("lockset analysis over mutex-guarded fields (with caller-holds inference), global-write and goroutine/channel scan, map-iteration order classification with propositional comparator totality (all pairs of returns; comparator functions and multi-statement literals; parallel-slice reads rejected), cache-completeness rule, store classification by declaring package; every package-name resolver read-only (no store through the receiver), handed-out per-file buffers never truncated and reused, shared Restorer/Decorator fields written only as documented (Fset default under a nil test)",
         "Decides race-freedom of dst's own shared state (resolver cache, package-level tables) and absence of map-order dependence in the in-scope packages; the standard library's internals are trusted.", "4 C16"),
 "C17": ("error-discipline rule over all error-returning call sites + store classification + CFG reachability in updateImports (no store before an error return)",
         "Decides that resolver/parse errors surface and that no tree is modified on a failing path; retry equality follows only together with C16.", "4 C17"),
 "C18": ("ordering analysis of the four object/scope converters (memo lookup, registration before recursion, field and type-switch-arm completeness) + canonical-form equality of resolve.go/scope.go with GOROOT go/ast modulo position erasure (same canonical rewrites as C14) + file-scoping rule on the deferred Extras pass of RestoreFile and on decorateObject (a declaring node of another file is not converted with this file's tables: known finding)",
         "Decides the structural conditions under which the memoised conversion is a graph isomorphism and that the package builder is upstream's code without positions; concrete graphs are not evaluated. Two known defects, each listed as two findings (Extras: the deferred Decl/Data nodes of other files are restored into this file; decorateObject: declaring nodes of other files are converted with this file's tables).", "4 C18"),
 "C19": ("abstract interpretation of the five list methods over a two-atom sequence domain with emptiness facts from branch conditions and capacity-clipped slices, plus an array-segment domain with symbolic bounds for in-place updates (copy / re-slice of the receiver's array)",
         "Decides list semantics and non-aliasing for every call sequence (methods are functions of old contents and argument).", "4 C19"),
 "C20": ("who-may-call rule for file-system mutators + ordering/dataflow rule on (*Package).save",
         "Decides 'writes exactly its files, stops at first error'; byte identity of unedited files inherits C08's limits.", "4 C20"),
}

NOT_APPLICABLE = {
}
PENDING = []

props = [json.loads(l)["id"] for l in open("/verif/properties.jsonl")]
checks = []
for pid in props:
    if pid not in CLAIMS:
        continue
    tech, text, ref = CLAIMS[pid]
    checks.append({
        "property_id": pid,
        "quick_cmd": f"/verif/bin/dstverif -prop {pid} -tier quick",
        "thorough_cmd": f"/verif/bin/dstverif -prop {pid} -tier thorough",
        "evidence_file": f"/verif/evidence/{pid}.json",
        "replay_cmd_template": f"/verif/bin/dstverif -prop {pid} -replay {{path}}",
        "engine": "dstverif",
        "level_claimed": {"category": "other", "text": text, "design_ref": "DESIGN.md section " + ref},
        "level_note": "Static analysis of /repo's current source (go/packages + go/types of go1.23.5, x/tools v0.29.0); trusts the type checker, go/printer/go/parser semantics and the small frozen exception tables in /verif/checker/rules; decides structural necessary conditions, see evidence.coverage.not_covered for what is left out",
        "technique": "static analysis: " + tech,
    })
na = [{"property_id": k, "reason": v} for k, v in NOT_APPLICABLE.items()]
for p in PENDING:
    if p not in CLAIMS:
        na.append({"property_id": p, "reason": "check not built yet in this snapshot (planned in DESIGN.md section 4); not claimed until it runs"})
m = {
 "version": 1,
 "setup_cmd": "cd /verif/checker && GOFLAGS=-mod=mod GOPROXY=off GOSUMDB=off GOTOOLCHAIN=local GOWORK=off go build -o /verif/bin/dstverif ./cmd/dstverif",
 "hooks": {
  "guard": "verif",
  "enable": "none needed: static analysis reads the unmodified source of /repo (no hooks, no instrumentation)",
  "baseline_off_cmd": "cd /repo && go test -mod=mod -vet=off -count=1 -timeout 25m ./...",
  "source_commits": [],
  "add_only": True,
 },
 "engines": [{"name": "dstverif", "path": "/verif/checker", "serves_properties": sorted(CLAIMS), "kind_free_text": "repository-specific static analyser (go/packages, go/types, go/ssa, go/cfg); one binary, one rule set per property"}],
 "checks": checks,
 "not_applicable": sorted(na, key=lambda x: x["property_id"]),
 "notes": "Every check re-loads /repo's working tree through go list on each run; nothing from /repo is executed. Exit 0 held / 1 violation (VIOLATION line) / 2 undecided or load failure (no VIOLATION line). Known findings: /verif/known-findings.json.",
}
json.dump(m, open("/verif/MANIFEST.json", "w"), indent=1)
print("claimed", len(checks), "not_applicable", len(na))
