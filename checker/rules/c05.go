package rules

import (
	"fmt"
	"go/ast"
	"go/constant"
	"go/token"
	"go/types"
	"strings"

	"dstverif/load"
	"dstverif/schema"
)

// C05: constant propagation through applySpace over the finite input partition
// SpaceType × at-fresh-line × (Bad node, After).

type spaceIn struct {
	space  string // constant name
	fresh  bool
	bad    bool
	after  bool
	spaceV int64
}

type spaceEval struct {
	e       *Env
	c       *schema.Ctx
	info    *types.Info
	in      spaceIn
	ints    map[types.Object]int64
	nodeObj types.Object
	posObj  types.Object
	spObj   types.Object
	recv    types.Object
	breaks  int64
	body    []ast.Stmt // loop body seen
	undec   string
}

func (s *spaceEval) fail(f string, a ...interface{}) {
	if s.undec == "" {
		s.undec = fmt.Sprintf(f, a...)
	}
}

// evalInt evaluates an integer expression over constants and tracked variables.
func (s *spaceEval) evalInt(x ast.Expr) (int64, bool) {
	if tv, ok := s.info.Types[x]; ok && tv.Value != nil && tv.Value.Kind() == constant.Int {
		v, ok := constant.Int64Val(tv.Value)
		return v, ok
	}
	if id, ok := x.(*ast.Ident); ok {
		v, ok := s.ints[s.info.Uses[id]]
		return v, ok
	}
	return 0, false
}

// evalBool evaluates the conditions that occur in applySpace.
func (s *spaceEval) evalBool(x ast.Expr) (bool, bool) {
	switch b := x.(type) {
	case *ast.ParenExpr:
		return s.evalBool(b.X)
	case *ast.CallExpr:
		// a predicate over the node, declared in the same package: evaluated through its body
		if len(b.Args) == 1 {
			if id, ok := b.Args[0].(*ast.Ident); ok && s.info.Uses[id] == s.nodeObj {
				if fn := calleeFunc(s.info, b); fn != nil {
					for _, fd := range load.AllFuncDecls(s.e.Prog.Pkg(load.PkgDecorator)) {
						if s.info.Defs[fd.Name] == types.Object(fn) && fd.Body != nil {
							return s.evalNodePredicate(fd)
						}
					}
				}
			}
		}
		return false, false
	case *ast.Ident:
		if b.Name == "true" {
			return true, true
		}
		if b.Name == "false" {
			return false, true
		}
	case *ast.BinaryExpr:
		switch b.Op {
		case token.EQL, token.NEQ, token.LSS, token.GTR, token.LEQ, token.GEQ:
			// r.cursor == r.cursorAtNewLine
			l, r := s.c.ExprStr(b.X), s.c.ExprStr(b.Y)
			if (l == "r.cursor" && r == "r.cursorAtNewLine") || (r == "r.cursor" && l == "r.cursorAtNewLine") {
				if b.Op == token.EQL {
					return s.in.fresh, true
				}
				if b.Op == token.NEQ {
					return !s.in.fresh, true
				}
			}
			// position == "After"
			if id, ok := b.X.(*ast.Ident); ok && s.info.Uses[id] == s.posObj {
				if lit, ok := schema.StringLit(b.Y); ok && (lit == "After" || lit == "Before") {
					v := (lit == "After") == s.in.after
					if b.Op == token.NEQ {
						v = !v
					}
					return v, b.Op == token.EQL || b.Op == token.NEQ
				}
			}
			a, ok1 := s.evalInt(b.X)
			c, ok2 := s.evalInt(b.Y)
			if ok1 && ok2 {
				switch b.Op {
				case token.EQL:
					return a == c, true
				case token.NEQ:
					return a != c, true
				case token.LSS:
					return a < c, true
				case token.GTR:
					return a > c, true
				case token.LEQ:
					return a <= c, true
				case token.GEQ:
					return a >= c, true
				}
			}
		case token.LAND, token.LOR:
			a, ok1 := s.evalBool(b.X)
			c, ok2 := s.evalBool(b.Y)
			if ok1 && ok2 {
				if b.Op == token.LAND {
					return a && c, true
				}
				return a || c, true
			}
		}
	case *ast.UnaryExpr:
		if b.Op == token.NOT {
			v, ok := s.evalBool(b.X)
			return !v, ok
		}
	}
	return false, false
}

// evalNodePredicate evaluates `func p(node dst.Node) bool` whose body is a type switch (or type
// assertions) over Bad* types returning constants.
func (s *spaceEval) evalNodePredicate(fd *ast.FuncDecl) (bool, bool) {
	for _, st := range fd.Body.List {
		switch x := st.(type) {
		case *ast.TypeSwitchStmt:
			for _, cl := range x.Body.List {
				cc := cl.(*ast.CaseClause)
				if cc.List == nil {
					continue
				}
				allBad := true
				for _, t := range cc.List {
					_, tn := schema.NamedTypeName(s.info.TypeOf(t))
					if !strings.HasPrefix(tn, "Bad") {
						allBad = false
					}
				}
				if !allBad {
					return false, false
				}
				if s.in.bad {
					if len(cc.Body) == 1 {
						if rs, ok := cc.Body[0].(*ast.ReturnStmt); ok && len(rs.Results) == 1 {
							return s.evalBool(rs.Results[0])
						}
					}
					return false, false
				}
			}
		case *ast.ReturnStmt:
			if len(x.Results) == 1 {
				return s.evalBool(x.Results[0])
			}
			return false, false
		default:
			return false, false
		}
	}
	return false, false
}

func (s *spaceEval) stmts(list []ast.Stmt) {
	for _, st := range list {
		if s.undec != "" {
			return
		}
		s.stmt(st)
	}
}

func (s *spaceEval) stmt(st ast.Stmt) {
	switch x := st.(type) {
	case *ast.DeclStmt:
		gd, ok := x.Decl.(*ast.GenDecl)
		if !ok || gd.Tok != token.VAR {
			s.fail("declaration")
			return
		}
		for _, sp := range gd.Specs {
			vs := sp.(*ast.ValueSpec)
			for i, nm := range vs.Names {
				var v int64
				if i < len(vs.Values) {
					var ok bool
					v, ok = s.evalInt(vs.Values[i])
					if !ok {
						s.fail("initialiser of %s", nm.Name)
						return
					}
				}
				s.ints[s.info.Defs[nm]] = v
			}
		}
	case *ast.AssignStmt:
		if len(x.Lhs) != 1 || len(x.Rhs) != 1 {
			s.fail("multi-assignment")
			return
		}
		id, ok := x.Lhs[0].(*ast.Ident)
		if !ok {
			s.fail("assignment to %s outside the loop", s.c.ExprStr(x.Lhs[0]))
			return
		}
		obj := s.info.Uses[id]
		if obj == nil {
			obj = s.info.Defs[id]
		}
		v, ok := s.evalInt(x.Rhs[0])
		if !ok {
			s.fail("value of %s", s.c.ExprStr(x.Rhs[0]))
			return
		}
		switch x.Tok {
		case token.ASSIGN, token.DEFINE:
			s.ints[obj] = v
		case token.ADD_ASSIGN:
			s.ints[obj] += v
		case token.SUB_ASSIGN:
			s.ints[obj] -= v
		default:
			s.fail("operator %s", x.Tok)
		}
	case *ast.IncDecStmt:
		id, ok := x.X.(*ast.Ident)
		if !ok {
			s.fail("inc/dec of %s outside the loop", s.c.ExprStr(x.X))
			return
		}
		if x.Tok == token.INC {
			s.ints[s.info.Uses[id]]++
		} else {
			s.ints[s.info.Uses[id]]--
		}
	case *ast.IfStmt:
		if x.Init != nil {
			s.stmt(x.Init)
		}
		v, ok := s.evalBool(x.Cond)
		if !ok {
			s.fail("condition %s is outside the analysable subset", s.c.ExprStr(x.Cond))
			return
		}
		if v {
			s.stmts(x.Body.List)
		} else if x.Else != nil {
			switch el := x.Else.(type) {
			case *ast.BlockStmt:
				s.stmts(el.List)
			case *ast.IfStmt:
				s.stmt(el)
			}
		}
	case *ast.TypeSwitchStmt:
		// switch node.(type) { case *dst.BadDecl, ...: }
		for _, cl := range x.Body.List {
			cc := cl.(*ast.CaseClause)
			match := false
			if cc.List == nil {
				continue
			}
			for _, t := range cc.List {
				_, tn := schema.NamedTypeName(s.info.TypeOf(t))
				isBad := strings.HasPrefix(tn, "Bad")
				if isBad == s.in.bad && (isBad || false) {
					match = true
				}
				if !isBad {
					// a non-Bad type in the case list: partition too coarse
					s.fail("type switch arm mentions %s: input partition (Bad vs other) is too coarse", tn)
					return
				}
			}
			if match {
				s.stmts(cc.Body)
				return
			}
		}
		for _, cl := range x.Body.List {
			if cc := cl.(*ast.CaseClause); cc.List == nil && !s.in.bad {
				s.stmts(cc.Body)
			}
		}
	case *ast.SwitchStmt:
		if x.Init != nil || x.Tag == nil {
			s.fail("switch shape")
			return
		}
		tag, ok := s.evalInt(x.Tag)
		if !ok {
			s.fail("switch tag %s", s.c.ExprStr(x.Tag))
			return
		}
		var def *ast.CaseClause
		for _, cl := range x.Body.List {
			cc := cl.(*ast.CaseClause)
			if cc.List == nil {
				def = cc
				continue
			}
			for _, v := range cc.List {
				cv, ok := s.evalInt(v)
				if !ok {
					s.fail("case value %s", s.c.ExprStr(v))
					return
				}
				if cv == tag {
					s.stmts(cc.Body)
					return
				}
			}
		}
		if def != nil {
			s.stmts(def.Body)
		}
	case *ast.ForStmt:
		// a counting loop over tracked integers: executed abstractly, iteration by iteration; the
		// body is the line-break emission and is checked separately
		if x.Init != nil {
			s.stmt(x.Init)
		}
		if x.Cond == nil {
			s.fail("loop without condition")
			return
		}
		// the body must not touch tracked integers or leave early
		bad := false
		ast.Inspect(x.Body, func(n ast.Node) bool {
			switch b := n.(type) {
			case *ast.AssignStmt:
				for _, l := range b.Lhs {
					if id, ok := l.(*ast.Ident); ok {
						if o := s.info.Uses[id]; o != nil {
							if _, tracked := s.ints[o]; tracked {
								bad = true
							}
						}
					}
				}
			case *ast.IncDecStmt:
				if id, ok := b.X.(*ast.Ident); ok {
					if o := s.info.Uses[id]; o != nil {
						if _, tracked := s.ints[o]; tracked {
							bad = true
						}
					}
				}
			case *ast.BranchStmt, *ast.ReturnStmt:
				bad = true
			}
			return true
		})
		if bad {
			s.fail("loop body changes a loop counter or leaves early")
			return
		}
		for iter := 0; ; iter++ {
			if iter > 16 {
				s.fail("loop does not terminate within 16 iterations")
				return
			}
			v, ok := s.evalBool(x.Cond)
			if !ok {
				s.fail("loop condition %s is outside the analysable subset", s.c.ExprStr(x.Cond))
				return
			}
			if !v {
				break
			}
			s.breaks++
			if x.Post != nil {
				s.stmt(x.Post)
				if s.undec != "" {
					return
				}
			} else {
				s.fail("loop without post statement")
				return
			}
		}
		s.body = x.Body.List
	case *ast.ReturnStmt:
		s.fail("early return")
	case *ast.EmptyStmt:
	default:
		s.fail("%T outside the analysable subset", st)
	}
}

func (e *Env) C05Space() {
	e.lineStateApplySpace()
	// the loop body of applySpace, by its effect over the entry cursor c0: one line start, recorded
	// after stepping over one byte (the separator, e.g. a comma), cursor left directly behind it
	pkg := e.Prog.Pkg(load.PkgDecorator)
	info := pkg.TypesInfo
	fd := load.FuncDecl(pkg, "FileRestorer", "applySpace")
	if fd == nil || fd.Body == nil {
		return
	}
	ca, la := e.stateAliases(info, fd)
	for _, blk := range e.lineBreakBlocks(info, fd) {
		eff := e.lineBreakEffectA(info, blk, ca, la)
		good := eff.why == "" && len(eff.starts) == 1 && eff.starts[0] >= 1 && eff.exit == eff.starts[0]+1 && (!eff.markerSet || eff.markerVal == eff.exit)
		e.Run.Check("R-SPACE", "applySpace: each line break records exactly one line start and advances the cursor", e.Prog.Pos(fd.Pos()), good,
			fmt.Sprintf("effect of one line break over the entry cursor c0: line starts at c0+%v, cursor on exit c0+%d %s — expected one line start at c0+k (k ≥ 1: the byte stepped over for a separator) and exit cursor c0+k+1", eff.starts, eff.exit, eff.why))
	}
}

// markerDiscipline: the line-state machine of applyDecorations (all decoration lists).
func (e *Env) markerDiscipline() {
	e.lineStateApplyDecorations()
}

func init() {
	register("C05", Meta{
		Explanation: "Abstract interpretation of the restorer's line-break state machine against a reference: applySpace over its complete finite input partition (SpaceType × cursor-at-fresh-line × Bad-node-After, 24 classes) — line breaks emitted = declared value of the constant (None 0, NewLine 1, EmptyLine 2), minus one on a fresh line, floored at zero; Bad nodes are followed by an empty line; fresh-line marker on exit right. applyDecorations for ALL decoration lists: product of the code's abstract state (marker = cursor, bool/int locals) with the reference state explored to a fixpoint over five decoration classes and 16 environments — per decoration the line breaks recorded and the comment sink, after every prefix the marker on exit. Each line-break block records one line start at or after the entry cursor and leaves the cursor behind it; every restore case applies Before first and After last. Decides the restorer's half of the non-additive rule (what is handed to go/printer); the visible max(After,Before) outcome is produced by go/printer collapsing line gaps and is not decided.",
		NotCovered:  []string{"go/printer's collapsing of line gaps (the visible max(After,Before) outcome)", "which newlines the decorator turns into Before/After (link() pass 2)"},
	}, func(e *Env) {
		e.C05Space()
		e.markerDiscipline()
		e.RCommentLines()
		e.lineBreaksAdvance(e.Sib.Ctx[load.PkgDecorator])
		e.RDecs(false)
		// restoreIdent renders spacing first/last too
		if ri := e.Sib.RestoreIdent; ri != nil {
			var render []schema.Event
			for _, ev := range ri.Events {
				if isRender(ev) {
					render = append(render, ev)
				}
			}
			ok := len(render) >= 2 && render[0].Kind == schema.KSpace && render[0].Name == "Before" && render[0].Src == "Decs.Before" && render[len(render)-1].Kind == schema.KSpace && render[len(render)-1].Name == "After" && render[len(render)-1].Src == "Decs.After"
			e.Run.Check("R-DECS", "restoreIdent: Before spacing first, After spacing last", e.casePos(ri), ok, "the expanded selector must apply the identifier's own spacing around everything it renders")
		}
	})
}
