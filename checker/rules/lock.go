package rules

import (
	"fmt"
	"go/ast"
	"go/parser"
	"go/token"
	"go/types"
	"sort"
	"strings"

	"golang.org/x/tools/go/packages"

	"dstverif/load"
)

// R-LOCK: for every struct with a sync.Mutex field, every field that is written outside a
// constructor is accessed only while the mutex is held (intraprocedural lockset over the
// statement order; Lock(); defer Unlock() holds to function exit; a function literal passed to a
// call made while the lock is held inherits the lockset).

type lockRegion struct{ from, to token.Pos }

func (e *Env) RLock() {
	nStructs := 0
	for _, pkg := range e.Prog.InScopePkgs() {
		scope := pkg.Types.Scope()
		for _, name := range scope.Names() {
			tn, ok := scope.Lookup(name).(*types.TypeName)
			if !ok {
				continue
			}
			st, ok := tn.Type().Underlying().(*types.Struct)
			if !ok {
				continue
			}
			var mu *types.Var
			for i := 0; i < st.NumFields(); i++ {
				if p, n := namedOf(st.Field(i).Type()); p == "sync" && (n == "Mutex" || n == "RWMutex") {
					mu = st.Field(i)
				}
			}
			if mu == nil {
				continue
			}
			nStructs++
			e.lockStruct(pkg, tn, st, mu)
		}
	}
	e.Run.Analysed("mutex-guarded structs", nStructs)
	e.Run.Floor("R-LOCK", "structs with a mutex", nStructs, 1)
}

func namedOf(t types.Type) (string, string) {
	t = types.Unalias(t)
	if p, ok := t.(*types.Pointer); ok {
		t = types.Unalias(p.Elem())
	}
	if n, ok := t.(*types.Named); ok && n.Obj().Pkg() != nil {
		return n.Obj().Pkg().Path(), n.Obj().Name()
	}
	return "", ""
}

type fieldAccess struct {
	field *types.Var
	write bool
	pos   token.Pos
	fn    *ast.FuncDecl
	held  bool
}

func (e *Env) lockStruct(pkg *packages.Package, tn *types.TypeName, st *types.Struct, mu *types.Var) {
	info := pkg.TypesInfo
	fields := map[*types.Var]bool{}
	for i := 0; i < st.NumFields(); i++ {
		if st.Field(i) != mu {
			fields[st.Field(i)] = true
		}
	}
	var accesses []fieldAccess
	type callSite struct {
		in   *ast.FuncDecl
		held bool
	}
	callSites := map[*types.Func][]callSite{}
	for _, fd := range load.AllFuncDecls(pkg) {
		if fd.Body == nil {
			continue
		}
		regions := lockRegions(info, fd.Body, mu)
		held := func(p token.Pos) bool {
			for _, r := range regions {
				if r.from <= p && p < r.to {
					return true
				}
			}
			return false
		}
		// function literals: inherit the lockset of the call they are passed to; otherwise none
		litHeld := map[*ast.FuncLit]bool{}
		var stack []ast.Node
		ast.Inspect(fd.Body, func(n ast.Node) bool {
			if n == nil {
				stack = stack[:len(stack)-1]
				return true
			}
			if fl, ok := n.(*ast.FuncLit); ok {
				h := false
				if len(stack) > 0 {
					if call, ok := stack[len(stack)-1].(*ast.CallExpr); ok && call.Fun != ast.Expr(fl) {
						// argument of a call: runs (at the latest) during that call if the callee does
						// not retain it — accepted for callees from the standard library's go/ast
						if fn := calleeFunc(info, call); fn != nil && fn.Pkg() != nil && (fn.Pkg().Path() == "go/ast" || isSortPkg(fn) || fn.Pkg().Path() == load.PkgDst) {
							h = held(call.Pos())
							// nested in another literal: inherit that literal's state
							for i := len(stack) - 1; i >= 0; i-- {
								if outer, ok := stack[i].(*ast.FuncLit); ok {
									h = litHeld[outer]
									break
								}
							}
						}
					}
				}
				litHeld[fl] = h
			}
			stack = append(stack, n)
			return true
		})
		// collect accesses
		var lits []*ast.FuncLit
		stack = stack[:0]
		ast.Inspect(fd.Body, func(n ast.Node) bool {
			if n == nil {
				if _, ok := stack[len(stack)-1].(*ast.FuncLit); ok {
					lits = lits[:len(lits)-1]
				}
				stack = stack[:len(stack)-1]
				return true
			}
			stack = append(stack, n)
			if fl, ok := n.(*ast.FuncLit); ok {
				lits = append(lits, fl)
			}
			if call, isCall := n.(*ast.CallExpr); isCall {
				h := held(call.Pos())
				if len(lits) > 0 {
					h = litHeld[lits[len(lits)-1]]
				}
				// calls of same-package functions: remembered with the lock state at the call
				if fn := calleeFunc(info, call); fn != nil && fn.Pkg() == pkg.Types {
					callSites[fn] = append(callSites[fn], callSite{fd, h})
				}
				// a method value handed to a library function that calls it during the call
				// (ast.Inspect(file, x.visit)): called with the lock state of this call
				if fn := calleeFunc(info, call); fn != nil && fn.Pkg() != nil && (fn.Pkg().Path() == "go/ast" || isSortPkg(fn) || fn.Pkg().Path() == load.PkgDst) {
					for _, a := range call.Args {
						if se, ok := a.(*ast.SelectorExpr); ok {
							if mf, ok := info.Uses[se.Sel].(*types.Func); ok && mf.Pkg() == pkg.Types {
								callSites[mf] = append(callSites[mf], callSite{fd, h})
							}
						}
					}
				}
			}
			se, ok := n.(*ast.SelectorExpr)
			if !ok {
				return true
			}
			v, ok := info.Uses[se.Sel].(*types.Var)
			if !ok || !fields[v] {
				return true
			}
			h := held(se.Pos())
			if len(lits) > 0 {
				h = litHeld[lits[len(lits)-1]]
			}
			accesses = append(accesses, fieldAccess{field: v, write: isWriteContext(stack), pos: se.Pos(), fn: fd, held: h})
			return true
		})
	}
	// an unexported function that never takes the mutex itself and is called only with the mutex
	// held (every call site in the package; at least one) runs under the caller's lock
	callerHolds := map[*ast.FuncDecl]bool{}
	for round := 0; round < 3; round++ {
		for _, fd := range load.AllFuncDecls(pkg) {
			if fd.Body == nil || callerHolds[fd] || ast.IsExported(fd.Name.Name) || len(lockRegions(info, fd.Body, mu)) > 0 {
				continue
			}
			fn, _ := info.Defs[fd.Name].(*types.Func)
			sites := callSites[fn]
			if fn == nil || len(sites) == 0 {
				continue
			}
			all := true
			for _, cs := range sites {
				if !cs.held && !callerHolds[cs.in] {
					all = false
				}
			}
			if all {
				callerHolds[fd] = true
			}
		}
	}
	for i := range accesses {
		if callerHolds[accesses[i].fn] {
			accesses[i].held = true
		}
	}
	// constructors: functions that build the struct with a composite literal and touch fields only there
	written := map[*types.Var]bool{}
	for _, a := range accesses {
		if a.write {
			written[a.field] = true
		}
	}
	var names []string
	for f := range written {
		names = append(names, f.Name())
	}
	sort.Strings(names)
	for _, a := range accesses {
		if !written[a.field] {
			continue
		}
		kind := "read"
		if a.write {
			kind = "write"
		}
		e.Run.Check("R-LOCK", fmt.Sprintf("%s.%s %s in %s under %s", tn.Name(), a.field.Name(), kind, load.FuncName(a.fn), mu.Name()), e.Prog.Pos(a.pos), a.held,
			fmt.Sprintf("field %s.%s is written after construction (%v are); this %s happens without %s held: concurrent callers sharing the value race on it", tn.Name(), a.field.Name(), names, kind, mu.Name()))
	}
	e.Run.Analysed("guarded field accesses", len(accesses))
	e.Run.Floor("R-LOCK", "accesses to fields of "+tn.Name(), len(accesses), 2)
}

func calleeFunc(info *types.Info, call *ast.CallExpr) *types.Func {
	switch f := call.Fun.(type) {
	case *ast.Ident:
		fn, _ := info.Uses[f].(*types.Func)
		return fn
	case *ast.SelectorExpr:
		fn, _ := info.Uses[f.Sel].(*types.Func)
		return fn
	}
	return nil
}

// isWriteContext: the selector at the top of the stack is (the root of) an assignment target,
// an inc/dec operand, an address-of operand, or the map operand of delete().
func isWriteContext(stack []ast.Node) bool {
	cur := stack[len(stack)-1]
	for i := len(stack) - 2; i >= 0; i-- {
		switch p := stack[i].(type) {
		case *ast.IndexExpr:
			if p.X == cur {
				cur = p
				continue
			}
			return false
		case *ast.SelectorExpr, *ast.ParenExpr, *ast.StarExpr:
			cur = p
			continue
		case *ast.AssignStmt:
			for _, l := range p.Lhs {
				if l == cur {
					return true
				}
			}
			return false
		case *ast.IncDecStmt:
			return p.X == cur
		case *ast.UnaryExpr:
			return p.Op == token.AND && p.X == cur
		case *ast.CallExpr:
			if id, ok := p.Fun.(*ast.Ident); ok && id.Name == "delete" && len(p.Args) > 0 && p.Args[0] == cur {
				return true
			}
			return false
		default:
			return false
		}
	}
	return false
}

// lockRegions: position ranges of body in which mu is held.
func lockRegions(info *types.Info, body *ast.BlockStmt, mu *types.Var) []lockRegion {
	var out []lockRegion
	isMuCall := func(s ast.Stmt, method string, deferred bool) bool {
		var call *ast.CallExpr
		switch x := s.(type) {
		case *ast.ExprStmt:
			if deferred {
				return false
			}
			call, _ = x.X.(*ast.CallExpr)
		case *ast.DeferStmt:
			if !deferred {
				return false
			}
			call = x.Call
		}
		if call == nil {
			return false
		}
		se, ok := call.Fun.(*ast.SelectorExpr)
		if !ok || se.Sel.Name != method {
			return false
		}
		inner, ok := se.X.(*ast.SelectorExpr)
		return ok && info.Uses[inner.Sel] == mu
	}
	var walk func(b *ast.BlockStmt)
	walk = func(b *ast.BlockStmt) {
		for i, s := range b.List {
			if isMuCall(s, "Lock", false) || isMuCall(s, "RLock", false) {
				end := b.End()
				// deferred unlock directly after: held to the end of the enclosing function body
				if i+1 < len(b.List) && (isMuCall(b.List[i+1], "Unlock", true) || isMuCall(b.List[i+1], "RUnlock", true)) {
					if b == body {
						end = body.End()
					}
				} else {
					// explicit unlock in the same block
					end = s.End()
					for _, t := range b.List[i+1:] {
						if isMuCall(t, "Unlock", false) || isMuCall(t, "RUnlock", false) {
							end = t.Pos()
							break
						}
						end = t.End()
					}
				}
				out = append(out, lockRegion{s.End(), end})
			}
			ast.Inspect(s, func(n ast.Node) bool {
				if _, ok := n.(*ast.FuncLit); ok {
					return false
				}
				if nb, ok := n.(*ast.BlockStmt); ok && nb != b {
					walk(nb)
					return false
				}
				return true
			})
		}
	}
	walk(body)
	return out
}

// ---------------------------------------------------------------------------------------------
// package-level state is never written; no goroutines / channels in the in-scope packages

func (e *Env) RGlobals() {
	n := 0
	for _, pkg := range e.Prog.InScopePkgs() {
		info := pkg.TypesInfo
		globals := map[*types.Var]bool{}
		for _, name := range pkg.Types.Scope().Names() {
			if v, ok := pkg.Types.Scope().Lookup(name).(*types.Var); ok {
				globals[v] = true
			}
		}
		if len(globals) == 0 {
			continue
		}
		for _, fd := range load.AllFuncDecls(pkg) {
			if fd.Body == nil {
				continue
			}
			var stack []ast.Node
			ast.Inspect(fd.Body, func(nd ast.Node) bool {
				if nd == nil {
					stack = stack[:len(stack)-1]
					return true
				}
				stack = append(stack, nd)
				id, ok := nd.(*ast.Ident)
				if !ok {
					return true
				}
				v, ok := info.Uses[id].(*types.Var)
				if !ok || !globals[v] {
					return true
				}
				n++
				bad, why := globalUseIsWrite(info, stack)
				e.Run.Check("R-GLOBAL", fmt.Sprintf("package variable %s.%s only read in %s", pkg.Types.Name(), v.Name(), load.FuncName(fd)), e.Prog.Pos(id.Pos()), !bad,
					"package-level state must stay read-only (shared by all decorators/restorers in all goroutines): "+why)
				return true
			})
		}
	}
	e.Run.Analysed("uses of package-level variables", n)
	e.Run.Floor("R-GLOBAL", "uses of package-level variables", n, 3)
}

func globalUseIsWrite(info *types.Info, stack []ast.Node) (bool, string) {
	if isWriteContext(stack) {
		return true, "assigned, incremented, deleted from or address taken"
	}
	// passed to a call (other than len/cap/panic/comparisons): the reference escapes
	cur := stack[len(stack)-1]
	for i := len(stack) - 2; i >= 0; i-- {
		switch p := stack[i].(type) {
		case *ast.ParenExpr:
			cur = p
			continue
		case *ast.IndexExpr:
			if p.X == cur {
				// indexing for reading yields an element copy (map/array of values)
				return false, ""
			}
			return false, ""
		case *ast.CallExpr:
			if p.Fun == cur {
				return false, ""
			}
			if id, ok := p.Fun.(*ast.Ident); ok {
				if _, isB := info.Uses[id].(*types.Builtin); isB && (id.Name == "len" || id.Name == "cap" || id.Name == "panic") {
					return false, ""
				}
			}
			if fn := calleeFunc(info, p); fn != nil && funcKey(fn) == "(io.Writer).Write" {
				return false, "" // io.Writer contract: Write must not modify the slice
			}
			if tv, ok := info.Types[cur.(ast.Expr)]; ok {
				switch tv.Type.Underlying().(type) {
				case *types.Map, *types.Slice, *types.Pointer:
					return true, "a reference to it is passed to " + types.ExprString(p.Fun)
				}
			}
			return false, ""
		default:
			return false, ""
		}
	}
	return false, ""
}

// concurrencyConstructs lists go statements, channel operations and select statements.
func concurrencyConstructs(fset *token.FileSet, root ast.Node) []token.Pos {
	var out []token.Pos
	ast.Inspect(root, func(n ast.Node) bool {
		switch x := n.(type) {
		case *ast.GoStmt, *ast.SendStmt, *ast.SelectStmt, *ast.ChanType:
			out = append(out, n.Pos())
		case *ast.UnaryExpr:
			if x.Op == token.ARROW {
				out = append(out, n.Pos())
			}
		}
		return true
	})
	return out
}

func (e *Env) RNoGoroutines() {
	// positive control: the detector must fire on a known sample
	ctl, err := parser.ParseFile(token.NewFileSet(), "ctl.go", "package p\nfunc f(c chan int) { go f(c); c <- 1; <-c; select {} }", 0)
	nCtl := 0
	if err == nil {
		nCtl = len(concurrencyConstructs(nil, ctl))
	}
	e.Run.Check("R-NOGO", "positive control: detector finds go/chan/select constructs", "", nCtl >= 5, fmt.Sprintf("%d constructs found in the control sample", nCtl))
	files := 0
	for _, pkg := range e.Prog.InScopePkgs() {
		for _, f := range pkg.Syntax {
			files++
			for _, p := range concurrencyConstructs(e.Prog.Fset, f) {
				e.Run.Violation("R-NOGO", "concurrency construct in "+e.Prog.File(p), e.Prog.Pos(p),
					"the in-scope packages start no goroutines and use no channels, so all sharing is through objects the caller shares; this construct invalidates that premise")
			}
		}
	}
	e.Run.OK("R-NOGO", "no go statement, channel operation or select in the in-scope packages", "", fmt.Sprintf("%d files scanned", files))
	e.Run.Analysed("files scanned for concurrency constructs", files)
}

// RReadOnlyResolvers: package-name resolvers may be shared between goroutines and are documented
// as read-only: ResolvePackage of every in-scope implementation of resolver.RestorerResolver never
// writes its receiver (map update, field or field-map store).
// Any store through the receiver is a violation, for the lookup tables (guess, simple) and for the
// resolvers that call go/packages and go/build alike: those used to set Dir, Mode and Tests of
// their embedded Config on every call (the same values each time, but packages.Load reads the
// struct while another goroutine's call writes it); a call works on a copy.
var readOnlyPkgs = map[string]bool{load.PkgGuess: true, load.PkgSimple: true, load.PkgGotypes: true, load.PkgGobuild: true, load.PkgGopkgs: true}

func writesThroughIndex(stack []ast.Node) bool {
	for i := len(stack) - 1; i >= 0; i-- {
		switch p := stack[i].(type) {
		case *ast.IndexExpr:
			return true
		case *ast.AssignStmt, *ast.IncDecStmt:
			_ = p
			return false
		case *ast.CallExpr:
			if id, ok := p.Fun.(*ast.Ident); ok && id.Name == "delete" {
				return true
			}
			return false
		}
	}
	return false
}

func (e *Env) RReadOnlyResolvers() {
	n := 0
	resPkg := e.Prog.Pkg(load.PkgResolver).Types
	iface, _ := resPkg.Scope().Lookup("RestorerResolver").Type().Underlying().(*types.Interface)
	for _, pkg := range e.Prog.InScopePkgs() {
		info := pkg.TypesInfo
		for _, fd := range load.AllFuncDecls(pkg) {
			if fd.Recv == nil || fd.Body == nil || len(fd.Recv.List[0].Names) != 1 || fd.Name.Name != "ResolvePackage" {
				continue
			}
			recv := info.Defs[fd.Recv.List[0].Names[0]]
			if iface != nil && !types.Implements(recv.Type(), iface) {
				continue
			}
			n++
			var stack []ast.Node
			bad := token.NoPos
			ast.Inspect(fd.Body, func(nd ast.Node) bool {
				if nd == nil {
					stack = stack[:len(stack)-1]
					return true
				}
				stack = append(stack, nd)
				if id, ok := nd.(*ast.Ident); ok && info.Uses[id] == recv && isWriteContext(stack) {
					if readOnlyPkgs[pkg.PkgPath] || writesThroughIndex(stack) {
						bad = id.Pos()
					}
				}
				return true
			})
			e.Run.Check("R-LOCK", fmt.Sprintf("%s.%s does not write its receiver", strings.TrimPrefix(pkg.PkgPath, load.ModPath+"/"), load.FuncName(fd)), e.Prog.Pos(fd.Pos()), bad == token.NoPos,
				"package-name resolvers are shared between goroutines (and kept across calls) as read-only values; a store to receiver state at "+e.Prog.Pos(bad)+" races and lets one call influence later ones")
		}
	}
	e.Run.Analysed("RestorerResolver implementations", n)
	e.Run.Floor("R-LOCK", "RestorerResolver implementations", n, 3)
}

// RSharedState (R-SHARED): a Restorer (and a Decorator) is shared by all the files that are
// restored (decorated) with it, possibly from several goroutines. What a restore may write
// through it is frozen here: the node maps (that is what they are for), the FileSet field when it
// is nil (a default), and the decorator's file-name table. Any other store into a field of the
// shared struct — a cache of resolved names, a counter, a "last file" — makes the result of one
// restore depend on the restores before it: names chosen for an earlier file are reused although
// the resolver's answer has changed, and concurrent restores race on it.
var sharedWritable = map[string]string{
	"Restorer.Map":        "the node maps: documented output of a restore",
	"Restorer.Fset":       "defaulted when nil, before anything is restored",
	"Decorator.Map":       "the node maps: documented output of decorating",
	"Decorator.Filenames": "file names by *dst.File: documented output of decorating",
	"Decorator.Fset":      "defaulted when nil",
}

func (e *Env) RSharedState() {
	pkg := e.Prog.Pkg(load.PkgDecorator)
	info := pkg.TypesInfo
	shared := map[*types.TypeName]bool{}
	for _, n := range []string{"Restorer", "Decorator"} {
		if tn, ok := pkg.Types.Scope().Lookup(n).(*types.TypeName); ok {
			shared[tn] = true
		}
	}
	var sharedField func(x ast.Expr) string
	sharedField = func(x ast.Expr) string {
		x = ast.Unparen(x)
		switch v := x.(type) {
		case *ast.IndexExpr:
			return sharedField(v.X)
		case *ast.StarExpr:
			return sharedField(v.X)
		case *ast.SliceExpr:
			return sharedField(v.X)
		case *ast.SelectorExpr:
			if sel := info.Selections[v]; sel != nil && sel.Kind() == types.FieldVal {
				t := sel.Recv()
				for _, idx := range sel.Index() {
					if p, ok := types.Unalias(t).(*types.Pointer); ok {
						t = p.Elem()
					}
					st, ok := t.Underlying().(*types.Struct)
					if !ok {
						break
					}
					f := st.Field(idx)
					if nt, ok := types.Unalias(t).(*types.Named); ok && shared[nt.Obj()] {
						return nt.Obj().Name() + "." + f.Name()
					}
					t = f.Type()
				}
			}
			return sharedField(v.X)
		}
		return ""
	}
	n := 0
	seen := map[string]bool{}
	for _, fd := range load.AllFuncDecls(pkg) {
		// methods only: a constructor fills in a struct nobody shares yet
		if fd.Body == nil || fd.Recv == nil {
			continue
		}
		check := func(l ast.Expr, at token.Pos) {
			f := sharedField(l)
			if f == "" {
				return
			}
			n++
			_, ok := sharedWritable[f]
			key := fmt.Sprintf("%s writes only the documented shared state (%s)", load.FuncName(fd), f)
			if ok && strings.HasSuffix(f, ".Fset") && ast.Unparen(l) != nil {
				// a default: the caller's file set is replaced only when there is none
				if se, isSel := ast.Unparen(l).(*ast.SelectorExpr); isSel && se.Sel.Name == "Fset" {
					c := e.Sib.Ctx[load.PkgDecorator]
					var target ast.Node
					ast.Inspect(fd.Body, func(m ast.Node) bool {
						if m != nil && m.Pos() == at {
							if _, isStmt := m.(ast.Stmt); isStmt && target == nil {
								target = m
							}
						}
						return true
					})
					lhs := types.ExprString(se)
					good, constFalse := false, false
					if target != nil {
						if pc, okp := pathCond(c, fd.Body.List, target); okp {
							for _, cj := range splitTopAnd(pc) {
								cj = strings.TrimSpace(strings.TrimSuffix(strings.TrimPrefix(strings.TrimSpace(cj), "("), ")"))
								if cj == lhs+" == nil" || cj == "nil == "+lhs {
									good = true
								}
								if cj == "false" {
									constFalse = true
								}
							}
						}
					}
					e.Run.Check("R-SHARED", fmt.Sprintf("%s gives %s a default only when it is nil", load.FuncName(fd), f), e.Prog.Pos(at), good && !constFalse,
						"the file set the caller supplied is overwritten (or a missing one is not created): positions of the restored file land in another file set than the caller's, or the nil file set is dereferenced")
				}
			}
			if seen[key] && ok {
				return
			}
			seen[key] = true
			e.Run.Check("R-SHARED", key, e.Prog.Pos(at), ok,
				"a store into "+f+": the struct is shared by every file restored or decorated with it, so what one call leaves there changes the next call (a name resolved for an earlier file is used although the resolver now answers differently) and concurrent calls race on it; per-file state belongs in the per-file struct, which RestoreFile resets")
		}
		ast.Inspect(fd.Body, func(nd ast.Node) bool {
			switch v := nd.(type) {
			case *ast.AssignStmt:
				for _, l := range v.Lhs {
					check(l, v.Pos())
				}
			case *ast.IncDecStmt:
				check(v.X, v.Pos())
			case *ast.CallExpr:
				// delete(m, k) on a shared map
				if id, ok := v.Fun.(*ast.Ident); ok && id.Name == "delete" && len(v.Args) == 2 {
					if _, isB := info.Uses[id].(*types.Builtin); isB {
						check(v.Args[0], v.Pos())
					}
				}
			}
			return true
		})
	}
	e.Run.Floor("R-SHARED", "stores through the shared Restorer / Decorator", n, 4)
}
