package rules

import (
	"bytes"
	"go/ast"
	"go/parser"
	"go/printer"
	"go/token"
	"strconv"

	"golang.org/x/tools/go/ast/astutil"
	"golang.org/x/tools/go/packages"
)

// Canonical form for R-FORK. The fork and the upstream function are compared as texts after both
// went through the same meaning-preserving rewrites, so that the comparison is not a comparison of
// spellings. Each rewrite below preserves the function's behaviour on its own; none of them is
// needed for soundness (equal canonical forms of equivalent programs), they only widen the set of
// refactorings that still compare equal:
//
//	K1  x[0:i]                         → x[:i]
//	K2  !!c → c, !(a == b) → a != b, !(a != b) → a == b;  if !c {A} else {B} → if c {B} else {A}
//	K3  { …; if c { continue }; S }    → { …; if !c { S } }      at the end of a loop body
//	    { …; if c { return }; S }      → { …; if !c { S } }      at the end of a result-less function body
//	K4  if x = e; c {A}                → x = e; if c {A}          (plain assignment, statement in a block)
//	K5  return                         → return r1, …, rn         (named results)
//	K6  v := <pure selector chain>     → uses of v replaced, when v and the chain's root are never written
//	K7  calls of small same-package helpers are replaced by their bodies:
//	      h(a)  with  func h(p) T { return E }                  → E[p := a]
//	      h(a)  as a statement, body without results/returns    → body[p := a]
//	      x := h(a)  with body  S…; return E                     → S[p := a]…; x := E[p := a]
//	    (arguments that are not plain names, selectors or literals must be used at most once;
//	    locals of the helper are renamed apart; a variadic parameter may only be forwarded)
type normEnv struct {
	funcs   map[string]*ast.FuncDecl // package-level functions by name
	methods map[string]*ast.FuncDecl // methods by name, when the name is unique among the package's methods
	self    string                   // the function being normalised (never inlined into itself)
	fresh   int
	fset    *token.FileSet
	fsetOf  map[*ast.FuncDecl]*token.FileSet
}

func newNormEnv(pkg *packages.Package, self string, rewrite func(string) string) *normEnv {
	env := &normEnv{funcs: map[string]*ast.FuncDecl{}, methods: map[string]*ast.FuncDecl{}, self: self, fset: pkg.Fset}
	info := pkg.TypesInfo
	count := map[string]int{}
	raw := map[string]*ast.FuncDecl{}
	rawM := map[string]*ast.FuncDecl{}
	for _, f := range pkg.Syntax {
		for _, d := range f.Decls {
			fd, ok := d.(*ast.FuncDecl)
			if !ok || fd.Body == nil {
				continue
			}
			if fd.Recv == nil {
				raw[fd.Name.Name] = fd
			} else {
				count[fd.Name.Name]++
				rawM[fd.Name.Name] = fd
			}
		}
	}
	for n, k := range count {
		if k != 1 {
			delete(rawM, n)
		}
	}
	// a name may stand for the helper only if every call of that name in the package resolves to
	// it (the canonical form is untyped: v.Len() of a reflect.Value must not be taken for a method
	// Len of this package)
	for _, f := range pkg.Syntax {
		ast.Inspect(f, func(n ast.Node) bool {
			call, ok := n.(*ast.CallExpr)
			if !ok {
				return true
			}
			switch fun := call.Fun.(type) {
			case *ast.Ident:
				if fd := raw[fun.Name]; fd != nil && info.Uses[fun] != info.Defs[fd.Name] {
					delete(raw, fun.Name)
				}
			case *ast.SelectorExpr:
				if fd := rawM[fun.Sel.Name]; fd != nil && info.Uses[fun.Sel] != info.Defs[fd.Name] {
					delete(rawM, fun.Sel.Name)
				}
			}
			return true
		})
	}
	// the declarations as the comparison sees them: qualifiers erased, frozen divergences applied
	norm := func(fd *ast.FuncDecl) *ast.FuncDecl {
		if len(fd.Body.List) == 0 || len(fd.Body.List) > 4 {
			return nil
		}
		var buf bytes.Buffer
		buf.WriteString("package p\n")
		cp := *fd
		cp.Doc = nil
		if err := printer.Fprint(&buf, pkg.Fset, &cp); err != nil {
			return nil
		}
		text := qualRe.ReplaceAllString(buf.String(), "")
		if rewrite != nil {
			text = rewrite(text)
		}
		pf, err := parser.ParseFile(token.NewFileSet(), "h.go", text, parser.SkipObjectResolution)
		if err != nil || len(pf.Decls) != 1 {
			return nil
		}
		out, _ := pf.Decls[0].(*ast.FuncDecl)
		env.fsetOf = nil
		return out
	}
	for n, fd := range raw {
		if nd := norm(fd); nd != nil {
			env.funcs[n] = nd
		}
	}
	for n, fd := range rawM {
		if nd := norm(fd); nd != nil {
			env.methods[n] = nd
		}
	}
	return env
}

// canonicalize rewrites fl in place (the caller re-parses the printed result before renaming
// locals, so identifier objects need not be kept up to date).
func (env *normEnv) canonicalize(fl *ast.FuncLit) {
	for round := 0; round < 6; round++ {
		changed := false
		changed = env.inlineHelpers(fl) || changed
		changed = env.namedReturns(fl) || changed
		changed = env.hoistIfInit(fl) || changed
		changed = env.guardsToNested(fl) || changed
		changed = env.flipNegatedIf(fl) || changed
		changed = env.simplifyNot(fl) || changed
		changed = env.sliceLowZero(fl) || changed
		changed = env.inlinePureLocals(fl) || changed
		if !changed {
			break
		}
	}
}

// ---- K1 ----

func (env *normEnv) sliceLowZero(fl *ast.FuncLit) bool {
	changed := false
	ast.Inspect(fl, func(n ast.Node) bool {
		if se, ok := n.(*ast.SliceExpr); ok && se.Low != nil {
			if bl, ok := se.Low.(*ast.BasicLit); ok && bl.Kind == token.INT && bl.Value == "0" {
				se.Low = nil
				changed = true
			}
		}
		return true
	})
	return changed
}

// ---- K2 ----

func negate(x ast.Expr) ast.Expr {
	switch v := x.(type) {
	case *ast.ParenExpr:
		return negate(v.X)
	case *ast.UnaryExpr:
		if v.Op == token.NOT {
			return v.X
		}
	case *ast.BinaryExpr:
		switch v.Op {
		case token.EQL:
			return &ast.BinaryExpr{X: v.X, Op: token.NEQ, Y: v.Y}
		case token.NEQ:
			return &ast.BinaryExpr{X: v.X, Op: token.EQL, Y: v.Y}
		}
	}
	switch x.(type) {
	case *ast.Ident, *ast.CallExpr, *ast.SelectorExpr, *ast.IndexExpr:
		return &ast.UnaryExpr{Op: token.NOT, X: x}
	}
	return &ast.UnaryExpr{Op: token.NOT, X: &ast.ParenExpr{X: x}}
}

func (env *normEnv) simplifyNot(fl *ast.FuncLit) bool {
	changed := false
	astutil.Apply(fl, nil, func(c *astutil.Cursor) bool {
		u, ok := c.Node().(*ast.UnaryExpr)
		if !ok || u.Op != token.NOT {
			return true
		}
		inner := u.X
		for {
			p, ok := inner.(*ast.ParenExpr)
			if !ok {
				break
			}
			inner = p.X
		}
		switch v := inner.(type) {
		case *ast.UnaryExpr:
			if v.Op == token.NOT {
				c.Replace(v.X)
				changed = true
			}
		case *ast.BinaryExpr:
			if v.Op == token.EQL || v.Op == token.NEQ {
				c.Replace(&ast.ParenExpr{X: negate(v)})
				changed = true
			}
		}
		return true
	})
	// redundant parentheses around a whole condition
	ast.Inspect(fl, func(n ast.Node) bool {
		if is, ok := n.(*ast.IfStmt); ok {
			for {
				p, ok := is.Cond.(*ast.ParenExpr)
				if !ok {
					break
				}
				is.Cond = p.X
				changed = true
			}
		}
		return true
	})
	return changed
}

func (env *normEnv) flipNegatedIf(fl *ast.FuncLit) bool {
	changed := false
	ast.Inspect(fl, func(n ast.Node) bool {
		is, ok := n.(*ast.IfStmt)
		if !ok || is.Else == nil {
			return true
		}
		el, ok := is.Else.(*ast.BlockStmt)
		if !ok {
			return true
		}
		if u, ok := is.Cond.(*ast.UnaryExpr); ok && u.Op == token.NOT {
			is.Cond = u.X
			is.Body, is.Else = el, is.Body
			changed = true
		}
		return true
	})
	return changed
}

// ---- K3 ----

func (env *normEnv) guardsToNested(fl *ast.FuncLit) bool {
	changed := false
	void := fl.Type.Results == nil || len(fl.Type.Results.List) == 0
	rewrite := func(list []ast.Stmt, leave token.Token, isReturn bool) []ast.Stmt {
		for i := 0; i < len(list)-1; i++ {
			is, ok := list[i].(*ast.IfStmt)
			if !ok || is.Init != nil || is.Else != nil || len(is.Body.List) != 1 {
				continue
			}
			ok = false
			switch b := is.Body.List[0].(type) {
			case *ast.BranchStmt:
				ok = !isReturn && b.Tok == leave && b.Label == nil
			case *ast.ReturnStmt:
				ok = isReturn && len(b.Results) == 0
			}
			if !ok {
				continue
			}
			// declarations in the rest stay in the same relative scope: they move into the new block
			rest := append([]ast.Stmt{}, list[i+1:]...)
			nested := &ast.IfStmt{Cond: negate(is.Cond), Body: &ast.BlockStmt{List: rest}}
			changed = true
			return append(append([]ast.Stmt{}, list[:i]...), nested)
		}
		return list
	}
	ast.Inspect(fl, func(n ast.Node) bool {
		switch x := n.(type) {
		case *ast.ForStmt:
			x.Body.List = rewrite(x.Body.List, token.CONTINUE, false)
		case *ast.RangeStmt:
			x.Body.List = rewrite(x.Body.List, token.CONTINUE, false)
		}
		return true
	})
	if void {
		fl.Body.List = rewrite(fl.Body.List, token.ILLEGAL, true)
	}
	return changed
}

// ---- K4 ----

func (env *normEnv) hoistIfInit(fl *ast.FuncLit) bool {
	changed := false
	ast.Inspect(fl, func(n ast.Node) bool {
		var lists []*[]ast.Stmt
		switch x := n.(type) {
		case *ast.BlockStmt:
			lists = append(lists, &x.List)
		case *ast.CaseClause:
			lists = append(lists, &x.Body)
		}
		for _, lp := range lists {
			var out []ast.Stmt
			for _, st := range *lp {
				if is, ok := st.(*ast.IfStmt); ok && is.Init != nil {
					if as, ok := is.Init.(*ast.AssignStmt); ok && as.Tok == token.ASSIGN {
						out = append(out, as)
						is.Init = nil
						changed = true
					}
				}
				out = append(out, st)
			}
			*lp = out
		}
		return true
	})
	return changed
}

// ---- K5 ----

func (env *normEnv) namedReturns(fl *ast.FuncLit) bool {
	if fl.Type.Results == nil {
		return false
	}
	var names []string
	for _, f := range fl.Type.Results.List {
		if len(f.Names) == 0 {
			return false
		}
		for _, nm := range f.Names {
			if nm.Name == "_" {
				return false
			}
			names = append(names, nm.Name)
		}
	}
	changed := false
	ast.Inspect(fl.Body, func(n ast.Node) bool {
		if _, ok := n.(*ast.FuncLit); ok {
			return false
		}
		if rs, ok := n.(*ast.ReturnStmt); ok && len(rs.Results) == 0 {
			for _, nm := range names {
				rs.Results = append(rs.Results, &ast.Ident{Name: nm})
			}
			changed = true
		}
		return true
	})
	// a trailing `return r1, …` at the very end of the body of a function with named results is
	// the same as falling off the end only when there are no results; keep it
	return changed
}

// ---- K6 ----

// pureChain: an identifier or a chain of field selections over one.
func pureChain(x ast.Expr) (root *ast.Ident, last string, ok bool) {
	switch v := x.(type) {
	case *ast.Ident:
		return v, "", v.Name != "nil" && v.Name != "true" && v.Name != "false"
	case *ast.SelectorExpr:
		r, _, ok := pureChain(v.X)
		return r, v.Sel.Name, ok
	case *ast.ParenExpr:
		return pureChain(v.X)
	}
	return nil, "", false
}

func (env *normEnv) inlinePureLocals(fl *ast.FuncLit) bool {
	// candidates: `v := chain` (single name, single value) directly in a block
	type cand struct {
		name string
		rhs  ast.Expr
		decl *ast.AssignStmt
	}
	var cands []cand
	ast.Inspect(fl.Body, func(n ast.Node) bool {
		if as, ok := n.(*ast.AssignStmt); ok && as.Tok == token.DEFINE && len(as.Lhs) == 1 && len(as.Rhs) == 1 {
			if id, ok := as.Lhs[0].(*ast.Ident); ok && id.Name != "_" {
				if _, last, ok := pureChain(as.Rhs[0]); ok && last != "" {
					cands = append(cands, cand{id.Name, as.Rhs[0], as})
				}
			}
		}
		return true
	})
	// a call may change what the chain reads (through the receiver, an alias, a global): the
	// rewrite is only applied to functions that call nothing but builtins
	calls := false
	ast.Inspect(fl.Body, func(n ast.Node) bool {
		if call, ok := n.(*ast.CallExpr); ok {
			id, isID := call.Fun.(*ast.Ident)
			if !isID {
				calls = true
			} else {
				switch id.Name {
				case "len", "cap", "append", "make", "new", "copy", "delete", "panic", "string", "int":
				default:
					calls = true
				}
			}
		}
		return true
	})
	if calls {
		return false
	}
	for _, c := range cands {
		root, last, _ := pureChain(c.rhs)
		// the name is declared once and never written again; the root is never written; no store
		// into a field of the same name anywhere; the address of neither is taken
		decls, safe := 0, true
		ast.Inspect(fl, func(n ast.Node) bool {
			switch x := n.(type) {
			case *ast.AssignStmt:
				for _, l := range x.Lhs {
					if id, ok := l.(*ast.Ident); ok {
						if id.Name == c.name {
							if x.Tok == token.DEFINE {
								decls++
							} else {
								safe = false
							}
						}
						if id.Name == root.Name && x != c.decl {
							safe = false
						}
					}
					if se, ok := l.(*ast.SelectorExpr); ok && se.Sel.Name == last {
						safe = false
					}
				}
			case *ast.IncDecStmt:
				if id, ok := x.X.(*ast.Ident); ok && (id.Name == c.name || id.Name == root.Name) {
					safe = false
				}
				if se, ok := x.X.(*ast.SelectorExpr); ok && se.Sel.Name == last {
					safe = false
				}
			case *ast.UnaryExpr:
				if x.Op == token.AND {
					if r, _, ok := pureChain(x.X); ok && (r.Name == c.name || r.Name == root.Name) {
						safe = false
					}
				}
			case *ast.RangeStmt:
				for _, kv := range []ast.Expr{x.Key, x.Value} {
					if id, ok := kv.(*ast.Ident); ok && (id.Name == c.name || id.Name == root.Name) {
						safe = false
					}
				}
			case *ast.FuncLit:
				if x != fl {
					// a parameter of a nested literal may shadow the name
					for _, f := range x.Type.Params.List {
						for _, nm := range f.Names {
							if nm.Name == c.name || nm.Name == root.Name {
								safe = false
							}
						}
					}
				}
			case *ast.ValueSpec:
				for _, nm := range x.Names {
					if nm.Name == c.name || nm.Name == root.Name {
						safe = false
					}
				}
			}
			return true
		})
		if !safe || decls != 1 {
			continue
		}
		// replace the uses and drop the declaration
		astutil.Apply(fl, func(cur *astutil.Cursor) bool {
			if as, ok := cur.Node().(*ast.AssignStmt); ok && as == c.decl {
				cur.Delete()
				return false
			}
			if se, ok := cur.Node().(*ast.SelectorExpr); ok {
				// do not touch the field name of a selection
				if id, ok := se.X.(*ast.Ident); ok && id.Name == c.name {
					se.X = cloneExpr(c.rhs)
				}
				_ = se
			}
			return true
		}, nil)
		astutil.Apply(fl, func(cur *astutil.Cursor) bool {
			if id, ok := cur.Node().(*ast.Ident); ok && id.Name == c.name {
				if _, isSel := cur.Parent().(*ast.SelectorExpr); isSel && cur.Name() == "Sel" {
					return true
				}
				if kv, isKV := cur.Parent().(*ast.KeyValueExpr); isKV && cur.Name() == "Key" {
					_ = kv
					return true
				}
				cur.Replace(cloneExpr(c.rhs))
			}
			return true
		}, nil)
		return true // one at a time: the candidate list is stale now
	}
	return false
}

func cloneExpr(x ast.Expr) ast.Expr {
	switch v := x.(type) {
	case *ast.Ident:
		return &ast.Ident{Name: v.Name}
	case *ast.SelectorExpr:
		return &ast.SelectorExpr{X: cloneExpr(v.X), Sel: &ast.Ident{Name: v.Sel.Name}}
	case *ast.ParenExpr:
		return cloneExpr(v.X)
	}
	return x
}

// ---- K7 ----

type helperInfo struct {
	fd       *ast.FuncDecl
	params   []string
	variadic string // name of the variadic parameter, if any
	recv     string
}

func (env *normEnv) helperFor(call *ast.CallExpr) (*helperInfo, ast.Expr) {
	var fd *ast.FuncDecl
	var recvExpr ast.Expr
	switch f := call.Fun.(type) {
	case *ast.Ident:
		fd = env.funcs[f.Name]
	case *ast.SelectorExpr:
		fd = env.methods[f.Sel.Name]
		recvExpr = f.X
		// a qualified call of another package is not a method call of this one
		if id, ok := f.X.(*ast.Ident); ok {
			switch id.Name {
			case "fmt", "reflect", "sort", "strings", "bytes", "token", "scanner", "ast", "dst", "typeparams":
				fd = nil
			}
		}
	}
	if fd == nil || fd.Body == nil || fd.Name.Name == env.self || len(fd.Body.List) == 0 || len(fd.Body.List) > 4 {
		return nil, nil
	}
	// named results are variables of the helper: not inlined
	if fd.Type.Results != nil {
		for _, f := range fd.Type.Results.List {
			if len(f.Names) > 0 {
				return nil, nil
			}
		}
	}
	h := &helperInfo{fd: fd}
	if fd.Recv != nil {
		if recvExpr == nil || len(fd.Recv.List) != 1 || len(fd.Recv.List[0].Names) != 1 {
			return nil, nil
		}
		h.recv = fd.Recv.List[0].Names[0].Name
	}
	if fd.Type.Params != nil {
		for _, f := range fd.Type.Params.List {
			if len(f.Names) == 0 {
				return nil, nil
			}
			for _, nm := range f.Names {
				h.params = append(h.params, nm.Name)
			}
			if _, isVar := f.Type.(*ast.Ellipsis); isVar {
				h.variadic = f.Names[len(f.Names)-1].Name
			}
		}
	}
	// no recursion, no nested literals, no defer/go/labels/goto, returns only as the last statement
	ok := true
	for i, st := range fd.Body.List {
		ast.Inspect(st, func(n ast.Node) bool {
			switch x := n.(type) {
			case *ast.FuncLit, *ast.DeferStmt, *ast.GoStmt, *ast.LabeledStmt:
				ok = false
			case *ast.BranchStmt:
				if x.Tok == token.GOTO {
					ok = false
				}
			case *ast.ReturnStmt:
				if i != len(fd.Body.List)-1 || ast.Node(st) != n {
					ok = false
				}
			case *ast.CallExpr:
				if id, isID := x.Fun.(*ast.Ident); isID && id.Name == fd.Name.Name {
					ok = false
				}
				if se, isSel := x.Fun.(*ast.SelectorExpr); isSel && se.Sel.Name == fd.Name.Name {
					ok = false
				}
			}
			return true
		})
	}
	if !ok {
		return nil, nil
	}
	// call shape
	if h.variadic == "" {
		if len(call.Args) != len(h.params) || call.Ellipsis.IsValid() {
			return nil, nil
		}
	} else if len(call.Args) < len(h.params)-1 {
		return nil, nil
	}
	return h, recvExpr
}

func simpleArg(x ast.Expr) bool {
	switch v := x.(type) {
	case *ast.Ident, *ast.BasicLit:
		return true
	case *ast.SelectorExpr:
		return simpleArg(v.X)
	case *ast.ParenExpr:
		return simpleArg(v.X)
	}
	return false
}

// instantiate returns a deep copy of the helper's statements with parameters (and the receiver)
// replaced by the call's arguments and the helper's own locals renamed apart. ok is false when the
// substitution would duplicate or reorder the evaluation of a non-trivial argument.
func (env *normEnv) instantiate(h *helperInfo, call *ast.CallExpr, recvExpr ast.Expr) ([]ast.Stmt, bool) {
	sub := map[string]ast.Expr{}
	if h.recv != "" {
		if !simpleArg(recvExpr) {
			return nil, false
		}
		sub[h.recv] = recvExpr
	}
	nFixed := len(h.params)
	if h.variadic != "" {
		nFixed--
	}
	for i := 0; i < nFixed; i++ {
		sub[h.params[i]] = call.Args[i]
	}
	var extra []ast.Expr
	forward := false
	if h.variadic != "" {
		extra = call.Args[nFixed:]
		forward = call.Ellipsis.IsValid()
	}
	// uses of each parameter
	uses := map[string]int{}
	writes := false
	okVar := true
	for _, st := range h.fd.Body.List {
		ast.Inspect(st, func(n ast.Node) bool {
			switch x := n.(type) {
			case *ast.Ident:
				uses[x.Name]++
			case *ast.AssignStmt:
				for _, l := range x.Lhs {
					if id, ok := l.(*ast.Ident); ok {
						if _, isParam := sub[id.Name]; isParam || id.Name == h.variadic {
							writes = true
						}
					}
				}
			case *ast.IncDecStmt:
				if id, ok := x.X.(*ast.Ident); ok {
					if _, isParam := sub[id.Name]; isParam {
						writes = true
					}
				}
			case *ast.UnaryExpr:
				if id, ok := x.X.(*ast.Ident); ok && x.Op == token.AND {
					if _, isParam := sub[id.Name]; isParam {
						writes = true
					}
				}
			}
			return true
		})
	}
	if writes {
		return nil, false
	}
	// argument discipline: a parameter is a copy made at the call; its replacement by the
	// argument expression must read the same value at the place of use. A helper of several
	// statements may run code between the call and the use: only plain names and literals are
	// substituted there. A single-statement helper evaluates everything in one expression: names,
	// selections and literals are substituted freely, and at most one other argument, used once.
	multi := len(h.fd.Body.List) > 1
	complexArgs := 0
	for p, a := range sub {
		switch ast.Unparen(a).(type) {
		case *ast.Ident, *ast.BasicLit:
			continue
		}
		if multi {
			return nil, false
		}
		if simpleArg(a) {
			continue
		}
		complexArgs++
		if uses[p] != 1 {
			return nil, false
		}
	}
	if complexArgs > 1 {
		return nil, false
	}
	for _, a := range extra {
		if !simpleArg(a) {
			return nil, false
		}
	}
	// the variadic parameter may only appear as the forwarded last argument of a call
	if h.variadic != "" {
		n := 0
		for _, st := range h.fd.Body.List {
			ast.Inspect(st, func(nd ast.Node) bool {
				if c, ok := nd.(*ast.CallExpr); ok && c.Ellipsis.IsValid() && len(c.Args) > 0 {
					if id, ok := c.Args[len(c.Args)-1].(*ast.Ident); ok && id.Name == h.variadic {
						n++
					}
				}
				return true
			})
		}
		if n != uses[h.variadic] {
			okVar = false
		}
	}
	if !okVar {
		return nil, false
	}
	// locals of the helper (declared by := / var / range) are renamed apart
	env.fresh++
	suffix := "_h" + strconv.Itoa(env.fresh)
	locals := map[string]bool{}
	for _, st := range h.fd.Body.List {
		ast.Inspect(st, func(n ast.Node) bool {
			switch x := n.(type) {
			case *ast.AssignStmt:
				if x.Tok == token.DEFINE {
					for _, l := range x.Lhs {
						if id, ok := l.(*ast.Ident); ok && id.Name != "_" {
							locals[id.Name] = true
						}
					}
				}
			case *ast.ValueSpec:
				for _, nm := range x.Names {
					locals[nm.Name] = true
				}
			case *ast.RangeStmt:
				if x.Tok == token.DEFINE {
					for _, kv := range []ast.Expr{x.Key, x.Value} {
						if id, ok := kv.(*ast.Ident); ok && id.Name != "_" {
							locals[id.Name] = true
						}
					}
				}
			}
			return true
		})
	}
	for l := range locals {
		if _, isParam := sub[l]; isParam {
			return nil, false // shadows a parameter: leave it alone
		}
	}
	var out []ast.Stmt
	copies, okc := env.copyStmts(h.fd.Body.List)
	if !okc {
		return nil, false
	}
	for _, cp := range copies {
		cp = astutil.Apply(cp, func(cur *astutil.Cursor) bool {
			switch x := cur.Node().(type) {
			case *ast.SelectorExpr:
				// only the operand of a selection is an identifier use
				if id, ok := x.X.(*ast.Ident); ok {
					if a, isParam := sub[id.Name]; isParam {
						x.X = parenIfNeeded(a)
					} else if locals[id.Name] {
						x.X = &ast.Ident{Name: id.Name + suffix}
					}
					return false
				}
			case *ast.KeyValueExpr:
				// struct field keys are not identifier uses; be conservative: leave keys alone
				if _, ok := x.Key.(*ast.Ident); ok {
					nv := astutil.Apply(x.Value, func(c2 *astutil.Cursor) bool { return true }, nil)
					_ = nv
				}
			case *ast.CallExpr:
				if h.variadic != "" && x.Ellipsis.IsValid() && len(x.Args) > 0 {
					if id, ok := x.Args[len(x.Args)-1].(*ast.Ident); ok && id.Name == h.variadic {
						x.Args = append(append([]ast.Expr{}, x.Args[:len(x.Args)-1]...), extra...)
						if !forward {
							x.Ellipsis = token.NoPos
						}
					}
				}
			case *ast.Ident:
				if _, isSel := cur.Parent().(*ast.SelectorExpr); isSel && cur.Name() == "Sel" {
					return true
				}
				if a, isParam := sub[x.Name]; isParam {
					cur.Replace(parenIfNeeded(a))
				} else if locals[x.Name] {
					cur.Replace(&ast.Ident{Name: x.Name + suffix})
				}
			}
			return true
		}, nil).(ast.Stmt)
		out = append(out, cp)
	}
	return out, true
}

func parenIfNeeded(x ast.Expr) ast.Expr {
	switch x.(type) {
	case *ast.Ident, *ast.BasicLit, *ast.SelectorExpr, *ast.CallExpr, *ast.IndexExpr, *ast.ParenExpr, *ast.CompositeLit:
		return x
	}
	return &ast.ParenExpr{X: x}
}

// copyStmts returns fresh copies of the statements (printed and parsed again).
func (env *normEnv) copyStmts(list []ast.Stmt) ([]ast.Stmt, bool) {
	var buf bytes.Buffer
	buf.WriteString("package p\nfunc _() {\n")
	for _, st := range list {
		if err := printer.Fprint(&buf, token.NewFileSet(), st); err != nil {
			return nil, false
		}
		buf.WriteString("\n")
	}
	buf.WriteString("}\n")
	text := qualRe.ReplaceAllString(buf.String(), "")
	pf, err := parser.ParseFile(token.NewFileSet(), "h.go", text, parser.SkipObjectResolution)
	if err != nil || len(pf.Decls) != 1 {
		return nil, false
	}
	fd, ok := pf.Decls[0].(*ast.FuncDecl)
	if !ok {
		return nil, false
	}
	return fd.Body.List, true
}

func (env *normEnv) inlineHelpers(fl *ast.FuncLit) bool {
	changed := false
	// statement positions
	var rewriteList func(list []ast.Stmt) []ast.Stmt
	rewriteList = func(list []ast.Stmt) []ast.Stmt {
		var out []ast.Stmt
		for _, st := range list {
			done := false
			switch x := st.(type) {
			case *ast.ExprStmt:
				if call, ok := x.X.(*ast.CallExpr); ok {
					if h, recv := env.helperFor(call); h != nil && (h.fd.Type.Results == nil || len(h.fd.Type.Results.List) == 0) {
						if _, isRet := h.fd.Body.List[len(h.fd.Body.List)-1].(*ast.ReturnStmt); !isRet {
							if body, ok := env.instantiate(h, call, recv); ok {
								out = append(out, body...)
								changed, done = true, true
							}
						}
					}
				}
			case *ast.AssignStmt:
				if len(x.Rhs) == 1 && len(x.Lhs) == 1 {
					if call, ok := x.Rhs[0].(*ast.CallExpr); ok {
						if h, recv := env.helperFor(call); h != nil && len(h.fd.Body.List) > 1 && h.fd.Type.Results != nil && len(h.fd.Type.Results.List) == 1 && len(h.fd.Type.Results.List[0].Names) <= 1 {
							if ret, isRet := h.fd.Body.List[len(h.fd.Body.List)-1].(*ast.ReturnStmt); isRet && len(ret.Results) == 1 {
								if body, ok := env.instantiate(h, call, recv); ok {
									last := body[len(body)-1].(*ast.ReturnStmt)
									out = append(out, body[:len(body)-1]...)
									out = append(out, &ast.AssignStmt{Lhs: x.Lhs, Tok: x.Tok, Rhs: []ast.Expr{last.Results[0]}})
									changed, done = true, true
								}
							}
						}
					}
				}
			}
			if !done {
				out = append(out, st)
			}
		}
		return out
	}
	ast.Inspect(fl, func(n ast.Node) bool {
		switch x := n.(type) {
		case *ast.BlockStmt:
			x.List = rewriteList(x.List)
		case *ast.CaseClause:
			x.Body = rewriteList(x.Body)
		}
		return true
	})
	// expression positions: helpers whose body is `return E`
	astutil.Apply(fl, nil, func(cur *astutil.Cursor) bool {
		call, ok := cur.Node().(*ast.CallExpr)
		if !ok {
			return true
		}
		h, recv := env.helperFor(call)
		if h == nil || len(h.fd.Body.List) != 1 {
			return true
		}
		ret, ok := h.fd.Body.List[0].(*ast.ReturnStmt)
		if !ok || len(ret.Results) != 1 {
			return true
		}
		body, ok := env.instantiate(h, call, recv)
		if !ok {
			return true
		}
		cur.Replace(parenIfNeeded(body[0].(*ast.ReturnStmt).Results[0]))
		changed = true
		return true
	})
	return changed
}
