package rules

import (
	"fmt"
	"go/constant"
	"go/types"
	"regexp"
	"sort"
	"strings"

	"dstverif/load"
	"dstverif/schema"
)

var twinConvRe = regexp.MustCompile(`^([A-Z][A-Za-z0-9]*)\((n(?:\.[A-Za-z_][A-Za-z0-9_]*)+)\)$`)

// ---------------------------------------------------------------------------------------------
// R-COVER

// astNodeNames: go/ast node types except comments.
func (e *Env) astNodeNames() []string {
	var out []string
	for _, n := range sortedKeys(e.astTypes) {
		if n == "Comment" || n == "CommentGroup" {
			continue
		}
		out = append(out, n)
	}
	return out
}

func (e *Env) dstNodeNames() []string { return sortedKeys(e.dstTypes) }

// RCover checks that sibling `name` has exactly one case per expected node type and that a
// missing case cannot pass silently (panicking default arm), where the sibling has one.
func (e *Env) RCover(name string, expected []string, needPanicDefault bool) {
	s := e.Sib.ByName[name]
	if s == nil || s.Err != nil {
		why := "sibling not extracted"
		if s != nil {
			why = s.Err.Error()
		}
		// the function lost its overall shape: the anchor the rule rests on is gone
		e.Run.Violation("R-SHAPE", "sibling shape: "+name, "", why)
		return
	}
	want := map[string]bool{}
	for _, t := range expected {
		want[t] = true
		_, ok := s.Cases[t]
		e.Run.Check("R-COVER", fmt.Sprintf("%s case %s", name, t), e.Prog.Pos(s.Func.Pos()), ok,
			fmt.Sprintf("node type %s.%s must have a case in %s (%s)", s.NodePkg, t, s.Func.Name.Name, e.Prog.File(s.Func.Pos())))
	}
	for _, t := range s.Order {
		if !want[t] {
			e.Run.Violation("R-COVER", fmt.Sprintf("%s case %s", name, t), e.casePos(s.Cases[t]), "case for a type that is not a node type of the expected set")
		}
	}
	if needPanicDefault {
		c := e.Sib.Ctx[s.Pkg.PkgPath]
		ok := s.HasDefault && c.PanicsOnly(s.DefaultBody)
		e.Run.Check("R-COVER", name+" default arm panics", e.Prog.Pos(s.Switch.Pos()), ok, "a node type without a case must not fall through silently")
	}
	e.Run.Analysed("cases", len(s.Order))
}

// ---------------------------------------------------------------------------------------------
// R-SEQ fragger ⇄ restore

// frozen asymmetries of the table (DESIGN 3.2), keyed by type + element key.
var seqFragOnly = map[string]string{
	"File L:Imports": "File.Imports duplicates the import specs already present in Decls; restored through Decls only (NoRestore in the table)",
}
var seqRestoreOnly = map[string]string{
	"File D:End": "the fragger's File.End point is disabled in the table (comments at the end of a file attach to the last declaration)",
}

func elemEqual(f, r Elem) (bool, string) {
	if f.Kind != r.Kind {
		return false, fmt.Sprintf("kind differs: fragger %s, restore %s", f, r)
	}
	switch f.Kind {
	case "D":
		if f.Name != r.Name {
			return false, fmt.Sprintf("decoration point differs: fragger %q, restore %q", f.Name, r.Name)
		}
		// fragger may guard a point (`Use`), restore renders unconditionally (empty when unused)
		if r.Guard != "" {
			return false, fmt.Sprintf("restore renders decoration %q only under %q", r.Name, r.Guard)
		}
		return true, ""
	case "T":
		if f.Token != r.Token {
			return false, fmt.Sprintf("token differs: fragger %s, restore %s", f.Token, r.Token)
		}
		if f.PosField != r.PosField {
			return false, fmt.Sprintf("token %s: position field differs: fragger %q, restore %q", f.Token, f.PosField, r.PosField)
		}
	case "S":
		if f.Field != r.Field || f.PosField != r.PosField {
			return false, fmt.Sprintf("string differs: fragger %s@%s, restore %s@%s", f.Field, f.PosField, r.Field, r.PosField)
		}
	case "B":
		if f.PosField != r.PosField {
			return false, fmt.Sprintf("bad range start differs: fragger %s, restore %s", f.PosField, r.PosField)
		}
	default:
		if f.Field != r.Field {
			return false, fmt.Sprintf("child differs: fragger %s, restore %s", f.Field, r.Field)
		}
	}
	if normGuard(f.Guard) != normGuard(r.Guard) || f.Else != r.Else {
		return false, fmt.Sprintf("%s: guard differs: fragger %q, restore %q (translated to the ast side)", f.Key(), f.Guard, r.Guard)
	}
	return true, ""
}

// normGuard: `if true` is no guard; surrounding parens dropped.
func normGuard(g string) string {
	g = strings.TrimSpace(g)
	if g == "true" {
		return ""
	}
	for strings.HasPrefix(g, "(") && strings.HasSuffix(g, ")") && balanced(g[1:len(g)-1]) {
		g = g[1 : len(g)-1]
	}
	return g
}

func balanced(s string) bool {
	d := 0
	for _, r := range s {
		switch r {
		case '(':
			d++
		case ')':
			d--
			if d < 0 {
				return false
			}
		}
	}
	return d == 0
}

// RSeq compares the fragger's and the restorer's element sequences for every node type.
func (e *Env) RSeq() {
	fr := e.Sib.ByName["fragger"]
	rs := e.Sib.ByName["restore"]
	nElems := 0
	for _, tn := range e.dstNodeNames() {
		fc, rc := fr.Cases[tn], rs.Cases[tn]
		if fc == nil || rc == nil {
			continue // R-COVER reports
		}
		vm := e.decorateValues(tn)
		fe, fp := e.fraggerElems(fc)
		for _, p := range fp {
			e.Run.Violation("R-SEQ", fmt.Sprintf("fragger %s: %s", tn, p), e.casePos(fc), p)
		}
		filterF := func(in []Elem) []Elem {
			var out []Elem
			for _, el := range in {
				if why, ok := seqFragOnly[tn+" "+el.Key()]; ok {
					_ = why
					continue
				}
				out = append(out, el)
			}
			return out
		}
		fe2 := filterF(fe)
		filterR := func(in []Elem) []Elem {
			var out []Elem
			for _, el := range in {
				if el.Kind == "D" && !strings.HasPrefix(el.Src, "Decs.") {
					continue // nested (signature) points: checked by R-DECS
				}
				if _, ok := seqRestoreOnly[tn+" "+el.Key()]; ok {
					has := false
					for _, f := range fe2 {
						if f.Key() == el.Key() {
							has = true
						}
					}
					if !has {
						continue
					}
				}
				out = append(out, el)
			}
			return out
		}
		// restore never renders a decoration point conditionally
		all, _ := e.restoreElems(rc, vm)
		for _, el := range all {
			if el.Kind == "D" && normGuard(el.Guard) != "" {
				e.Run.Violation("R-SEQ", fmt.Sprintf("%s point %s rendered unconditionally", tn, el.Name), e.Prog.Pos(el.Pos), "restore renders decoration "+el.Name+" only under "+el.Guard)
			}
		}
		// the two sequences must be equal under every valuation of the guard atoms: each valuation
		// selects one straight-line execution of both cases
		atoms := map[string]bool{}
		elemAtoms(fe2, atoms)
		e.eventAtoms(rc, vm, atoms)
		vals, okV := valuations(atoms, 10)
		key := fmt.Sprintf("%s: fragger and restore emit the same sequence under every guard valuation", tn)
		if !okV {
			e.Run.Undecided("R-SEQ", key, e.casePos(rc), fmt.Sprintf("%d guard atoms: too many to enumerate", len(atoms)))
			continue
		}
		nElems += len(filterR(all))
		okAll, detail := true, fmt.Sprintf("%d elements, %d guard atoms, %d valuations", len(all), len(atoms), len(vals))
		seenProblem := map[string]bool{}
		for _, v := range vals {
			rel, rp := e.restoreElemsUnder(rc, vm, v)
			for _, p := range rp {
				if !seenProblem[p] {
					seenProblem[p] = true
					e.Run.Violation("R-SEQ", fmt.Sprintf("restore %s: %s", tn, p), e.casePos(rc), p+" (when "+valString(v)+")")
				}
			}
			a, b := flatten(fe2, v, true), flatten(filterR(rel), nil, false)
			if okAll && strings.Join(a, " ") != strings.Join(b, " ") {
				okAll = false
				k := 0
				for k < len(a) && k < len(b) && a[k] == b[k] {
					k++
				}
				fa, rb := "(end)", "(end)"
				if k < len(a) {
					fa = a[k]
				}
				if k < len(b) {
					rb = b[k]
				}
				detail = fmt.Sprintf("when %s: element %d differs: fragger(%s) emits %s, restore(%s) emits %s — synthetic positions after this point shift against the fragments the decorator attached comments to", valString(v), k, e.casePos(fc), fa, e.casePos(rc), rb)
			}
		}
		e.Run.Check("R-SEQ", key, e.casePos(rc), okAll, detail)
	}
	e.Run.Analysed("schema elements compared", nElems)
	e.Run.Floor("R-SEQ", "schema elements compared fragger⇄restore", nElems, 300)
}

// ---------------------------------------------------------------------------------------------
// R-SYM decorate ⇄ restore value symmetry

// frozen: fields that are deliberately not carried (DESIGN 3.2).
var symNotCarried = map[string]string{
	"File.Unresolved": "resolution data, never populated by dst",
	"File.Imports":    "duplicates of specs restored through Decls",
	"File.FileStart":  "position range of the file, not syntax",
	"File.FileEnd":    "position range of the file, not syntax",
	"File.GoVersion":  "derived from build comments by the parser, not syntax",
	"File.Comments":   "carried as decorations",
}

func (e *Env) dstWrittenByDecorate(tn string) map[string]bool {
	out := map[string]bool{}
	cs := e.Sib.ByName["decorate"].Cases[tn]
	if cs == nil {
		return out
	}
	for _, ev := range cs.Events {
		switch ev.Kind {
		case schema.KValue, schema.KChild, schema.KList, schema.KMap, schema.KObj, schema.KScope, schema.KInit, schema.KDec, schema.KSpace:
			out[ev.Field] = true
		case schema.KPath:
			out["Path"] = true
		}
	}
	return out
}

func readsOfEvents(evs []schema.Event) map[string]bool {
	out := map[string]bool{}
	add := func(p string) {
		if p != "" && !strings.HasPrefix(p, "«") {
			out[p] = true
		}
	}
	for _, ev := range evs {
		switch ev.Kind {
		case schema.KAlloc, schema.KMapReg, schema.KRet, schema.KOther, schema.KErrCheck:
			continue
		}
		if ev.Kind != schema.KDec || !strings.HasPrefix(ev.Src, "decorations[") {
			if !strings.Contains(ev.Src, "[") {
				add(ev.Src)
			}
		}
		for _, r := range ev.Reads {
			add(r)
		}
		for _, p := range pathsIn(ev.Guard) {
			add(p)
		}
		for _, p := range pathsIn(ev.Token) {
			add(p)
		}
		if ev.Kind == schema.KAdvance || ev.Kind == schema.KValue || ev.Kind == schema.KTok || ev.Kind == schema.KBad {
			for _, p := range pathsIn(ev.Expr) {
				add(p)
			}
		}
	}
	return out
}

// trimMethod drops a trailing method/derived component (n.Lparen.IsValid -> Lparen) using the
// struct facts: the longest prefix that names a field path.
func fieldPrefix(nt *NodeType, all map[string]*NodeType, path string) string {
	parts := strings.Split(path, ".")
	cur := nt
	var ok []string
	for _, p := range parts {
		if cur == nil {
			break
		}
		f := cur.ByName[p]
		if f == nil {
			break
		}
		ok = append(ok, p)
		if f.Kind == FNode && f.Ptr {
			cur = all[f.Elem]
		} else if f.Kind == FDecs {
			// Decs.X: keep the next component verbatim
			if len(ok) < len(parts) {
				ok = append(ok, parts[len(ok)])
			}
			break
		} else {
			cur = nil
		}
	}
	return strings.Join(ok, ".")
}

// RSym checks value symmetry between decorate and restore for every node type.
func (e *Env) RSym() {
	de := e.Sib.ByName["decorate"]
	rs := e.Sib.ByName["restore"]
	n := 0
	twins := map[string]bool{}
	for _, tn := range e.dstNodeNames() {
		dc, rc := de.Cases[tn], rs.Cases[tn]
		if dc == nil || rc == nil {
			continue
		}
		dnt, ant := e.dstTypes[tn], e.astTypes[tn]
		// (1) dst fields read by restore ⊆ written by decorate
		written := e.dstWrittenByDecorate(tn)
		for _, p := range sortedKeys(readsOfEvents(rc.Events)) {
			fp := fieldPrefix(dnt, e.dstTypes, p)
			if fp == "" {
				e.Run.Violation("R-SYM", fmt.Sprintf("restore %s reads n.%s", tn, p), e.casePos(rc), "path does not resolve to a field of the dst struct")
				continue
			}
			n++
			ok := written[fp]
			if !ok && strings.Contains(fp, ".Decs.") {
				// nested decorations (FuncDecl renders n.Type.Decs.*): owned by the FuncType node; the
				// decorator leaves them empty, users may fill them
				ok = true
			}
			e.Run.Check("R-SYM", fmt.Sprintf("%s dst.%s read by restore is written by decorate", tn, fp), e.casePos(rc), ok,
				fmt.Sprintf("restore case %s reads n.%s but decorate case %s never assigns out.%s: the value is lost in ast→dst→ast", tn, p, tn, fp))
		}
		// (2) ast fields read by decorate ⊆ written by restore
		rwritten := map[string]bool{}
		for _, ev := range rc.Events {
			switch ev.Kind {
			case schema.KValue, schema.KChild, schema.KList, schema.KMap, schema.KObj, schema.KScope, schema.KInit, schema.KPosStore:
				rwritten[ev.Field] = true
			}
		}
		for _, p := range sortedKeys(readsOfEvents(dc.Events)) {
			fp := fieldPrefix(ant, e.astTypes, p)
			if fp == "" {
				e.Run.Violation("R-SYM", fmt.Sprintf("decorate %s reads n.%s", tn, p), e.casePos(dc), "path does not resolve to a field of the ast struct")
				continue
			}
			if _, frozen := symNotCarried[tn+"."+fp]; frozen {
				continue
			}
			n++
			e.Run.Check("R-SYM", fmt.Sprintf("%s ast.%s read by decorate is written by restore", tn, fp), e.casePos(dc), rwritten[fp],
				fmt.Sprintf("decorate case %s reads n.%s but restore case %s never assigns out.%s", tn, p, tn, fp))
		}
		// (3) every syntactic field of the ast struct is read by decorate (C03 completeness)
		dreads := readsOfEvents(dc.Events)
		dreadPrefix := map[string]bool{}
		for p := range dreads {
			dreadPrefix[strings.Split(p, ".")[0]] = true
		}
		for _, f := range ant.Fields {
			switch f.Kind {
			case FComment, FPos:
				continue
			}
			if _, frozen := symNotCarried[tn+"."+f.Name]; frozen {
				continue
			}
			n++
			e.Run.Check("R-SYM", fmt.Sprintf("%s ast.%s (%s) is consumed by decorate", tn, f.Name, f.Kind), e.casePos(dc), dreadPrefix[f.Name],
				fmt.Sprintf("go/ast.%s.%s (%s) is never read by decorate case %s: that part of the syntax is dropped", tn, f.Name, f.Type, tn))
		}
		// (4) every syntactic field of the dst struct is read by restore
		rreads := readsOfEvents(rc.Events)
		rreadPrefix := map[string]bool{}
		for p := range rreads {
			rreadPrefix[strings.Split(p, ".")[0]] = true
		}
		for _, f := range dnt.Fields {
			if _, frozen := symNotCarried[tn+"."+f.Name]; frozen {
				continue
			}
			if tn == "Ident" && f.Name == "Path" {
				// consumed by restoreIdent (checked in R-IDENT)
				continue
			}
			n++
			e.Run.Check("R-SYM", fmt.Sprintf("%s dst.%s (%s) is consumed by restore", tn, f.Name, f.Kind), e.casePos(rc), rreadPrefix[f.Name],
				fmt.Sprintf("dst.%s.%s is never read by restore case %s", tn, f.Name, tn))
		}
		// (5) field-name correspondence and literal arguments of conversions
		for _, side := range []struct {
			name string
			cs   *schema.Case
		}{{"decorate", dc}, {"restore", rc}} {
			for _, ev := range side.cs.Events {
				switch ev.Kind {
				case schema.KChild, schema.KList, schema.KMap, schema.KObj, schema.KScope:
				default:
					continue
				}
				if ev.Kind == schema.KMap && ev.Expr != schema.KChild && ev.Expr != schema.KObj {
					continue
				}
				n++
				e.Run.Check("R-SYM", fmt.Sprintf("%s %s %s: reads and writes the same field", side.name, tn, ev.Field), e.Prog.Pos(ev.Pos), ev.Src == ev.Field,
					fmt.Sprintf("%s case %s converts n.%s but stores the result in out.%s: parent/child correspondence broken", side.name, tn, ev.Src, ev.Field))
				if ev.Kind == schema.KObj || ev.Kind == schema.KScope || (ev.Kind == schema.KMap && ev.Expr == schema.KObj) {
					continue
				}
				last := ev.Field
				if i := strings.LastIndex(last, "."); i >= 0 {
					last = last[i+1:]
				}
				okLit := ev.Lit[0] == tn && ev.Lit[1] == last
				e.Run.Check("R-SYM", fmt.Sprintf("%s %s %s: parent/field literals", side.name, tn, ev.Field), e.Prog.Pos(ev.Pos), okLit,
					fmt.Sprintf("conversion of %s.%s passes (%q,%q) as parent name/field: the role filter (avoid table) and resolvers are keyed by these", tn, ev.Field, ev.Lit[0], ev.Lit[1]))
			}
		}
		// twin conversions used by this case
		for _, ev := range dc.Events {
			if ev.Kind == schema.KValue {
				if m := twinConvRe.FindStringSubmatch(ev.Expr); m != nil {
					twins[m[1]] = true
				}
			}
		}
		for _, ev := range rc.Events {
			if ev.Kind == schema.KValue {
				if m := twinConvRe.FindStringSubmatch(ev.Expr); m != nil {
					twins[m[1]] = true
				}
			}
		}
	}
	twins["ObjKind"] = true
	for _, tw := range sortedKeys(twins) {
		e.twinConstants(tw)
		n++
	}
	e.Run.Analysed("value/field facts", n)
	e.Run.Floor("R-SYM", "field facts compared decorate⇄restore", n, 600)
}

// twinConstants: the named constants of twin types (ast.ChanDir/dst.ChanDir ...) are pairwise
// equal, because guards compare against the constants of their own side.
func (e *Env) twinConstants(name string) {
	collect := func(pkgPath string) (map[string]string, bool) {
		pkg := e.Prog.Pkg(pkgPath).Types
		tn, ok := pkg.Scope().Lookup(name).(*types.TypeName)
		if !ok {
			return nil, false
		}
		out := map[string]string{}
		for _, n := range pkg.Scope().Names() {
			if c, ok := pkg.Scope().Lookup(n).(*types.Const); ok && types.Identical(c.Type(), tn.Type()) {
				out[n] = c.Val().ExactString()
			}
		}
		return out, true
	}
	a, okA := collect("go/ast")
	d, okD := collect(load.PkgDst)
	if !okA || !okD {
		e.Run.Violation("R-SYM", "twin type "+name, "", "a value crosses ast⇄dst by conversion to "+name+" but the type does not exist on both sides")
		return
	}
	keys := map[string]bool{}
	for k := range a {
		keys[k] = true
	}
	for k := range d {
		keys[k] = true
	}
	var diffs []string
	for _, k := range sortedKeys(keys) {
		if a[k] != d[k] {
			diffs = append(diffs, fmt.Sprintf("%s: ast=%s dst=%s", k, orDash(a[k]), orDash(d[k])))
		}
	}
	sort.Strings(diffs)
	e.Run.Check("R-SYM", "twin constants "+name, "", len(diffs) == 0 && len(a) > 0,
		fmt.Sprintf("constants of ast.%s and dst.%s must be pairwise equal (values cross by plain conversion): %s", name, name, strings.Join(diffs, "; ")))
	_ = constant.MakeBool
}

func orDash(s string) string {
	if s == "" {
		return "-"
	}
	return s
}
