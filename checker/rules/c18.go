package rules

import (
	"fmt"
	"go/ast"
	"go/token"
	"go/types"
	"regexp"
	"sort"
	"strings"

	"dstverif/load"
	"dstverif/schema"
)

var (
	reErrParam   = regexp.MustCompile(`\(pos token\.Pos, `)
	reErrPosArg  = regexp.MustCompile(`p\.(errorf?)\((?:file\.Package|spec\.Path\.Pos\(\)|ident\.Pos\(\)|pos|obj\.Pos\(\)), `)
	rePrevDecl   = regexp.MustCompile(`(?s)prevDecl := ""\s*if pos := alt\.Pos\(\); pos\.IsValid\(\) \{.*?\}\s*`)
	rePrevFormat = regexp.MustCompile(`"%s redeclared in this block%s", obj\.Name, prevDecl`)
	reAny        = regexp.MustCompile(`\bany\b`)
)

// upstreamResolveRewrite: frozen, reasoned divergence of resolve.go / scope.go from GOROOT go/ast:
// dst nodes have no positions, so (1) error/errorf take no position and report at NoPos, (2) the
// "previous declaration at" suffix is dropped, (3) strings.Builder vs bytes.Buffer, any vs
// interface{} are spelling differences of the Go version the fork was taken from.
func upstreamResolveRewrite(s string) string {
	s = reErrParam.ReplaceAllString(s, "(")
	s = reErrPosArg.ReplaceAllString(s, "p.$1(")
	s = strings.ReplaceAll(s, "p.fset.Position(pos)", "p.fset.Position(token.NoPos)")
	s = rePrevDecl.ReplaceAllString(s, "")
	s = rePrevFormat.ReplaceAllString(s, `"%s redeclared in this block", obj.Name`)
	s = strings.ReplaceAll(s, "strings.Builder", "bytes.Buffer")
	s = reAny.ReplaceAllString(s, "interface{}")
	return s
}

// objConverter: allocation registered in both maps before any recursive conversion.
func (e *Env) objConverter(recvT, name, fwd, back string) {
	pkg := e.Prog.Pkg(load.PkgDecorator)
	c := e.Sib.Ctx[load.PkgDecorator]
	info := pkg.TypesInfo
	fd := load.FuncDecl(pkg, recvT, name)
	if fd == nil || fd.Body == nil {
		e.Run.Violation("R-MAPS", name+" exists", "", "function missing")
		return
	}
	recv := c.ObjOf(fd.Recv.List[0].Names[0])
	param := info.Defs[fd.Type.Params.List[0].Names[0]]
	var outObj types.Object
	allocPos, fwdPos, backPos := token.NoPos, token.NoPos, token.NoPos
	// statement-level calls to small helpers (linkObject(o, out)) are looked through
	body := c.FlattenBody(fd.Body.List)
	defer func() { c.Subst = nil }()
	isRoot := func(x ast.Expr, root types.Object) bool {
		if root == nil {
			return false
		}
		p, ok := c.Path(x, root)
		return ok && p == ""
	}
	order := 0
	pos2order := map[token.Pos]int{}
	for _, st := range body {
		order++
		pos2order[st.Pos()] = order
		as, ok := st.(*ast.AssignStmt)
		if !ok || len(as.Lhs) != 1 || len(as.Rhs) != 1 {
			continue
		}
		if as.Tok == token.DEFINE {
			if _, isAlloc := allocLit(as.Rhs[0]); isAlloc {
				if id, isID := as.Lhs[0].(*ast.Ident); isID {
					outObj = info.Defs[id]
					allocPos = token.Pos(order)
				}
			}
			continue
		}
		ix, ok := as.Lhs[0].(*ast.IndexExpr)
		if !ok {
			continue
		}
		mp, ok := c.Path(ix.X, recv)
		if !ok {
			continue
		}
		if mp == fwd && isRoot(ix.Index, param) && isRoot(as.Rhs[0], outObj) {
			fwdPos = token.Pos(order)
		}
		if mp == back && isRoot(ix.Index, outObj) && isRoot(as.Rhs[0], param) {
			backPos = token.Pos(order)
		}
	}
	pos := e.Prog.Pos(fd.Pos())
	e.Run.Check("R-MAPS", name+": new object registered in both maps", pos, allocPos.IsValid() && fwdPos > allocPos && backPos > allocPos,
		fmt.Sprintf("after out := &T{} the function must store %s[param] = out and %s[out] = param", fwd, back))
	// first recursive conversion (statement order in the flattened body)
	first := token.NoPos
	for i, st := range body {
		found := false
		ast.Inspect(st, func(n ast.Node) bool {
			call, ok := n.(*ast.CallExpr)
			if !ok {
				return true
			}
			fn := calleeFunc(info, call)
			if fn == nil || fn.Pkg() == nil || fn.Pkg().Path() != load.PkgDecorator {
				return true
			}
			switch fn.Name() {
			case "decorateNode", "decorateObject", "decorateScope", "restoreNode", "restoreObject", "restoreScope":
				found = true
			}
			return true
		})
		if found && first == token.NoPos {
			first = token.Pos(i + 1)
		}
	}
	// the new object never leaves the function unregistered: every statement (of the flattened
	// body) that contains `return out` comes after both registrations
	early := ""
	for i, st := range body {
		ast.Inspect(st, func(n ast.Node) bool {
			rs, ok := n.(*ast.ReturnStmt)
			if !ok || len(rs.Results) == 0 {
				return true
			}
			if isRoot(rs.Results[0], outObj) && outObj != nil && (token.Pos(i+1) < fwdPos || token.Pos(i+1) < backPos) {
				early = e.Prog.Pos(rs.Pos())
			}
			return true
		})
	}
	e.Run.Check("R-MAPS", name+": the new object is registered before it is returned", pos, early == "",
		"`return out` at "+early+" comes before the stores into the two maps: an object that leaves through it is converted afresh every time it is met — identifiers that share an object on one side do not on the other, and the maps have no entry for it")
	e.Run.Check("R-MAPS", name+": registered before converting what it refers to", pos, first == token.NoPos || (fwdPos.IsValid() && backPos.IsValid() && fwdPos < first && backPos < first),
		"the object graph is cyclic (object → declaring node → identifier → object): the memo entry must exist before Decl/Data/Outer/Objects are converted, else the conversion does not terminate or duplicates objects")
}

// objFields: which fields of Object / Scope the converter carries over, and the type-switch arms.
func (e *Env) objFields(recvT, name string, want []string) {
	pkg := e.Prog.Pkg(load.PkgDecorator)
	c := e.Sib.Ctx[load.PkgDecorator]
	info := pkg.TypesInfo
	fd := load.FuncDecl(pkg, recvT, name)
	if fd == nil || fd.Body == nil {
		return
	}
	var outObj types.Object
	written := map[string]bool{}
	ast.Inspect(fd.Body, func(n ast.Node) bool {
		as, ok := n.(*ast.AssignStmt)
		if !ok {
			return true
		}
		for i, l := range as.Lhs {
			if as.Tok == token.DEFINE && len(as.Rhs) == len(as.Lhs) {
				if lit, isAlloc := allocLit(as.Rhs[i]); isAlloc {
					if id, isID := l.(*ast.Ident); isID {
						outObj = info.Defs[id]
						// fields given in the literal are carried over as well
						for _, el := range lit.Elts {
							if kv, ok := el.(*ast.KeyValueExpr); ok {
								if k, ok := kv.Key.(*ast.Ident); ok {
									written[k.Name] = true
								}
							}
						}
					}
				}
				continue
			}
			if p, ok := c.Path(l, outObj); ok && p != "" && outObj != nil {
				written[strings.Split(p, ".")[0]] = true
			}
			if ix, ok := l.(*ast.IndexExpr); ok {
				if p, ok := c.Path(ix.X, outObj); ok && p != "" && outObj != nil {
					written[strings.Split(p, ".")[0]] = true
				}
			}
		}
		return true
	})
	// restoreObject defers node-valued Decl/Data through nodeDecl/nodeData
	if name == "restoreObject" {
		recv := c.ObjOf(fd.Recv.List[0].Names[0])
		ast.Inspect(fd.Body, func(n ast.Node) bool {
			as, ok := n.(*ast.AssignStmt)
			if !ok || len(as.Lhs) != 1 {
				return true
			}
			if ix, ok := as.Lhs[0].(*ast.IndexExpr); ok {
				if p, ok := c.Path(ix.X, recv); ok {
					if kid, ok := ix.Index.(*ast.Ident); ok && c.ObjOf(kid) == outObj {
						switch p {
						case "nodeDecl":
							written["Decl"] = true
						case "nodeData":
							written["Data"] = true
						}
					}
				}
			}
			return true
		})
	}
	for _, w := range want {
		e.Run.Check("R-OBJ", fmt.Sprintf("%s carries %s over", name, w), e.Prog.Pos(fd.Pos()), written[w], "field "+w+" of the object/scope is not converted: the graph on the other side loses it")
	}
	// every non-nil arm of the switch over x.Decl / x.Data stores the converted value (into
	// out.<field>, or into the restorer's deferred table for out)
	ast.Inspect(fd.Body, func(n ast.Node) bool {
		ts, ok := n.(*ast.TypeSwitchStmt)
		if !ok {
			return true
		}
		var subj ast.Expr
		switch a := ts.Assign.(type) {
		case *ast.AssignStmt:
			if len(a.Rhs) == 1 {
				if ta, ok := a.Rhs[0].(*ast.TypeAssertExpr); ok {
					subj = ta.X
				}
			}
		case *ast.ExprStmt:
			if ta, ok := a.X.(*ast.TypeAssertExpr); ok {
				subj = ta.X
			}
		}
		se, ok := subj.(*ast.SelectorExpr)
		if !ok || (se.Sel.Name != "Decl" && se.Sel.Name != "Data") {
			return true
		}
		field := se.Sel.Name
		for _, st := range ts.Body.List {
			cc := st.(*ast.CaseClause)
			if cc.List == nil || (len(cc.List) == 1 && c.ExprStr(cc.List[0]) == "nil") {
				continue
			}
			stored := false
			for _, b := range cc.Body {
				ast.Inspect(b, func(m ast.Node) bool {
					as, ok := m.(*ast.AssignStmt)
					if !ok {
						return true
					}
					for _, l := range as.Lhs {
						if p, ok := c.Path(l, outObj); ok && outObj != nil && strings.Split(p, ".")[0] == field {
							stored = true
						}
						if ix, ok := l.(*ast.IndexExpr); ok {
							if kid, ok := ix.Index.(*ast.Ident); ok && c.ObjOf(kid) == outObj && strings.HasSuffix(c.ExprStr(ix.X), "node"+field) {
								stored = true
							}
						}
					}
					return true
				})
			}
			e.Run.Check("R-OBJ", fmt.Sprintf("%s: the %s arm of the switch over %s stores the converted value", name, c.ExprStr(cc.List[0]), field), e.Prog.Pos(cc.Pos()), stored,
				"the arm converts (or skips) the value without storing it in the new object's "+field+": objects whose "+field+" is of this kind lose it on the other side")
		}
		return true
	})
	// type switches: arms and panicking default
	ast.Inspect(fd.Body, func(n ast.Node) bool {
		ts, ok := n.(*ast.TypeSwitchStmt)
		if !ok {
			return true
		}
		var arms []string
		hasDefaultPanic := false
		for _, st := range ts.Body.List {
			cc := st.(*ast.CaseClause)
			if cc.List == nil {
				hasDefaultPanic = c.PanicsOnly(cc.Body)
				continue
			}
			for _, t := range cc.List {
				arms = append(arms, c.ExprStr(t))
			}
		}
		sort.Strings(arms)
		subject := ""
		if as, ok := ts.Assign.(*ast.AssignStmt); ok {
			if ta, ok := as.Rhs[0].(*ast.TypeAssertExpr); ok {
				subject = c.ExprStr(ta.X)
			}
		}
		field := lastComp(subject)
		wantArms := map[string]string{"Decl": "*Scope,Node,nil", "Data": "*Scope,Node,int,nil"}[field]
		e.Run.Check("R-OBJ", fmt.Sprintf("%s: %s arms", name, subject), e.Prog.Pos(ts.Pos()), strings.Join(arms, ",") == wantArms && hasDefaultPanic,
			fmt.Sprintf("arms %v (default panics: %v); the documented contents of Object.%s need %s and a panicking default", arms, hasDefaultPanic, field, wantArms))
		return true
	})
}

// extrasDeferredOwnFile: node-valued Decl/Data of objects are restored after the file, from the
// tables nodeDecl/nodeData. An object met in this file may be declared in another file of the
// package (every cross-file call): its declaration must not be rendered into this file — it gets
// positions of this file and is registered in the restorer's node maps, and restoring the file it
// belongs to then stops with "duplicate node" (or, with a restorer per file, the graph is split).
// Each deferred restore must therefore look the node up first (r.Ast.Nodes) or be limited to the
// nodes of the file being restored.
func (e *Env) extrasDeferredOwnFile() {
	pkg := e.Prog.Pkg(load.PkgDecorator)
	c := e.Sib.Ctx[load.PkgDecorator]
	info := pkg.TypesInfo
	rf := load.FuncDecl(pkg, "FileRestorer", "RestoreFile")
	if rf == nil || rf.Body == nil {
		return
	}
	flat := c.FlattenBody(rf.Body.List)
	c.Subst = nil
	// … and the restorer methods called from inside those statements (the pass may sit in a
	// helper called under `if r.Extras`)
	var roots []ast.Node
	seen := map[*ast.FuncDecl]bool{rf: true}
	for _, st := range flat {
		roots = append(roots, st)
		ast.Inspect(st, func(nd ast.Node) bool {
			if call, ok := nd.(*ast.CallExpr); ok {
				if fn := c.Callee(call); fn != nil && fn.Pkg() == pkg.Types && fn.Name() != "restoreNode" {
					for _, d := range load.AllFuncDecls(pkg) {
						if info.Defs[d.Name] == types.Object(fn) && d.Body != nil && d.Recv != nil && !seen[d] && len(d.Body.List) <= 12 {
							seen[d] = true
							roots = append(roots, d.Body)
						}
					}
				}
			}
			return true
		})
	}
	n := 0
	for _, st := range roots {
		ast.Inspect(st, func(nd ast.Node) bool {
			rs, ok := nd.(*ast.RangeStmt)
			if !ok {
				return true
			}
			mt, ok := info.TypeOf(rs.X).Underlying().(*types.Map)
			if !ok {
				return true
			}
			if _, kn := namedOf(mt.Key()); kn != "Object" {
				return true
			}
			restores := false
			guarded := false
			ast.Inspect(rs.Body, func(m ast.Node) bool {
				if call, ok := m.(*ast.CallExpr); ok {
					if se, ok := call.Fun.(*ast.SelectorExpr); ok && se.Sel.Name == "restoreNode" {
						restores = true
					}
				}
				if ix, ok := m.(*ast.IndexExpr); ok && strings.HasSuffix(types.ExprString(ix.X), "Ast.Nodes") {
					guarded = true
				}
				if _, ok := m.(*ast.IfStmt); ok {
					guarded = true
				}
				return true
			})
			if !restores {
				return true
			}
			n++
			e.Run.Check("R-EXTRAS", fmt.Sprintf("RestoreFile: deferred %s nodes of other files are not rendered into this file", types.ExprString(rs.X)), e.Prog.Pos(rs.Pos()), guarded,
				"every deferred node is restored here unconditionally: the declaration of an object that another file of the package declares (any cross-file reference after ast.NewPackage / dst.NewPackage) is rendered into this file's position space and registered, and restoring its own file then panics with \"duplicate node\"")
			return true
		})
	}
	e.Run.Floor("R-EXTRAS", "deferred restores in RestoreFile", n, 1)
}

// extrasGate: restoreObject/restoreScope return nil first when Extras is off.
func (e *Env) extrasGate(name string) {
	pkg := e.Prog.Pkg(load.PkgDecorator)
	c := e.Sib.Ctx[load.PkgDecorator]
	fd := load.FuncDecl(pkg, "FileRestorer", name)
	if fd == nil || fd.Body == nil || len(fd.Body.List) == 0 {
		return
	}
	// every return of something other than nil is unreachable with Extras off (path conditions;
	// any arrangement of the guards)
	rets, okr := returnsOf(c, fd)
	ok := okr
	why := ""
	nonNil := 0
	for _, r := range rets {
		if len(r.results) != 1 || r.results[0] == "nil" {
			continue
		}
		nonNil++
		imp, dec := unsatWith(r.cond, "!r.Extras")
		if !dec || !imp {
			ok = false
			why = "`return " + r.results[0] + "` is reachable under `" + r.cond + "`, which does not require r.Extras"
		}
		// … and reachable with Extras on (a gate that always returns nil restores nothing)
		if dead, dec2 := unsatWith(orTrue(r.cond), "r.Extras"); dec2 && dead {
			ok = false
			why = "`return " + r.results[0] + "` is unreachable (`" + r.cond + "` cannot hold): with Extras on nothing is restored either"
		}
	}
	e.Run.Check("R-OBJ", name+": objects and scopes are restored only with Extras", e.Prog.Pos(fd.Pos()), ok && nonNil > 0, "nothing but nil may be returned while r.Extras is false; "+why)
}

func init() {
	register("C18", Meta{
		Explanation: "Static analysis of the object/scope converters: all four look their argument up in the memo map first, register a new object/scope in both maps before converting anything it refers to (termination and sharing on the cyclic graphs every file has), carry Kind, Name, Decl, Data resp. Outer, Objects over through type switches with the documented arms and a panicking default; every *Object/*Scope-typed field of every node struct is converted in both directions; node-valued Decl/Data are deferred and drained under Extras with duplicates allowed; without Extras nil is returned. The package builder and scopes (resolve.go, scope.go: error, errorf, declare, resolve, NewPackage, NewScope, Lookup, Insert, NewObj) equal GOROOT go/ast after erasing positions (frozen, reasoned divergence), compared in the same canonical form as C14's fork. Decides the structural conditions of graph isomorphism; does not evaluate concrete graphs. A new object is registered before it is returned, the converters return nil for a nil argument under a real test, every non-nil arm of the switches over Decl/Data stores what it converted, and the Extras gate leaves the non-nil returns reachable. Known findings: declaring nodes of other files (Extras on the restore side, decorateObject on the decorate side).",
		NotCovered:  []string{"isomorphism on concrete cyclic graphs"},
	}, func(e *Env) {
		e.RDeadAppend()
		e.RMemo()
		for _, sp := range [][4]string{
			{"fileDecorator", "decorateObject", "Dst.Objects", "Ast.Objects"},
			{"fileDecorator", "decorateScope", "Dst.Scopes", "Ast.Scopes"},
			{"FileRestorer", "restoreObject", "Ast.Objects", "Dst.Objects"},
			{"FileRestorer", "restoreScope", "Ast.Scopes", "Dst.Scopes"},
		} {
			e.objConverter(sp[0], sp[1], sp[2], sp[3])
		}
		e.objFields("fileDecorator", "decorateObject", []string{"Kind", "Name", "Decl", "Data"})
		e.objFields("FileRestorer", "restoreObject", []string{"Kind", "Name", "Decl", "Data"})
		e.objFields("fileDecorator", "decorateScope", []string{"Outer", "Objects"})
		e.objFields("FileRestorer", "restoreScope", []string{"Outer", "Objects"})
		e.RNilFirst()
		// an error that is dropped inside the object converters leaves an object without its Decl
		e.RErr(e.pkgs(load.PkgDecorator), 40)
		e.extrasGate("restoreObject")
		e.extrasGate("restoreScope")
		e.extrasDeferredOwnFile()
		e.RDecorateForeignDecl()
		e.RSym()
		e.twinConstants("ObjKind")
		var pairs []forkPair
		opt := forkOpts{rewrite: upstreamResolveRewrite}
		for _, f := range [][2]string{{"pkgBuilder", "error"}, {"pkgBuilder", "errorf"}, {"pkgBuilder", "declare"}, {"", "resolve"}, {"", "NewPackage"},
			{"", "NewScope"}, {"Scope", "Lookup"}, {"Scope", "Insert"}, {"", "NewObj"}} {
			// (Scope.String and ObjKind.String are debugging output: not part of the property)
			pairs = append(pairs, forkPair{load.PkgDst, "go/ast", f[0], f[1], opt})
		}
		e.RFork(pairs)
		_ = schema.KObj
	})
}

// allocLit: &T{…} (with or without fields).
func allocLit(e ast.Expr) (*ast.CompositeLit, bool) {
	u, ok := ast.Unparen(e).(*ast.UnaryExpr)
	if !ok || u.Op != token.AND {
		return nil, false
	}
	cl, ok := u.X.(*ast.CompositeLit)
	return cl, ok
}

// RDecorateForeignDecl (R-EXTRAS, decorate side): decorateObject converts the node an object's Decl
// (or Data) points to with the tables of the file that is being decorated — comments, line breaks
// and spacing are looked up by node in f.decorations / f.before / f.after, which hold entries for
// the nodes of *this* file only. A declaring node that belongs to another file of the package
// (cross-file references exist as soon as the files were resolved together, ast.NewPackage) is
// converted bare and cached in Dst.Nodes; when its own file is decorated later the cached bare
// node is reused. Required: the conversion of o.Decl / o.Data in decorateObject happens under a
// condition that looks at the node (its file, its position, its presence in a table of this
// file) — not unconditionally.
func (e *Env) RDecorateForeignDecl() {
	pkg := e.Prog.Pkg(load.PkgDecorator)
	info := pkg.TypesInfo
	c := e.Sib.Ctx[load.PkgDecorator]
	fd := load.FuncDecl(pkg, "fileDecorator", "decorateObject")
	if fd == nil || fd.Body == nil {
		e.Run.Violation("R-EXTRAS", "decorateObject exists", "", "function missing")
		return
	}
	n := 0
	ast.Inspect(fd.Body, func(nd ast.Node) bool {
		ts, ok := nd.(*ast.TypeSwitchStmt)
		if !ok {
			return true
		}
		as, ok := ts.Assign.(*ast.AssignStmt)
		if !ok || len(as.Lhs) != 1 || len(as.Rhs) != 1 {
			return true
		}
		ta, ok := as.Rhs[0].(*ast.TypeAssertExpr)
		if !ok {
			return true
		}
		field := types.ExprString(ta.X) // o.Decl / o.Data
		bound := as.Lhs[0].(*ast.Ident).Name
		for _, cl := range ts.Body.List {
			cc := cl.(*ast.CaseClause)
			isNode := false
			for _, t := range cc.List {
				if p, tn := namedOf(info.TypeOf(t)); p == "go/ast" && tn == "Node" {
					isNode = true
				}
			}
			if !isNode {
				continue
			}
			ast.Inspect(cc, func(m ast.Node) bool {
				call, ok := m.(*ast.CallExpr)
				if !ok {
					return true
				}
				se, ok := call.Fun.(*ast.SelectorExpr)
				if !ok || se.Sel.Name != "decorateNode" {
					return true
				}
				n++
				// the statements of the clause that lead to the call: an if whose condition
				// mentions the bound node
				guarded := false
				ast.Inspect(cc, func(g ast.Node) bool {
					is, ok := g.(*ast.IfStmt)
					if !ok || !(is.Pos() <= call.Pos() && call.End() <= is.End()) || (is.Init != nil && is.Init.Pos() <= call.Pos() && call.End() <= is.Init.End()) {
						return true
					}
					ast.Inspect(is.Cond, func(x ast.Node) bool {
						if id, ok := x.(*ast.Ident); ok && id.Name == bound {
							guarded = true
						}
						return true
					})
					return true
				})
				// or an earlier `if <cond on the node> { return/break }` in the clause
				for _, st := range cc.Body {
					if st.End() > call.Pos() {
						break
					}
					if is, ok := st.(*ast.IfStmt); ok && len(is.Body.List) > 0 {
						leaves := false
						switch l := is.Body.List[len(is.Body.List)-1].(type) {
						case *ast.ReturnStmt:
							leaves = true
						case *ast.BranchStmt:
							leaves = l.Tok == token.BREAK
						}
						if leaves && strings.Contains(c.ExprStr(is.Cond), bound) {
							guarded = true
						}
					}
				}
				e.Run.Check("R-EXTRAS", fmt.Sprintf("decorateObject: the node behind %s is converted with this file's tables only when it belongs to this file", field), e.Prog.Pos(call.Pos()), guarded,
					"the declaring node is converted unconditionally: for an object declared in another file of the package (files resolved together with ast.NewPackage, decorated one by one with one Decorator) the node is built without its comments, line breaks and spacing (this file's tables know nothing about it) and cached; decorating its own file afterwards reuses the bare node — the result depends on the order of the DecorateFile calls")
				return true
			})
		}
		return true
	})
	e.Run.Analysed("R-EXTRAS conversions of declaring nodes in decorateObject", n)
}

// RNilFirst (R-OBJ): the four object/scope converters return nil for a nil argument before they
// touch it (every file's outermost scope has a nil Outer; an object's Decl can be nil).
func (e *Env) RNilFirst() {
	pkg := e.Prog.Pkg(load.PkgDecorator)
	c := e.Sib.Ctx[load.PkgDecorator]
	for _, sp := range [][2]string{{"fileDecorator", "decorateObject"}, {"fileDecorator", "decorateScope"}, {"FileRestorer", "restoreObject"}, {"FileRestorer", "restoreScope"}} {
		fd := load.FuncDecl(pkg, sp[0], sp[1])
		if fd == nil || fd.Body == nil || fd.Type.Params == nil || len(fd.Type.Params.List) == 0 || len(fd.Type.Params.List[0].Names) == 0 {
			continue
		}
		p := fd.Type.Params.List[0].Names[0].Name
		ok := false
		for _, st := range fd.Body.List {
			is, isIf := st.(*ast.IfStmt)
			if !isIf || len(is.Body.List) == 0 {
				continue
			}
			if _, isRet := is.Body.List[len(is.Body.List)-1].(*ast.ReturnStmt); !isRet {
				continue
			}
			cond := c.ExprStr(is.Cond)
			// the nil argument takes this branch (p == nil implies the condition), and the
			// condition is a test, not a constant (something makes it false)
			taken, d1 := unsatWith(p+" == nil", "!("+cond+")")
			taut, d2 := unsatWith("!("+cond+")", "true")
			if d1 && d2 && taken && !taut {
				ok = true
			}
		}
		e.Run.Check("R-OBJ", sp[1]+" returns nil for a nil argument", e.Prog.Pos(fd.Pos()), ok,
			"no top-level `if "+p+" == nil { return nil … }`: the outermost scope of every file has a nil Outer and many objects a nil Decl — the converter dereferences nil (or registers a nil key)")
	}
}
