package rules

import (
	"fmt"
	"go/ast"
	"go/constant"
	"go/parser"
	"go/token"
	"go/types"
	"regexp"
	"strings"

	"dstverif/load"
	"dstverif/schema"
)

// R-MERGE: mergeDecorations (decorator side) and applySpace/applyDecorations (restorer side) are
// the two halves of one state machine: "is the output currently directly after a line break?".
// A spacing slot merged into a decoration list must contribute exactly as many "\n" entries as
// applySpace would emit line breaks in the same state, and leave the state as the restorer's
// fresh-line marker would be left. Decided by constant propagation through the loop body of
// mergeDecorations for every (state, slot class) pair.

type mergeSlot struct {
	name   string
	kind   string // nil | decs | space
	empty  bool   // decs: len == 0
	endsNL bool   // decs: last element is "\n" or a // comment
	space  int64  // space: constant value
}

type mergeEval struct {
	c       *schema.Ctx
	info    *types.Info
	slot    mergeSlot
	ends    bool
	endsObj types.Object
	outObj  types.Object
	vObj    types.Object // loop value (and its type-switch shadows)
	nl      int          // "\n" entries appended
	decs    int          // times the slot's own list was appended
	cont    bool
	undec   string
	ints    map[types.Object]int64 // int locals (a line-break counter)
}

// intExpr: constants, tracked int locals, the slot's space value, + and -.
func (m *mergeEval) intExpr(x ast.Expr) (int64, bool) {
	x = ast.Unparen(x)
	if tv, ok := m.info.Types[x]; ok && tv.Value != nil && tv.Value.Kind() == constant.Int {
		return constant.Int64Val(tv.Value)
	}
	switch t := x.(type) {
	case *ast.Ident:
		if m.isV(t) && m.slot.kind == "space" {
			return m.slot.space, true
		}
		v, ok := m.ints[m.info.Uses[t]]
		return v, ok
	case *ast.BinaryExpr:
		a, ok1 := m.intExpr(t.X)
		b, ok2 := m.intExpr(t.Y)
		if ok1 && ok2 {
			switch t.Op {
			case token.ADD:
				return a + b, true
			case token.SUB:
				return a - b, true
			}
		}
	case *ast.CallExpr:
		if tv, ok := m.info.Types[t.Fun]; ok && tv.IsType() && len(t.Args) == 1 {
			return m.intExpr(t.Args[0])
		}
	}
	return 0, false
}

func (m *mergeEval) fail(f string, a ...interface{}) {
	if m.undec == "" {
		m.undec = fmt.Sprintf(f, a...)
	}
}

func (m *mergeEval) isV(x ast.Expr) bool {
	id, ok := x.(*ast.Ident)
	if !ok {
		return false
	}
	o := m.info.Uses[id]
	if o == nil {
		return false
	}
	return o == m.vObj || o.Name() == "v"
}

func (m *mergeEval) boolExpr(x ast.Expr) (bool, bool) {
	switch b := x.(type) {
	case *ast.ParenExpr:
		return m.boolExpr(b.X)
	case *ast.Ident:
		if m.info.Uses[b] == m.endsObj {
			return m.ends, true
		}
		if b.Name == "true" {
			return true, true
		}
		if b.Name == "false" {
			return false, true
		}
	case *ast.UnaryExpr:
		if b.Op == token.NOT {
			v, ok := m.boolExpr(b.X)
			return !v, ok
		}
	case *ast.BinaryExpr:
		s := m.c.ExprStr(b)
		switch s {
		case "len(v) == 0":
			return m.slot.empty, m.slot.kind == "decs"
		case "len(v) > 0", "len(v) != 0":
			return !m.slot.empty, m.slot.kind == "decs"
		}
		switch b.Op {
		case token.EQL, token.NEQ, token.LSS, token.GTR, token.LEQ, token.GEQ:
			l, ok1 := m.intExpr(b.X)
			r, ok2 := m.intExpr(b.Y)
			if ok1 && ok2 {
				switch b.Op {
				case token.EQL:
					return l == r, true
				case token.NEQ:
					return l != r, true
				case token.LSS:
					return l < r, true
				case token.GTR:
					return l > r, true
				case token.LEQ:
					return l <= r, true
				case token.GEQ:
					return l >= r, true
				}
			}
		}
		if b.Op == token.LOR || b.Op == token.LAND {
			// v[len(v)-1] == "\n" || strings.HasPrefix(v[len(v)-1], "//")
			if s == `v[len(v)-1] == "\n" || strings.HasPrefix(v[len(v)-1], "//")` || s == `strings.HasPrefix(v[len(v)-1], "//") || v[len(v)-1] == "\n"` {
				return m.slot.endsNL, m.slot.kind == "decs" && !m.slot.empty
			}
			a, ok1 := m.boolExpr(b.X)
			c, ok2 := m.boolExpr(b.Y)
			if ok1 && ok2 {
				if b.Op == token.LOR {
					return a || c, true
				}
				return a && c, true
			}
		}
	}
	return false, false
}

func (m *mergeEval) stmts(list []ast.Stmt) {
	for _, st := range list {
		if m.undec != "" || m.cont {
			return
		}
		m.stmt(st)
	}
}

func (m *mergeEval) stmt(st ast.Stmt) {
	switch x := st.(type) {
	case *ast.EmptyStmt:
	case *ast.BranchStmt:
		if x.Tok == token.CONTINUE {
			m.cont = true
			return
		}
		m.fail("%s", x.Tok)
	case *ast.DeclStmt:
		gd, ok := x.Decl.(*ast.GenDecl)
		if !ok || gd.Tok != token.VAR {
			m.fail("declaration")
			return
		}
		for _, sp := range gd.Specs {
			vs := sp.(*ast.ValueSpec)
			for i, nm := range vs.Names {
				o := m.info.Defs[nm]
				if b, isB := o.Type().Underlying().(*types.Basic); !isB || b.Info()&types.IsInteger == 0 {
					m.fail("declaration of %s", nm.Name)
					return
				}
				var val int64
				if i < len(vs.Values) {
					var okv bool
					if val, okv = m.intExpr(vs.Values[i]); !okv {
						m.fail("initialiser of %s", nm.Name)
						return
					}
				}
				m.ints[o] = val
			}
		}
	case *ast.IncDecStmt:
		id, ok := x.X.(*ast.Ident)
		if !ok {
			m.fail("inc/dec")
			return
		}
		o := m.info.Uses[id]
		if _, tracked := m.ints[o]; !tracked {
			m.fail("inc/dec of %s", id.Name)
			return
		}
		if x.Tok == token.INC {
			m.ints[o]++
		} else {
			m.ints[o]--
		}
	case *ast.ForStmt:
		if x.Init != nil {
			m.stmt(x.Init)
		}
		for iter := 0; ; iter++ {
			if iter > 8 {
				m.fail("loop does not terminate within 8 iterations")
				return
			}
			if x.Cond != nil {
				v, ok := m.boolExpr(x.Cond)
				if !ok {
					m.fail("loop condition %s", m.c.ExprStr(x.Cond))
					return
				}
				if !v {
					break
				}
			}
			m.stmts(x.Body.List)
			if m.undec != "" || m.cont {
				return
			}
			if x.Post != nil {
				m.stmt(x.Post)
			}
		}
	case *ast.IfStmt:
		if x.Init != nil {
			m.fail("if with init")
			return
		}
		v, ok := m.boolExpr(x.Cond)
		if !ok {
			m.fail("condition %s outside the analysable subset", m.c.ExprStr(x.Cond))
			return
		}
		if v {
			m.stmts(x.Body.List)
		} else {
			switch el := x.Else.(type) {
			case *ast.BlockStmt:
				m.stmts(el.List)
			case *ast.IfStmt:
				m.stmt(el)
			}
		}
	case *ast.AssignStmt:
		if len(x.Lhs) != 1 || len(x.Rhs) != 1 {
			m.fail("multi-assignment")
			return
		}
		lid, ok := x.Lhs[0].(*ast.Ident)
		if !ok {
			m.fail("store to %s", m.c.ExprStr(x.Lhs[0]))
			return
		}
		if x.Tok == token.DEFINE {
			if _, inlined := m.c.Subst[m.info.Defs[lid]]; inlined {
				return // hoisted sub-expression, seen through
			}
		}
		// int locals
		{
			o := m.info.Uses[lid]
			if o == nil {
				o = m.info.Defs[lid]
			}
			if o != nil {
				if b, isB := o.Type().Underlying().(*types.Basic); isB && b.Info()&types.IsInteger != 0 && b.Kind() != types.Bool {
					val, okv := m.intExpr(x.Rhs[0])
					if !okv {
						m.fail("value of %s", m.c.ExprStr(x.Rhs[0]))
						return
					}
					switch x.Tok {
					case token.ASSIGN, token.DEFINE:
						m.ints[o] = val
					case token.ADD_ASSIGN:
						m.ints[o] += val
					case token.SUB_ASSIGN:
						m.ints[o] -= val
					}
					return
				}
			}
		}
		switch m.info.Uses[lid] {
		case m.endsObj:
			v, ok := m.boolExpr(x.Rhs[0])
			if !ok {
				m.fail("value of %s", m.c.ExprStr(x.Rhs[0]))
				return
			}
			m.ends = v
		case m.outObj:
			call, ok := x.Rhs[0].(*ast.CallExpr)
			if !ok || m.c.ExprStr(call.Fun) != "append" || len(call.Args) < 2 {
				m.fail("out assigned from %s", m.c.ExprStr(x.Rhs[0]))
				return
			}
			if bid, ok := call.Args[0].(*ast.Ident); !ok || m.info.Uses[bid] != m.outObj {
				m.fail("append base is not out")
				return
			}
			if call.Ellipsis.IsValid() {
				if len(call.Args) == 2 && m.isV(call.Args[1]) && m.slot.kind == "decs" {
					m.decs++
					return
				}
				m.fail("spread append of %s", m.c.ExprStr(call.Args[1]))
				return
			}
			for _, a := range call.Args[1:] {
				if lit, ok := schema.StringLit(a); ok && lit == `\n` {
					m.nl++
				} else {
					m.fail("appended element %s", m.c.ExprStr(a))
					return
				}
			}
		default:
			m.fail("store to %s", lid.Name)
		}
	case *ast.SwitchStmt:
		if x.Init != nil || x.Tag == nil || !m.isV(x.Tag) || m.slot.kind != "space" {
			m.fail("switch shape")
			return
		}
		var def *ast.CaseClause
		for _, cl := range x.Body.List {
			cc := cl.(*ast.CaseClause)
			if cc.List == nil {
				def = cc
				continue
			}
			for _, v := range cc.List {
				tv := m.info.Types[v]
				if tv.Value == nil {
					m.fail("non-constant case")
					return
				}
				if cv, ok := constant.Int64Val(tv.Value); ok && cv == m.slot.space {
					m.stmts(cc.Body)
					return
				}
			}
		}
		if def != nil {
			m.stmts(def.Body)
		}
	case *ast.ExprStmt:
		if call, ok := x.X.(*ast.CallExpr); ok && m.c.ExprStr(call.Fun) == "panic" {
			m.fail("panics")
			return
		}
		m.fail("expression statement")
	default:
		m.fail("%T outside the analysable subset", st)
	}
}

func (e *Env) RMerge() {
	pkg := e.Prog.Pkg(load.PkgDecorator)
	c := e.Sib.Ctx[load.PkgDecorator]
	info := pkg.TypesInfo
	fd := load.FuncDecl(pkg, "", "mergeDecorations")
	if fd == nil || fd.Body == nil {
		e.Run.Violation("R-MERGE", "mergeDecorations exists", "", "function missing")
		return
	}
	pos := e.Prog.Pos(fd.Pos())
	// shape: var endsWithNewLine bool; var out []string; for _, v := range args { switch v := v.(type) {...} }; return out
	var endsObj, outObj types.Object
	var loop *ast.RangeStmt
	for _, st := range fd.Body.List {
		switch x := st.(type) {
		case *ast.DeclStmt:
			for _, sp := range x.Decl.(*ast.GenDecl).Specs {
				vs := sp.(*ast.ValueSpec)
				for _, nm := range vs.Names {
					o := info.Defs[nm]
					if b, ok := o.Type().Underlying().(*types.Basic); ok && b.Kind() == types.Bool {
						endsObj = o
					}
					if _, ok := o.Type().Underlying().(*types.Slice); ok {
						outObj = o
					}
				}
			}
		case *ast.RangeStmt:
			loop = x
		}
	}
	var ts *ast.TypeSwitchStmt
	if loop != nil && len(loop.Body.List) == 1 {
		ts, _ = loop.Body.List[0].(*ast.TypeSwitchStmt)
	}
	if endsObj == nil || outObj == nil || ts == nil {
		e.Run.Undecided("R-MERGE", "mergeDecorations shape", pos, "expected a state flag, an output slice and a range loop over a type switch")
		return
	}
	lastRet, okRet := fd.Body.List[len(fd.Body.List)-1].(*ast.ReturnStmt)
	okRet = okRet && len(lastRet.Results) == 1 && c.ExprStr(lastRet.Results[0]) == "out"
	e.Run.Check("R-MERGE", "mergeDecorations returns the merged list", pos, okRet, "last statement must be `return out`")
	arms := map[string]*ast.CaseClause{}
	for _, cl := range ts.Body.List {
		cc := cl.(*ast.CaseClause)
		if cc.List == nil {
			arms["default"] = cc
			continue
		}
		for _, t := range cc.List {
			arms[c.ExprStr(t)] = cc
		}
	}
	e.Run.Check("R-MERGE", "mergeDecorations: arms for nil, []string and SpaceType, panicking default", e.Prog.Pos(ts.Pos()),
		arms["nil"] != nil && arms["[]string"] != nil && arms["SpaceType"] != nil && arms["default"] != nil && c.PanicsOnly(arms["default"].Body), fmt.Sprint(sortedKeys(arms)))
	consts := map[string]int64{}
	for _, n := range []string{"None", "NewLine", "EmptyLine"} {
		if cst, ok := e.Prog.Pkg(load.PkgDst).Types.Scope().Lookup(n).(*types.Const); ok {
			consts[n], _ = constant.Int64Val(cst.Val())
		}
	}
	slots := []mergeSlot{
		{name: "nil", kind: "nil"},
		{name: "empty list", kind: "decs", empty: true},
		{name: "list ending in a comment/text", kind: "decs"},
		{name: "list ending in \\n or a // comment", kind: "decs", endsNL: true},
		{name: "None", kind: "space", space: consts["None"]},
		{name: "NewLine", kind: "space", space: consts["NewLine"]},
		{name: "EmptyLine", kind: "space", space: consts["EmptyLine"]},
	}
	n := 0
	for _, sl := range slots {
		for _, ends := range []bool{false, true} {
			arm := arms[map[string]string{"nil": "nil", "decs": "[]string", "space": "SpaceType"}[sl.kind]]
			if arm == nil {
				continue
			}
			m := &mergeEval{c: c, info: info, slot: sl, ends: ends, endsObj: endsObj, outObj: outObj, vObj: info.Implicits[arm], ints: map[types.Object]int64{}}
			c.ComputeSubst(arm.Body, nil)
			m.stmts(arm.Body)
			c.Subst = nil
			key := fmt.Sprintf("mergeDecorations(slot=%s, after-line-break=%v)", sl.name, ends)
			if m.undec != "" {
				e.Run.Undecided("R-MERGE", key, e.Prog.Pos(arm.Pos()), m.undec)
				continue
			}
			n++
			// reference: the restorer's state machine
			wantNL, wantDecs, wantEnds := 0, 0, ends
			switch sl.kind {
			case "decs":
				if !sl.empty {
					wantDecs = 1
					wantEnds = sl.endsNL // applyDecorations: marker set after "\n" / line comment, cleared by anything that advances the cursor
				}
			case "space":
				k := int(sl.space)
				if ends {
					k--
				}
				if k < 0 {
					k = 0
				}
				wantNL = k
				if sl.space > 0 {
					wantEnds = true // applySpace leaves the cursor directly after a line break (or it already was)
				}
			}
			ok := m.nl == wantNL && m.decs == wantDecs && m.ends == wantEnds
			e.Run.Check("R-MERGE", key+" agrees with the restorer's spacing state machine", e.Prog.Pos(arm.Pos()), ok,
				fmt.Sprintf("appends %d \"\\n\" and the list %d times, leaves after-line-break=%v; applySpace/applyDecorations in the same state: %d line breaks, list %d times, after-line-break=%v — the merged Start/X/End of a collapsed qualified identifier would render with a different number of line breaks than the selector it came from",
					m.nl, m.decs, m.ends, wantNL, wantDecs, wantEnds))
		}
	}
	e.Run.Analysed("merge state/slot classes", n)
	e.Run.Floor("R-MERGE", "state/slot classes evaluated", n, 14)
	e.mergeSlots(c)
}

// mergeSlots: decorateSelectorExpr feeds the selector's 11 inner slots to mergeDecorations in
// source order and appends the three merged lists to the identifier's Start, X and End. The
// slots are read as expressions over f and n (locals replaced by their definitions); the merge
// and the append may be inline or in a same-package helper that takes the target and the slots.
func (e *Env) mergeSlots(c *schema.Ctx) {
	pkg := e.Prog.Pkg(load.PkgDecorator)
	fd := load.FuncDecl(pkg, "fileDecorator", "decorateSelectorExpr")
	if fd == nil || fd.Body == nil {
		return
	}
	info := pkg.TypesInfo
	// the merge may live in a method that decorateSelectorExpr hands the address of the new
	// identifier's decorations to: f.h(&out.Decs, n)
	decsPrefix := ""
	ast.Inspect(fd.Body, func(n ast.Node) bool {
		call, ok := n.(*ast.CallExpr)
		if !ok || decsPrefix != "" {
			return true
		}
		fn := c.Callee(call)
		if fn == nil || fn.Pkg() != pkg.Types {
			return true
		}
		for _, a := range call.Args {
			if u, ok := a.(*ast.UnaryExpr); ok && u.Op == token.AND && strings.HasSuffix(c.ExprStr(u.X), ".Decs") {
				for _, d := range load.AllFuncDecls(pkg) {
					if info.Defs[d.Name] == types.Object(fn) && d.Body != nil {
						fd = d
						decsPrefix = ".Decs"
					}
				}
			}
		}
		return true
	})
	// single-expression helpers in a slot (f.pointDecorations(n, "Start") = f.decorations[n]["Start"])
	inlineCall := func(text string) string {
		x, err := parser.ParseExpr(text)
		if err != nil {
			return text
		}
		call, ok := x.(*ast.CallExpr)
		if !ok {
			return text
		}
		se, ok := call.Fun.(*ast.SelectorExpr)
		if !ok {
			return text
		}
		for _, d := range load.AllFuncDecls(pkg) {
			if d.Name.Name != se.Sel.Name || d.Recv == nil || d.Body == nil || len(d.Body.List) != 1 {
				continue
			}
			ret, ok := d.Body.List[0].(*ast.ReturnStmt)
			if !ok || len(ret.Results) != 1 {
				continue
			}
			out := types.ExprString(ret.Results[0])
			k := 0
			for _, p := range d.Type.Params.List {
				for _, nm := range p.Names {
					if k < len(call.Args) {
						out = regexp.MustCompile(`\b`+regexp.QuoteMeta(nm.Name)+`\b`).ReplaceAllString(out, types.ExprString(call.Args[k]))
					}
					k++
				}
			}
			if len(d.Recv.List) == 1 && len(d.Recv.List[0].Names) == 1 {
				out = regexp.MustCompile(`\b`+regexp.QuoteMeta(d.Recv.List[0].Names[0].Name)+`\.`).ReplaceAllString(out, types.ExprString(se.X)+".")
			}
			return out
		}
		return text
	}
	isAppend := func(call *ast.CallExpr) bool {
		fn := c.Callee(call)
		return fn != nil && fn.Name() == "Append" && schema.IsMethod(fn, load.PkgDst, "Decorations", "Append") && call.Ellipsis.IsValid() && len(call.Args) == 1
	}
	// parseAppend: "T.Append(mergeDecorations(a, b, c)...)" → T, [a b c], spread
	parseAppend := func(text string) (target string, slots []string, spread bool, ok bool) {
		x, err := parser.ParseExpr(text)
		if err != nil {
			return
		}
		call, isCall := x.(*ast.CallExpr)
		if !isCall || len(call.Args) != 1 {
			return
		}
		sel, isSel := call.Fun.(*ast.SelectorExpr)
		inner, isInner := call.Args[0].(*ast.CallExpr)
		if !isSel || !isInner {
			return
		}
		if id, isID := inner.Fun.(*ast.Ident); !isID || id.Name != "mergeDecorations" {
			return
		}
		for _, a := range inner.Args {
			slots = append(slots, types.ExprString(a))
		}
		return types.ExprString(sel.X), slots, inner.Ellipsis.IsValid(), true
	}
	// a slot that is still a bare local: declared zero and assigned once, at the top level of the
	// function or under the comma-ok of the very map lookup it indexes (a missing entry leaves the
	// zero value, which mergeDecorations skips like an empty list)
	undo := c.InstallReaching(fd)
	defer undo()
	localSrc := func(name string) string {
		var found []string
		ast.Inspect(fd.Body, func(n ast.Node) bool {
			as, ok := n.(*ast.AssignStmt)
			if !ok || as.Tok != token.ASSIGN || len(as.Lhs) != len(as.Rhs) {
				return true
			}
			for i, l := range as.Lhs {
				id, ok := l.(*ast.Ident)
				if !ok || id.Name != name {
					continue
				}
				if _, isVar := info.Uses[id].(*types.Var); !isVar {
					continue
				}
				rhs := c.ExprStr(as.Rhs[i])
				guard, okc := pathCond(c, fd.Body.List, as)
				// conditions that hold for the whole tail of the function (early returns above) are
				// not conditions of this assignment
				if base, okb := pathCond(c, fd.Body.List, fd.Body.List[len(fd.Body.List)-1]); okb && okc {
					var rest []string
					inBase := map[string]bool{}
					for _, p := range splitTop(base, " && ") {
						inBase[p] = true
					}
					for _, p := range splitTop(guard, " && ") {
						if !inBase[p] {
							rest = append(rest, p)
						}
					}
					guard = strings.Join(rest, " && ")
				}
				switch {
				case !okc:
					found = append(found, "?")
				case guard == "":
					found = append(found, rhs)
				case strings.HasPrefix(guard, "ok(") && strings.HasSuffix(guard, ")") && strings.HasPrefix(rhs, guard[3:len(guard)-1]+"["):
					found = append(found, rhs)
				default:
					found = append(found, "?")
				}
			}
			return true
		})
		if len(found) == 1 {
			return found[0]
		}
		return name
	}
	got := map[string]string{}
	dup := false
	record := func(target string, slots []string) {
		for i, sl := range slots {
			if !strings.ContainsAny(sl, ".[(") {
				slots[i] = localSrc(sl)
			}
			slots[i] = inlineCall(slots[i])
		}
		if dot := strings.Index(target, "."); dot >= 0 {
			target = target[dot:]
		}
		if decsPrefix != "" && !strings.HasPrefix(target, decsPrefix) {
			target = decsPrefix + target
		}
		if _, seen := got[target]; seen {
			dup = true
		}
		got[target] = strings.Join(slots, " | ")
	}
	ast.Inspect(fd.Body, func(n ast.Node) bool {
		call, ok := n.(*ast.CallExpr)
		if !ok {
			return true
		}
		if isAppend(call) {
			if t, slots, spread, ok := parseAppend(c.ExprStr(call)); ok && !spread {
				record(t, slots)
			}
			return true
		}
		// helper(&target, slots...)
		fn := c.Callee(call)
		if fn == nil || fn.Pkg() != pkg.Types || load.CanonName(fn) == "mergeDecorations" {
			return true
		}
		var h *ast.FuncDecl
		for _, d := range load.AllFuncDecls(pkg) {
			if info.Defs[d.Name] == types.Object(fn) {
				h = d
			}
		}
		sig, _ := fn.Type().(*types.Signature)
		if h == nil || h.Body == nil || sig == nil || !sig.Variadic() || sig.Recv() != nil || sig.Params().Len() != 2 || call.Ellipsis.IsValid() || len(call.Args) < 1 {
			return true
		}
		var appends []string
		undoH := c.InstallReaching(h)
		ast.Inspect(h.Body, func(m ast.Node) bool {
			if ac, ok := m.(*ast.CallExpr); ok && isAppend(ac) {
				appends = append(appends, c.ExprStr(ac))
			}
			return true
		})
		undoH()
		if len(appends) != 1 {
			return true
		}
		t, slots, spread, ok := parseAppend(appends[0])
		if !ok || !spread || len(slots) != 1 || t != sig.Params().At(0).Name() || slots[0] != sig.Params().At(1).Name() {
			return true
		}
		target := strings.TrimPrefix(c.ExprStr(call.Args[0]), "&")
		var args []string
		for _, a := range call.Args[1:] {
			args = append(args, c.ExprStr(a))
		}
		record(target, args)
		return true
	})
	want := map[string]string{
		".Decs.Start": `f.decorations[n]["Start"] | f.before[n.X] | f.decorations[n.X]["Start"]`,
		".Decs.X":     `f.decorations[n.X]["End"] | f.after[n.X] | f.decorations[n]["X"] | f.before[n.Sel] | f.decorations[n.Sel]["Start"]`,
		".Decs.End":   `f.decorations[n.Sel]["End"] | f.after[n.Sel] | f.decorations[n]["End"]`,
	}
	ok := !dup && len(got) == len(want)
	for k, v := range want {
		if got[k] != v {
			ok = false
		}
	}
	e.Run.Check("R-MERGE", "decorateSelectorExpr merges the selector's 11 inner slots in source order into the identifier's Start, X, End", e.Prog.Pos(fd.Pos()), ok,
		fmt.Sprintf("merged and appended: %v; expected %v (every decoration point and spacing of the selector, of X and of Sel, in the order they occur in the source)", got, want))
	// Before/After of the selector itself
	sp := map[string]string{}
	ast.Inspect(fd.Body, func(n ast.Node) bool {
		if as, ok := n.(*ast.AssignStmt); ok && len(as.Lhs) == 1 && len(as.Rhs) == 1 {
			l := c.ExprStr(as.Lhs[0])
			if decsPrefix != "" && (strings.HasSuffix(l, ".Before") || strings.HasSuffix(l, ".After")) && strings.Count(l, ".") == 1 {
				l = strings.Replace(l, ".", ".Decs.", 1)
			}
			if strings.HasSuffix(l, ".Decs.Before") || strings.HasSuffix(l, ".Decs.After") {
				sp[l[strings.Index(l, "."):]] = c.ExprStr(as.Rhs[0])
			}
		}
		return true
	})
	e.Run.Check("R-MERGE", "decorateSelectorExpr keeps the selector's own Before/After spacing", e.Prog.Pos(fd.Pos()), len(sp) == 2 && sp[".Decs.Before"] == "f.before[n]" && sp[".Decs.After"] == "f.after[n]", fmt.Sprint(sp))
}

// splitTop splits s at the separators that are not inside parentheses, brackets or quotes.
func splitTop(s, sep string) []string {
	var out []string
	depth, start := 0, 0
	inStr := false
	for i := 0; i < len(s); i++ {
		ch := s[i]
		switch {
		case ch == '"' && (i == 0 || s[i-1] != '\\'):
			inStr = !inStr
		case inStr:
		case ch == '(' || ch == '[' || ch == '{':
			depth++
		case ch == ')' || ch == ']' || ch == '}':
			depth--
		case depth == 0 && strings.HasPrefix(s[i:], sep):
			out = append(out, strings.TrimSpace(s[start:i]))
			start = i + len(sep)
			i += len(sep) - 1
		}
	}
	if strings.TrimSpace(s[start:]) != "" {
		out = append(out, strings.TrimSpace(s[start:]))
	}
	return out
}
