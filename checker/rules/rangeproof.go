package rules

import (
	"go/ast"
	"go/token"
	"go/types"
	"strconv"
	"strings"

	"golang.org/x/tools/go/packages"

	"dstverif/load"
	"dstverif/schema"
)

// rangeProof: a small syntactic prover for "0 <= e < len(S)" at an index expression, for the
// shapes the decorator's fragment code uses. Facts come from range keys, counting and while
// loops, path conditions (with short-circuit operands), definitions of locals and — for
// parameters — from the arguments at every call site of the package. A slice that is indexed is
// assumed not to be shortened while it is being walked (the fragment list only grows before
// link() runs; R-FRAG's own rules watch the writes).
type rangeProof struct {
	e     *Env
	pkg   *packages.Package
	info  *types.Info
	c     *schema.Ctx
	depth int
}

func (e *Env) idxInRange(pkg *packages.Package, fd *ast.FuncDecl, x *ast.IndexExpr) bool {
	rp := &rangeProof{e: e, pkg: pkg, info: pkg.TypesInfo, c: e.Sib.Ctx[pkg.PkgPath]}
	if rp.c == nil {
		return false
	}
	base := types.ExprString(x.X)
	return rp.geZero(fd, x.Index, x) && rp.ltLen(fd, x.Index, base, x)
}

func (rp *rangeProof) enter() bool {
	rp.depth++
	return rp.depth <= 24
}

func constInt(info *types.Info, x ast.Expr) (int64, bool) {
	if tv, ok := info.Types[x]; ok && tv.Value != nil {
		if v, err := strconv.ParseInt(tv.Value.ExactString(), 10, 64); err == nil {
			return v, true
		}
	}
	return 0, false
}

// enclosing loops of at in fd
func enclosingLoops(fd *ast.FuncDecl, at ast.Node) (ranges []*ast.RangeStmt, fors []*ast.ForStmt) {
	ast.Inspect(fd.Body, func(n ast.Node) bool {
		switch v := n.(type) {
		case *ast.RangeStmt:
			if v.Body.Pos() <= at.Pos() && at.End() <= v.Body.End() {
				ranges = append(ranges, v)
			}
		case *ast.ForStmt:
			if v.Body.Pos() <= at.Pos() && at.End() <= v.Body.End() {
				fors = append(fors, v)
			}
		}
		return true
	})
	return
}

// writes to the variable o in n: plain increments (o++, o += nonneg) and other writes
func (rp *rangeProof) writes(fd *ast.FuncDecl, n ast.Node, o types.Object) (incs []ast.Node, defs []ast.Expr, other bool) {
	ast.Inspect(n, func(m ast.Node) bool {
		switch v := m.(type) {
		case *ast.IncDecStmt:
			if id, ok := ast.Unparen(v.X).(*ast.Ident); ok && rp.info.Uses[id] == o {
				if v.Tok == token.INC {
					incs = append(incs, v)
				} else {
					other = true
				}
			}
		case *ast.AssignStmt:
			for i, l := range v.Lhs {
				id, ok := ast.Unparen(l).(*ast.Ident)
				if !ok || (rp.info.Uses[id] != o && rp.info.Defs[id] != o) {
					continue
				}
				switch {
				case (v.Tok == token.DEFINE || v.Tok == token.ASSIGN) && len(v.Lhs) == len(v.Rhs):
					defs = append(defs, v.Rhs[i])
				case (v.Tok == token.DEFINE || v.Tok == token.ASSIGN) && len(v.Rhs) == 1 && isTupleCall(rp.info, v.Rhs[0]):
					// the i-th result of a call: written as call[i], which no Go program contains
					defs = append(defs, &ast.IndexExpr{X: ast.Unparen(v.Rhs[0]), Index: &ast.BasicLit{Kind: token.INT, Value: strconv.Itoa(i)}})
				case v.Tok == token.ADD_ASSIGN && len(v.Rhs) == 1:
					if rp.geZero(fd, v.Rhs[0], v) {
						incs = append(incs, v)
					} else {
						other = true
					}
				default:
					other = true
				}
			}
		case *ast.UnaryExpr:
			if v.Op == token.AND {
				if id, ok := ast.Unparen(v.X).(*ast.Ident); ok && rp.info.Uses[id] == o {
					other = true
				}
			}
		case *ast.RangeStmt:
			for _, kv := range []ast.Expr{v.Key, v.Value} {
				if id, ok := kv.(*ast.Ident); ok && v.Tok == token.ASSIGN && rp.info.Uses[id] == o {
					other = true
				}
			}
		}
		return true
	})
	return
}

func (rp *rangeProof) paramIndex(fd *ast.FuncDecl, o types.Object) int {
	k := 0
	if fd.Type.Params == nil {
		return -1
	}
	for _, f := range fd.Type.Params.List {
		for _, nm := range f.Names {
			if rp.info.Defs[nm] == o {
				return k
			}
			k++
		}
	}
	return -1
}

// atCallSites: pred holds for the idx-th argument at every call of fd in the package (≥ 1 call)
func (rp *rangeProof) atCallSites(fd *ast.FuncDecl, idx int, pred func(g *ast.FuncDecl, arg ast.Expr, at ast.Node) bool) bool {
	target := rp.info.Defs[fd.Name]
	calls, good := 0, true
	for _, g := range load.AllFuncDecls(rp.pkg) {
		if g.Body == nil {
			continue
		}
		ast.Inspect(g.Body, func(n ast.Node) bool {
			call, ok := n.(*ast.CallExpr)
			if !ok || idx >= len(call.Args) {
				return true
			}
			if fn := calleeFunc(rp.info, call); fn == nil || types.Object(fn) != target {
				return true
			}
			calls++
			if !pred(g, call.Args[idx], call) {
				good = false
			}
			return true
		})
	}
	return calls > 0 && good
}

func (rp *rangeProof) geZero(fd *ast.FuncDecl, x ast.Expr, at ast.Node) bool {
	if !rp.enter() {
		return false
	}
	defer func() { rp.depth-- }()
	x = ast.Unparen(x)
	if v, ok := constInt(rp.info, x); ok {
		return v >= 0
	}
	switch t := x.(type) {
	case *ast.CallExpr:
		if id, ok := t.Fun.(*ast.Ident); ok && id.Name == "len" {
			return true
		}
		if tv, ok := rp.info.Types[t.Fun]; ok && tv.IsType() && len(t.Args) == 1 {
			return rp.geZero(fd, t.Args[0], at)
		}
	case *ast.BinaryExpr:
		switch t.Op {
		case token.ADD:
			return rp.geZero(fd, t.X, at) && rp.geZero(fd, t.Y, at)
		case token.SUB:
			c, ok := constInt(rp.info, t.Y)
			if !ok || c < 0 {
				return false
			}
			if c == 0 {
				return rp.geZero(fd, t.X, at)
			}
			return rp.geZero(fd, t.X, at) && rp.atLeast(fd, t.X, c, at)
		}
	case *ast.IndexExpr:
		if call, k, ok := tupleResult(rp.info, t); ok {
			return rp.resultGeZero(call, k)
		}
	case *ast.Ident:
		o := rp.info.Uses[t]
		if o == nil {
			o = rp.info.Defs[t]
		}
		if o == nil {
			return false
		}
		ranges, fors := enclosingLoops(fd, at)
		for _, rs := range ranges {
			if kid, ok := rs.Key.(*ast.Ident); ok && rp.info.Defs[kid] == o {
				if _, isMap := rp.info.TypeOf(rs.X).Underlying().(*types.Map); !isMap {
					return true
				}
			}
		}
		_ = fors
		if idx := rp.paramIndex(fd, o); idx >= 0 {
			_, _, other := rp.writes(fd, fd.Body, o)
			if other {
				return false
			}
			return rp.atCallSites(fd, idx, func(g *ast.FuncDecl, arg ast.Expr, site ast.Node) bool { return rp.geZero(g, arg, site) })
		}
		// a local: every definition is non-negative, every other write an increment
		_, defs, other := rp.writes(fd, fd.Body, o)
		if other || len(defs) == 0 {
			return false
		}
		for _, d := range defs {
			if !rp.geZero(fd, d, at) {
				return false
			}
		}
		return true
	}
	return false
}

// atLeast: the path condition at `at` says k >= c
func (rp *rangeProof) atLeast(fd *ast.FuncDecl, k ast.Expr, c int64, at ast.Node) bool {
	ks := rp.c.ExprStr(k)
	body := fd.Body.List
	ast.Inspect(fd.Body, func(m ast.Node) bool {
		if fl, ok := m.(*ast.FuncLit); ok && fl.Body.Pos() <= at.Pos() && at.End() <= fl.Body.End() {
			body = fl.Body.List
		}
		return true
	})
	cond, ok := pathCond(rp.c, body, at)
	if !ok {
		return false
	}
	// short-circuit operands that enclose at
	ast.Inspect(fd.Body, func(m ast.Node) bool {
		be, ok := m.(*ast.BinaryExpr)
		if !ok || (be.Op != token.LAND && be.Op != token.LOR) || !(be.Y.Pos() <= at.Pos() && at.End() <= be.Y.End()) {
			return true
		}
		left := rp.c.ExprStr(be.X)
		if be.Op == token.LOR {
			left = schema.NegGuard("(" + left + ")")
		}
		if cond == "" {
			cond = left
		} else {
			cond += " && " + left
		}
		return true
	})
	want := map[string]bool{
		ks + " > " + strconv.FormatInt(c-1, 10): true, ks + " >= " + strconv.FormatInt(c, 10): true,
		strconv.FormatInt(c-1, 10) + " < " + ks: true, strconv.FormatInt(c, 10) + " <= " + ks: true,
	}
	if c == 1 {
		want[ks+" != 0"] = true
		want["0 != "+ks] = true
	}
	for _, cj := range flatConjuncts(cond) {
		if want[cj] {
			return true
		}
	}
	return false
}

// flatConjuncts: the conjuncts of a condition, with negated disjunctions and comparisons pushed
// inwards (!(a || b) gives !a, !b; !(k == 0) gives k != 0).
func flatConjuncts(cond string) []string {
	g := parseGuard(cond)
	if !g.ok || g.expr == nil {
		return nil
	}
	var out []string
	var walk func(e ast.Expr, neg bool)
	walk = func(e ast.Expr, neg bool) {
		e = ast.Unparen(e)
		switch v := e.(type) {
		case *ast.UnaryExpr:
			if v.Op == token.NOT {
				walk(v.X, !neg)
				return
			}
		case *ast.BinaryExpr:
			if (v.Op == token.LAND && !neg) || (v.Op == token.LOR && neg) {
				walk(v.X, neg)
				walk(v.Y, neg)
				return
			}
			if v.Op == token.LAND || v.Op == token.LOR {
				return // a disjunction: no single fact
			}
			op := v.Op
			if neg {
				flip := map[token.Token]token.Token{token.EQL: token.NEQ, token.NEQ: token.EQL, token.LSS: token.GEQ, token.GEQ: token.LSS, token.GTR: token.LEQ, token.LEQ: token.GTR}
				f, ok := flip[op]
				if !ok {
					return
				}
				op = f
			}
			out = append(out, types.ExprString(v.X)+" "+op.String()+" "+types.ExprString(v.Y))
			return
		}
		if !neg {
			out = append(out, types.ExprString(e))
		}
	}
	walk(g.expr, false)
	return out
}

func isLenOf(x ast.Expr, base string) bool {
	call, ok := ast.Unparen(x).(*ast.CallExpr)
	if !ok || len(call.Args) != 1 {
		return false
	}
	id, ok := call.Fun.(*ast.Ident)
	return ok && id.Name == "len" && types.ExprString(call.Args[0]) == base
}

// whileBelowLen: at lies in the body of `for v < len(base) [&& …] { … }` (any init/post) and v is
// not written in that body before at
func (rp *rangeProof) whileBelowLen(fd *ast.FuncDecl, o types.Object, base string, at ast.Node) bool {
	_, fors := enclosingLoops(fd, at)
	for _, fs := range fors {
		if fs.Cond == nil {
			continue
		}
		below := false
		var conj func(e ast.Expr)
		conj = func(e ast.Expr) {
			e = ast.Unparen(e)
			if be, ok := e.(*ast.BinaryExpr); ok {
				if be.Op == token.LAND {
					conj(be.X)
					conj(be.Y)
					return
				}
				if id, ok := ast.Unparen(be.X).(*ast.Ident); ok && be.Op == token.LSS && rp.info.Uses[id] == o && isLenOf(be.Y, base) {
					below = true
				}
			}
		}
		conj(fs.Cond)
		if !below {
			continue
		}
		early := false
		ast.Inspect(fs.Body, func(m ast.Node) bool {
			if m == nil || m.Pos() >= at.Pos() {
				return m != nil && m.Pos() < at.Pos()
			}
			switch v := m.(type) {
			case *ast.IncDecStmt:
				if id, ok := ast.Unparen(v.X).(*ast.Ident); ok && rp.info.Uses[id] == o {
					early = true
				}
			case *ast.AssignStmt:
				for _, l := range v.Lhs {
					if id, ok := ast.Unparen(l).(*ast.Ident); ok && rp.info.Uses[id] == o {
						early = true
					}
				}
			}
			return true
		})
		if !early {
			return true
		}
	}
	return false
}

func (rp *rangeProof) ltLen(fd *ast.FuncDecl, x ast.Expr, base string, at ast.Node) bool {
	if !rp.enter() {
		return false
	}
	defer func() { rp.depth-- }()
	x = ast.Unparen(x)
	switch t := x.(type) {
	case *ast.BinaryExpr:
		if t.Op == token.SUB {
			if c, ok := constInt(rp.info, t.Y); ok && c >= 1 {
				return rp.leLen(fd, t.X, base, at)
			}
		}
	case *ast.Ident:
		o := rp.info.Uses[t]
		if o == nil {
			return false
		}
		ranges, _ := enclosingLoops(fd, at)
		for _, rs := range ranges {
			if kid, ok := rs.Key.(*ast.Ident); ok && rp.info.Defs[kid] == o && types.ExprString(rs.X) == base {
				return true
			}
		}
		if fs := countingLoop(rp.info, fd, o, at); fs != nil {
			if se, ok := mustParseExpr(base).(*ast.SelectorExpr); ok {
				_ = se
			}
			if fs.Cond != nil && strings.Contains(types.ExprString(fs.Cond), t.Name+" < len("+base+")") {
				return true
			}
		}
		if rp.whileBelowLen(fd, o, base, at) {
			return true
		}
		// the path condition says x < len(base)
		body := fd.Body.List
		if cond, ok := pathCond(rp.c, body, at); ok {
			for _, cj := range flatConjuncts(cond) {
				if cj == t.Name+" < len("+base+")" || cj == "len("+base+") > "+t.Name {
					return true
				}
			}
		}
		if idx := rp.paramIndex(fd, o); idx >= 0 {
			if _, _, other := rp.writes(fd, fd.Body, o); other {
				return false
			}
			incs, _, _ := rp.writes(fd, fd.Body, o)
			if len(incs) > 0 {
				return false
			}
			return rp.atCallSites(fd, idx, func(g *ast.FuncDecl, arg ast.Expr, site ast.Node) bool { return rp.ltLen(g, arg, base, site) })
		}
	}
	return false
}

// leLen: x <= len(base)
func (rp *rangeProof) leLen(fd *ast.FuncDecl, x ast.Expr, base string, at ast.Node) bool {
	if !rp.enter() {
		return false
	}
	defer func() { rp.depth-- }()
	x = ast.Unparen(x)
	if isLenOf(x, base) || rp.ltLen(fd, x, base, at) {
		return true
	}
	switch t := x.(type) {
	case *ast.BinaryExpr:
		if t.Op == token.ADD {
			if c, ok := constInt(rp.info, t.Y); ok && c == 1 {
				return rp.ltLen(fd, t.X, base, at)
			}
			if c, ok := constInt(rp.info, t.X); ok && c == 1 {
				return rp.ltLen(fd, t.Y, base, at)
			}
		}
	case *ast.Ident:
		o := rp.info.Uses[t]
		if o == nil {
			return false
		}
		if idx := rp.paramIndex(fd, o); idx >= 0 {
			incs, _, other := rp.writes(fd, fd.Body, o)
			if other || len(incs) > 0 {
				return false
			}
			return rp.atCallSites(fd, idx, func(g *ast.FuncDecl, arg ast.Expr, site ast.Node) bool { return rp.leLen(g, arg, base, site) })
		}
		// a local: defined as something <= len, and incremented only where it is < len (in the
		// body of a loop whose condition says so, before any other increment)
		incs, defs, other := rp.writes(fd, fd.Body, o)
		if other || len(defs) == 0 {
			return false
		}
		for _, d := range defs {
			if !rp.leLen(fd, d, base, d) {
				return false
			}
		}
		for _, inc := range incs {
			if _, isIncDec := inc.(*ast.IncDecStmt); !isIncDec {
				return false
			}
			if !rp.whileBelowLen(fd, o, base, inc) {
				return false
			}
		}
		return true
	}
	return false
}

func isTupleCall(info *types.Info, x ast.Expr) bool {
	call, ok := ast.Unparen(x).(*ast.CallExpr)
	if !ok {
		return false
	}
	_, isTuple := info.TypeOf(call).(*types.Tuple)
	return isTuple
}

// tupleResult recognises the synthetic call[i] that writes() uses for the i-th result of a call.
func tupleResult(info *types.Info, x *ast.IndexExpr) (*ast.CallExpr, int, bool) {
	call, ok := x.X.(*ast.CallExpr)
	if !ok || !isTupleCall(info, call) {
		return nil, 0, false
	}
	lit, ok := x.Index.(*ast.BasicLit)
	if !ok {
		return nil, 0, false
	}
	k, err := strconv.Atoi(lit.Value)
	return call, k, err == nil
}

// resultGeZero: the k-th result of the called function of this package is non-negative at every
// return (a bare return gives the named result, whose writes are then looked at like a local's).
func (rp *rangeProof) resultGeZero(call *ast.CallExpr, k int) bool {
	fn := calleeFunc(rp.info, call)
	if fn == nil || fn.Pkg() != rp.pkg.Types {
		return false
	}
	var decl *ast.FuncDecl
	for _, d := range load.AllFuncDecls(rp.pkg) {
		if rp.info.Defs[d.Name] == types.Object(fn) {
			decl = d
		}
	}
	if decl == nil || decl.Body == nil || decl.Type.Results == nil {
		return false
	}
	var named []*ast.Ident
	for _, f := range decl.Type.Results.List {
		named = append(named, f.Names...)
	}
	good, n := true, 0
	var visit func(nd ast.Node) bool
	visit = func(nd ast.Node) bool {
		switch v := nd.(type) {
		case *ast.FuncLit:
			return false
		case *ast.ReturnStmt:
			n++
			switch {
			case len(v.Results) == 0:
				if k >= len(named) || !rp.geZero(decl, named[k], v) {
					good = false
				}
			case k < len(v.Results):
				if !rp.geZero(decl, v.Results[k], v) {
					good = false
				}
			default:
				good = false // return f() forwarding a tuple
			}
		}
		return true
	}
	ast.Inspect(decl.Body, visit)
	return good && n > 0
}
