package rules

import (
	"fmt"
	"go/token"
	"strings"

	"dstverif/schema"
)

// Elem is one element of the node schema as seen by one sibling: decoration point, token,
// string, bad range, child, list or map.
type Elem struct {
	Kind     string // D T S B C L M
	Name     string // D: decoration name
	Field    string // C/L/M: field path; S: value field
	PosField string // T/S/B: position field ("" = none)
	Token    string // T: token expression (ast-side normal form)
	Guard    string // ast-side normal form
	Else     bool
	Src      string // D: source path (restore: Decs.X or Type.Decs.X)
	End      bool
	ValField string // T: token value field stored (out.Tok = n.Tok)
	NoPosAlt string // T: guard under which the position is NoPos
	Pos      token.Pos
	Orphans  []string // primitive events near this element that could not be grouped
}

func (e Elem) Key() string {
	switch e.Kind {
	case "D":
		return "D:" + e.Name
	case "T":
		return "T:" + e.Token + "@" + e.PosField
	case "S":
		return "S:" + e.Field + "@" + e.PosField
	case "B":
		return "B@" + e.PosField
	default:
		return e.Kind + ":" + e.Field
	}
}

func (e Elem) String() string {
	s := e.Key()
	if e.Guard != "" {
		if e.Else {
			s += " unless(" + e.Guard + ")"
		} else {
			s += " if(" + e.Guard + ")"
		}
	}
	return s
}

// valueMap: dst value field -> defining ast expression, from decorate's Value events of one
// case. A conditional `if c { out.F = true }` defines F ≡ c.
type valueMap map[string]string

func (e *Env) decorateValues(tn string) valueMap {
	vm := valueMap{}
	cs := e.Sib.ByName["decorate"].Cases[tn]
	if cs == nil {
		return vm
	}
	for _, ev := range cs.Events {
		if ev.Kind != schema.KValue {
			continue
		}
		ex := ev.Expr
		if ev.Guard != "" && ex == "true" && !ev.Else {
			ex = "(" + ev.Guard + ")"
		} else if ev.Guard != "" {
			continue
		}
		vm[ev.Field] = ex
	}
	return vm
}

// toAst translates a dst-side normalised expression to the ast side through the value map.
// Conversions between twin named types (ChanDir(n.Dir)) are treated as identity here; the twin
// constants are compared by R-SYM.
func (vm valueMap) toAst(s string) string {
	return substPaths(s, func(parts []string) (string, int) {
		for n := len(parts); n >= 1; n-- {
			if def, ok := vm[strings.Join(parts[:n], ".")]; ok {
				if m := twinConvRe.FindStringSubmatch(def); m != nil {
					return m[2], n
				}
				if def == "true" {
					return "true", n
				}
				if strings.ContainsAny(def, " ") && !(strings.HasPrefix(def, "(") && strings.HasSuffix(def, ")") && balanced(def[1:len(def)-1])) {
					return "(" + def + ")", n
				}
				return def, n
			}
		}
		return "", 0
	})
}

// restoreElems groups restore's primitive events into schema elements, treating the case body
// as if every guarded statement executed (used by rules that only need the order of elements).
func (e *Env) restoreElems(cs *schema.Case, vm valueMap) (elems []Elem, problems []string) {
	return e.restoreElemsUnder(cs, vm, nil)
}

// restoreElemsUnder first selects the events whose guards hold under the valuation (nil = all),
// i.e. one straight-line execution of the case, and then groups position stores, value copies
// and cursor advances into tokens, strings and bad ranges.
func (e *Env) restoreElemsUnder(cs *schema.Case, vm valueMap, val map[string]bool) (elems []Elem, problems []string) {
	tr := func(s string) string { return vm.toAst(s) }
	var evs []schema.Event
	for _, ev := range cs.Events {
		if val != nil && ev.Guard != "" {
			g := parseGuard(normGuard(tr(ev.Guard)))
			if g.ok && !evalGuard(g.expr, val) {
				continue
			}
		}
		evs = append(evs, ev)
	}
	used := make([]bool, len(evs))
	guardOf := func(ev schema.Event) string {
		if val != nil {
			return "" // already selected
		}
		return tr(ev.Guard)
	}
	for i, ev := range evs {
		switch ev.Kind {
		case schema.KDec:
			used[i] = true
			elems = append(elems, Elem{Kind: "D", Name: ev.Name, Src: ev.Src, End: ev.End, Guard: tr(ev.Guard), Pos: ev.Pos})
		case schema.KChild:
			used[i] = true
			elems = append(elems, Elem{Kind: "C", Field: ev.Field, Src: ev.Src, Guard: guardOf(ev), Pos: ev.Pos})
		case schema.KList:
			used[i] = true
			elems = append(elems, Elem{Kind: "L", Field: ev.Field, Src: ev.Src, Guard: guardOf(ev), Pos: ev.Pos})
		case schema.KMap:
			used[i] = true
			if ev.Expr == schema.KChild {
				elems = append(elems, Elem{Kind: "M", Field: ev.Field, Src: ev.Src, Guard: guardOf(ev), Pos: ev.Pos})
			}
		case schema.KAdvance:
			used[i] = true
			switch {
			case ev.Token != "":
				tok := tr(ev.Token)
				if val != nil {
					tok = resolveToken(tok, val)
				}
				el := Elem{Kind: "T", Token: tok, Guard: guardOf(ev), Pos: ev.Pos}
				for j := i - 1; j >= 0 && !used[j]; j-- {
					p := evs[j]
					if p.Kind == schema.KPosStore {
						used[j] = true
						if el.PosField != "" && el.PosField != p.Field {
							problems = append(problems, fmt.Sprintf("token %s stores two positions (%s, %s)", ev.Token, p.Field, el.PosField))
						}
						el.PosField = p.Field
						if p.Expr == "NoPos" {
							el.NoPosAlt = "NoPos"
						}
						continue
					}
					if p.Kind == schema.KValue && p.Src != "" && "n."+p.Src == ev.Token {
						used[j] = true
						el.ValField = p.Field
						continue
					}
					break
				}
				elems = append(elems, el)
			case ev.Src != "":
				el := Elem{Kind: "S", Field: ev.Src, Guard: guardOf(ev), Pos: ev.Pos}
				for j := i - 1; j >= 0 && !used[j]; j-- {
					p := evs[j]
					if p.Kind == schema.KPosStore && p.Expr == "cursor" {
						used[j] = true
						el.PosField = p.Field
						continue
					}
					if p.Kind == schema.KValue && p.Src == ev.Src {
						used[j] = true
						el.ValField = p.Field
						continue
					}
					if p.Kind == schema.KLiteral && p.Src == ev.Src {
						used[j] = true
						el.Token = "literal"
						continue
					}
					if p.Kind == schema.KValue || p.Kind == schema.KOther {
						continue // unrelated value copies (out.Kind = n.Kind) may sit in between
					}
					break
				}
				elems = append(elems, el)
			case strings.HasPrefix(ev.Expr, "n."):
				el := Elem{Kind: "B", Field: strings.TrimPrefix(ev.Expr, "n."), Guard: guardOf(ev), Pos: ev.Pos}
				if i > 0 && !used[i-1] && evs[i-1].Kind == schema.KPosStore && evs[i-1].Expr == "cursor" {
					used[i-1] = true
					el.PosField = evs[i-1].Field
				}
				if i+1 < len(evs) && evs[i+1].Kind == schema.KPosStore && evs[i+1].Expr == "cursor" {
					used[i+1] = true
					el.Src = evs[i+1].Field
				}
				elems = append(elems, el)
			default:
				problems = append(problems, "cursor changed in an unrecognised way: r.cursor "+ev.Expr)
			}
		}
	}
	for i, ev := range evs {
		if used[i] {
			continue
		}
		switch ev.Kind {
		case schema.KPosStore:
			// `if token exists { out.F = cursor; advance } else { out.F = cursor }`: the position
			// of an omitted token is that of what follows it (go/parser does the same for an
			// implicit semicolon); nothing is emitted on this branch
			if ev.Guard != "" && ev.Expr == "cursor" {
				same := false
				for k, o := range cs.Events {
					if o.Kind == schema.KPosStore && o.Field == ev.Field && o.Guard != "" && (schema.NegGuard(o.Guard) == ev.Guard || schema.NegGuard(ev.Guard) == o.Guard) &&
						k+1 < len(cs.Events) && cs.Events[k+1].Kind == schema.KAdvance && cs.Events[k+1].Guard == o.Guard {
						same = true
					}
				}
				if same {
					continue
				}
			}
			problems = append(problems, fmt.Sprintf("position store out.%s = %s is not directly followed by the cursor advance of its token", ev.Field, ev.Expr))
		case schema.KLiteral:
			problems = append(problems, fmt.Sprintf("applyLiteral(n.%s) is not followed by the string event for the same field", ev.Src))
		case schema.KOpaque:
			problems = append(problems, "statement with tracked effects in an unrecognised shape: "+ev.Expr)
		}
	}
	return elems, problems
}

// eventAtoms collects the guard atoms of a case's events (translated to the ast side).
func (e *Env) eventAtoms(cs *schema.Case, vm valueMap, into map[string]bool) {
	for _, ev := range cs.Events {
		if ev.Guard != "" {
			if g := parseGuard(normGuard(vm.toAst(ev.Guard))); g.ok && g.expr != nil {
				collectAtoms(g.expr, into)
			}
		}
		if ev.Token != "" {
			tokenAtoms(vm.toAst(ev.Token), into)
		}
	}
}

// flatten evaluates an element list under a guard valuation: elements whose guard is false are
// dropped, conditional tokens are resolved. ignoreDecGuards: the fragger may guard a point (`Use`).
func flatten(elems []Elem, val map[string]bool, ignoreDecGuards bool) []string {
	var out []string
	for _, el := range elems {
		if val != nil && !(el.Kind == "D" && ignoreDecGuards) {
			g := parseGuard(normGuard(el.Guard))
			if g.ok && !evalGuard(g.expr, val) {
				continue
			}
		}
		k := el
		if val != nil {
			k.Token = resolveToken(el.Token, val)
		}
		out = append(out, k.Key())
	}
	return out
}

func elemAtoms(elems []Elem, into map[string]bool) {
	for _, el := range elems {
		if g := parseGuard(normGuard(el.Guard)); g.ok && g.expr != nil {
			collectAtoms(g.expr, into)
		}
		tokenAtoms(el.Token, into)
	}
}

// fraggerElems maps fragger events to elements.
func (e *Env) fraggerElems(cs *schema.Case) (elems []Elem, problems []string) {
	for _, ev := range cs.Events {
		switch ev.Kind {
		case schema.KDec:
			elems = append(elems, Elem{Kind: "D", Name: ev.Name, Src: ev.Expr, Guard: ev.Guard, Pos: ev.Pos})
		case schema.KTok:
			pf := ev.Field
			if pf == "NoPos" {
				pf = ""
			}
			elems = append(elems, Elem{Kind: "T", Token: ev.Token, PosField: pf, Guard: ev.Guard, Pos: ev.Pos})
		case schema.KStr:
			pf := ev.Field
			if pf == "NoPos" {
				pf = ""
			}
			elems = append(elems, Elem{Kind: "S", Field: ev.Src, PosField: pf, Guard: ev.Guard, Pos: ev.Pos})
		case schema.KBad:
			elems = append(elems, Elem{Kind: "B", PosField: ev.Field, Token: ev.Expr, Guard: ev.Guard, Pos: ev.Pos})
		case schema.KChild:
			elems = append(elems, Elem{Kind: "C", Field: ev.Field, Src: ev.Src, Guard: ev.Guard, Pos: ev.Pos})
		case schema.KList:
			elems = append(elems, Elem{Kind: "L", Field: ev.Field, Src: ev.Src, Guard: ev.Guard, Pos: ev.Pos})
		case schema.KMap:
			elems = append(elems, Elem{Kind: "M", Field: ev.Field, Src: ev.Src, Guard: ev.Guard, Pos: ev.Pos})
		case schema.KOpaque:
			problems = append(problems, "statement with tracked effects in an unrecognised shape: "+ev.Expr)
		}
	}
	return
}
