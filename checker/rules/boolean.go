package rules

import (
	"go/ast"
	"go/parser"
	"go/token"
	"go/types"
	"golang.org/x/tools/go/ast/astutil"
	"regexp"
	"sort"
	"strings"
)

// Small propositional layer over normalised guard strings: guards are compared by truth table
// over their atoms, so folding, splitting, inverting and re-nesting of conditions is seen through.
// Atoms are maximal sub-expressions that are not !, &&, ||; `a == b` is the negation of the atom
// `a != b`.

type guardExpr struct {
	ok   bool
	expr ast.Expr
}

func parseGuard(s string) guardExpr {
	s = strings.TrimSpace(s)
	if s == "" {
		return guardExpr{ok: true}
	}
	e, err := parser.ParseExpr(s)
	if err != nil {
		return guardExpr{}
	}
	return guardExpr{ok: true, expr: canonParens(e)}
}

func atomKey(e ast.Expr) (string, bool) {
	// returns canonical atom and whether it is negated
	for {
		p, ok := e.(*ast.ParenExpr)
		if !ok {
			break
		}
		e = p.X
	}
	// == and != are symmetric: operands in lexical order
	if be, ok := e.(*ast.BinaryExpr); ok && (be.Op == token.EQL || be.Op == token.NEQ) {
		x, y := be.X, be.Y
		if types.ExprString(y) < types.ExprString(x) {
			x, y = y, x
		}
		return types.ExprString(&ast.BinaryExpr{X: x, Op: token.NEQ, Y: y}), be.Op == token.EQL
	}
	for {
		p, ok := e.(*ast.ParenExpr)
		if !ok {
			break
		}
		e = p.X
	}
	// order comparisons share one atom: a < b;  a >= b is its negation;  a > b is b < a;  a <= b is !(b < a)
	if be, ok := e.(*ast.BinaryExpr); ok {
		switch be.Op {
		case token.LSS:
			return types.ExprString(&ast.BinaryExpr{X: be.X, Op: token.LSS, Y: be.Y}), false
		case token.GEQ:
			return types.ExprString(&ast.BinaryExpr{X: be.X, Op: token.LSS, Y: be.Y}), true
		case token.GTR:
			return types.ExprString(&ast.BinaryExpr{X: be.Y, Op: token.LSS, Y: be.X}), false
		case token.LEQ:
			return types.ExprString(&ast.BinaryExpr{X: be.Y, Op: token.LSS, Y: be.X}), true
		}
	}
	return types.ExprString(e), false
}

func collectAtoms(e ast.Expr, into map[string]bool) {
	switch v := e.(type) {
	case nil:
	case *ast.ParenExpr:
		collectAtoms(v.X, into)
	case *ast.UnaryExpr:
		if v.Op == token.NOT {
			collectAtoms(v.X, into)
			return
		}
		k, _ := atomKey(e)
		into[k] = true
	case *ast.BinaryExpr:
		if v.Op == token.LAND || v.Op == token.LOR {
			collectAtoms(v.X, into)
			collectAtoms(v.Y, into)
			return
		}
		k, _ := atomKey(e)
		into[k] = true
	case *ast.Ident:
		if v.Name == "true" || v.Name == "false" {
			return
		}
		into[v.Name] = true
	default:
		k, _ := atomKey(e)
		into[k] = true
	}
}

func evalGuard(e ast.Expr, val map[string]bool) bool {
	switch v := e.(type) {
	case nil:
		return true
	case *ast.ParenExpr:
		return evalGuard(v.X, val)
	case *ast.UnaryExpr:
		if v.Op == token.NOT {
			return !evalGuard(v.X, val)
		}
	case *ast.BinaryExpr:
		if v.Op == token.LAND {
			return evalGuard(v.X, val) && evalGuard(v.Y, val)
		}
		if v.Op == token.LOR {
			return evalGuard(v.X, val) || evalGuard(v.Y, val)
		}
	case *ast.Ident:
		if v.Name == "true" {
			return true
		}
		if v.Name == "false" {
			return false
		}
	}
	k, neg := atomKey(e)
	return val[k] != neg
}

var condTokRe = regexp.MustCompile(`^cond\((.*) \? (\S+) : (\S+)\)$`)

// resolveToken evaluates a (possibly conditional) token expression under a valuation.
func resolveToken(tok string, val map[string]bool) string {
	m := condTokRe.FindStringSubmatch(tok)
	if m == nil {
		return tok
	}
	g := parseGuard(m[1])
	if !g.ok {
		return tok
	}
	if evalGuard(g.expr, val) {
		return m[2]
	}
	return m[3]
}

func tokenAtoms(tok string, into map[string]bool) {
	if m := condTokRe.FindStringSubmatch(tok); m != nil {
		if g := parseGuard(m[1]); g.ok {
			collectAtoms(g.expr, into)
		}
	}
}

// valuations enumerates all assignments of the atoms (bounded).
func valuations(atoms map[string]bool, max int) ([]map[string]bool, bool) {
	var keys []string
	for k := range atoms {
		keys = append(keys, k)
	}
	sort.Strings(keys)
	if len(keys) > max {
		return nil, false
	}
	var out []map[string]bool
	for mask := 0; mask < 1<<len(keys); mask++ {
		v := map[string]bool{}
		for i, k := range keys {
			v[k] = mask&(1<<i) != 0
		}
		out = append(out, v)
	}
	return out, true
}

func valString(v map[string]bool) string {
	var ks []string
	for k := range v {
		ks = append(ks, k)
	}
	sort.Strings(ks)
	var parts []string
	for _, k := range ks {
		if v[k] {
			parts = append(parts, k)
		} else {
			parts = append(parts, "!("+k+")")
		}
	}
	if len(parts) == 0 {
		return "always"
	}
	return strings.Join(parts, " ∧ ")
}

// canonParens rewrites e so that parentheses carry no information: every ParenExpr is dropped,
// and an operand of a binary or unary expression that is itself a binary expression is wrapped.
func canonParens(e ast.Expr) ast.Expr {
	out := astutil.Apply(e, nil, func(cur *astutil.Cursor) bool {
		if p, ok := cur.Node().(*ast.ParenExpr); ok {
			cur.Replace(p.X)
		}
		return true
	}).(ast.Expr)
	wrap := func(x ast.Expr) ast.Expr {
		if _, ok := x.(*ast.BinaryExpr); ok {
			return &ast.ParenExpr{X: x}
		}
		return x
	}
	return astutil.Apply(out, nil, func(cur *astutil.Cursor) bool {
		switch n := cur.Node().(type) {
		case *ast.BinaryExpr:
			n.X, n.Y = wrap(n.X), wrap(n.Y)
		case *ast.UnaryExpr:
			n.X = wrap(n.X)
		case *ast.SelectorExpr:
			n.X = wrap(n.X)
		case *ast.IndexExpr:
			n.X = wrap(n.X)
		case *ast.StarExpr:
			n.X = wrap(n.X)
		}
		return true
	}).(ast.Expr)
}

// canonText: the expression text with canonical parentheses (unchanged if it does not parse).
func canonText(s string) string {
	e, err := parser.ParseExpr(s)
	if err != nil {
		return s
	}
	return types.ExprString(canonParens(e))
}
