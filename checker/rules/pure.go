package rules

import (
	"fmt"
	"go/ast"
	"go/token"
	"go/types"
	"strings"

	"golang.org/x/tools/go/cfg"
	"golang.org/x/tools/go/packages"

	"dstverif/load"
)

// R-PURE: classification of every store by the package that declares the written memory's type.

type storeSite struct {
	pos   token.Pos
	what  string
	node  ast.Node
	fresh bool // the written object was allocated in the same function
}

// storesTo lists the stores in fd whose target memory belongs to a struct type declared in
// package memPkg (go/ast or dst): assignments through a selector/index chain that passes
// through a value of such a type, mutating method calls on dst.Decorations, sort.* over slices of
// such nodes, and delete() on their maps.
func storesTo(pkg *packages.Package, fd *ast.FuncDecl, memPkg string) []storeSite {
	info := pkg.TypesInfo
	var out []storeSite
	inMem := func(t types.Type) bool {
		if t == nil {
			return false
		}
		t = types.Unalias(t)
		if p, ok := t.(*types.Pointer); ok {
			t = types.Unalias(p.Elem())
		}
		n, ok := t.(*types.Named)
		if !ok || n.Obj().Pkg() == nil || n.Obj().Pkg().Path() != memPkg {
			return false
		}
		_, isStruct := n.Underlying().(*types.Struct)
		return isStruct
	}
	// objects freshly allocated in this function
	fresh := map[types.Object]bool{}
	ast.Inspect(fd.Body, func(n ast.Node) bool {
		as, ok := n.(*ast.AssignStmt)
		if !ok || as.Tok != token.DEFINE || len(as.Lhs) != len(as.Rhs) {
			return true
		}
		for i, r := range as.Rhs {
			id, ok := as.Lhs[i].(*ast.Ident)
			if !ok {
				continue
			}
			isFresh := false
			if u, ok := r.(*ast.UnaryExpr); ok && u.Op == token.AND {
				if _, ok := u.X.(*ast.CompositeLit); ok {
					isFresh = true
				}
			}
			if call, ok := r.(*ast.CallExpr); ok {
				if fn := calleeFunc(info, call); fn != nil && funcKey(fn) == load.PkgDst+".NewIdent" {
					isFresh = true
				}
			}
			if isFresh {
				fresh[info.Defs[id]] = true
			}
		}
		return true
	})
	rootObj := func(x ast.Expr) types.Object {
		for {
			switch v := x.(type) {
			case *ast.SelectorExpr:
				x = v.X
			case *ast.IndexExpr:
				x = v.X
			case *ast.StarExpr:
				x = v.X
			case *ast.ParenExpr:
				x = v.X
			case *ast.CallExpr:
				// spec.Decorations().Before: root is the receiver of the call
				if se, ok := v.Fun.(*ast.SelectorExpr); ok {
					x = se.X
					continue
				}
				return nil
			case *ast.TypeAssertExpr:
				x = v.X
			case *ast.Ident:
				if o := info.Uses[v]; o != nil {
					return o
				}
				return info.Defs[v]
			default:
				return nil
			}
		}
	}
	// does the chain below the written leaf pass through memPkg memory?
	throughMem := func(lhs ast.Expr) bool {
		x := lhs
		for {
			var inner ast.Expr
			switch v := x.(type) {
			case *ast.SelectorExpr:
				inner = v.X
			case *ast.IndexExpr:
				inner = v.X
			case *ast.StarExpr:
				inner = v.X
			case *ast.ParenExpr:
				inner = v.X
			default:
				return false
			}
			if tv, ok := info.Types[inner]; ok && inMem(tv.Type) {
				return true
			}
			x = inner
		}
	}
	ast.Inspect(fd.Body, func(n ast.Node) bool {
		switch s := n.(type) {
		case *ast.AssignStmt:
			if s.Tok == token.DEFINE {
				return true
			}
			for _, l := range s.Lhs {
				if throughMem(l) {
					out = append(out, storeSite{l.Pos(), types.ExprString(l), s, fresh[rootObj(l)]})
				}
			}
		case *ast.IncDecStmt:
			if throughMem(s.X) {
				out = append(out, storeSite{s.Pos(), types.ExprString(s.X), s, fresh[rootObj(s.X)]})
			}
		case *ast.CallExpr:
			fn := calleeFunc(info, s)
			if fn == nil {
				// delete(m, k)
				if id, ok := s.Fun.(*ast.Ident); ok && id.Name == "delete" && len(s.Args) == 2 {
					if _, isB := info.Uses[id].(*types.Builtin); isB && throughMem(&ast.IndexExpr{X: s.Args[0]}) {
						out = append(out, storeSite{s.Pos(), "delete(" + types.ExprString(s.Args[0]) + ")", s, fresh[rootObj(s.Args[0])]})
					}
				}
				return true
			}
			k := funcKey(fn)
			switch {
			case strings.HasPrefix(k, "(*"+load.PkgDst+".Decorations).") && memPkg == load.PkgDst:
				switch fn.Name() {
				case "Append", "Prepend", "Replace", "Clear":
					if se, ok := s.Fun.(*ast.SelectorExpr); ok {
						out = append(out, storeSite{s.Pos(), types.ExprString(se.X) + "." + fn.Name(), s, fresh[rootObj(se.X)]})
					}
				}
			case fn.Pkg() != nil && isSortPkg(fn) && len(s.Args) >= 1:
				if throughMem(&ast.IndexExpr{X: s.Args[0]}) {
					out = append(out, storeSite{s.Pos(), k + "(" + types.ExprString(s.Args[0]) + ")", s, fresh[rootObj(s.Args[0])]})
				}
			}
		}
		return true
	})
	return out
}

func isRestorePath(fd *ast.FuncDecl) bool {
	if fd.Recv == nil || len(fd.Recv.List) == 0 {
		return fd.Name.Name == "RestoreFile" || fd.Name.Name == "Fprint" || fd.Name.Name == "Print"
	}
	t := fd.Recv.List[0].Type
	if s, ok := t.(*ast.StarExpr); ok {
		t = s.X
	}
	if id, ok := t.(*ast.Ident); ok {
		return id.Name == "FileRestorer" || id.Name == "Restorer"
	}
	return false
}

// restoreOnly: the functions of the decorator package that are not methods of the restorer but
// are called from restore-path code only (helpers of RestoreFile in files of their own, e.g.
// behind a build tag): they belong to the restore path. Fixpoint over the package's call sites.
func (e *Env) restoreOnly(pkg *packages.Package) map[*ast.FuncDecl]bool {
	info := pkg.TypesInfo
	decls := map[types.Object]*ast.FuncDecl{}
	for _, fd := range load.AllFuncDecls(pkg) {
		decls[info.Defs[fd.Name]] = fd
	}
	callers := map[*ast.FuncDecl][]*ast.FuncDecl{}
	for _, fd := range load.AllFuncDecls(pkg) {
		if fd.Body == nil {
			continue
		}
		ast.Inspect(fd.Body, func(n ast.Node) bool {
			if call, ok := n.(*ast.CallExpr); ok {
				if fn := calleeFunc(info, call); fn != nil {
					if d := decls[fn]; d != nil && d != fd {
						callers[d] = append(callers[d], fd)
					}
				}
			}
			return true
		})
	}
	out := map[*ast.FuncDecl]bool{}
	for changed := true; changed; {
		changed = false
		for d, cs := range callers {
			if out[d] || isRestorePath(d) || d.Name.IsExported() || len(cs) == 0 {
				continue
			}
			all := true
			for _, c := range cs {
				if !isRestorePath(c) && !out[c] {
					all = false
				}
			}
			if all {
				out[d] = true
				changed = true
			}
		}
	}
	return out
}

// RPureDecorate: decorate-path functions never write go/ast memory.
func (e *Env) RPureDecorate() {
	n := 0
	restoreHelpers := e.restoreOnly(e.Prog.Pkg(load.PkgDecorator))
	for _, path := range []string{load.PkgDecorator, load.PkgGoast, load.PkgGotypes, load.PkgGuess, load.PkgSimple, load.PkgDst, load.PkgDstutil} {
		pkg := e.Prog.Pkg(path)
		for _, fd := range load.AllFuncDecls(pkg) {
			if fd.Body == nil || (path == load.PkgDecorator && (isRestorePath(fd) || restoreHelpers[fd])) {
				continue
			}
			n++
			for _, st := range storesTo(pkg, fd, "go/ast") {
				if st.fresh {
					continue
				}
				e.Run.Violation("R-PURE", fmt.Sprintf("%s writes go/ast memory: %s", load.FuncName(fd), st.what), e.Prog.Pos(st.pos),
					"decoration (and everything outside the restorer) must treat the parsed ast as read-only: the caller's ast and shared type-checker data would change under its feet")
			}
		}
	}
	e.Run.OK("R-PURE", "no store to go/ast memory outside the restorer", "", fmt.Sprintf("%d functions scanned", n))
	e.Run.Analysed("functions scanned for ast stores", n)
	e.Run.Floor("R-PURE", "functions scanned (decorate side)", n, 40)
}

// RPureRestore: restore-path functions write dst memory only in updateImports (or into objects
// they allocate themselves).
func (e *Env) RPureRestore() {
	pkg := e.Prog.Pkg(load.PkgDecorator)
	n := 0
	inUpdate := 0
	for _, fd := range load.AllFuncDecls(pkg) {
		if fd.Body == nil || !isRestorePath(fd) {
			continue
		}
		n++
		for _, st := range storesTo(pkg, fd, load.PkgDst) {
			if st.fresh {
				continue
			}
			if fd.Name.Name == "updateImports" {
				inUpdate++
				continue
			}
			e.Run.Violation("R-PURE", fmt.Sprintf("%s writes the dst tree: %s", load.FuncName(fd), st.what), e.Prog.Pos(st.pos),
				"restoring must not modify its input outside the import update: a second print, a Clone or a retry after an error would see a different tree")
		}
	}
	e.Run.OK("R-PURE", "no store to dst memory in the restorer outside updateImports", "", fmt.Sprintf("%d restore-path functions scanned, %d stores inside updateImports", n, inUpdate))
	e.Run.Analysed("restore-path functions scanned for dst stores", n)
	e.Run.Floor("R-PURE", "restore-path functions", n, 10)
	e.Run.Floor("R-PURE", "dst stores inside updateImports (positive control)", inUpdate, 5)
}

// RPureUpdateImports: on the CFG of updateImports no dst store lies on a path that reaches an error
// return, and with all storing blocks removed the success return is still reachable.
func (e *Env) RPureUpdateImports() {
	pkg := e.Prog.Pkg(load.PkgDecorator)
	info := pkg.TypesInfo
	fd := load.FuncDecl(pkg, "FileRestorer", "updateImports")
	if fd == nil || fd.Body == nil {
		e.Run.Violation("R-PURE", "updateImports exists", "", "function missing")
		return
	}
	g := cfg.New(fd.Body, func(call *ast.CallExpr) bool {
		if id, ok := call.Fun.(*ast.Ident); ok && id.Name == "panic" {
			return false
		}
		return true
	})
	stores := storesTo(pkg, fd, load.PkgDst)
	// also the resolver calls: external code runs there
	storeBlock := map[*cfg.Block][]storeSite{}
	blockOf := func(p token.Pos) *cfg.Block {
		for _, b := range g.Blocks {
			for _, n := range b.Nodes {
				if n.Pos() <= p && p < n.End() {
					return b
				}
			}
		}
		return nil
	}
	for _, st := range stores {
		if st.fresh {
			continue
		}
		if b := blockOf(st.pos); b != nil {
			storeBlock[b] = append(storeBlock[b], st)
		}
	}
	isErrRet := func(b *cfg.Block) (*ast.ReturnStmt, bool) {
		for _, n := range b.Nodes {
			if rs, ok := n.(*ast.ReturnStmt); ok && len(rs.Results) == 1 && !info.Types[rs.Results[0]].IsNil() {
				return rs, true
			}
		}
		return nil, false
	}
	isOKRet := func(b *cfg.Block) bool {
		for _, n := range b.Nodes {
			if rs, ok := n.(*ast.ReturnStmt); ok && len(rs.Results) == 1 && info.Types[rs.Results[0]].IsNil() {
				return true
			}
		}
		return false
	}
	nErr := 0
	for _, b := range g.Blocks {
		if rs, ok := isErrRet(b); ok && b.Live {
			nErr++
			// backward reachability: is any storing block an ancestor of b?
			anc := ancestors(g, b)
			for sb, sts := range storeBlock {
				if anc[sb] || sb == b {
					for _, st := range sts {
						if sb == b && st.pos > rs.Pos() {
							continue
						}
						e.Run.Violation("R-PURE", "updateImports: store "+st.what+" can precede an error return", e.Prog.Pos(st.pos),
							fmt.Sprintf("the tree is modified on a path that then fails at %s (resolver error): the caller's tree is left half-updated and a retry prints something else", e.Prog.Pos(rs.Pos())))
					}
				}
			}
		}
	}
	e.Run.Check("R-PURE", "updateImports: no tree store on a path to an error return", e.Prog.Pos(fd.Pos()), true, fmt.Sprintf("%d error returns, %d storing blocks examined", nErr, len(storeBlock)))
	e.Run.Floor("R-PURE", "updateImports error returns", nErr, 1)
	// mutation-free path: remove storing blocks, success return still reachable from entry
	seen := map[*cfg.Block]bool{}
	var dfs func(b *cfg.Block) bool
	dfs = func(b *cfg.Block) bool {
		if seen[b] || len(storeBlock[b]) > 0 {
			return false
		}
		seen[b] = true
		if isOKRet(b) {
			// the early `return nil` for a nil resolver does not count: require the final one
			if b.Nodes[len(b.Nodes)-1].Pos() > fd.Body.List[len(fd.Body.List)-1].Pos()-1 {
				return true
			}
		}
		for _, s := range b.Succs {
			if dfs(s) {
				return true
			}
		}
		return false
	}
	okFree := len(g.Blocks) > 0 && dfs(g.Blocks[0])
	e.Run.Check("R-PURE", "updateImports: a mutation-free path to the final return exists", e.Prog.Pos(fd.Pos()), okFree,
		"with import management enabled and nothing to change, updateImports must be able to finish without writing the tree; every path now passes a store (an unconditional sort / re-spacing / re-parenthesising)")
	e.Run.Analysed("cfg blocks of updateImports", len(g.Blocks))
}

func ancestors(g *cfg.CFG, target *cfg.Block) map[*cfg.Block]bool {
	preds := map[*cfg.Block][]*cfg.Block{}
	for _, b := range g.Blocks {
		for _, s := range b.Succs {
			preds[s] = append(preds[s], b)
		}
	}
	out := map[*cfg.Block]bool{}
	var walk func(b *cfg.Block)
	walk = func(b *cfg.Block) {
		for _, p := range preds[b] {
			if !out[p] {
				out[p] = true
				walk(p)
			}
		}
	}
	walk(target)
	return out
}
