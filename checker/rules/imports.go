package rules

import (
	"fmt"
	"go/ast"
	"go/constant"
	"go/parser"
	"go/token"
	"go/types"
	"golang.org/x/tools/go/ast/astutil"
	"regexp"
	"sort"
	"strconv"
	"strings"

	"dstverif/load"
	"dstverif/schema"
)

// Rules on the hand-written import management (updateImports, restoreIdent, decorateSelectorExpr,
// resolvePath, stripVendor, the avoid table).

// funcLitNamed finds `name := func(...) {...}` in fd.
func funcLitNamed(info *types.Info, fd *ast.FuncDecl, name string) (*ast.FuncLit, types.Object) {
	var lit *ast.FuncLit
	var obj types.Object
	ast.Inspect(fd.Body, func(n ast.Node) bool {
		as, ok := n.(*ast.AssignStmt)
		if !ok || as.Tok != token.DEFINE || len(as.Lhs) != 1 || len(as.Rhs) != 1 {
			return true
		}
		id, ok := as.Lhs[0].(*ast.Ident)
		if !ok || id.Name != name {
			return true
		}
		if fl, ok := as.Rhs[0].(*ast.FuncLit); ok {
			lit = fl
			obj = info.Defs[id]
		}
		return true
	})
	return lit, obj
}

// RUniqueNames: the set the conflict predicate consults is the set the chosen names go into.
func (e *Env) RUniqueNames() {
	pkg := e.Prog.Pkg(load.PkgDecorator)
	info := pkg.TypesInfo
	c := e.Sib.Ctx[load.PkgDecorator]
	fd := load.FuncDecl(pkg, "FileRestorer", "updateImports")
	if fd == nil || fd.Body == nil {
		e.Run.Violation("R-UNIQ", "updateImports exists", "", "function missing")
		return
	}
	pos := e.Prog.Pos(fd.Pos())
	conflict, conflictObj := funcLitNamed(info, fd, "conflict")
	findAlias, findObj := funcLitNamed(info, fd, "findAlias")
	if findAlias == nil {
		e.Run.Undecided("R-UNIQ", "conflict/findAlias closures", pos, "name selection no longer uses the findAlias closure")
		return
	}
	// the conflict test written inline: `for SET[candidate] { … }` in findAlias
	var inlineSet types.Object
	var inlineCand types.Object
	if conflict == nil {
		ast.Inspect(findAlias.Body, func(n ast.Node) bool {
			fs, ok := n.(*ast.ForStmt)
			if !ok || fs.Cond == nil {
				return true // (an init/post statement only drives the counter of the candidates)
			}
			if ix, ok := ast.Unparen(fs.Cond).(*ast.IndexExpr); ok {
				sid, ok1 := ix.X.(*ast.Ident)
				kid, ok2 := ix.Index.(*ast.Ident)
				if ok1 && ok2 {
					if _, isMap := info.TypeOf(sid).Underlying().(*types.Map); isMap {
						inlineSet, inlineCand = c.ObjOf(sid), c.ObjOf(kid)
					}
				}
			}
			return true
		})
		if inlineSet == nil {
			e.Run.Undecided("R-UNIQ", "conflict/findAlias closures", pos, "no conflict closure and no `for set[candidate]` loop in findAlias")
			return
		}
	}
	var nameParam types.Object
	if conflict != nil && len(conflict.Type.Params.List) == 1 && len(conflict.Type.Params.List[0].Names) == 1 {
		nameParam = info.Defs[conflict.Type.Params.List[0].Names[0]]
	}
	// what does conflict read?
	kind, setExpr := "", ""
	var setObj types.Object // for the keys(T) form
	if conflict == nil {
		kind, setExpr, setObj = "keys", inlineSet.Name(), inlineSet
		conflict = &ast.FuncLit{Body: &ast.BlockStmt{}, Type: &ast.FuncType{Params: &ast.FieldList{}}}
	}
	if len(conflict.Body.List) == 2 {
		if rs, ok := conflict.Body.List[0].(*ast.RangeStmt); ok {
			if vid, ok := rs.Value.(*ast.Ident); ok && len(rs.Body.List) == 1 {
				if is, ok := rs.Body.List[0].(*ast.IfStmt); ok && is.Else == nil && len(is.Body.List) == 1 {
					if be, ok := is.Cond.(*ast.BinaryExpr); ok && be.Op == token.EQL {
						a, okA := be.X.(*ast.Ident)
						b, okB := be.Y.(*ast.Ident)
						vObj := info.Defs[vid]
						if okA && okB && ((c.ObjOf(a) == nameParam && c.ObjOf(b) == vObj) || (c.ObjOf(b) == nameParam && c.ObjOf(a) == vObj)) {
							if ret, ok := is.Body.List[0].(*ast.ReturnStmt); ok && len(ret.Results) == 1 && c.ExprStr(ret.Results[0]) == "true" {
								if last, ok := conflict.Body.List[1].(*ast.ReturnStmt); ok && len(last.Results) == 1 && c.ExprStr(last.Results[0]) == "false" {
									kind, setExpr = "values", c.ExprStr(rs.X)
								}
							}
						}
					}
				}
			}
		}
	}
	if len(conflict.Body.List) == 1 {
		if ret, ok := conflict.Body.List[0].(*ast.ReturnStmt); ok && len(ret.Results) == 1 {
			if ix, ok := ret.Results[0].(*ast.IndexExpr); ok {
				if kid, ok := ix.Index.(*ast.Ident); ok && c.ObjOf(kid) == nameParam {
					if sid, ok := ix.X.(*ast.Ident); ok {
						kind, setExpr, setObj = "keys", sid.Name, c.ObjOf(sid)
					}
				}
			}
		}
	}
	if kind == "" {
		e.Run.Undecided("R-UNIQ", "conflict predicate shape", e.Prog.Pos(conflict.Pos()), "conflict is neither a scan over a map's values nor a set membership test")
		return
	}
	// findAlias: variable returned as the name, on all returns; loop `for conflict(X)` tests it
	var retVars []types.Object
	sameRet := true
	ast.Inspect(findAlias.Body, func(n ast.Node) bool {
		if _, ok := n.(*ast.FuncLit); ok {
			return false
		}
		if rs, ok := n.(*ast.ReturnStmt); ok && len(rs.Results) == 2 {
			id, ok := rs.Results[0].(*ast.Ident)
			if !ok {
				sameRet = false
				return true
			}
			retVars = append(retVars, c.ObjOf(id))
		}
		return true
	})
	for _, v := range retVars {
		if v != retVars[0] {
			sameRet = false
		}
	}
	if len(retVars) == 0 {
		sameRet = false
	}
	e.Run.Check("R-UNIQ", "findAlias returns one variable as the chosen name on every path", e.Prog.Pos(findAlias.Pos()), sameRet, "cannot identify the chosen name")
	if !sameRet {
		return
	}
	chosen := retVars[0]
	loopTests := false
	ast.Inspect(findAlias.Body, func(n ast.Node) bool {
		fs, ok := n.(*ast.ForStmt)
		if !ok || fs.Cond == nil {
			return true
		}
		if call, ok := fs.Cond.(*ast.CallExpr); ok && len(call.Args) == 1 {
			if fid, ok := call.Fun.(*ast.Ident); ok && conflictObj != nil && c.ObjOf(fid) == conflictObj {
				if aid, ok := call.Args[0].(*ast.Ident); ok && c.ObjOf(aid) == chosen {
					loopTests = true
				}
			}
		}
		if inlineSet != nil && inlineCand == chosen {
			if ix, ok := ast.Unparen(fs.Cond).(*ast.IndexExpr); ok {
				if sid, ok := ix.X.(*ast.Ident); ok && c.ObjOf(sid) == inlineSet {
					loopTests = true
				}
			}
		}
		return true
	})
	e.Run.Check("R-UNIQ", "findAlias loops until the chosen name is conflict-free", e.Prog.Pos(findAlias.Pos()), loopTests, "expected `for conflict(<chosen>) { <chosen> = ... }`: the name that is returned must be the one that was tested")
	// insertion
	switch kind {
	case "values":
		// caller stores the first result of findAlias into the same map
		stored := false
		ast.Inspect(fd.Body, func(n ast.Node) bool {
			as, ok := n.(*ast.AssignStmt)
			if !ok || len(as.Rhs) != 1 || len(as.Lhs) != 2 {
				return true
			}
			call, ok := as.Rhs[0].(*ast.CallExpr)
			if !ok {
				return true
			}
			if fid, ok := call.Fun.(*ast.Ident); !ok || c.ObjOf(fid) != findObj {
				return true
			}
			if ix, ok := as.Lhs[0].(*ast.IndexExpr); ok && c.ExprStr(ix.X) == setExpr {
				stored = true
			}
			return true
		})
		e.Run.Check("R-UNIQ", "chosen names are recorded in the set the conflict test scans", pos, stored && setExpr == "r.packageNames",
			fmt.Sprintf("conflict scans the values of %s; the name returned by findAlias must be stored into that same map before the next name is chosen (and that map must be r.packageNames, which restoreIdent reads)", setExpr))
	case "keys":
		ok := false
		detail := "no insertion found"
		ast.Inspect(fd.Body, func(n ast.Node) bool {
			as, okA := n.(*ast.AssignStmt)
			if !okA || len(as.Lhs) != 1 || len(as.Rhs) != 1 {
				return true
			}
			ix, okI := as.Lhs[0].(*ast.IndexExpr)
			if !okI {
				return true
			}
			sid, okS := ix.X.(*ast.Ident)
			if !okS || c.ObjOf(sid) != setObj {
				return true
			}
			kid, okK := ix.Index.(*ast.Ident)
			if okK && c.ObjOf(kid) == chosen && findAlias.Pos() <= as.Pos() && as.End() <= findAlias.End() {
				ok = true
			} else if okK && firstResultOf(info, c, fd, findObj, c.ObjOf(kid)) {
				ok = true // inserted by the caller, from the first result of the findAlias call
			} else if okK && e.closureParamFrom(info, c, fd, findObj, c.ObjOf(kid)) {
				ok = true // inserted by a local closure that is handed the first result of findAlias (or "")
			} else if lit, isLit := schema.StringLit(ix.Index); isLit && lit == "" {
				// the empty name of dot/blank imports: never a candidate of findAlias
			} else {
				detail = "set " + setExpr + " is filled with " + c.ExprStr(ix.Index) + ", not with the name that is returned"
			}
			return true
		})
		e.Run.Check("R-UNIQ", "chosen names are recorded in the set the conflict test consults", pos, ok,
			"conflict tests membership in "+setExpr+"; findAlias must insert exactly the name it returns: "+detail+" — otherwise two imports can receive the same name")
	}
}

// RAliasFlow: the name used in code and the alias written to the import spec come from the same
// findAlias call; findAlias returns (x, x) or, only when no alias was requested and x is the
// resolved package name, (x, "").
func (e *Env) RAliasFlow() {
	pkg := e.Prog.Pkg(load.PkgDecorator)
	info := pkg.TypesInfo
	c := e.Sib.Ctx[load.PkgDecorator]
	fd := load.FuncDecl(pkg, "FileRestorer", "updateImports")
	if fd == nil {
		return
	}
	findAlias, findObj := funcLitNamed(info, fd, "findAlias")
	if findAlias == nil {
		return
	}
	// call sites: r.packageNames[path], aliases[path] = findAlias(path, alias)
	n := 0
	ast.Inspect(fd.Body, func(nd ast.Node) bool {
		call, ok := nd.(*ast.CallExpr)
		if !ok {
			return true
		}
		if fid, ok := call.Fun.(*ast.Ident); !ok || c.ObjOf(fid) != findObj {
			return true
		}
		n++
		return true
	})
	pairOK := false
	ast.Inspect(fd.Body, func(nd ast.Node) bool {
		as, ok := nd.(*ast.AssignStmt)
		if !ok || len(as.Lhs) != 2 || len(as.Rhs) != 1 {
			return true
		}
		if call, ok := as.Rhs[0].(*ast.CallExpr); ok {
			if fid, ok := call.Fun.(*ast.Ident); ok && c.ObjOf(fid) == findObj {
				l0, l1 := c.ExprStr(as.Lhs[0]), c.ExprStr(as.Lhs[1])
				a0 := ""
				if len(call.Args) == 2 {
					a0 = c.ExprStr(call.Args[0])
				}
				pairOK = l0 == "r.packageNames["+a0+"]" && l1 == "aliases["+a0+"]"
				if !pairOK {
					// through two locals: n, a := findAlias(p, …); r.packageNames[p], aliases[p] = n, a
					id0, ok0 := as.Lhs[0].(*ast.Ident)
					id1, ok1 := as.Lhs[1].(*ast.Ident)
					if ok0 && ok1 {
						o0, o1 := c.ObjOf(id0), c.ObjOf(id1)
						s0, s1 := false, false
						ast.Inspect(fd.Body, func(m ast.Node) bool {
							st, ok := m.(*ast.AssignStmt)
							if !ok || len(st.Lhs) != len(st.Rhs) {
								return true
							}
							for i, l := range st.Lhs {
								rid, ok := st.Rhs[i].(*ast.Ident)
								if !ok {
									continue
								}
								if c.ExprStr(l) == "r.packageNames["+a0+"]" && c.ObjOf(rid) == o0 {
									s0 = true
								}
								if c.ExprStr(l) == "aliases["+a0+"]" && c.ObjOf(rid) == o1 {
									s1 = true
								}
							}
							return true
						})
						pairOK = s0 && s1
						if !pairOK {
							// … or handed, together with the path, to a local closure that stores them:
							// set(p, n, a) with set := func(P0, P1, P2) { r.packageNames[P0] = P1; aliases[P0] = P2; … }
							ast.Inspect(fd.Body, func(m ast.Node) bool {
								cl, ok := m.(*ast.CallExpr)
								if !ok || len(cl.Args) < 3 {
									return true
								}
								fid, ok := cl.Fun.(*ast.Ident)
								if !ok {
									return true
								}
								lit, _ := funcLitNamed(info, fd, fid.Name)
								if lit == nil {
									return true
								}
								var ps []string
								for _, f := range lit.Type.Params.List {
									for _, nm := range f.Names {
										ps = append(ps, nm.Name)
									}
								}
								if len(ps) != len(cl.Args) {
									return true
								}
								idx := func(o types.Object) int {
									for k, a := range cl.Args {
										if id, ok := ast.Unparen(a).(*ast.Ident); ok && c.ObjOf(id) == o {
											return k
										}
									}
									return -1
								}
								pi := -1
								for k, a := range cl.Args {
									if c.ExprStr(a) == a0 {
										pi = k
									}
								}
								ni, ai := idx(o0), idx(o1)
								if pi < 0 || ni < 0 || ai < 0 {
									return true
								}
								n0, n1 := false, false
								for _, st := range lit.Body.List {
									if as, ok := st.(*ast.AssignStmt); ok && len(as.Lhs) == 1 && len(as.Rhs) == 1 {
										if types.ExprString(as.Lhs[0]) == "r.packageNames["+ps[pi]+"]" && types.ExprString(as.Rhs[0]) == ps[ni] {
											n0 = true
										}
										if types.ExprString(as.Lhs[0]) == "aliases["+ps[pi]+"]" && types.ExprString(as.Rhs[0]) == ps[ai] {
											n1 = true
										}
									}
								}
								if n0 && n1 {
									pairOK = true
								}
								return true
							})
						}
					}
				}
			}
		}
		return true
	})
	e.Run.Check("R-ALIAS", "name in code and alias in the import spec are assigned pairwise from one findAlias call, for the same path", e.Prog.Pos(findAlias.Pos()), pairOK && n == 1,
		"expected `r.packageNames[path], aliases[path] = findAlias(path, alias)` as the only call site")
	// returns
	var rets []string
	ast.Inspect(findAlias.Body, func(nd ast.Node) bool {
		if _, ok := nd.(*ast.FuncLit); ok {
			return false
		}
		if rs, ok := nd.(*ast.ReturnStmt); ok && len(rs.Results) == 2 {
			rets = append(rets, c.ExprStr(rs.Results[0])+","+c.ExprStr(rs.Results[1]))
		}
		return true
	})
	okRets := len(rets) == 2
	for _, r := range rets {
		parts := strings.SplitN(r, ",", 2)
		if parts[1] != parts[0] && parts[1] != `""` {
			okRets = false
		}
	}
	e.Run.Check("R-ALIAS", "findAlias returns (x, x) or (x, \"\")", e.Prog.Pos(findAlias.Pos()), okRets, fmt.Sprintf("returns: %v — the alias in the spec must be the name used in code, or empty when that name is the package's own", rets))
	// the (x, "") return: the alias is omitted only when the chosen name is the package's own
	// (x == resolved[path] is a conjunct of the guard) and no alias was requested for the path —
	// either the guard says so (a conjunct that is the second parameter compared with "", taken
	// before the parameter is given a default, directly or through a local), or no requested
	// path ever gets an entry in `resolved` (every store resolved[k] lies behind a guard that
	// leaves when effectiveAlias has k), so the comparison fails for it.
	guardOK, why := false, "no `return x, \"\"`"
	prefName := ""
	if findAlias.Type.Params != nil {
		var ps []string
		for _, f := range findAlias.Type.Params.List {
			for _, n := range f.Names {
				ps = append(ps, n.Name)
			}
		}
		if len(ps) == 2 {
			prefName = ps[1]
		}
	}
	// locals that hold `preferred != ""` / `preferred == ""` at entry
	requested := map[string]bool{} // expression text -> true when it means "an alias was requested"
	if prefName != "" {
		requested[prefName+` != ""`] = true
		requested[`!(`+prefName+` == "")`] = true
		for _, st := range findAlias.Body.List {
			as, ok := st.(*ast.AssignStmt)
			if !ok {
				if _, isIf := st.(*ast.IfStmt); isIf {
					break // the default may be assigned from here on
				}
				continue
			}
			if as.Tok == token.DEFINE && len(as.Lhs) == 1 && len(as.Rhs) == 1 {
				if id, ok := as.Lhs[0].(*ast.Ident); ok && types.ExprString(ast.Unparen(as.Rhs[0])) == prefName+` != ""` {
					requested[id.Name] = true
				}
			}
		}
	}
	prefReassignedBefore := func(n ast.Node) bool {
		re := false
		ast.Inspect(findAlias.Body, func(m ast.Node) bool {
			if as, ok := m.(*ast.AssignStmt); ok && as.Pos() < n.Pos() {
				for _, l := range as.Lhs {
					if id, ok := l.(*ast.Ident); ok && id.Name == prefName {
						re = true
					}
				}
			}
			return true
		})
		return re
	}
	storesGuarded := func() (bool, string) {
		n := 0
		bad := ""
		ast.Inspect(fd.Body, func(m ast.Node) bool {
			as, ok := m.(*ast.AssignStmt)
			if !ok {
				return true
			}
			for _, l := range as.Lhs {
				ix, ok := ast.Unparen(l).(*ast.IndexExpr)
				if !ok || c.ExprStr(ix.X) != "resolved" {
					continue
				}
				n++
				k := types.ExprString(ix.Index)
				cond, _ := pathCond(c, fd.Body.List, as)
				if !aliasedExcluded(fd.Body, as, k) {
					bad = "resolved[" + k + "] is stored at " + e.Prog.Pos(as.Pos()) + " under `" + cond + "`, which does not exclude a path that has an effective alias (from the source or the Alias map)"
				}
			}
			return true
		})
		if n == 0 {
			return false, "no store into resolved[...] found"
		}
		return bad == "", bad
	}
	ast.Inspect(findAlias.Body, func(nd ast.Node) bool {
		is, ok := nd.(*ast.IfStmt)
		if !ok || len(is.Body.List) != 1 {
			return true
		}
		rs, ok := is.Body.List[0].(*ast.ReturnStmt)
		if !ok || len(rs.Results) != 2 || c.ExprStr(rs.Results[1]) != `""` {
			return true
		}
		x := types.ExprString(rs.Results[0])
		own, notReq := false, false
		for _, cj := range splitTopAnd(types.ExprString(is.Cond)) {
			cj = strings.TrimSpace(cj)
			switch {
			case cj == x+" == resolved[path]" || cj == "resolved[path] == "+x:
				own = true
			case strings.HasPrefix(cj, "!") && requested[strings.TrimPrefix(cj, "!")]:
				notReq = true
			case prefName != "" && cj == prefName+` == ""` && !prefReassignedBefore(is):
				notReq = true
			}
		}
		switch {
		case !own:
			guardOK, why = false, "the alias is dropped under `"+types.ExprString(is.Cond)+"`, which does not say that the chosen name is the resolved name of the package"
		case notReq:
			guardOK, why = true, ""
		default:
			guardOK, why = storesGuarded()
			if !guardOK {
				why = "the guard `" + types.ExprString(is.Cond) + "` does not ask whether an alias was requested, and " + why + ": an alias written in the source that equals the package name is removed"
			}
		}
		return true
	})
	e.Run.Check("R-ALIAS", "the alias is omitted only when none was requested and the chosen name is the resolved package name", e.Prog.Pos(findAlias.Pos()), guardOK, why)
	// precedence: importsFound loop, then r.Alias loop, both store effectiveAlias[path]
	var order []string
	ast.Inspect(fd.Body, func(nd ast.Node) bool {
		rs, ok := nd.(*ast.RangeStmt)
		if !ok {
			return true
		}
		stores := false
		ast.Inspect(rs.Body, func(m ast.Node) bool {
			if as, ok := m.(*ast.AssignStmt); ok && len(as.Lhs) == 1 && strings.HasPrefix(c.ExprStr(as.Lhs[0]), "effectiveAlias[") {
				stores = true
			}
			return true
		})
		if stores {
			order = append(order, c.ExprStr(rs.X))
		}
		return true
	})
	e.Run.Check("R-ALIAS", "alias precedence: the restorer's Alias map is applied after (over) the aliases found in the source", e.Prog.Pos(fd.Pos()),
		strings.Join(order, ",") == "importsFound,r.Alias", fmt.Sprintf("loops that fill effectiveAlias, in order: %v", order))
}

// RPackageNamesOwnership: FileRestorer.packageNames is written only in updateImports/RestoreFile
// and read only in restoreIdent and updateImports.
func (e *Env) RPackageNamesOwnership() {
	pkg := e.Prog.Pkg(load.PkgDecorator)
	info := pkg.TypesInfo
	n := 0
	for _, fd := range load.AllFuncDecls(pkg) {
		if fd.Body == nil {
			continue
		}
		var stack []ast.Node
		ast.Inspect(fd.Body, func(nd ast.Node) bool {
			if nd == nil {
				stack = stack[:len(stack)-1]
				return true
			}
			stack = append(stack, nd)
			se, ok := nd.(*ast.SelectorExpr)
			if !ok || !e.isRestorerField(info, se, "packageNames") {
				return true
			}
			n++
			w := isWriteContext(stack)
			fn := fd.Name.Name
			ok2 := fn == "updateImports" || (w && (fn == "RestoreFile" || e.isResetCtx(fd))) || (!w && fn == "restoreIdent")
			e.Run.Check("R-OWN", fmt.Sprintf("packageNames %s in %s", map[bool]string{true: "write", false: "read"}[w], load.FuncName(fd)), e.Prog.Pos(se.Pos()), ok2,
				"the path→name table has one writer (updateImports, reset in RestoreFile) and one reader (restoreIdent)")
			return true
		})
	}
	e.Run.Floor("R-OWN", "packageNames accesses", n, 3)
}

// RRestoreIdent: the expanded selector mirrors restore's own SelectorExpr case and uses the
// table's name.
func (e *Env) RRestoreIdent() {
	ri := e.Sib.RestoreIdent
	sel := e.Sib.ByName["restore"].Cases["SelectorExpr"]
	if ri == nil || sel == nil {
		e.Run.Violation("R-IDENT", "restoreIdent / restore SelectorExpr exist", "", "missing")
		return
	}
	proj := func(cs *schema.Case) []string {
		els, _ := e.restoreElems(cs, valueMap{})
		var out []string
		for _, el := range els {
			switch el.Kind {
			case "D":
				out = append(out, fmt.Sprintf("D:%s(end=%v)", el.Name, el.End))
			case "C":
				out = append(out, "C:"+el.Field)
			case "T":
				out = append(out, "T:"+el.Token)
			default:
				out = append(out, el.Kind)
			}
		}
		return out
	}
	a, b := proj(ri), proj(sel)
	e.Run.Check("R-IDENT", "restoreIdent renders the same sequence as restore's SelectorExpr case", e.casePos(ri), strings.Join(a, " ") == strings.Join(b, " "),
		fmt.Sprintf("restoreIdent: %v; restore SelectorExpr: %v — an identifier expanded to pkg.Name must be laid out exactly like a selector written in the source", a, b))
	// decoration sources: Start, X, End of the Ident itself
	for _, ev := range ri.Events {
		switch ev.Kind {
		case schema.KDec:
			e.Run.Check("R-IDENT", "restoreIdent point "+ev.Name+" reads the identifier's own "+ev.Name, e.Prog.Pos(ev.Pos), ev.Src == "Decs."+ev.Name && ev.NodeArg == "out", "reads n."+ev.Src+" attached to "+ev.NodeArg)
		case schema.KChild:
			want := map[string]string{"X": "NewIdent(name)", "Sel": "NewIdent(n.Name)"}[ev.Field]
			lit := map[string][3]string{"X": {"SelectorExpr", "X", "Expr"}, "Sel": {"SelectorExpr", "Sel", "Ident"}}[ev.Field]
			e.Run.Check("R-IDENT", "restoreIdent child "+ev.Field, e.Prog.Pos(ev.Pos), ev.Expr == want && ev.Lit == lit,
				fmt.Sprintf("child %s restored from %s with literals %v; expected a fresh identifier %s with %v", ev.Field, ev.Expr, ev.Lit, want, lit))
		}
	}
	// name lookup, independent of how the function is laid out (nested ifs or guard clauses):
	//  (1) the X child's identifier is built from a variable that is assigned r.packageNames[n.Path];
	//  (2) some condition compares n.Path with r.Path (local package stays bare);
	//  (3) some condition compares that variable with "." (dot-imports stay bare);
	//  (4) the avoid-table test guards a panic.
	pkg := e.Prog.Pkg(load.PkgDecorator)
	c := e.Sib.Ctx[load.PkgDecorator]
	info := pkg.TypesInfo
	fd := load.FuncDecl(pkg, "FileRestorer", "restoreIdent")
	recv := info.Defs[fd.Recv.List[0].Names[0]]
	var nObj types.Object
	if len(fd.Type.Params.List) > 0 && len(fd.Type.Params.List[0].Names) > 0 {
		nObj = info.Defs[fd.Type.Params.List[0].Names[0]]
	}
	isNPath := func(x ast.Expr) bool { p, ok := c.Path(x, nObj); return ok && p == "Path" }
	// the restorer's own path, without the vendor prefix (the decorator strips it from every path
	// it assigns and from its own): stripVendor(r.Path), directly or through a local
	var isRPath func(x ast.Expr) bool
	isRPath = func(x ast.Expr) bool {
		x = ast.Unparen(x)
		if call, ok := x.(*ast.CallExpr); ok && len(call.Args) == 1 {
			if fn := c.Callee(call); fn != nil && fn.Name() == "stripVendor" && fn.Pkg() != nil && fn.Pkg().Path() == load.PkgDecorator {
				p, ok := c.Path(call.Args[0], recv)
				return ok && p == "Path"
			}
		}
		if id, ok := x.(*ast.Ident); ok {
			if d := singleDef(info, fd, id); d != nil {
				return isRPath(d)
			}
		}
		return false
	}
	// the function and, when it ends in `return r.build(…)`, the method that builds the selector
	roots := []ast.Node{fd.Body}
	paramArg := map[types.Object]types.Object{} // parameter of that method → the variable it is handed
	if tail, callee := c.TailCall(fd); callee != nil {
		roots = append(roots, callee.Body)
		k := 0
		for _, f := range callee.Type.Params.List {
			for _, nm := range f.Names {
				if k < len(tail.Args) {
					if id, ok := ast.Unparen(tail.Args[k]).(*ast.Ident); ok {
						paramArg[info.Defs[nm]] = info.Uses[id]
					}
				}
				k++
			}
		}
	}
	inspectAll := func(f func(ast.Node) bool) {
		for _, r := range roots {
			ast.Inspect(r, f)
		}
	}
	// variable passed to NewIdent for X
	var nameObj types.Object
	inspectAll(func(n ast.Node) bool {
		call, ok := n.(*ast.CallExpr)
		if !ok || !schema.IsMethod(c.Callee(call), load.PkgDecorator, "FileRestorer", "restoreNode") || len(call.Args) != 5 {
			return true
		}
		if f, ok := schema.StringLit(call.Args[2]); ok && f == "X" {
			if inner, ok := call.Args[0].(*ast.CallExpr); ok && len(inner.Args) == 1 {
				if id, ok := inner.Args[0].(*ast.Ident); ok {
					nameObj = info.Uses[id]
					if a, isParam := paramArg[nameObj]; isParam && a != nil {
						nameObj = a
					}
				}
			}
		}
		return true
	})
	lookup, localCmp, dot, avoidCheck := false, false, false, false
	inspectAll(func(n ast.Node) bool {
		switch x := n.(type) {
		case *ast.AssignStmt:
			for i, l := range x.Lhs {
				id, ok := l.(*ast.Ident)
				if !ok || i >= len(x.Rhs) {
					continue
				}
				obj := info.Defs[id]
				if obj == nil {
					obj = info.Uses[id]
				}
				if obj != nameObj || nameObj == nil {
					continue
				}
				if ix, ok := x.Rhs[i].(*ast.IndexExpr); ok {
					if p, ok := c.Path(ix.X, recv); ok && p == "packageNames" && isNPath(ix.Index) {
						lookup = true
					}
				}
			}
		case *ast.BinaryExpr:
			if x.Op == token.EQL || x.Op == token.NEQ {
				if (isNPath(x.X) && isRPath(x.Y)) || (isRPath(x.X) && isNPath(x.Y)) {
					localCmp = true
				}
				for _, pair := range [][2]ast.Expr{{x.X, x.Y}, {x.Y, x.X}} {
					if id, ok := pair[0].(*ast.Ident); ok && info.Uses[id] == nameObj && nameObj != nil {
						if lit, ok := schema.StringLit(pair[1]); ok && lit == "." {
							dot = true
						}
					}
				}
			}
		case *ast.IfStmt:
			if c.ExprStr(x.Cond) == `avoid[parentName+"."+parentField]` && c.PanicsOnly(x.Body.List) {
				avoidCheck = true
			}
		}
		return true
	})
	pos := e.Prog.Pos(fd.Pos())
	e.Run.Check("R-IDENT", "restoreIdent takes the qualifier from the path→name table for non-local paths", pos, lookup && localCmp,
		fmt.Sprintf("the identifier used for the selector's X must be assigned from r.packageNames[n.Path] (found: %v) and n.Path must be compared with the restorer's own path without its vendor prefix, stripVendor(r.Path) (found: %v): the decorator strips the prefix from every path it assigns, a restorer for a vendored package that compares with the raw path takes the package's own identifiers for foreign ones and makes the package import itself", lookup, localCmp))
	// … and the comparison is acted on: under name == "." the qualifier is cleared (an assignment
	// of "" to it inside an if on that comparison), or the selector is built only when name != "."
	dotActs := false
	inspectAll(func(n ast.Node) bool {
		is, ok := n.(*ast.IfStmt)
		if !ok || nameObj == nil {
			return true
		}
		cmpDot, neg := false, false
		ast.Inspect(is.Cond, func(m ast.Node) bool {
			if be, ok := m.(*ast.BinaryExpr); ok && (be.Op == token.EQL || be.Op == token.NEQ) {
				for _, pair := range [][2]ast.Expr{{be.X, be.Y}, {be.Y, be.X}} {
					if id, ok := ast.Unparen(pair[0]).(*ast.Ident); ok && info.Uses[id] == nameObj {
						if lit, ok := schema.StringLit(pair[1]); ok && lit == "." {
							cmpDot, neg = true, be.Op == token.NEQ
						}
					}
				}
			}
			return true
		})
		if !cmpDot {
			return true
		}
		for _, cj := range splitTopAnd(types.ExprString(is.Cond)) {
			if t := strings.TrimSpace(cj); t == "false" || t == "true" {
				return true // a constant operand: the comparison decides nothing
			}
		}
		if neg {
			dotActs = true // `if name != "." …` guards the qualified form
			return true
		}
		for _, st := range is.Body.List {
			if as, ok := st.(*ast.AssignStmt); ok && len(as.Lhs) == 1 && len(as.Rhs) == 1 {
				if id, ok := as.Lhs[0].(*ast.Ident); ok && info.Uses[id] == nameObj {
					if lit, ok := schema.StringLit(as.Rhs[0]); ok && lit == "" {
						dotActs = true
					}
				}
			}
			if _, ok := st.(*ast.ReturnStmt); ok {
				dotActs = true // the bare identifier is returned from the branch
			}
		}
		return true
	})
	e.Run.Check("R-IDENT", "restoreIdent leaves dot-imported names bare", pos, dot && dotActs, "the looked-up name must be compared with \".\" and the qualifier cleared where they are equal: otherwise a dot-imported name is printed as a selector on a package called `.`")
	e.Run.Check("R-IDENT", "restoreIdent rejects a path on a declaring position", pos, avoidCheck, "expected the avoid-table check to panic before an *ast.Ident-typed position receives a selector")
}

// RDiscovery: updateImports' scan records every path-carrying identifier and every import spec.
func (e *Env) RDiscovery() {
	pkg := e.Prog.Pkg(load.PkgDecorator)
	c := e.Sib.Ctx[load.PkgDecorator]
	fd := load.FuncDecl(pkg, "FileRestorer", "updateImports")
	if fd == nil {
		return
	}
	// the discovery scan: the dst.Inspect whose callback looks at identifiers (a validation pass
	// over the import specs alone, which returns an error before anything is recorded, is not it)
	var inspect, first *ast.CallExpr
	ast.Inspect(fd.Body, func(n ast.Node) bool {
		if call, ok := n.(*ast.CallExpr); ok && inspect == nil {
			if fn := c.Callee(call); schema.IsFunc(fn, load.PkgDst, "Inspect") {
				if first == nil {
					first = call
				}
				looksAtIdents := false
				ast.Inspect(call, func(m ast.Node) bool {
					if st, ok := m.(*ast.StarExpr); ok {
						if _, tn := schema.NamedTypeName(pkg.TypesInfo.TypeOf(st)); tn == "Ident" {
							looksAtIdents = true
						}
					}
					return true
				})
				if looksAtIdents {
					inspect = call
				}
			}
		}
		return true
	})
	if inspect == nil {
		inspect = first
	}
	pos := e.Prog.Pos(fd.Pos())
	if inspect == nil || len(inspect.Args) != 2 {
		e.Run.Violation("R-DISC", "updateImports scans the file with dst.Inspect", pos, "no dst.Inspect call")
		return
	}
	e.Run.Check("R-DISC", "the scan starts at the file being restored", e.Prog.Pos(inspect.Pos()), c.ExprStr(inspect.Args[0]) == "r.file", "root is "+c.ExprStr(inspect.Args[0]))
	lit, ok := inspect.Args[1].(*ast.FuncLit)
	if !ok {
		e.Run.Violation("R-DISC", "scan callback is a literal", pos, "callback not analysable")
		return
	}
	// Ident arm: packagesInUse[n.Path] and importsRequired[n.Path] under Path != "" && Path != r.Path
	var identArm, specArm, declArm *ast.CaseClause
	ast.Inspect(lit.Body, func(n ast.Node) bool {
		if cc, ok := n.(*ast.CaseClause); ok && len(cc.List) == 1 {
			switch c.ExprStr(cc.List[0]) {
			case "*Ident":
				identArm = cc
			case "*ImportSpec":
				specArm = cc
			case "*GenDecl":
				declArm = cc
			}
		}
		return true
	})
	e.resolvedDomain(c, fd, lit, identArm)
	undo := c.InstallReachingIn(lit.Body)
	defer undo()
	// every return in the callback returns true (no subtree is pruned) — except below an import
	// declaration, which holds nothing but import specs (no identifier there carries a path); then
	// the specs are never handed to the callback, and the declaration's arm records them itself
	allTrue, prunesImports := true, false
	ast.Inspect(lit.Body, func(n ast.Node) bool {
		if rs, ok := n.(*ast.ReturnStmt); ok && (len(rs.Results) != 1 || c.ExprStr(rs.Results[0]) != "true") {
			if declArm != nil && declArm.Pos() <= rs.Pos() && rs.End() <= declArm.End() {
				cond, okc := pathCond(c, declArm.Body, rs)
				if cond == "" {
					cond = "true"
				}
				if imp, dec := unsatWith(cond, "n.Tok != token.IMPORT"); okc && dec && imp {
					prunesImports = true
					return true
				}
			}
			allTrue = false
		}
		return true
	})
	e.Run.Check("R-DISC", "the scan never prunes a subtree", e.Prog.Pos(lit.Pos()), allTrue, "a `return false` in the callback hides the identifiers below that node: their imports are dropped")
	// the per-spec code: the *ImportSpec arm, or a loop over n.Specs in the import declaration's arm
	specText := "n"
	if declArm != nil && (specArm == nil || prunesImports) {
		specArm = nil
		var loop *ast.RangeStmt
		for _, st := range declArm.Body {
			if rs, ok := st.(*ast.RangeStmt); ok && c.ExprStr(rs.X) == "n.Specs" && rs.Value != nil {
				loop = rs
			}
		}
		if loop != nil {
			cond, okc := pathCond(c, declArm.Body, loop)
			if cond == "" {
				cond = "true"
			}
			always, dec := unsatWith("n.Tok == token.IMPORT", schema.NegGuard("("+cond+")"))
			if !okc || !dec {
				e.Run.Undecided("R-DISC", "every import spec is recorded", e.Prog.Pos(loop.Pos()), "condition of the loop over the specs not propositional: "+cond)
			} else if !always {
				e.Run.Check("R-DISC", "every import spec is recorded", e.Prog.Pos(loop.Pos()), false, "the loop over the specs of an import declaration runs only under `"+cond+"`: the specs of other import declarations are never recorded, so their imports are added a second time")
			} else {
				specArm = &ast.CaseClause{Case: loop.Pos(), Body: loop.Body.List}
				// the spec at hand, as the loop body writes it
				ast.Inspect(loop.Body, func(n ast.Node) bool {
					if se, ok := n.(*ast.SelectorExpr); ok && se.Sel.Name == "Path" {
						if t := c.Info.TypeOf(se.X); t != nil && strings.HasSuffix(t.String(), "dst.ImportSpec") && specText == "n" {
							specText = c.ExprStr(se.X)
						}
					}
					return true
				})
			}
		}
	}
	// stores of an arm: target text → path condition inside the arm (several stores to one target: or)
	stores := func(arm *ast.CaseClause) (map[string]string, bool) {
		out := map[string]string{}
		good := true
		for _, st := range arm.Body {
			ast.Inspect(st, func(n ast.Node) bool {
				as, ok := n.(*ast.AssignStmt)
				if !ok || len(as.Lhs) != len(as.Rhs) {
					return true
				}
				for i, l := range as.Lhs {
					if _, isIdx := l.(*ast.IndexExpr); !isIdx {
						continue
					}
					cond, okc := pathCond(c, arm.Body, as)
					if !okc {
						good = false
					}
					if cond == "" {
						cond = "true"
					}
					k := c.ExprStr(l) + " = " + c.ExprStr(as.Rhs[i])
					if arm == specArm && specText != "n" {
						k = strings.ReplaceAll(k, specText, "n")
						cond = strings.ReplaceAll(cond, specText, "n")
					}
					if prev, seen := out[k]; seen {
						cond = "(" + prev + ") || (" + cond + ")"
					}
					out[k] = cond
				}
				return true
			})
		}
		return out, good
	}
	checkStores := func(arm *ast.CaseClause, what string, want map[string]string) {
		got, good := stores(arm)
		if !good {
			e.Run.Undecided("R-DISC", what, e.Prog.Pos(arm.Pos()), "path condition of a store not computable")
			return
		}
		ok := true
		var why []string
		for k, w := range want {
			g, has := got[k]
			if !has {
				ok = false
				why = append(why, "no store `"+k+"`")
				continue
			}
			eq, dec := equivalentGuards(g, w)
			if !dec {
				e.Run.Undecided("R-DISC", what, e.Prog.Pos(arm.Pos()), "condition of `"+k+"` is not propositional: "+g)
				return
			}
			if !eq {
				ok = false
				why = append(why, "`"+k+"` happens under `"+g+"`, specified `"+w+"`")
			}
		}
		for k := range got {
			if _, has := want[k]; !has {
				ok = false
				why = append(why, "unexpected store `"+k+"`")
			}
		}
		e.Run.Check("R-DISC", what, e.Prog.Pos(arm.Pos()), ok, strings.Join(why, "; "))
	}
	if identArm != nil {
		checkStores(identArm, "every identifier with a non-empty, non-local path is recorded as in use and required", map[string]string{
			"packagesInUse[n.Path] = true":   `n.Path != "" && n.Path != stripVendor(r.Path)`,
			"importsRequired[n.Path] = true": `n.Path != "" && n.Path != stripVendor(r.Path)`,
		})
	} else {
		e.Run.Violation("R-DISC", "scan has an *dst.Ident arm", e.Prog.Pos(lit.Pos()), "missing")
	}
	if specArm != nil {
		checkStores(specArm, "every import spec is recorded with its alias; the cgo import is always kept", map[string]string{
			`importsFound[mustUnquote(n.Path.Value)] = ""`:          `n.Name == nil`,
			`importsFound[mustUnquote(n.Path.Value)] = n.Name.Name`: `n.Name != nil`,
			`importsRequired["C"] = true`:                           `mustUnquote(n.Path.Value) == "C"`,
		})
		// a path may legally be imported twice in one file (`"net/url"` and `urlpkg "net/url"`, a
		// package and its blank import for a linkname): the tables of updateImports are keyed by
		// path, so the spec recorded last silently replaces the first, and the update pass then
		// forces every spec of that path to one name. The per-spec code must at least notice that the
		// path is there already (a presence test of the table among its conditions).
		notices := false
		for _, st := range specArm.Body {
			ast.Inspect(st, func(n ast.Node) bool {
				switch x := n.(type) {
				case *ast.AssignStmt:
					// `_, ok := importsFound[path]` / `prev, ok := …`
					if len(x.Lhs) == 2 && len(x.Rhs) == 1 {
						if ix, ok := ast.Unparen(x.Rhs[0]).(*ast.IndexExpr); ok && strings.HasSuffix(types.ExprString(ix.X), "importsFound") {
							notices = true
						}
					}
				}
				return true
			})
		}
		e.Run.Check("R-DISC", "updateImports: a second import spec for a path that already has one is noticed", e.Prog.Pos(specArm.Pos()), notices,
			"the spec's alias is stored under its path without looking whether the path is there already: of two specs for one path (legal: `\"net/url\"` + `urlpkg \"net/url\"`, `\"crypto/sha1\"` + `_ \"crypto/sha1\"`) the later one wins, the other is rewritten to the same name or dropped, and an unedited file no longer prints as it was (it may no longer compile)")
	} else {
		e.Run.Violation("R-DISC", "scan has an *dst.ImportSpec arm (or records the specs of every import declaration in a loop)", e.Prog.Pos(lit.Pos()), "missing")
	}
}

// ---------------------------------------------------------------------------------------------
// C09: role filter

func (e *Env) avoidTable() (map[string]bool, token.Pos) {
	pkg := e.Prog.Pkg(load.PkgDecorator)
	out := map[string]bool{}
	var pos token.Pos
	for _, f := range pkg.Syntax {
		for _, d := range f.Decls {
			gd, ok := d.(*ast.GenDecl)
			if !ok || gd.Tok != token.VAR {
				continue
			}
			for _, sp := range gd.Specs {
				vs := sp.(*ast.ValueSpec)
				for i, nm := range vs.Names {
					if nm.Name != "avoid" || i >= len(vs.Values) {
						continue
					}
					pos = nm.Pos()
					if cl, ok := vs.Values[i].(*ast.CompositeLit); ok {
						for _, el := range cl.Elts {
							if kv, ok := el.(*ast.KeyValueExpr); ok {
								if k, ok := schema.StringLit(kv.Key); ok {
									if id, ok := kv.Value.(*ast.Ident); ok && id.Name == "true" {
										out[k] = true
									}
								}
							}
						}
					}
				}
			}
		}
	}
	return out, pos
}

func (e *Env) RRoleFilter() {
	avoid, apos := e.avoidTable()
	used := map[string]bool{}
	n := 0
	for _, sn := range []string{"decorate", "restore"} {
		s := e.Sib.ByName[sn]
		for _, tn := range s.Order {
			for _, ev := range s.Cases[tn].Events {
				if ev.Kind != schema.KChild && ev.Kind != schema.KList {
					continue
				}
				key := ev.Lit[0] + "." + ev.Lit[1]
				n++
				if ev.Lit[2] == "Ident" {
					used[key] = true
					e.Run.Check("R-ROLE", fmt.Sprintf("%s %s: *Ident-typed position is in the avoid table", sn, key), e.Prog.Pos(ev.Pos), avoid[key],
						"a position whose static type is *Ident declares or labels something: it must never be resolved to a package path (decorate) nor expanded to a selector (restore: the assertion to *ast.Ident would fail)")
				} else {
					e.Run.Check("R-ROLE", fmt.Sprintf("%s %s: non-Ident position is not in the avoid table", sn, key), e.Prog.Pos(ev.Pos), !avoid[key],
						"an expression position listed in avoid is never resolved: qualified uses there lose their package")
				}
			}
		}
	}
	for _, k := range sortedKeys(avoid) {
		e.Run.Check("R-ROLE", "avoid entry "+k+" names an *Ident-typed position", e.Prog.Pos(apos), used[k], "a key that names no position (typo, renamed field) means the real position is unprotected")
	}
	e.Run.Floor("R-ROLE", "child positions checked against avoid", n, 150)
	e.Run.Floor("R-ROLE", "avoid entries", len(avoid), 8)
}

// RResolvePath: hand-written resolution chain.
func (e *Env) RResolvePath() {
	pkg := e.Prog.Pkg(load.PkgDecorator)
	c := e.Sib.Ctx[load.PkgDecorator]
	// decorate Ident: Path event
	for _, ev := range e.Sib.ByName["decorate"].Cases["Ident"].Events {
		if ev.Kind == schema.KPath {
			e.Run.Check("R-RESOLVE", "decorate Ident resolves through resolvePath without force, with the caller's role", e.Prog.Pos(ev.Pos),
				ev.Expr == "false,parent,parentName,parentField,parentFieldType,n" && ev.Guard == "f.Resolver != nil" && ev.ErrOK,
				"resolvePath("+ev.Expr+") under `"+ev.Guard+"`, error checked: "+fmt.Sprint(ev.ErrOK))
		}
	}
	// decorateSelectorExpr: force on Sel only
	if ds, err := schema.ExtractDecorateSelector(c); err == nil {
		found := false
		for _, ev := range ds.Events {
			if ev.Kind == schema.KPath {
				found = true
				e.Run.Check("R-RESOLVE", "decorateSelectorExpr forces resolution of Sel only", e.Prog.Pos(ev.Pos), ev.Expr == `true,n,"SelectorExpr","Sel","Ident",n.Sel`, "resolvePath("+ev.Expr+")")
			}
		}
		if !found {
			// the call is `path, err := f.resolvePath(...)` followed by errcheck and `if path == ""`: not consumed into out.Path directly
			fd := load.FuncDecl(pkg, "fileDecorator", "decorateSelectorExpr")
			ok := false
			ast.Inspect(fd.Body, func(n ast.Node) bool {
				if call, isCall := n.(*ast.CallExpr); isCall && schema.IsMethod(c.Callee(call), load.PkgDecorator, "fileDecorator", "resolvePath") && len(call.Args) == 6 {
					var a []string
					for _, x := range call.Args {
						a = append(a, c.ExprStr(x))
					}
					ok = strings.Join(a, ",") == `true,n,"SelectorExpr","Sel","Ident",n.Sel`
				}
				return true
			})
			e.Run.Check("R-RESOLVE", "decorateSelectorExpr forces resolution of Sel only", e.Prog.Pos(fd.Pos()), ok, `expected f.resolvePath(true, n, "SelectorExpr", "Sel", "Ident", n.Sel)`)
		}
	}
	// resolvePath body
	fd := load.FuncDecl(pkg, "fileDecorator", "resolvePath")
	if fd == nil || fd.Body == nil {
		e.Run.Violation("R-RESOLVE", "resolvePath exists", "", "function missing")
		return
	}
	// resolvePath as a function of its inputs: the only non-empty result is the vendor-stripped
	// answer of the resolver, asked with (file, parent, field name, identifier); it is returned
	// exactly when the position is not a declaring one (or resolution is forced), the resolver
	// did not fail, and the answer is not the (vendor-stripped) local path unless local paths are
	// wanted. Errors are returned exactly when the resolver fails.
	// the file argument is whatever resolvePath passes (its provenance is RResolverFile's business);
	// parent, field name and identifier are fixed
	fileArg := "f.file"
	ast.Inspect(fd.Body, func(n ast.Node) bool {
		if cl, ok := n.(*ast.CallExpr); ok && len(cl.Args) == 4 {
			if fn := c.Callee(cl); fn != nil && fn.Name() == "ResolveIdent" {
				fileArg = c.ExprStr(cl.Args[0])
			}
		}
		return true
	})
	ask := `f.Resolver.ResolveIdent(` + fileArg + `, parent, parentField, id)`
	const pre = `f.Resolver != nil && (force || avoid[parentName+"."+parentField] || parentFieldType == "Expr")`
	e.checkReturns("R-RESOLVE", c, fd, "resolvePath", []wantReturn{{
		what:   "the vendor-stripped resolver answer, unless a declaring position (not forced), a resolver error, or the local path",
		result: `stripVendor(` + ask + `)`,
		cond:   `(force || !avoid[parentName+"."+parentField]) && res1(` + ask + `) == nil && (f.ResolveLocalPath || stripVendor(` + ask + `) != stripVendor(f.Path))`,
		// an empty answer may be short-circuited: stripVendor("") is "", the default result
		alt:    `(force || !avoid[parentName+"."+parentField]) && res1(` + ask + `) == nil && ` + ask + ` != "" && (f.ResolveLocalPath || stripVendor(` + ask + `) != stripVendor(f.Path))`,
		assume: pre, // outside it the function panics (missing resolver, unknown role): an assertion, not a result
	}, {
		what: "a resolver failure is returned", result: `""`, err: "!nil",
		cond:   `(force || !avoid[parentName+"."+parentField]) && res1(` + ask + `) != nil`,
		assume: pre,
	}}, "")
	e.stripVendorAnchored()
}

// stripVendorAnchored: every search for the vendor element is anchored on path-element
// boundaries: "/vendor/" anywhere, or "vendor/" only as a prefix. Search strings are evaluated as
// constants (a named constant or "/"+vendorDir is the same as a literal).
func (e *Env) stripVendorAnchored() {
	pkg := e.Prog.Pkg(load.PkgDecorator)
	c := e.Sib.Ctx[load.PkgDecorator]
	info := pkg.TypesInfo
	fd := load.FuncDecl(pkg, "", "stripVendor")
	if fd == nil || fd.Body == nil {
		e.Run.Violation("R-RESOLVE", "stripVendor exists", "", "function missing")
		return
	}
	bodies := e.withDirectCallees(pkg, fd)
	inspectAll := func(f func(ast.Node) bool) {
		for _, b := range bodies {
			ast.Inspect(b, f)
		}
	}
	n := 0
	constStr := func(x ast.Expr) (string, bool) {
		if tv, ok := info.Types[x]; ok && tv.Value != nil && tv.Value.Kind() == constant.String {
			return constant.StringVal(tv.Value), true
		}
		return "", false
	}
	inspectAll(func(nd ast.Node) bool {
		call, ok := nd.(*ast.CallExpr)
		if !ok {
			return true
		}
		fn := c.Callee(call)
		if fn == nil || fn.Pkg() == nil || fn.Pkg().Path() != "strings" || len(call.Args) != 2 {
			return true
		}
		lit, ok := constStr(call.Args[1])
		if !ok || !strings.Contains(lit, "vendor") {
			return true
		}
		n++
		good := false
		switch fn.Name() {
		case "Contains", "LastIndex", "Index":
			good = lit == "/vendor/"
		case "HasPrefix":
			good = lit == "vendor/"
		}
		e.Run.Check("R-RESOLVE", fmt.Sprintf("stripVendor: strings.%s(%q) matches whole path elements", fn.Name(), lit), e.Prog.Pos(call.Pos()), good,
			"the vendor element must be matched as \"/vendor/\" (anywhere) or as the prefix \"vendor/\": an unanchored match also strips paths such as example.com/govendor/x")
		return true
	})
	e.Run.Floor("R-RESOLVE", "vendor searches in stripVendor", n, 1)
	// the last occurrence decides (nested vendor directories): a search anywhere in the path must be LastIndex
	usesLast := false
	inspectAll(func(nd ast.Node) bool {
		if call, ok := nd.(*ast.CallExpr); ok {
			if fn := c.Callee(call); fn != nil && funcKey(fn) == "strings.LastIndex" {
				usesLast = true
			}
			if fn := c.Callee(call); fn != nil && funcKey(fn) == "strings.Index" {
				usesLast = false
				n = -100
			}
		}
		return true
	})
	e.Run.Check("R-RESOLVE", "stripVendor strips up to the last vendor element", e.Prog.Pos(fd.Pos()), usesLast && n > 0, "the effective import path starts after the final vendor element: the position must come from strings.LastIndex")
}

// RResolverClauses: the two decorator resolvers and the goast import-table builder, decided as
// functions of their inputs (see checkReturns, goastImports).
func (e *Env) RResolverClauses() {
	e.resolveIdentReturns()
	e.goastImports()
	// the dot-import refusal is tied to the name "." (switch arm or comparison)
	pkgG := e.Prog.Pkg(load.PkgGoast)
	cG := schema.CtxFor(e.Prog, load.PkgGoast)
	fdI := load.FuncDecl(pkgG, "DecoratorResolver", "imports")
	dotTied := false
	if fdI != nil {
		// the function itself and the same-package helpers it calls
		scan := []ast.Node{fdI.Body}
		ast.Inspect(fdI.Body, func(n ast.Node) bool {
			if call, ok := n.(*ast.CallExpr); ok {
				for _, a := range call.Args {
					if se, ok := a.(*ast.SelectorExpr); ok {
						if mf, ok := cG.Info.Uses[se.Sel].(*types.Func); ok && mf.Pkg() == pkgG.Types {
							for _, d := range load.AllFuncDecls(pkgG) {
								if cG.Info.Defs[d.Name] == types.Object(mf) && d.Body != nil {
									scan = append(scan, d.Body)
								}
							}
						}
					}
				}
				if fn := cG.Callee(call); fn != nil && fn.Pkg() == pkgG.Types {
					for _, d := range load.AllFuncDecls(pkgG) {
						if cG.Info.Defs[d.Name] == types.Object(fn) && d.Body != nil && d != fdI {
							scan = append(scan, d.Body)
						}
					}
				}
			}
			return true
		})
		for _, root := range scan {
			ast.Inspect(root, func(n ast.Node) bool {
				var body []ast.Stmt
				switch x := n.(type) {
				case *ast.CaseClause:
					for _, v := range x.List {
						if lit, ok := schema.StringLit(v); ok && lit == "." {
							body = x.Body
						}
					}
				case *ast.IfStmt:
					if be, ok := x.Cond.(*ast.BinaryExpr); ok && be.Op == token.EQL {
						if lit, ok := schema.StringLit(be.Y); ok && lit == "." {
							body = x.Body.List
						}
					}
				}
				for _, st := range body {
					if strings.Contains(stmtNorm(cG, st), "unsupported dot-import") {
						dotTied = true
					}
				}
				return true
			})
		}
	}
	e.Run.Check("R-RESOLVER", "goast.imports: the dot-import error is raised exactly for the name \".\"", "", dotTied, "no branch on name == \".\" that produces the dot-import error")
}

var _ = sort.Strings

// funcReturn: one return statement of a function, with its path condition and its results printed
// over the function's inputs (every local replaced by the expression that defines it).
type funcReturn struct {
	cond    string
	results []string
	pos     token.Pos
}

func returnsOf(c *schema.Ctx, fd *ast.FuncDecl) ([]funcReturn, bool) {
	undo := c.InstallReaching(fd)
	defer undo()
	var out []funcReturn
	good := true
	var visit func(n ast.Node) bool
	visit = func(n ast.Node) bool {
		switch x := n.(type) {
		case *ast.FuncLit:
			return false
		case *ast.ReturnStmt:
			cond, ok := pathCond(c, fd.Body.List, x)
			if !ok {
				good = false
			}
			r := funcReturn{cond: cond, pos: x.Pos()}
			for _, res := range x.Results {
				r.results = append(r.results, c.ExprStr(res))
			}
			out = append(out, r)
		}
		return true
	}
	ast.Inspect(fd.Body, visit)
	return out, good
}

// returnsOfBody: returnsOf for the body of a function literal.
func returnsOfBody(c *schema.Ctx, body []ast.Stmt) ([]funcReturn, bool) {
	blk := &ast.BlockStmt{List: body}
	if len(body) > 0 {
		blk.Lbrace, blk.Rbrace = body[0].Pos()-1, body[len(body)-1].End()
	}
	undo := c.InstallReachingIn(blk)
	defer undo()
	var out []funcReturn
	good := true
	ast.Inspect(blk, func(n ast.Node) bool {
		switch x := n.(type) {
		case *ast.FuncLit:
			return false
		case *ast.ReturnStmt:
			cond, ok := pathCond(c, body, x)
			if !ok {
				good = false
			}
			r := funcReturn{cond: cond, pos: x.Pos()}
			for _, res := range x.Results {
				r.results = append(r.results, c.ExprStr(res))
			}
			out = append(out, r)
		}
		return true
	})
	return out, good
}

// resolveIdentReturns: the two ident resolvers, as functions of their inputs. Every return's path
// is either "" or the one expression the resolver is specified to produce, and the condition
// under which that expression is returned is exactly (propositionally equivalent to) the
// specified one. Names of locals, nesting of the ifs and the number of intermediate variables do
// not matter.
func (e *Env) resolveIdentReturns() {
	check := func(pkgPath, label string, wants []wantReturn, errCond string) {
		pkg := e.Prog.Pkg(pkgPath)
		c := schema.CtxFor(e.Prog, pkgPath)
		fd := load.FuncDecl(pkg, "DecoratorResolver", "ResolveIdent")
		e.checkReturns("R-RESOLVER", c, fd, label+".ResolveIdent", wants, errCond)
	}
	const selX = `parent.(*SelectorExpr).X.(*Ident)`
	check(load.PkgGotypes, "gotypes", []wantReturn{
		{what: "a selector whose X is a package name resolves to the imported package's path, except for the cgo pseudo-package",
			result: `r.Uses[` + selX + `].(*types.PkgName).Imported().Path()`,
			cond:   `r.Uses != nil && ok(parent.(*SelectorExpr)) && parentField == "Sel" && ok(` + selX + `) && ok(r.Uses[` + selX + `]) && ok(r.Uses[` + selX + `].(*types.PkgName)) && r.Uses[` + selX + `].(*types.PkgName).Imported().Path() != "C"`,
			// a missing Uses entry reads as a nil Object, on which the type assertion fails as well
			alt: `r.Uses != nil && ok(parent.(*SelectorExpr)) && parentField == "Sel" && ok(` + selX + `) && ok(r.Uses[` + selX + `].(*types.PkgName)) && r.Uses[` + selX + `].(*types.PkgName).Imported().Path() != "C"`},
		{what: "any other used identifier resolves to its declaring package when it denotes a package-level object (declared in the package's own scope): not struct fields, universe objects, parameters, locals, type parameters, labels or package names",
			result: `r.Uses[id].Pkg().Path()`,
			cond:   `r.Uses != nil && !(ok(parent.(*SelectorExpr)) && parentField == "Sel") && ok(r.Uses[id]) && !(ok(r.Uses[id].(*types.Var)) && r.Uses[id].(*types.Var).IsField()) && r.Uses[id].Pkg() != nil && r.Uses[id].Parent() == r.Uses[id].Pkg().Scope()`,
			// the selected name of a selector whose X is not an identifier (a call, a chain) is
			// a field or a method: go/types gives those no parent scope, so the package-level
			// test is false for them and letting them reach it changes nothing
			alt: `r.Uses != nil && !(ok(parent.(*SelectorExpr)) && parentField == "Sel" && ok(` + selX + `)) && ok(r.Uses[id]) && !(ok(r.Uses[id].(*types.Var)) && r.Uses[id].(*types.Var).IsField()) && r.Uses[id].Pkg() != nil && r.Uses[id].Parent() == r.Uses[id].Pkg().Scope()`},
	}, `r.Uses == nil`)
	check(load.PkgGoast, "goast", []wantReturn{
		{what: "the Sel of a selector whose X is an undeclared identifier resolves through the file's import table",
			result: `r.imports(file)[` + selX + `.Name]`,
			cond:   `file != nil && res1(r.imports(file)) == nil && ok(parent.(*SelectorExpr)) && parentField == "Sel" && ok(` + selX + `) && ` + selX + `.Obj == nil && ok(r.imports(file)[` + selX + `.Name])`,
			// a missing name reads as "", which is the default answer
			alt: `file != nil && res1(r.imports(file)) == nil && ok(parent.(*SelectorExpr)) && parentField == "Sel" && ok(` + selX + `) && ` + selX + `.Obj == nil`},
		// an isolated node (Decorator.DecorateNode on a declaration or an expression) comes without
		// its file: the resolver cannot decide and says so instead of dereferencing nil
	}, `file == nil || res1(r.imports(file)) != nil`)
}

type wantReturn struct {
	what, result, cond string
	// err: "" — the error result is nil; "!nil" — any non-nil error; otherwise the exact expression
	err string
	// alt: a second condition under which returning the result is the same function (e.g. without
	// the presence test of a map read whose zero value is the default answer)
	alt string
	// assume: a precondition (the complement is a panic/assert region whose removal or
	// tightening does not change any result): conditions are compared under it
	assume string
}

// checkReturns: fd, as a function of its inputs, returns either (zero, nil) or one of the
// specified (result, error) pairs, each exactly under its specified condition (propositional
// equivalence of path conditions; locals are replaced by their definitions and parentheses are
// canonical, so names, nesting and the order of tests do not matter). errCond, when not empty,
// specifies when (zero, some error) is returned.
func (e *Env) checkReturns(rule string, c *schema.Ctx, fd *ast.FuncDecl, label string, wants []wantReturn, errCond string) {
	e.checkReturnsZ(rule, c, fd, label, `""`, wants, errCond)
}

// predicateHook: calls of small same-package predicates (one bool result, every return a literal
// true or false, panics allowed) print as the condition under which they return true, written
// over the arguments: `!needsResolving(a, b)` is `!(!avoid[a+"."+b] && …)`.
func (e *Env) predicateHook(c *schema.Ctx, self *ast.FuncDecl) func(*ast.CallExpr) ast.Expr {
	cache := map[*ast.FuncDecl]string{}
	busy := false
	return func(call *ast.CallExpr) ast.Expr {
		if busy {
			return nil
		}
		fn := c.Callee(call)
		if fn == nil || fn.Pkg() != c.Pkg.Types {
			return nil
		}
		sig, ok := fn.Type().(*types.Signature)
		if !ok || sig.Results().Len() != 1 || sig.Variadic() {
			return nil
		}
		if b, ok := sig.Results().At(0).Type().Underlying().(*types.Basic); !ok || b.Kind() != types.Bool {
			return nil
		}
		var d *ast.FuncDecl
		for _, x := range load.AllFuncDecls(c.Pkg) {
			if c.Info.Defs[x.Name] == types.Object(fn) && x.Body != nil && x != self {
				d = x
			}
		}
		if d == nil || len(d.Body.List) > 6 || d.Type.Params == nil {
			return nil
		}
		var params []string
		for _, f := range d.Type.Params.List {
			for _, nm := range f.Names {
				params = append(params, nm.Name)
			}
		}
		if len(params) != len(call.Args) {
			return nil
		}
		cond, done := cache[d]
		if !done {
			busy = true
			// the helper's own conditions are computed without the caller's substitutions
			savedPos, savedSubst := c.PosSubst, c.Subst
			c.PosSubst, c.Subst = nil, nil
			rets, okR := returnsOf(c, d)
			c.PosSubst, c.Subst = savedPos, savedSubst
			busy = false
			cond = ""
			if okR {
				var trues []string
				good := true
				for _, r := range rets {
					if len(r.results) != 1 {
						good = false
						break
					}
					switch r.results[0] {
					case "true":
						cd := r.cond
						if cd == "" {
							cd = "true"
						}
						trues = append(trues, "("+cd+")")
					case "false":
					default:
						good = false
					}
				}
				if good && len(trues) > 0 {
					cond = strings.Join(trues, " || ")
				} else if good {
					cond = "false"
				}
			}
			cache[d] = cond
		}
		if cond == "" {
			return nil
		}
		ex, err := parser.ParseExpr(cond)
		if err != nil {
			return nil
		}
		args := map[string]ast.Expr{}
		for i, p := range params {
			args[p] = call.Args[i]
		}
		out := astutil.Apply(ex, func(cur *astutil.Cursor) bool {
			if id, ok := cur.Node().(*ast.Ident); ok {
				if _, isSel := cur.Parent().(*ast.SelectorExpr); isSel && cur.Name() == "Sel" {
					return true
				}
				if a, isParam := args[id.Name]; isParam {
					cp := schema.DeepCopy(a)
					switch cp.(type) {
					case *ast.BinaryExpr, *ast.UnaryExpr:
						cp = &ast.ParenExpr{X: cp}
					}
					cur.Replace(cp)
				}
			}
			return true
		}, nil)
		return out.(ast.Expr)
	}
}

func (e *Env) checkReturnsZ(rule string, c *schema.Ctx, fd *ast.FuncDecl, label, zero string, wants []wantReturn, errCond string) {
	if fd == nil || fd.Body == nil {
		e.Run.Violation(rule, label+" exists", "", "missing")
		return
	}
	if c.CallHook == nil {
		c.CallHook = e.predicateHook(c, fd)
		defer func() { c.CallHook = nil }()
	}
	if errCond != "" {
		wants = append(wants, wantReturn{what: "an error is returned exactly when specified", result: zero, err: "!nil", cond: errCond})
	}
	rets, ok := returnsOf(c, fd)
	if !ok {
		e.Run.Undecided(rule, label+" returns", e.Prog.Pos(fd.Pos()), "a return statement's path condition could not be computed")
		return
	}
	conds := make([][]string, len(wants))
	var extra []funcReturn
	for ri := 0; ri < len(rets)+len(extra); ri++ {
		var r funcReturn
		if ri < len(rets) {
			r = rets[ri]
		} else {
			r = extra[ri-len(rets)]
		}
		if len(r.results) != 2 {
			e.Run.Undecided(rule, label+" returns", e.Prog.Pos(r.pos), "bare return")
			return
		}
		r0, r1 := canonText(r.results[0]), canonText(r.results[1])
		if r0 == zero && r1 == "nil" {
			continue // the default answer: returned whenever nothing else is
		}
		if dead, dec := unsatWith(r.cond, "true"); dec && dead && r.cond != "" {
			continue // unreachable facet of a split return
		}
		// an error *variable* (not a constructed error) may be nil at this return: the return is an
		// error return only where the variable is non-nil, and the plain (r0, nil) return elsewhere
		if r1 != "nil" && !strings.Contains(r1, "errors.New(") && !strings.Contains(r1, "fmt.Errorf(") {
			base := r.cond
			if base == "" {
				base = "true"
			}
			if r0 == zero {
				r.cond = "(" + base + ") && " + r1 + " != nil"
			} else {
				// a result together with a possibly-nil error: both facets are checked
				extra = append(extra, funcReturn{cond: "(" + base + ") && " + r1 + " == nil", results: []string{r.results[0], "nil"}, pos: r.pos})
				r.cond = "(" + base + ") && " + r1 + " != nil"
			}
		}
		match := -1
		for i, w := range wants {
			if r0 != canonText(w.result) {
				continue
			}
			switch w.err {
			case "":
				if r1 != "nil" {
					continue
				}
			case "!nil":
				if r1 == "nil" {
					continue
				}
			default:
				if r1 != canonText(w.err) {
					continue
				}
			}
			match = i
			break
		}
		e.Run.Check(rule, label+": every return is the default or a specified (result, error) pair", e.Prog.Pos(r.pos), match >= 0,
			"returns ("+r0+", "+r1+") under `"+r.cond+"`, which is none of the specified pairs")
		if match >= 0 {
			cd := r.cond
			if cd == "" {
				cd = "true"
			}
			conds[match] = append(conds[match], "("+cd+")")
		}
	}
	for i, w := range wants {
		got := strings.Join(conds[i], " || ")
		pair := "(" + w.result + ", " + map[string]string{"": "nil", "!nil": "an error"}[w.err] + w.err + ")"
		if got == "" {
			e.Run.Violation(rule, label+": "+w.what, e.Prog.Pos(fd.Pos()), "no return of "+pair)
			continue
		}
		facts := typingFacts(got, w.cond, w.alt)
		under := func(x string) string {
			if facts != "" {
				x = "(" + x + ") && " + facts
			}
			if w.assume == "" {
				return x
			}
			return "(" + x + ") && (" + w.assume + ")"
		}
		if w.cond == "*" {
			// the conditions of these returns are somebody else's obligation (they sit in a loop)
			e.Run.Check(rule, label+": "+w.what, e.Prog.Pos(fd.Pos()), true, "")
			continue
		}
		eq, dec := equivalentGuards(under(got), under(w.cond))
		if !dec {
			e.Run.Undecided(rule, label+": "+w.what, e.Prog.Pos(fd.Pos()), "condition not propositional: "+got)
			continue
		}
		if !eq && w.alt != "" {
			eq, _ = equivalentGuards(under(got), under(w.alt))
		}
		e.Run.Check(rule, label+": "+w.what, e.Prog.Pos(fd.Pos()), eq,
			pair+" is returned under `"+got+"`; specified: `"+w.cond+"`")
	}
}

// goastImports: the import-table builder of the goast resolver, decided on path conditions.
//   - as a function: the cached table when there is one; otherwise (nil, outer) exactly when a
//     refusal was recorded, else the new table;
//   - in the *ast.ImportSpec arm of the scan: the one store into the table is unreachable for
//     the cgo pseudo-import, for a name that is already in the table, and after a failed
//     package-name resolution; the duplicate refusal is recorded exactly under the presence test;
//     the resolver is asked with the import path and its error is recorded.
func (e *Env) goastImports() {
	pkg := e.Prog.Pkg(load.PkgGoast)
	c := schema.CtxFor(e.Prog, load.PkgGoast)
	fd := load.FuncDecl(pkg, "DecoratorResolver", "imports")
	if fd == nil || fd.Body == nil {
		e.Run.Violation("R-RESOLVER", "goast.imports exists", "", "missing")
		return
	}
	returnsSpec := func(table, errL string) {
		e.checkReturnsZ("R-RESOLVER", c, fd, "goast.imports", "∅", []wantReturn{
			{what: "a cached table is returned as it is", result: "r.files[file]", cond: "ok(r.files[file])"},
			{what: "a recorded refusal is returned, not swallowed", result: "nil", err: errL, cond: "!ok(r.files[file]) && " + errL + " != nil"},
			{what: "otherwise the new table", result: table, cond: "!ok(r.files[file]) && " + errL + " == nil"},
		}, "")
	}
	// the scan callback: a function literal, or a method value x.m (the state lives in x)
	var lit *ast.FuncLit
	rename := func(s string) string { return s } // receiver of the callback method → the value it is called on
	ast.Inspect(fd.Body, func(n ast.Node) bool {
		if call, ok := n.(*ast.CallExpr); ok && funcKey(c.Callee(call)) == "go/ast.Inspect" && len(call.Args) == 2 {
			if fl, ok := call.Args[1].(*ast.FuncLit); ok {
				lit = fl
			} else if se, ok := call.Args[1].(*ast.SelectorExpr); ok {
				if fn, ok := c.Info.Uses[se.Sel].(*types.Func); ok && fn.Pkg() == pkg.Types {
					for _, d := range load.AllFuncDecls(pkg) {
						if c.Info.Defs[d.Name] == types.Object(fn) && d.Body != nil && d.Recv != nil && len(d.Recv.List[0].Names) == 1 {
							lit = &ast.FuncLit{Type: d.Type, Body: d.Body}
							rn, on := d.Recv.List[0].Names[0].Name, c.ExprStr(se.X)
							re := regexp.MustCompile(`\b` + regexp.QuoteMeta(rn) + `\.`)
							rename = func(s string) string { return re.ReplaceAllString(s, on+".") }
						}
					}
				}
			}
		}
		return true
	})
	// loop form: no callback at all — the function ranges over the file's declarations and their
	// specs (or over file.Imports) itself; the per-spec code is the body of the innermost loop that
	// stores into the table, a refusal is a `return nil, E` from inside it
	var specLoop *ast.RangeStmt
	if lit == nil {
		specLoop = e.goastSpecLoop(c, fd)
	}
	if specLoop != nil {
		// the loops may select the import declarations with a type switch: its clause tests count
		// as conditions and its typed variable prints as the assertion it stands for
		c.TypeSwitchConds = true
		undoTS := c.InstallTypeSwitchVars(fd)
		defer func() { c.TypeSwitchConds = false; undoTS() }()
	}
	if lit == nil && specLoop == nil {
		returnsSpec("imports", "outer")
		e.Run.Violation("R-RESOLVER", "goast.imports scans the file with ast.Inspect and a literal callback, or with a loop over the import specs", e.Prog.Pos(fd.Pos()), "not found")
		return
	}
	var arm *ast.CaseClause
	if lit != nil {
		ast.Inspect(lit.Body, func(n ast.Node) bool {
			if cc, ok := n.(*ast.CaseClause); ok && len(cc.List) == 1 && c.ExprStr(cc.List[0]) == "*ImportSpec" {
				arm = cc
			}
			return true
		})
		if arm == nil {
			e.Run.Violation("R-RESOLVER", "goast.imports: the scan has an *ast.ImportSpec arm", e.Prog.Pos(lit.Pos()), "missing")
			return
		}
		e.goastCallbackReachesEverySpec(c, lit, arm)
	} else {
		arm = &ast.CaseClause{Case: specLoop.Pos(), Body: specLoop.Body.List}
	}
	type asg struct {
		lhs, rhs, cond string
		pos            token.Pos
	}
	var asgs []asg
	undecided := false
	// the code that handles one import spec: the arm itself, or a same-package helper the arm
	// hands the spec to (then a refusal is a return with a non-nil error instead of a store into
	// the captured error variable, and the helper's parameters stand for the caller's arguments)
	body := arm.Body
	var helper *ast.FuncDecl
	var helperCall *ast.CallExpr
	for _, st := range arm.Body {
		ast.Inspect(st, func(n ast.Node) bool {
			call, ok := n.(*ast.CallExpr)
			if !ok || helper != nil {
				return true
			}
			fn := c.Callee(call)
			if fn == nil || fn.Pkg() != pkg.Types || load.CanonName(fn) == "mustUnquote" {
				return true
			}
			for _, d := range load.AllFuncDecls(pkg) {
				if c.Info.Defs[d.Name] == types.Object(fn) && d.Body != nil {
					stores := false
					ast.Inspect(d.Body, func(m ast.Node) bool {
						if as, ok := m.(*ast.AssignStmt); ok {
							for _, l := range as.Lhs {
								if ix, ok := l.(*ast.IndexExpr); ok {
									if _, isMap := c.Info.TypeOf(ix.X).Underlying().(*types.Map); isMap {
										stores = true
									}
								}
							}
						}
						return true
					})
					if stores {
						helper, helperCall = d, call
					}
				}
			}
			return true
		})
	}
	var undo func()
	if specLoop != nil && helper == nil {
		undo = c.InstallReaching(fd)
	} else if helper != nil {
		body = helper.Body.List
		undo = c.InstallReaching(helper)
		// parameters print as the caller's arguments
		if c.Subst == nil {
			c.Subst = map[types.Object]ast.Expr{}
		}
		k := 0
		for _, p := range helper.Type.Params.List {
			for _, nm := range p.Names {
				if k < len(helperCall.Args) {
					c.Subst[c.Info.Defs[nm]] = helperCall.Args[k]
				}
				k++
			}
		}
		defer func() { c.Subst = nil }()
	} else {
		undo = c.InstallReachingIn(lit.Body)
	}
	defer undo()
	for _, st := range body {
		ast.Inspect(st, func(n ast.Node) bool {
			switch x := n.(type) {
			case *ast.AssignStmt:
				if len(x.Lhs) != len(x.Rhs) || x.Tok == token.DEFINE {
					return true
				}
				for i, l := range x.Lhs {
					cond, okc := pathCond(c, body, x)
					if !okc {
						undecided = true
					}
					if cond == "" {
						cond = "true"
					}
					asgs = append(asgs, asg{c.ExprStr(l), c.ExprStr(x.Rhs[i]), cond, x.Pos()})
				}
			case *ast.ReturnStmt:
				// helper form: `return false, E` is the refusal `outer = E`
				if helper != nil && len(x.Results) == 1 && c.ExprStr(x.Results[0]) != "nil" && types.Identical(c.Info.TypeOf(x.Results[0]), types.Universe.Lookup("error").Type()) {
					// a helper that returns only the refusal
					cond, okc := pathCond(c, body, x)
					if !okc {
						undecided = true
					}
					if cond == "" {
						cond = "true"
					}
					asgs = append(asgs, asg{"outer", c.ExprStr(x.Results[0]), cond, x.Pos()})
				}
				if (helper != nil || specLoop != nil) && len(x.Results) == 2 && c.ExprStr(x.Results[1]) != "nil" {
					cond, okc := pathCond(c, body, x)
					if !okc {
						undecided = true
					}
					if cond == "" {
						cond = "true"
					}
					asgs = append(asgs, asg{"outer", c.ExprStr(x.Results[1]), cond, x.Pos()})
				}
			}
			return true
		})
	}
	if undecided {
		e.Run.Undecided("R-RESOLVER", "goast.imports: ImportSpec arm", e.Prog.Pos(arm.Pos()), "path condition of an assignment not computable")
		return
	}
	// the unquoted import path of the spec at hand, as written (node.Path.Value through the arm's
	// variable, or through whatever the loop form calls the spec)
	P := `mustUnquote(node.Path.Value)`
	checkedUnquote := false // strconv.Unquote: the path's syntax error is a result, not a panic
	for _, st := range body {
		ast.Inspect(st, func(n ast.Node) bool {
			if call, ok := n.(*ast.CallExpr); ok && len(call.Args) == 1 {
				if fn := c.Callee(call); fn != nil && (load.CanonName(fn) == "mustUnquote" || funcKey(fn) == "strconv.Unquote") {
					if funcKey(fn) == "strconv.Unquote" {
						checkedUnquote = true
					}
					if se, ok := call.Args[0].(*ast.SelectorExpr); ok && se.Sel.Name == "Value" {
						if pe, ok := se.X.(*ast.SelectorExpr); ok && pe.Sel.Name == "Path" {
							if t := c.Info.TypeOf(pe.X); t != nil && strings.HasSuffix(t.String(), "go/ast.ImportSpec") {
								P = c.ExprStr(call)
							}
						}
					}
				}
			}
			return true
		})
	}
	// the package-name resolver call, as written (r.RestorerResolver… or through an owner field)
	RP := `r.RestorerResolver.ResolvePackage(` + P + `)`
	for _, st := range body {
		ast.Inspect(st, func(n ast.Node) bool {
			if call, ok := n.(*ast.CallExpr); ok {
				if fn := c.Callee(call); fn != nil && fn.Name() == "ResolvePackage" {
					RP = c.ExprStr(call)
				}
			}
			return true
		})
	}
	implies := func(cond, not string) (bool, bool) { return unsatWith(cond, not) }
	// the table: the one string-keyed map that is stored into; the refusal: the error lvalue
	var store *asg
	nStores := 0
	table := "imports"
	for i := range asgs {
		if k := strings.Index(asgs[i].lhs, "[name]"); k > 0 && strings.HasSuffix(asgs[i].lhs, "[name]") {
			nStores++
			store = &asgs[i]
			table = asgs[i].lhs[:k]
		}
	}
	errL := "outer"
	for _, a := range asgs {
		if strings.HasPrefix(a.rhs, "fmt.Errorf(") && !strings.Contains(a.lhs, "[") {
			errL = a.lhs
		}
	}
	if specLoop != nil {
		// a variable that receives the helper's refusal in the loop (tested again after it)
		loopErrVar := "outer"
		ast.Inspect(specLoop.Body, func(n ast.Node) bool {
			if as, ok := n.(*ast.AssignStmt); ok && len(as.Lhs) == 1 && len(as.Rhs) == 1 && helperCall != nil && ast.Unparen(as.Rhs[0]) == ast.Expr(helperCall) {
				loopErrVar = types.ExprString(as.Lhs[0])
			}
			return true
		})
		e.checkReturnsZ("R-RESOLVER", c, fd, "goast.imports", "∅", []wantReturn{
			{what: "a cached table is returned as it is", result: "r.files[file]", cond: "ok(r.files[file])"},
			{what: "a refusal leaves with an error, not with a partial table", result: "nil", err: "!nil", cond: "*"},
			{what: "otherwise the new table", result: table, cond: "!ok(r.files[file])", alt: "!ok(r.files[file]) && " + loopErrVar + " == nil"},
		}, "")
		e.goastLoopReachesEverySpec(c, fd, specLoop)
	} else {
		returnsSpec(rename(table), rename(errL))
	}
	if nStores != 1 {
		e.Run.Violation("R-RESOLVER", "goast.imports: one store into the table per import spec", e.Prog.Pos(arm.Pos()), fmt.Sprintf("%d stores", nStores))
		return
	}
	pos := e.Prog.Pos(store.pos)
	e.Run.Check("R-RESOLVER", "goast.imports: the table maps the name to the unquoted import path", pos, store.lhs == table+"[name]" && store.rhs == P, store.lhs+" = "+store.rhs)
	for _, ob := range []struct{ what, not string }{
		{"the cgo pseudo-import is never entered", P + ` == "C"`},
		{"a name already in the table is never overwritten", `ok(` + table + `[name])`},
		{"nothing is entered after the package-name resolver failed", `res1(` + RP + `) != nil && name == ""`},
		{"a dot-import is never entered", `name == "."`},
		{"a blank import is never entered", `name == "_"`},
		{"a spec whose path is not a string literal is never entered", `res1(` + P + `) != nil`},
	} {
		if strings.HasPrefix(ob.not, "res1("+P) && !checkedUnquote {
			// the path is unquoted by a function that panics on a malformed literal: go/parser
			// returns files with such specs (together with its error) and the decorator decorates
			// them, so the parse entry points panic
			e.Run.Check("R-RESOLVER", "goast.imports: "+ob.what, pos, false, "the import path is unquoted with "+P+", which panics on a path that is not a well-formed string literal (`import fmt`): NewDecoratorWithImports(…).Parse panics on a file that go/parser returns with an error")
			continue
		}
		okI, dec := implies(store.cond, ob.not)
		if !dec {
			e.Run.Undecided("R-RESOLVER", "goast.imports: "+ob.what, pos, "condition not propositional: "+store.cond)
			continue
		}
		e.Run.Check("R-RESOLVER", "goast.imports: "+ob.what, pos, okI, "the store is reachable under `"+store.cond+"`, which does not exclude `"+ob.not+"`")
	}
	// refusals recorded in outer
	dup, res := false, false
	for _, a := range asgs {
		if a.lhs != errL {
			continue
		}
		if strings.HasPrefix(a.rhs, "fmt.Errorf(") {
			if okI, dec := implies(a.cond, `!ok(`+table+`[name])`); dec && okI {
				dup = true
			}
		}
		if a.rhs == "res1("+RP+")" {
			if okI, dec := implies(a.cond, `res1(`+RP+`) == nil`); dec && okI {
				res = true
			}
		}
	}
	e.Run.Check("R-RESOLVER", "goast.imports: two imports under one name are refused", e.Prog.Pos(arm.Pos()), dup, "no `outer = fmt.Errorf(…)` under the presence test of imports[name]")
	e.Run.Check("R-RESOLVER", "goast.imports: an unnamed import takes its name from the package-name resolver, whose error is recorded", e.Prog.Pos(arm.Pos()), res,
		"no `outer = <error of "+RP+">` under that error being non-nil")
}

// goastSpecLoop: the innermost range loop of fd (outside function literals) whose body stores
// into a string-keyed map.
func (e *Env) goastSpecLoop(c *schema.Ctx, fd *ast.FuncDecl) *ast.RangeStmt {
	var best *ast.RangeStmt
	var walk func(n ast.Node, cur *ast.RangeStmt)
	walk = func(n ast.Node, cur *ast.RangeStmt) {
		ast.Inspect(n, func(m ast.Node) bool {
			switch x := m.(type) {
			case *ast.FuncLit:
				return false
			case *ast.RangeStmt:
				if x != n {
					walk(x, x)
					return false
				}
			case *ast.AssignStmt:
				for _, l := range x.Lhs {
					if ix, ok := l.(*ast.IndexExpr); ok && cur != nil {
						if mt, isMap := c.Info.TypeOf(ix.X).Underlying().(*types.Map); isMap {
							if b, ok := mt.Key().Underlying().(*types.Basic); ok && b.Kind() == types.String && (best == nil || (best.Pos() <= cur.Pos() && cur.End() <= best.End())) {
								best = cur
							}
						}
					}
				}
			case *ast.CallExpr:
				// the per-spec code in a same-package helper that is handed the table
				if cur == nil {
					return true
				}
				fn := c.Callee(x)
				if fn == nil || fn.Pkg() != c.Pkg.Types || load.CanonName(fn) == "mustUnquote" {
					return true
				}
				for _, a := range x.Args {
					if mt, isMap := c.Info.TypeOf(a).Underlying().(*types.Map); isMap {
						if b, ok := mt.Key().Underlying().(*types.Basic); ok && b.Kind() == types.String && (best == nil || (best.Pos() <= cur.Pos() && cur.End() <= best.End())) {
							best = cur
						}
					}
				}
			}
			return true
		})
	}
	walk(fd.Body, nil)
	return best
}

// goastCallbackReachesEverySpec: in the callback form ast.Inspect hands every import spec to the
// *ast.ImportSpec arm unless the callback prunes the file or an import declaration. Every
// `return false` of the callback is therefore (a) in an arm for node types other than *ast.File and
// *ast.GenDecl, (b) in the *ast.GenDecl arm under a condition that excludes Tok == IMPORT, or
// (c) outside the arms under a condition over flags that are only raised in such places or in the
// import-spec arm itself (a refusal, or "past the imports").
func (e *Env) goastCallbackReachesEverySpec(c *schema.Ctx, lit *ast.FuncLit, specArm *ast.CaseClause) {
	key := "goast.imports: every import spec of the file reaches the per-spec code"
	var ts *ast.TypeSwitchStmt
	ast.Inspect(lit.Body, func(n ast.Node) bool {
		if t, ok := n.(*ast.TypeSwitchStmt); ok && t.Pos() <= specArm.Pos() && specArm.End() <= t.End() {
			ts = t
		}
		return true
	})
	if ts == nil {
		return
	}
	undo := c.InstallReachingIn(lit.Body)
	defer undo()
	armOf := func(n ast.Node) *ast.CaseClause {
		for _, cl := range ts.Body.List {
			if cc := cl.(*ast.CaseClause); cc.Pos() <= n.Pos() && n.End() <= cc.End() {
				return cc
			}
		}
		return nil
	}
	// allowed: may a statement at n prune / raise a stop flag?
	allowed := func(n ast.Node) (bool, string) {
		cc := armOf(n)
		if cc == nil {
			return false, "outside the arms"
		}
		if cc == specArm {
			return true, ""
		}
		if cc.List == nil {
			return false, "in the default arm (which also receives the file and its import declarations)"
		}
		for _, t := range cc.List {
			switch c.ExprStr(t) {
			case "*File":
				return false, "in the *ast.File arm"
			case "*GenDecl":
				cond, okc := pathCond(c, cc.Body, n)
				if cond == "" {
					cond = "true"
				}
				v := "node"
				if id, ok := ts.Assign.(*ast.AssignStmt); ok && len(id.Lhs) == 1 {
					v = c.ExprStr(id.Lhs[0])
				}
				excl, dec := unsatWith(cond, v+".Tok == token.IMPORT")
				if !okc || !dec {
					return false, "in the *ast.GenDecl arm under a condition that is not propositional: " + cond
				}
				if !excl {
					return false, "in the *ast.GenDecl arm under `" + cond + "`, which does not exclude an import declaration"
				}
			}
		}
		return true, ""
	}
	n := 0
	var inspect func(root ast.Node)
	inspect = func(root ast.Node) {
		ast.Inspect(root, func(m ast.Node) bool {
			if fl, ok := m.(*ast.FuncLit); ok && fl != lit {
				return false
			}
			rs, ok := m.(*ast.ReturnStmt)
			if !ok || len(rs.Results) != 1 || c.ExprStr(rs.Results[0]) == "true" {
				return true
			}
			n++
			pos := e.Prog.Pos(rs.Pos())
			if ok, _ := allowed(rs); ok {
				return true
			}
			if armOf(rs) != nil {
				_, why := allowed(rs)
				e.Run.Check("R-RESOLVER", key, pos, false, "the scan is pruned "+why+": the import specs below never reach the table")
				return true
			}
			// outside the arms: a test of stop flags
			cond, okc := pathCond(c, lit.Body.List, rs)
			if !okc || cond == "" {
				e.Run.Check("R-RESOLVER", key, pos, false, "the callback returns "+c.ExprStr(rs.Results[0])+" for every node here: nothing below is scanned")
				return true
			}
			// every lvalue mentioned in the condition is only assigned where pruning is allowed
			good, detail := true, ""
			ast.Inspect(lit.Body, func(a ast.Node) bool {
				as, ok := a.(*ast.AssignStmt)
				if !ok {
					return true
				}
				for i, l := range as.Lhs {
					lt := types.ExprString(l)
					if !regexp.MustCompile(`(^|[^\w.])` + regexp.QuoteMeta(lt) + `($|[^\w.(\[])`).MatchString(cond) {
						continue
					}
					if len(as.Rhs) == len(as.Lhs) {
						if r := c.ExprStr(as.Rhs[i]); r == "false" || r == "nil" {
							continue
						}
					}
					if ok, why := allowed(as); !ok {
						good = false
						detail = "the stop flag " + lt + " (tested at " + pos + ") is raised " + why + " at " + e.Prog.Pos(as.Pos()) + ": the rest of the file, with its import specs, is not scanned"
					}
				}
				return true
			})
			e.Run.Check("R-RESOLVER", key, pos, good, detail)
			return true
		})
	}
	inspect(lit.Body)
	e.Run.Floor("R-RESOLVER", "goast.imports: pruning returns of the scan examined", n, 1)
}

// goastLoopReachesEverySpec: in the loop form every import spec of the file is handed to the
// per-spec code: the spec loop ranges over file.Imports, or over the Specs of a declaration that an
// enclosing loop takes from file.Decls, and no break, continue or return in the enclosing loop can
// be taken for an import declaration before the spec loop runs (import declarations come first, so
// stopping at the first other declaration is fine).
func (e *Env) goastLoopReachesEverySpec(c *schema.Ctx, fd *ast.FuncDecl, specLoop *ast.RangeStmt) {
	pos := e.Prog.Pos(specLoop.Pos())
	key := "goast.imports: every import spec of the file reaches the per-spec code"
	fileParam := ""
	if fd.Type.Params != nil && len(fd.Type.Params.List) == 1 && len(fd.Type.Params.List[0].Names) == 1 {
		fileParam = fd.Type.Params.List[0].Names[0].Name
	}
	undo := c.InstallReaching(fd)
	defer undo()
	x := c.ExprStr(specLoop.X)
	if x == fileParam+".Imports" {
		e.Run.Check("R-RESOLVER", key, pos, true, "")
		return
	}
	// enclosing loop over file.Decls
	var outer *ast.RangeStmt
	ast.Inspect(fd.Body, func(n ast.Node) bool {
		if rs, ok := n.(*ast.RangeStmt); ok && rs != specLoop && rs.Pos() <= specLoop.Pos() && specLoop.End() <= rs.End() {
			outer = rs
		}
		return true
	})
	if outer == nil || c.ExprStr(outer.X) != fileParam+".Decls" || outer.Value == nil {
		e.Run.Check("R-RESOLVER", key, pos, false, "the spec loop ranges over `"+x+"`, which is neither "+fileParam+".Imports nor the Specs of each declaration in "+fileParam+".Decls")
		return
	}
	declVar := c.ExprStr(outer.Value)
	if !strings.HasSuffix(x, ".Specs") || !strings.HasPrefix(x, declVar+".(*GenDecl)") {
		e.Run.Check("R-RESOLVER", key, pos, false, "the spec loop ranges over `"+x+"`, not over the Specs of the declaration `"+declVar+"`")
		return
	}
	isImport := "ok(" + declVar + ".(*GenDecl)) && " + declVar + ".(*GenDecl).Tok == token.IMPORT"
	// a declaration has one dynamic type: being a *GenDecl it is no other pointer type
	otherType := regexp.MustCompile(`ok\(` + regexp.QuoteMeta(declVar) + `\.\(\*(\w+)\)\)`)
	exclusive := func(cond string) string {
		out, seen := isImport, map[string]bool{}
		for _, m := range otherType.FindAllStringSubmatch(cond, -1) {
			if m[1] != "GenDecl" && !seen[m[1]] {
				seen[m[1]] = true
				out += " && !ok(" + declVar + ".(*" + m[1] + "))"
			}
		}
		return out
	}
	good := true
	detail := ""
	ast.Inspect(outer.Body, func(n ast.Node) bool {
		if n == ast.Node(specLoop) {
			return false
		}
		var leave ast.Stmt
		switch s := n.(type) {
		case *ast.FuncLit:
			return false
		case *ast.BranchStmt:
			if s.Tok == token.BREAK || s.Tok == token.CONTINUE || s.Tok == token.GOTO {
				leave = s
			}
		case *ast.ReturnStmt:
			leave = s
		}
		if leave == nil || leave.Pos() > specLoop.Pos() {
			return true
		}
		cond, okc := pathCond(c, outer.Body.List, leave)
		if cond == "" {
			cond = "true"
		}
		excl, dec := unsatWith(cond, exclusive(cond))
		if !okc || !dec {
			e.Run.Undecided("R-RESOLVER", key, e.Prog.Pos(leave.Pos()), "condition not propositional: "+cond)
			return true
		}
		if !excl {
			good = false
			detail = "the loop over the declarations can be left at " + e.Prog.Pos(leave.Pos()) + " under `" + cond + "`, which does not exclude an import declaration: its specs never reach the table"
		}
		return true
	})
	// the spec loop itself runs for every import declaration
	cond, okc := pathCond(c, outer.Body.List, specLoop)
	if !okc {
		e.Run.Undecided("R-RESOLVER", key, pos, "path condition of the spec loop not computable")
		return
	}
	if cond != "" {
		if skipped, dec := unsatWith(exclusive(cond), cond); !dec {
			e.Run.Undecided("R-RESOLVER", key, pos, "condition not propositional: "+cond)
			return
		} else if skipped {
			good = false
			detail = "the spec loop runs under `" + cond + "`, which excludes import declarations"
		} else if implied, dec2 := unsatWith(exclusive(cond), schema.NegGuard("("+cond+")")); dec2 && !implied {
			good = false
			detail = "the spec loop runs only under `" + cond + "`, which does not hold for every import declaration"
		}
	}
	e.Run.Check("R-RESOLVER", key, pos, good, detail)
}

// resolvedDomain: package names are asked of the resolver exactly for the packages that some
// identifier refers to. The argument of every ResolvePackage call in updateImports is the key of a
// range over a set S, and every store into S is the scan's *dst.Ident arm storing S[n.Path]: a
// set that also receives the cgo pseudo-import or blank imports would ask the resolver for "C"
// (which no package-name resolver knows), so that an unedited cgo file no longer restores.
func (e *Env) resolvedDomain(c *schema.Ctx, fd *ast.FuncDecl, lit *ast.FuncLit, identArm *ast.CaseClause) {
	info := c.Info
	nCalls := 0
	var stack []ast.Node
	ast.Inspect(fd.Body, func(n ast.Node) bool {
		if n == nil {
			stack = stack[:len(stack)-1]
			return true
		}
		stack = append(stack, n)
		call, ok := n.(*ast.CallExpr)
		if !ok || len(call.Args) != 1 {
			return true
		}
		fn := c.Callee(call)
		if fn == nil || fn.Name() != "ResolvePackage" {
			return true
		}
		nCalls++
		key := "updateImports: the package-name resolver is asked only about packages that identifiers refer to"
		arg, isID := call.Args[0].(*ast.Ident)
		var set types.Object
		if isID {
			for i := len(stack) - 1; i >= 0 && set == nil; i-- {
				rs, isRange := stack[i].(*ast.RangeStmt)
				if !isRange {
					continue
				}
				for _, kv := range []ast.Expr{rs.Key, rs.Value} {
					if kid, ok := kv.(*ast.Ident); ok && info.Defs[kid] != nil && info.Defs[kid] == info.Uses[arg] {
						x := ast.Unparen(rs.X)
						if cl, isCall := x.(*ast.CallExpr); isCall && len(cl.Args) == 1 {
							x = ast.Unparen(cl.Args[0]) // sortedKeys(S)
						}
						if sid, ok := x.(*ast.Ident); ok {
							set = info.Uses[sid]
						}
					}
				}
			}
		}
		if set == nil {
			e.Run.Check("R-DISC", key, e.Prog.Pos(call.Pos()), false, "the argument `"+c.ExprStr(call.Args[0])+"` is not the element of a loop over a local set")
			return true
		}
		// every store into the set
		good, nStores := true, 0
		why := ""
		ast.Inspect(fd.Body, func(m ast.Node) bool {
			as, ok := m.(*ast.AssignStmt)
			if !ok {
				return true
			}
			for _, l := range as.Lhs {
				ix, ok := l.(*ast.IndexExpr)
				if !ok {
					continue
				}
				bid, ok := ix.X.(*ast.Ident)
				if !ok || info.Uses[bid] != set {
					continue
				}
				nStores++
				inArm := identArm != nil && identArm.Pos() <= as.Pos() && as.End() <= identArm.End()
				if !inArm || c.ExprStr(ix.Index) != "n.Path" {
					good = false
					why = fmt.Sprintf("%s[%s] is also stored at %s", set.Name(), c.ExprStr(ix.Index), e.Prog.Pos(as.Pos()))
				}
			}
			return true
		})
		e.Run.Check("R-DISC", key, e.Prog.Pos(call.Pos()), good && nStores > 0,
			"the resolver is asked for every key of `"+set.Name()+"`, which holds more than the paths of identifiers ("+why+"): the cgo pseudo-import \"C\" and blank imports have no resolvable package name, so restoring an unedited file fails with a strict resolver")
		return true
	})
	e.Run.Floor("R-DISC", "ResolvePackage calls in updateImports", nCalls, 1)
}

// RQuietRearrange (C08): the import block is only re-arranged — re-sorted, re-spaced,
// re-parenthesised — when a spec was added to it or removed from it. Every such write in
// updateImports has, among the conjuncts of its path condition, either a change flag (a bool
// local that is set to true only in a block that also appends to some block's Specs) or a
// comparison of the number of kept specs with the number of specs the block had. Anything
// weaker (`added || …`, no guard) re-sorts or re-spaces the imports of a file in which nothing
// changed.
func (e *Env) RQuietRearrange() {
	pkg := e.Prog.Pkg(load.PkgDecorator)
	info := pkg.TypesInfo
	c := e.Sib.Ctx[load.PkgDecorator]
	fd := load.FuncDecl(pkg, "FileRestorer", "updateImports")
	if fd == nil || fd.Body == nil {
		e.Run.Violation("R-QUIET", "updateImports exists", "", "missing")
		return
	}
	undo := c.InstallReaching(fd)
	defer undo()
	isGenDecl := func(x ast.Expr) bool {
		t := info.TypeOf(x)
		if t == nil {
			return false
		}
		if p, ok := t.(*types.Pointer); ok {
			t = p.Elem()
		}
		nt, ok := t.(*types.Named)
		return ok && nt.Obj().Pkg() != nil && nt.Obj().Pkg().Path() == load.PkgDst && nt.Obj().Name() == "GenDecl"
	}
	// change flags: bool locals whose every `= true` sits in a block that appends to a .Specs
	isFlag := func(name string) bool {
		var obj types.Object
		good, seen := true, false
		var stack []ast.Node
		ast.Inspect(fd.Body, func(n ast.Node) bool {
			if n == nil {
				stack = stack[:len(stack)-1]
				return true
			}
			stack = append(stack, n)
			as, ok := n.(*ast.AssignStmt)
			if !ok || len(as.Lhs) != 1 || len(as.Rhs) != 1 {
				return true
			}
			id, ok := as.Lhs[0].(*ast.Ident)
			if !ok || id.Name != name {
				return true
			}
			o := info.Uses[id]
			if o == nil {
				o = info.Defs[id]
			}
			if b, isB := o.Type().Underlying().(*types.Basic); !isB || b.Kind() != types.Bool {
				return true
			}
			obj = o
			val := c.ExprStr(as.Rhs[0])
			if val == "false" {
				return true
			}
			if val != "true" {
				good = false
				return true
			}
			seen = true
			// innermost enclosing block appends to Specs
			appends := false
			for i := len(stack) - 1; i >= 0 && !appends; i-- {
				blk, isBlk := stack[i].(*ast.BlockStmt)
				if !isBlk {
					continue
				}
				ast.Inspect(blk, func(m ast.Node) bool {
					if a2, ok := m.(*ast.AssignStmt); ok && len(a2.Lhs) == 1 && len(a2.Rhs) == 1 {
						if se, ok := a2.Lhs[0].(*ast.SelectorExpr); ok && se.Sel.Name == "Specs" {
							if cl, ok := a2.Rhs[0].(*ast.CallExpr); ok && types.ExprString(cl.Fun) == "append" {
								appends = true
							}
						}
					}
					return true
				})
				break
			}
			if !appends {
				good = false
			}
			return true
		})
		return obj != nil && good && seen
	}
	// a queue of specs to add: `len(Q) > 0` where some loop over Q appends a spec per element
	isQueueLen := func(cj string) bool {
		m := regexp.MustCompile(`^len\((\w+)\) (> 0|!= 0)$`).FindStringSubmatch(cj)
		if m == nil {
			return false
		}
		found := false
		ast.Inspect(fd.Body, func(n ast.Node) bool {
			rs, ok := n.(*ast.RangeStmt)
			if !ok {
				return true
			}
			if id, ok := rs.X.(*ast.Ident); !ok || id.Name != m[1] {
				return true
			}
			ast.Inspect(rs.Body, func(b ast.Node) bool {
				if a2, ok := b.(*ast.AssignStmt); ok && len(a2.Lhs) == 1 && len(a2.Rhs) == 1 {
					target := false
					if se, ok := a2.Lhs[0].(*ast.SelectorExpr); ok && se.Sel.Name == "Specs" {
						target = true
					}
					if lid, ok := a2.Lhs[0].(*ast.Ident); ok && specsAlias(info, fd, lid) {
						target = true
					}
					if target {
						if cl, ok := a2.Rhs[0].(*ast.CallExpr); ok && types.ExprString(cl.Fun) == "append" {
							found = true
						}
					}
				}
				return true
			})
			return true
		})
		// or: a queue of new specs that is appended to a block as a whole (X.Specs = append(X.Specs, Q...))
		if !found && e.specQueue(info, fd, m[1]) != nil {
			found = true
		}
		return found
	}
	lenCmp := regexp.MustCompile(`^len\(.+\) != len\(.+\)$`)
	n := 0
	check := func(w ast.Node, what string) {
		n++
		key := "updateImports: " + what + " only when a spec was added or removed"
		cond, ok := pathCond(c, fd.Body.List, w)
		if !ok {
			e.Run.Undecided("R-QUIET", key, e.Prog.Pos(w.Pos()), "path condition not computable")
			return
		}
		guarded := false
		for _, cj := range splitTop(cond, " && ") {
			cj = strings.TrimSpace(cj)
			for strings.HasPrefix(cj, "(") && strings.HasSuffix(cj, ")") && balanced(cj[1:len(cj)-1]) {
				cj = cj[1 : len(cj)-1]
			}
			inner := splitTop(cj, " && ")
			if len(inner) > 1 {
				for _, x := range inner {
					if isFlag(strings.TrimSpace(x)) || isQueueLen(strings.TrimSpace(x)) || (lenCmp.MatchString(strings.TrimSpace(x)) && strings.Contains(x, ".Specs")) {
						guarded = true
					}
				}
				continue
			}
			if isFlag(cj) || isQueueLen(cj) || (lenCmp.MatchString(cj) && strings.Contains(cj, ".Specs")) {
				guarded = true
			}
		}
		e.Run.Check("R-QUIET", key, e.Prog.Pos(w.Pos()), guarded,
			"reachable under `"+cond+"`, which holds for a file whose imports are already complete: the block of an unchanged file is re-arranged (order, blank lines or parentheses differ from the source)")
	}
	ast.Inspect(fd.Body, func(nd ast.Node) bool {
		switch x := nd.(type) {
		case *ast.CallExpr:
			if fn := c.Callee(x); fn != nil && fn.Pkg() != nil && isSortPkg(fn) && len(x.Args) >= 1 {
				if se, ok := x.Args[0].(*ast.SelectorExpr); ok && se.Sel.Name == "Specs" && isGenDecl(se.X) {
					check(x, "the block is re-sorted")
				}
			}
			// a same-package helper that sets the parens of the block it is given
			if fn := c.Callee(x); fn != nil && fn.Pkg() == pkg.Types {
				for _, h := range load.AllFuncDecls(pkg) {
					if info.Defs[h.Name] != types.Object(fn) || h.Body == nil || h == fd {
						continue
					}
					sets := false
					ast.Inspect(h.Body, func(m ast.Node) bool {
						if as, ok := m.(*ast.AssignStmt); ok {
							for _, l := range as.Lhs {
								if hs, ok := l.(*ast.SelectorExpr); ok && (hs.Sel.Name == "Lparen" || hs.Sel.Name == "Rparen") && isGenDecl(hs.X) {
									sets = true
								}
							}
						}
						return true
					})
					if sets {
						check(x, "the block's parens are rewritten (by "+h.Name.Name+")")
						n++ // Lparen and Rparen
					}
				}
			}
		case *ast.AssignStmt:
			for _, l := range x.Lhs {
				se, ok := l.(*ast.SelectorExpr)
				if !ok {
					continue
				}
				switch {
				case (se.Sel.Name == "Lparen" || se.Sel.Name == "Rparen") && isGenDecl(se.X):
					check(x, "the block's "+se.Sel.Name+" is rewritten")
				case se.Sel.Name == "Before" || se.Sel.Name == "After":
					if strings.Contains(c.ExprStr(se), ".Decorations().") {
						check(x, "a spec's "+se.Sel.Name+" spacing is rewritten")
					}
				}
			}
		}
		return true
	})
	e.Run.Analysed("import block rearrangements", n)
	e.Run.Floor("R-QUIET", "import block rearrangements in updateImports", n, 4)
}

// firstResultOf: o is a local defined as the first result of a call to the closure fnObj in fd.
func firstResultOf(info *types.Info, c *schema.Ctx, fd *ast.FuncDecl, fnObj, o types.Object) bool {
	found := false
	ast.Inspect(fd.Body, func(n ast.Node) bool {
		as, ok := n.(*ast.AssignStmt)
		if !ok || len(as.Rhs) != 1 || len(as.Lhs) < 1 {
			return true
		}
		call, ok := as.Rhs[0].(*ast.CallExpr)
		if !ok {
			return true
		}
		if fid, ok := call.Fun.(*ast.Ident); !ok || c.ObjOf(fid) != fnObj {
			return true
		}
		if id, ok := as.Lhs[0].(*ast.Ident); ok && c.ObjOf(id) == o && o != nil {
			found = true
		}
		return true
	})
	return found
}

// RAddsEveryMissing (C07): every required import that has no spec in the file gets one. The
// statement that appends a new *dst.ImportSpec to a block sits in a loop either over the ordered
// list of all required imports — then it runs exactly for the paths that are not in importsFound
// (path condition equivalent to the absence test, nothing else) — or over a queue that is filled,
// under exactly that condition, in a loop over the list of all required imports. Any further
// condition (an alias kind, an early continue of an unrelated test) leaves an identifier without
// its import.
func (e *Env) RAddsEveryMissing() {
	pkg := e.Prog.Pkg(load.PkgDecorator)
	info := pkg.TypesInfo
	c := e.Sib.Ctx[load.PkgDecorator]
	fd := load.FuncDecl(pkg, "FileRestorer", "updateImports")
	if fd == nil || fd.Body == nil {
		return
	}
	undo := c.InstallReaching(fd)
	defer undo()
	key := "updateImports: every required import without a spec gets one"
	// the list of all required imports: a slice filled with the keys of importsRequired
	var all types.Object
	ast.Inspect(fd.Body, func(n ast.Node) bool {
		rs, ok := n.(*ast.RangeStmt)
		if !ok {
			return true
		}
		if id, ok := rs.X.(*ast.Ident); !ok || id.Name != "importsRequired" {
			return true
		}
		kid, ok := rs.Key.(*ast.Ident)
		if !ok {
			return true
		}
		ast.Inspect(rs.Body, func(b ast.Node) bool {
			as, ok := b.(*ast.AssignStmt)
			if !ok || len(as.Lhs) != 1 || len(as.Rhs) != 1 {
				return true
			}
			uses := false
			ast.Inspect(as.Rhs[0], func(m ast.Node) bool {
				if id, ok := m.(*ast.Ident); ok && info.Uses[id] == info.Defs[kid] {
					uses = true
				}
				return true
			})
			if !uses {
				return true
			}
			switch l := as.Lhs[0].(type) {
			case *ast.IndexExpr:
				if id, ok := l.X.(*ast.Ident); ok {
					if _, isSlice := info.TypeOf(id).Underlying().(*types.Slice); isSlice {
						all = info.Uses[id]
					}
				}
			case *ast.Ident:
				if _, isSlice := info.TypeOf(l).Underlying().(*types.Slice); isSlice {
					all = info.Uses[l]
				}
			}
			return true
		})
		return true
	})
	// … or two buckets that partition the keys (if / else, each branch appending the key to its
	// bucket), joined afterwards: X := append(A, B...)
	ast.Inspect(fd.Body, func(n ast.Node) bool {
		rs, ok := n.(*ast.RangeStmt)
		if !ok {
			return true
		}
		if id, ok := rs.X.(*ast.Ident); !ok || id.Name != "importsRequired" {
			return true
		}
		kid, ok := rs.Key.(*ast.Ident)
		if !ok || len(rs.Body.List) != 1 {
			return true
		}
		is, ok := rs.Body.List[0].(*ast.IfStmt)
		if !ok || is.Else == nil {
			return true
		}
		bucketOf := func(n ast.Node) types.Object {
			var b types.Object
			cnt := 0
			ast.Inspect(n, func(m ast.Node) bool {
				as, ok := m.(*ast.AssignStmt)
				if !ok || len(as.Lhs) != 1 || len(as.Rhs) != 1 {
					return true
				}
				call, ok := ast.Unparen(as.Rhs[0]).(*ast.CallExpr)
				if !ok || len(call.Args) != 2 {
					return true
				}
				fid, ok := call.Fun.(*ast.Ident)
				lid, ok2 := as.Lhs[0].(*ast.Ident)
				aid, ok3 := ast.Unparen(call.Args[1]).(*ast.Ident)
				if ok && ok2 && ok3 && fid.Name == "append" && types.ExprString(call.Args[0]) == lid.Name && info.Uses[aid] == info.Defs[kid] {
					b = info.Uses[lid]
					cnt++
				}
				return true
			})
			if cnt != 1 {
				return nil
			}
			return b
		}
		b1, b2 := bucketOf(is.Body), bucketOf(is.Else)
		if b1 == nil || b2 == nil || b1 == b2 {
			return true
		}
		ast.Inspect(fd.Body, func(m ast.Node) bool {
			as, ok := m.(*ast.AssignStmt)
			if !ok || len(as.Lhs) != 1 || len(as.Rhs) != 1 || as.Pos() < rs.End() {
				return true
			}
			call, ok := ast.Unparen(as.Rhs[0]).(*ast.CallExpr)
			if !ok || len(call.Args) != 2 || !call.Ellipsis.IsValid() {
				return true
			}
			fid, ok := call.Fun.(*ast.Ident)
			a0, ok0 := ast.Unparen(call.Args[0]).(*ast.Ident)
			a1, ok1 := ast.Unparen(call.Args[1]).(*ast.Ident)
			lid, okl := as.Lhs[0].(*ast.Ident)
			if !ok || !ok0 || !ok1 || !okl || fid.Name != "append" {
				return true
			}
			x, y := info.Uses[a0], info.Uses[a1]
			if (x == b1 && y == b2) || (x == b2 && y == b1) {
				if o := info.Defs[lid]; o != nil {
					all = o
				} else {
					all = info.Uses[lid]
				}
			}
			return true
		})
		return true
	})
	if all == nil {
		e.Run.Undecided("R-ADD", key, e.Prog.Pos(fd.Pos()), "the list of all required imports (a slice filled with the keys of importsRequired) was not found")
		return
	}
	// enclosing range loop of a node
	enclosing := func(n ast.Node) *ast.RangeStmt {
		var out *ast.RangeStmt
		ast.Inspect(fd.Body, func(m ast.Node) bool {
			if rs, ok := m.(*ast.RangeStmt); ok && rs.Body.Pos() <= n.Pos() && n.End() <= rs.Body.End() {
				out = rs
			}
			return true
		})
		return out
	}
	exactlyMissing := func(st ast.Node, loop *ast.RangeStmt) (bool, string) {
		vid, ok := loop.Value.(*ast.Ident)
		if !ok {
			return false, "loop has no element variable"
		}
		cond, okc := pathCond(c, loop.Body.List, st)
		if !okc {
			return false, "path condition not computable"
		}
		want := "!ok(importsFound[" + vid.Name + "])"
		eq, dec := equivalentGuards(cond, want)
		if !dec {
			return false, "condition not propositional: " + cond
		}
		if !eq {
			return false, "it runs under `" + cond + "`, not exactly for the paths absent from importsFound (`" + want + "`)"
		}
		return true, ""
	}
	n := 0
	ast.Inspect(fd.Body, func(nd ast.Node) bool {
		as, ok := nd.(*ast.AssignStmt)
		if !ok || len(as.Lhs) != 1 || len(as.Rhs) != 1 {
			return true
		}
		if se, ok := as.Lhs[0].(*ast.SelectorExpr); !ok || se.Sel.Name != "Specs" {
			// … or a local that stands for a block's Specs and is written back afterwards
			lid, isID := as.Lhs[0].(*ast.Ident)
			if !isID || !specsAlias(info, fd, lid) {
				return true
			}
		}
		cl, ok := as.Rhs[0].(*ast.CallExpr)
		if !ok || types.ExprString(cl.Fun) != "append" || len(cl.Args) != 2 {
			return true
		}
		// the appended value is a freshly built import spec
		if _, tn := namedOf(info.TypeOf(cl.Args[1])); tn != "ImportSpec" {
			return true
		}
		loop := enclosing(as)
		if loop == nil {
			return true
		}
		n++
		lid, _ := ast.Unparen(loop.X).(*ast.Ident)
		switch {
		case lid != nil && info.Uses[lid] == all:
			good, why := exactlyMissing(as, loop)
			e.Run.Check("R-ADD", key, e.Prog.Pos(as.Pos()), good, "the spec is appended in the loop over all required imports, but "+why+": a referenced package can stay without an import")
		case lid != nil:
			queue := info.Uses[lid]
			// unconditional in the queue loop
			cond, okc := pathCond(c, loop.Body.List, as)
			un := okc && (cond == "" || cond == "true")
			// every fill of the queue: in a loop over all, exactly for the missing paths
			fills, good, why := 0, true, ""
			ast.Inspect(fd.Body, func(m ast.Node) bool {
				f, ok := m.(*ast.AssignStmt)
				if !ok || len(f.Lhs) != 1 || len(f.Rhs) != 1 {
					return true
				}
				fid, ok := f.Lhs[0].(*ast.Ident)
				if !ok || info.Uses[fid] != queue {
					return true
				}
				fc, ok := f.Rhs[0].(*ast.CallExpr)
				if !ok || types.ExprString(fc.Fun) != "append" {
					return true
				}
				fills++
				fl := enclosing(f)
				flid, _ := func() (*ast.Ident, bool) {
					if fl == nil {
						return nil, false
					}
					id, ok := ast.Unparen(fl.X).(*ast.Ident)
					return id, ok
				}()
				if fl == nil || flid == nil || info.Uses[flid] != all {
					good, why = false, "the queue "+queue.Name()+" is filled outside a loop over all required imports"
					return true
				}
				if g, w := exactlyMissing(f, fl); !g {
					good, why = false, "the queue "+queue.Name()+" is filled, but "+w
				}
				return true
			})
			e.Run.Check("R-ADD", key, e.Prog.Pos(as.Pos()), un && fills > 0 && good,
				fmt.Sprintf("specs are appended from the queue %s (unconditionally: %v [`%s`]; fills: %d); %s: a referenced package can stay without an import", queue.Name(), un, cond, fills, why))
		default:
			e.Run.Undecided("R-ADD", key, e.Prog.Pos(as.Pos()), "the loop that appends import specs ranges over "+c.ExprStr(loop.X))
		}
		return true
	})
	// form C: the new specs are collected in a queue Q (filled in the loop over all required
	// imports, exactly for the missing paths) and appended to a block as a whole
	ast.Inspect(fd.Body, func(nd ast.Node) bool {
		as, ok := nd.(*ast.AssignStmt)
		if !ok || len(as.Lhs) != 1 || len(as.Rhs) != 1 {
			return true
		}
		se, ok := as.Lhs[0].(*ast.SelectorExpr)
		if !ok || se.Sel.Name != "Specs" {
			return true
		}
		cl, ok := as.Rhs[0].(*ast.CallExpr)
		if !ok || types.ExprString(cl.Fun) != "append" || len(cl.Args) != 2 || !cl.Ellipsis.IsValid() {
			return true
		}
		qid, ok := ast.Unparen(cl.Args[1]).(*ast.Ident)
		if !ok {
			return true
		}
		sq := e.specQueue(info, fd, qid.Name)
		if sq == nil {
			return true
		}
		n++
		q := qid.Name
		// (1) the queue is filled exactly for the missing paths
		good, why := len(sq.fills) > 0, "the queue "+q+" is never filled"
		for _, f := range sq.fills {
			fl := enclosing(f)
			var flid *ast.Ident
			if fl != nil {
				flid, _ = ast.Unparen(fl.X).(*ast.Ident)
			}
			if fl == nil || flid == nil || info.Uses[flid] != all {
				good, why = false, "the queue "+q+" is filled outside a loop over all required imports"
				continue
			}
			if g, w := exactlyMissing(f, fl); !g {
				good, why = false, "the queue "+q+" is filled, but "+w
			}
		}
		// (2) the queue reaches the block whenever it is not empty
		cond, okc := pathCond(c, fd.Body.List, as)
		// (conjuncts `err == nil` for an error variable come from earlier error returns: the
		// restore has failed there and nothing is appended anywhere)
		premise := "r.Resolver != nil && len(" + q + ") > 0"
		for _, cj := range splitTopAnd(orTrue(cond)) {
			cj = strings.TrimSpace(cj)
			if name := strings.TrimSuffix(cj, " == nil"); name != cj && token.IsIdentifier(name) {
				isErr := false
				ast.Inspect(fd.Body, func(m ast.Node) bool {
					if id, ok := m.(*ast.Ident); ok && id.Name == name {
						if v, ok := info.ObjectOf(id).(*types.Var); ok && types.Identical(v.Type(), types.Universe.Lookup("error").Type()) {
							isErr = true
						}
					}
					return !isErr
				})
				if isErr {
					premise += " && " + cj
				}
			}
		}
		reached, dec := unsatWith(premise, schema.NegGuard("("+orTrue(cond)+")"))
		if !okc || !dec {
			e.Run.Undecided("R-ADD", key, e.Prog.Pos(as.Pos()), "condition not propositional: "+cond)
			return true
		}
		if good && !reached {
			good, why = false, "the queue "+q+" is appended to the block only under `"+cond+"`"
		}
		e.Run.Check("R-ADD", key, e.Prog.Pos(as.Pos()), good, why+": a referenced package can stay without an import")
		// (3) the block that receives the queue is not thrown away by a deletion decided earlier
		recv := c.ExprStr(se.X)
		ast.Inspect(fd.Body, func(m ast.Node) bool {
			del, ok := m.(*ast.AssignStmt)
			if !ok || len(del.Lhs) != 1 || len(del.Rhs) != 1 || del.Pos() > as.Pos() {
				return true
			}
			ix, ok := del.Lhs[0].(*ast.IndexExpr)
			if !ok || c.ExprStr(del.Rhs[0]) != "true" {
				return true
			}
			if id, ok := ast.Unparen(ix.X).(*ast.Ident); !ok || !strings.HasPrefix(strings.ToLower(id.Name), "delete") {
				return true
			}
			dcond, okd := pathCond(c, fd.Body.List, del)
			victim := c.ExprStr(ix.Index)
			safe, dec := unsatWith(orTrue(dcond), "len("+q+") > 0 && "+victim+" == "+recv)
			k2 := "updateImports: the block that receives the new specs is not deleted"
			if !okd || !dec {
				e.Run.Undecided("R-ADD", k2, e.Prog.Pos(del.Pos()), "condition not propositional: "+dcond)
				return true
			}
			e.Run.Check("R-ADD", k2, e.Prog.Pos(del.Pos()), safe,
				fmt.Sprintf("%s is marked for deletion under `%s`, which does not exclude that it is %s while %s still holds specs to add: they are appended to it afterwards (%s) and dropped with it — the code refers to packages that are not imported", victim, dcond, recv, q, e.Prog.Pos(as.Pos())))
			return true
		})
		return true
	})
	e.Run.Analysed("import-spec additions", n)
	e.Run.Floor("R-ADD", "import-spec additions in updateImports", n, 1)
}

// specQueue: the local slice named q in fd is a queue of new import specs: every assignment to it
// is `q = append(q, x)` with x a *dst.ImportSpec (or its declaration). fills are those appends.
type specQueueInfo struct{ fills []*ast.AssignStmt }

func (e *Env) specQueue(info *types.Info, fd *ast.FuncDecl, q string) *specQueueInfo {
	out := &specQueueInfo{}
	good := true
	ast.Inspect(fd.Body, func(n ast.Node) bool {
		as, ok := n.(*ast.AssignStmt)
		if !ok {
			return true
		}
		for i, l := range as.Lhs {
			id, ok := l.(*ast.Ident)
			if !ok || id.Name != q {
				continue
			}
			if _, isSlice := info.TypeOf(id).Underlying().(*types.Slice); !isSlice {
				good = false
				continue
			}
			if len(as.Lhs) != len(as.Rhs) {
				good = false
				continue
			}
			cl, ok := as.Rhs[i].(*ast.CallExpr)
			if !ok || types.ExprString(cl.Fun) != "append" || len(cl.Args) != 2 || cl.Ellipsis.IsValid() || types.ExprString(cl.Args[0]) != q {
				// a fresh empty slice is a declaration
				if tv := info.Types[as.Rhs[i]]; tv.IsNil() {
					continue
				}
				if lit, ok := as.Rhs[i].(*ast.CompositeLit); ok && len(lit.Elts) == 0 {
					continue
				}
				good = false
				continue
			}
			if _, tn := namedOf(info.TypeOf(cl.Args[1])); tn != "ImportSpec" {
				good = false
				continue
			}
			out.fills = append(out.fills, as)
		}
		return true
	})
	if !good || len(out.fills) == 0 {
		return nil
	}
	return out
}

// RCarry: what the resolver found is what the tree carries. (1) decorate's Ident case stores the
// result of its one resolvePath call into out.Path (and n.Name into out.Name); (2) in
// decorateSelectorExpr every store into the collapsed identifier's Name is n.Sel.Name and every
// store into its Path is the result of the forced resolvePath call — a qualified identifier
// becomes (path of the package, name of the selected object), whatever the file called the
// package; (3) restoreIdent reads back exactly these two fields: the selector's Sel is built
// from n.Name. Without these stores the resolvers' answers never reach the tree, however right
// they are.
func (e *Env) RCarry() {
	pkg := e.Prog.Pkg(load.PkgDecorator)
	c := e.Sib.Ctx[load.PkgDecorator]
	// (1) generated Ident case
	if cs := e.Sib.ByName["decorate"].Cases["Ident"]; cs != nil {
		nPath, nameOK := 0, false
		for _, ev := range cs.Events {
			switch {
			case ev.Kind == schema.KPath:
				nPath++
				e.Run.Check("R-CARRY", "decorate Ident: the resolved path is stored in out.Path", e.Prog.Pos(ev.Pos), ev.Field == "Path" && ev.ErrOK,
					"the result of resolvePath must be assigned to out.Path after its error is checked; found field `"+ev.Field+"`")
			case ev.Kind == schema.KValue && ev.Field == "Name":
				nameOK = ev.Src == "Name" && ev.Guard == ""
			case ev.Kind == schema.KValue && ev.Field == "Path":
				e.Run.Check("R-CARRY", "decorate Ident: out.Path only comes from resolvePath", e.Prog.Pos(ev.Pos), false, "out.Path = "+ev.Expr)
			}
		}
		e.Run.Check("R-CARRY", "decorate Ident: exactly one resolvePath result is stored", e.casePos(cs), nPath == 1, fmt.Sprintf("%d resolvePath results stored into the identifier (a result that is dropped leaves every reference unresolved)", nPath))
		e.Run.Check("R-CARRY", "decorate Ident: out.Name = n.Name", e.casePos(cs), nameOK, "the identifier's name must be copied unconditionally")
	} else {
		e.Run.Violation("R-CARRY", "decorate has an Ident case", "", "missing")
	}
	// (2) decorateSelectorExpr
	fd := load.FuncDecl(pkg, "fileDecorator", "decorateSelectorExpr")
	if fd == nil || fd.Body == nil {
		e.Run.Violation("R-CARRY", "decorateSelectorExpr exists", "", "missing")
		return
	}
	var outObj types.Object
	var allocStmt *ast.AssignStmt
	ast.Inspect(fd.Body, func(n ast.Node) bool {
		if as, ok := n.(*ast.AssignStmt); ok && as.Tok == token.DEFINE && len(as.Lhs) == 1 && len(as.Rhs) == 1 && outObj == nil {
			if u, ok := as.Rhs[0].(*ast.UnaryExpr); ok && u.Op == token.AND {
				if cl, ok := u.X.(*ast.CompositeLit); ok && strings.HasSuffix(c.ExprStr(cl.Type), "Ident") {
					outObj = c.Info.Defs[as.Lhs[0].(*ast.Ident)]
					allocStmt = as
					// fields set in the literal itself
					for _, el := range cl.Elts {
						if kv, ok := el.(*ast.KeyValueExpr); ok {
							e.carryStore(c, fd, c.ExprStr(kv.Key), kv.Value, kv.Pos())
						}
					}
				}
			}
		}
		return true
	})
	if outObj == nil {
		e.Run.Undecided("R-CARRY", "decorateSelectorExpr allocates the collapsed identifier", e.Prog.Pos(fd.Pos()), "no `x := &dst.Ident{…}`")
		return
	}
	undo := c.InstallReaching(fd)
	seen := map[string]int{}
	// the condition under which the identifier is handed back
	allocCond := ""
	ast.Inspect(fd.Body, func(n ast.Node) bool {
		if rs, ok := n.(*ast.ReturnStmt); ok && len(rs.Results) >= 1 {
			if id, ok := rs.Results[0].(*ast.Ident); ok && c.ObjOf(id) == outObj {
				cd, _ := pathCond(c, fd.Body.List, rs)
				if allocCond == "" {
					allocCond = "(" + orTrue(cd) + ")"
				} else {
					allocCond += " || (" + orTrue(cd) + ")"
				}
			}
		}
		return true
	})
	_ = allocStmt
	ast.Inspect(fd.Body, func(n ast.Node) bool {
		as, ok := n.(*ast.AssignStmt)
		if !ok || len(as.Lhs) != len(as.Rhs) {
			return true
		}
		for i, l := range as.Lhs {
			if p, ok := c.Path(l, outObj); ok && (p == "Name" || p == "Path") {
				seen[p]++
				cond, okc := pathCond(c, fd.Body.List, as)
				e.carryStoreStr(p, c.ExprStr(as.Rhs[i]), cond, as.Pos())
				// set whenever the identifier is created
				missing, dec := unsatWith("("+orTrue(allocCond)+")", schema.NegGuard("("+orTrue(cond)+")"))
				eq := missing // no way to return the identifier without having passed the store
				if !okc || !dec {
					e.Run.Undecided("R-CARRY", "decorateSelectorExpr: out."+p+" is set whenever the identifier is returned", e.Prog.Pos(as.Pos()), "condition not propositional: "+cond)
				} else {
					e.Run.Check("R-CARRY", "decorateSelectorExpr: out."+p+" is set whenever the identifier is returned", e.Prog.Pos(as.Pos()), eq,
						"the identifier is returned under `"+orTrue(allocCond)+"` but out."+p+" is only stored under `"+orTrue(cond)+"`")
				}
			}
		}
		return true
	})
	undo()
	for _, f := range []string{"Name", "Path"} {
		e.Run.Check("R-CARRY", "decorateSelectorExpr: the collapsed identifier's "+f+" is set", e.Prog.Pos(fd.Pos()), seen[f] >= 1, "no store into out."+f+": a qualified identifier would lose its "+strings.ToLower(f))
	}
	e.Run.Floor("R-CARRY", "stores into the collapsed identifier's Name/Path", seen["Name"]+seen["Path"], 2)
}

func (e *Env) carryStore(c *schema.Ctx, fd *ast.FuncDecl, field string, rhs ast.Expr, pos token.Pos) {
	if field != "Name" && field != "Path" {
		return
	}
	undo := c.InstallReaching(fd)
	defer undo()
	e.carryStoreStr(field, c.ExprStr(rhs), "", pos)
}

func (e *Env) carryStoreStr(field, rhs, cond string, pos token.Pos) {
	const ask = `f.resolvePath(true, n, "SelectorExpr", "Sel", "Ident", n.Sel)`
	switch field {
	case "Name":
		e.Run.Check("R-CARRY", "decorateSelectorExpr: the collapsed identifier is named after the selected object", e.Prog.Pos(pos), rhs == "n.Sel.Name",
			"out.Name = "+rhs+"; a qualified identifier pkg.Name must become the identifier Name (with Path = the package's path)")
	case "Path":
		e.Run.Check("R-CARRY", "decorateSelectorExpr: the collapsed identifier's path is the resolver's answer for Sel", e.Prog.Pos(pos), rhs == "res0("+ask+")" || rhs == ask,
			"out.Path = "+rhs+"; expected the first result of "+ask)
	}
}

func orTrue(c string) string {
	if c == "" {
		return "true"
	}
	return c
}

// RNameSource (C07, C08): a path reaches the name selection (findAlias) only if a name can be
// found for it. The scan records as required, besides the paths of identifiers (which are
// resolved or aliased), constant pseudo-paths — importsRequired["C"] for cgo. Such a path is
// never in packagesInUse, has no resolved name and no alias, so findAlias would look for a free
// name starting from the empty string; that is harmless only while no dot or blank import has
// been given its empty name yet — an accident of the sort order. Every call of findAlias must
// therefore be unreachable for each constant required path (`path == "C"` excluded by its path
// condition), as it is for dot and blank imports.
func (e *Env) RNameSource() {
	pkg := e.Prog.Pkg(load.PkgDecorator)
	info := pkg.TypesInfo
	c := e.Sib.Ctx[load.PkgDecorator]
	fd := load.FuncDecl(pkg, "FileRestorer", "updateImports")
	if fd == nil || fd.Body == nil {
		return
	}
	// constant keys stored into a map[string]bool that also receives identifier paths
	consts := map[string]bool{}
	ast.Inspect(fd.Body, func(n ast.Node) bool {
		as, ok := n.(*ast.AssignStmt)
		if !ok || len(as.Lhs) != 1 || len(as.Rhs) != 1 {
			return true
		}
		ix, ok := as.Lhs[0].(*ast.IndexExpr)
		if !ok {
			return true
		}
		if id, ok := ast.Unparen(ix.X).(*ast.Ident); !ok || id.Name != "importsRequired" {
			return true
		}
		if tv, ok := info.Types[ix.Index]; ok && tv.Value != nil && tv.Value.Kind() == constant.String {
			consts[constant.StringVal(tv.Value)] = true
		}
		return true
	})
	_, findObj := funcLitNamed(info, fd, "findAlias")
	if findObj == nil || len(consts) == 0 {
		e.Run.Floor("R-NAMESRC", "constant required paths / findAlias", len(consts), 1)
		return
	}
	undo := c.InstallReaching(fd)
	defer undo()
	n := 0
	ast.Inspect(fd.Body, func(nd ast.Node) bool {
		call, ok := nd.(*ast.CallExpr)
		if !ok || len(call.Args) < 1 {
			return true
		}
		if id, ok := call.Fun.(*ast.Ident); !ok || c.ObjOf(id) != findObj {
			return true
		}
		n++
		// the path argument, as written at the call (a loop variable)
		pathArg := types.ExprString(call.Args[0])
		cond, okc := pathCond(c, fd.Body.List, call)
		if cond == "" {
			cond = "true"
		}
		for _, k := range sortedKeys(consts) {
			key := fmt.Sprintf("updateImports: the pseudo-import %q never goes through name selection", k)
			excl, dec := unsatWith(cond, pathArg+" == "+strconv.Quote(k))
			if !okc || !dec {
				e.Run.Undecided("R-NAMESRC", key, e.Prog.Pos(call.Pos()), "condition not propositional: "+cond)
				continue
			}
			e.Run.Check("R-NAMESRC", key, e.Prog.Pos(call.Pos()), excl,
				fmt.Sprintf("findAlias(%s, …) is reachable for %s == %q under `%s`: %q is required by the scan but has neither a resolved name nor an alias, so the search for a free name starts from the empty string — which is taken as soon as a dot or blank import sorts before it, and the spec is then rewritten as `1 %q` (an unedited cgo file no longer restores)", pathArg, pathArg, k, cond, k, k))
		}
		return true
	})
	// the package-name resolver is never asked about a pseudo-import: no resolver can find "C"
	// (gopackages, gobuild and simple answer with an error), so an identifier that carries that
	// path would make an unedited cgo file impossible to restore
	nRes := 0
	ast.Inspect(fd.Body, func(nd ast.Node) bool {
		call, ok := nd.(*ast.CallExpr)
		if !ok || len(call.Args) != 1 {
			return true
		}
		fn := calleeFunc(info, call)
		if fn == nil || fn.Name() != "ResolvePackage" {
			return true
		}
		nRes++
		pathArg := types.ExprString(call.Args[0])
		cond, okc := pathCond(c, fd.Body.List, call)
		if cond == "" {
			cond = "true"
		}
		for _, k := range sortedKeys(consts) {
			key := fmt.Sprintf("updateImports: the package-name resolver is never asked about the pseudo-import %q", k)
			excl, dec := unsatWith(cond, pathArg+" == "+strconv.Quote(k))
			if !okc || !dec {
				e.Run.Undecided("R-NAMESRC", key, e.Prog.Pos(call.Pos()), "condition not propositional: "+cond)
				continue
			}
			e.Run.Check("R-NAMESRC", key, e.Prog.Pos(call.Pos()), excl,
				fmt.Sprintf("ResolvePackage(%s) is reachable for %s == %q under `%s`: %q is not a package a resolver can find, its error aborts the restore of an unedited cgo file whose identifiers carry that path", pathArg, pathArg, k, cond, k))
		}
		return true
	})
	e.Run.Floor("R-NAMESRC", "calls of the package-name resolver in updateImports", nRes, 1)
	e.Run.Floor("R-NAMESRC", "findAlias call sites", n, 1)
	// the name such a pseudo-import has in the code is the pseudo-path itself ("C" is always C): an
	// empty name would make restoreIdent print C.int as a bare int. Somewhere in the naming code
	// the constant (or the path variable itself) is assigned, or handed to a closure that stores
	// the names, in a place that is reached exactly for the pseudo-path; together with
	// "never through findAlias" that is the only name it can get.
	stores := 0
	for _, k := range sortedKeys(consts) {
		found := false
		where := token.NoPos
		holdsFor := func(n ast.Node, keyText string) bool {
			cond, okc := pathCond(c, fd.Body.List, n)
			if !okc {
				return false
			}
			if cond == "" {
				return false
			}
			// the statement is reached only when the path is the pseudo-path (cond ⇒ key == k); that
			// it is reached for it at all is the business of "never through findAlias" and of the
			// other stores, which are not reachable for it
			only, dec := unsatWith(cond, keyText+" != "+strconv.Quote(k))
			return dec && only
		}
		ast.Inspect(fd.Body, func(nd ast.Node) bool {
			var vals []ast.Expr
			switch x := nd.(type) {
			case *ast.AssignStmt:
				vals = x.Rhs
			case *ast.CallExpr:
				if id, ok := x.Fun.(*ast.Ident); ok {
					if lit, _ := funcLitNamed(info, fd, id.Name); lit != nil {
						vals = x.Args
					}
				}
			}
			for _, v := range vals {
				tv, ok := info.Types[v]
				if !ok || tv.Value == nil || tv.Value.Kind() != constant.String || constant.StringVal(tv.Value) != k {
					continue
				}
				// which variable holds the path here: any identifier compared with the constant in
				// the enclosing conditions
				cond, _ := pathCond(c, fd.Body.List, nd)
				for _, m := range regexp.MustCompile(`(\w+) == `+regexp.QuoteMeta(strconv.Quote(k))).FindAllStringSubmatch(cond, -1) {
					if holdsFor(nd, m[1]) {
						found = true
						where = nd.Pos()
					}
				}
			}
			return true
		})
		stores++
		_ = where
		e.Run.Check("R-NAMESRC", fmt.Sprintf("updateImports: the pseudo-import %q is called %s in the code", k, k), e.Prog.Pos(fd.Pos()), found,
			fmt.Sprintf("nothing in updateImports assigns the name %q under a condition that holds whenever the path is %q: identifiers that carry that path (the types-based resolver gives C.int one) are restored with an empty or invented name instead of %s", k, k, k))
	}
	e.Run.Floor("R-NAMESRC", "name stores reachable for a pseudo-import", stores, 1)
}

// specsAlias: the local named l in fd stands for a block's Specs: it is defined as `l := B.Specs`,
// only ever extended with `l = append(l, …)`, and written back with `B.Specs = l`.
func specsAlias(info *types.Info, fd *ast.FuncDecl, l *ast.Ident) bool {
	o := info.Uses[l]
	if o == nil {
		o = info.Defs[l]
	}
	if o == nil {
		return false
	}
	def, back, other := false, false, false
	ast.Inspect(fd.Body, func(n ast.Node) bool {
		as, ok := n.(*ast.AssignStmt)
		if !ok || len(as.Lhs) != 1 || len(as.Rhs) != 1 {
			return true
		}
		if id, ok := as.Lhs[0].(*ast.Ident); ok && (info.Uses[id] == o || info.Defs[id] == o) {
			if se, ok := ast.Unparen(as.Rhs[0]).(*ast.SelectorExpr); ok && se.Sel.Name == "Specs" && as.Tok == token.DEFINE {
				def = true
			} else if cl, ok := as.Rhs[0].(*ast.CallExpr); ok && types.ExprString(cl.Fun) == "append" && len(cl.Args) >= 1 && types.ExprString(cl.Args[0]) == id.Name {
			} else {
				other = true
			}
		}
		if se, ok := as.Lhs[0].(*ast.SelectorExpr); ok && se.Sel.Name == "Specs" {
			if rid, ok := ast.Unparen(as.Rhs[0]).(*ast.Ident); ok && info.Uses[rid] == o {
				back = true
			}
		}
		return true
	})
	return def && back && !other
}

// closureParamFrom: o is a parameter of a local closure of fd, and at every call of that closure
// the corresponding argument is the first result of a call of fnObj (findAlias) or the empty
// string literal (the name of dot, blank and cgo imports, which never is a candidate).
func (e *Env) closureParamFrom(info *types.Info, c *schema.Ctx, fd *ast.FuncDecl, fnObj, o types.Object) bool {
	var lit *ast.FuncLit
	var bound types.Object
	pidx := -1
	ast.Inspect(fd.Body, func(n ast.Node) bool {
		as, ok := n.(*ast.AssignStmt)
		if !ok || len(as.Lhs) != 1 || len(as.Rhs) != 1 {
			return true
		}
		fl, ok := as.Rhs[0].(*ast.FuncLit)
		if !ok {
			return true
		}
		k := 0
		for _, f := range fl.Type.Params.List {
			for _, nm := range f.Names {
				if info.Defs[nm] == o {
					lit, pidx = fl, k
					if id, ok := as.Lhs[0].(*ast.Ident); ok {
						bound = c.ObjOf(id)
					}
				}
				k++
			}
		}
		return true
	})
	if lit == nil || bound == nil {
		return false
	}
	calls, good := 0, true
	ast.Inspect(fd.Body, func(n ast.Node) bool {
		cl, ok := n.(*ast.CallExpr)
		if !ok {
			return true
		}
		if id, ok := cl.Fun.(*ast.Ident); !ok || c.ObjOf(id) != bound || pidx >= len(cl.Args) {
			return true
		}
		calls++
		a := ast.Unparen(cl.Args[pidx])
		if _, isLit := schema.StringLit(a); isLit {
			return true // a constant name (the empty one of dot/blank imports, the C of cgo): never a candidate
		}
		if id, ok := a.(*ast.Ident); ok && firstResultOf(info, c, fd, fnObj, c.ObjOf(id)) {
			return true
		}
		good = false
		return true
	})
	return calls > 0 && good
}

// aliasedExcluded: the statement target (a store keyed by k) is reached only when effectiveAlias
// has no entry for k: an enclosing block has an earlier sibling `if _, ok := effectiveAlias[k]; ok
// [|| …] { continue | return | break }`, or target lies in the body of `if _, ok :=
// effectiveAlias[k]; !ok [&& …]`, or in the else of `…; ok`.
func aliasedExcluded(body *ast.BlockStmt, target ast.Node, k string) bool {
	lookup := func(is *ast.IfStmt) string { // the name of the ok variable of `_, ok := effectiveAlias[k]`
		as, ok := is.Init.(*ast.AssignStmt)
		if !ok || len(as.Lhs) != 2 || len(as.Rhs) != 1 {
			return ""
		}
		ix, ok := ast.Unparen(as.Rhs[0]).(*ast.IndexExpr)
		if !ok || types.ExprString(ix.X) != "effectiveAlias" || types.ExprString(ix.Index) != k {
			return ""
		}
		id, ok := as.Lhs[1].(*ast.Ident)
		if !ok {
			return ""
		}
		return id.Name
	}
	var operands func(x ast.Expr, op token.Token) []ast.Expr
	operands = func(x ast.Expr, op token.Token) []ast.Expr {
		x = ast.Unparen(x)
		if b, ok := x.(*ast.BinaryExpr); ok && b.Op == op {
			return append(operands(b.X, op), operands(b.Y, op)...)
		}
		return []ast.Expr{x}
	}
	leaves := func(b *ast.BlockStmt) bool {
		if len(b.List) == 0 {
			return false
		}
		switch s := b.List[len(b.List)-1].(type) {
		case *ast.ReturnStmt:
			return true
		case *ast.BranchStmt:
			return s.Tok == token.CONTINUE || s.Tok == token.BREAK
		}
		return false
	}
	found := false
	var visit func(list []ast.Stmt)
	visit = func(list []ast.Stmt) {
		for i, st := range list {
			if !(st.Pos() <= target.Pos() && target.End() <= st.End()) {
				continue
			}
			// earlier siblings that leave when the key is aliased
			for _, prev := range list[:i] {
				is, ok := prev.(*ast.IfStmt)
				if !ok || is.Else != nil || !leaves(is.Body) {
					continue
				}
				if okv := lookup(is); okv != "" {
					for _, d := range operands(is.Cond, token.LOR) {
						if id, ok := d.(*ast.Ident); ok && id.Name == okv {
							found = true
						}
					}
				}
			}
			// enclosing if on the lookup itself
			if is, ok := st.(*ast.IfStmt); ok {
				if okv := lookup(is); okv != "" {
					inBody := is.Body.Pos() <= target.Pos() && target.End() <= is.Body.End()
					for _, d := range operands(is.Cond, token.LAND) {
						if u, ok := d.(*ast.UnaryExpr); ok && u.Op == token.NOT && inBody {
							if id, ok := ast.Unparen(u.X).(*ast.Ident); ok && id.Name == okv {
								found = true
							}
						}
					}
					if id, ok := ast.Unparen(is.Cond).(*ast.Ident); ok && id.Name == okv && !inBody && is.Else != nil {
						found = true
					}
				}
			}
			// descend
			ast.Inspect(st, func(n ast.Node) bool {
				if n == st {
					return true
				}
				if b, ok := n.(*ast.BlockStmt); ok && b.Pos() <= target.Pos() && target.End() <= b.End() {
					visit(b.List)
					return false
				}
				if cc, ok := n.(*ast.CaseClause); ok && cc.Pos() <= target.Pos() && target.End() <= cc.End() {
					visit(cc.Body)
					return false
				}
				return true
			})
		}
	}
	visit(body.List)
	return found
}

// typingFacts: facts of the language and of go/types about the atoms of the given conditions,
// as a conjunction both sides of a comparison are put under: a comma-ok type assertion on a map
// element succeeds only when the key is there (the element of a missing key is the nil interface),
// and (*types.PkgName).Imported() is never nil.
func typingFacts(conds ...string) string {
	seen := map[string]bool{}
	var facts []string
	add := func(f string) {
		if !seen[f] {
			seen[f] = true
			facts = append(facts, f)
		}
	}
	for _, cs := range conds {
		if cs == "" || cs == "*" {
			continue
		}
		g := parseGuard(cs)
		if !g.ok || g.expr == nil {
			continue
		}
		ast.Inspect(g.expr, func(n ast.Node) bool {
			switch v := n.(type) {
			case *ast.CallExpr:
				if id, ok := v.Fun.(*ast.Ident); ok && id.Name == "ok" && len(v.Args) == 1 {
					if ta, ok := ast.Unparen(v.Args[0]).(*ast.TypeAssertExpr); ok {
						if ix, ok := ast.Unparen(ta.X).(*ast.IndexExpr); ok {
							add("(!" + types.ExprString(v) + " || ok(" + types.ExprString(ix) + "))")
						}
					}
				}
			case *ast.BinaryExpr:
				if v.Op == token.NEQ && types.ExprString(v.Y) == "nil" {
					if call, ok := ast.Unparen(v.X).(*ast.CallExpr); ok && len(call.Args) == 0 {
						if se, ok := call.Fun.(*ast.SelectorExpr); ok && se.Sel.Name == "Imported" && strings.HasSuffix(types.ExprString(se.X), ".(*types.PkgName)") {
							add("(" + types.ExprString(v) + ")")
						}
					}
				}
			}
			return true
		})
	}
	return strings.Join(facts, " && ")
}

// RFileOf (R-RESOLVE): when a package is decorated, the file an identifier is resolved in is the
// file that contains it. fileOf returns the file being decorated when there is one; otherwise the
// element of the package's files whose extent contains the identifier's position — returned
// under exactly that containment (files without declarations may be skipped: nothing in them
// can be resolved). A wrong file means the identifier is qualified with another file's imports.
func (e *Env) RFileOf() {
	pkg := e.Prog.Pkg(load.PkgDecorator)
	info := pkg.TypesInfo
	c := e.Sib.Ctx[load.PkgDecorator]
	fd := load.FuncDecl(pkg, "fileDecorator", "fileOf")
	if fd == nil || fd.Body == nil || fd.Type.Params == nil || len(fd.Type.Params.List) != 1 || len(fd.Type.Params.List[0].Names) != 1 {
		return // the provenance rule reports a missing fileOf
	}
	id := fd.Type.Params.List[0].Names[0].Name
	n := 0
	ast.Inspect(fd.Body, func(nd ast.Node) bool {
		rs, ok := nd.(*ast.RangeStmt)
		if !ok || rs.Value == nil {
			return true
		}
		val, ok := rs.Value.(*ast.Ident)
		if !ok {
			return true
		}
		if _, tn := namedOf(info.TypeOf(val)); tn != "File" {
			return true
		}
		ast.Inspect(rs.Body, func(m ast.Node) bool {
			ret, ok := m.(*ast.ReturnStmt)
			if !ok || len(ret.Results) != 1 || types.ExprString(ret.Results[0]) != val.Name {
				return true
			}
			n++
			pf := val.Name
			inside := pf + ".Pos() <= " + id + ".Pos() && " + id + ".Pos() <= " + pf + ".End()"
			pc, okp := pathCond(c, rs.Body.List, ret)
			key := "fileOf: a file of the package is returned exactly when it contains the identifier"
			only, d1 := unsatWith(orTrue(pc), "!("+inside+")")
			whenever, d2 := unsatWith("!("+orTrue(pc)+")", inside+" && len("+pf+".Decls) != 0")
			if !okp || !d1 || !d2 {
				e.Run.Undecided("R-RESOLVE", key, e.Prog.Pos(ret.Pos()), "condition not propositional: "+pc)
				return true
			}
			e.Run.Check("R-RESOLVE", key, e.Prog.Pos(ret.Pos()), only && whenever,
				"the file is returned under «"+pc+"» (specified: `"+inside+"`, files without declarations may be skipped): with ParseDir / DecorateNode on a package an identifier is resolved with the import declarations of another file — qualified with the wrong package, or not at all")
			return true
		})
		return true
	})
	e.Run.Analysed("R-RESOLVE fileOf returns inside the package loop", n)
}

// RMergeAppendGuard (R-MERGE): what decorateSelectorExpr merged is appended to the identifier
// whenever there is something to append: an `Append(v...)` on the new identifier's decorations
// sits under no condition, or under `len(v) > 0` (`!= 0`); never under the opposite test.
func (e *Env) RMergeAppendGuard() {
	pkg := e.Prog.Pkg(load.PkgDecorator)
	c := e.Sib.Ctx[load.PkgDecorator]
	fd := load.FuncDecl(pkg, "fileDecorator", "decorateSelectorExpr")
	if fd == nil || fd.Body == nil {
		return
	}
	n := 0
	ast.Inspect(fd.Body, func(nd ast.Node) bool {
		call, ok := nd.(*ast.CallExpr)
		if !ok || len(call.Args) != 1 || !call.Ellipsis.IsValid() {
			return true
		}
		se, ok := call.Fun.(*ast.SelectorExpr)
		if !ok || se.Sel.Name != "Append" || !strings.Contains(types.ExprString(se.X), ".Decs.") {
			return true
		}
		v := types.ExprString(call.Args[0])
		n++
		pc, okp := pathCond(c, fd.Body.List, call)
		good := okp
		for _, cj := range flatConjuncts(orTrue(pc)) {
			cj = strings.TrimSpace(cj)
			if !strings.Contains(cj, "len("+v+")") {
				continue
			}
			if cj != "len("+v+") > 0" && cj != "len("+v+") != 0" && cj != "0 < len("+v+")" && cj != "len("+v+") >= 1" {
				good = false
			}
		}
		// a negated length test leaves no positive conjunct: look at the raw text as well
		if strings.Contains(pc, "!(len("+v+") > 0)") || strings.Contains(pc, "len("+v+") == 0") || strings.Contains(pc, "len("+v+") <= 0") {
			good = false
		}
		e.Run.Check("R-MERGE", "decorateSelectorExpr appends "+types.ExprString(se.X)+" whenever the merge produced something", e.Prog.Pos(call.Pos()), good,
			"the merged decorations are appended under «"+pc+"»: comments and line breaks around the dot of a qualified identifier are dropped exactly when there are some")
		return true
	})
	e.Run.Analysed("R-MERGE appends of merged decorations", n)
}
