package rules

import "dstverif/load"

func init() {
	register("C13", Meta{
		Explanation: "Structural induction over Walk's 54 cases: the frame (visit first, prune on nil, Visit(nil) after the children) and the Inspect adapter equal go/ast's; every case calls Walk exactly once per node-typed field of the dst struct, in declaration order, equal to go/ast.Walk's child sequence with comment children erased, guarded at least where upstream guards; no return or other statement inside a case; panicking default. Decides the whole statement for all trees and pruning predicates.",
	}, func(e *Env) {
		e.RCover("walk", e.dstNodeNames(), true)
		e.RWalk()
		e.RGuard("walk")
	})
	register("C14", Meta{
		Explanation: "Static agreement of dstutil.Apply with astutil.Apply: the per-type child table equals Walk's (checked by C13 against go/ast) with every field-name literal resolving to the field that is passed and of the right kind; Apply, the Cursor methods, the apply frame and applyList equal golang.org/x/tools v0.1.12 astutil after erasing qualifiers/comments/local names; package files are visited in sorted order. Decides traversal order and cursor bookkeeping as 'same code as upstream' in a canonical form (small helpers inlined, continue/return guards nested, negations and negated if/else normalised, assignment initialisers of if hoisted, named results made explicit, pure single-use locals and zero slice bounds removed, locals renamed); a semantics-preserving rewrite outside these (e.g. a different recover/defer structure) would still be reported.",
		NotCovered:  []string{"equivalence with upstream when the fork legitimately diverges (then reported, see level_note)"},
	}, func(e *Env) {
		e.RCover("apply", e.dstNodeNames(), true)
		e.RCover("walk", e.dstNodeNames(), true)
		e.RWalk()
		e.RApply()
		var pairs []forkPair
		for _, m := range []string{"Node", "Parent", "Name", "Index", "field", "Replace", "Delete", "InsertAfter", "InsertBefore"} {
			pairs = append(pairs, forkPair{load.PkgDstutil, load.PkgAstutil, "Cursor", m, forkOpts{}})
		}
		pairs = append(pairs,
			forkPair{load.PkgDstutil, load.PkgAstutil, "", "Apply", forkOpts{}},
			forkPair{load.PkgDstutil, load.PkgAstutil, "application", "apply", forkOpts{elideSwitch: true}},
			forkPair{load.PkgDstutil, load.PkgAstutil, "application", "applyList", forkOpts{}},
		)
		e.RFork(pairs)
	})
}
