package rules

import (
	"fmt"
	"go/ast"
	"go/token"
	"go/types"
	"strings"

	"dstverif/load"
	"dstverif/schema"
)

// ---------------------------------------------------------------------------------------------
// R-MAPS: every node allocation is registered in both direction maps, with itself as key/value,
// before any recursive conversion, and with a key that cannot be nil.

type mapSide struct {
	sib     string
	fwd     string // map keyed by the source node
	back    string // map keyed by the created node
	created string // package of created nodes
}

func (e *Env) rMapsCase(side mapSide, tn string, cs *schema.Case, label string) int {
	n := 0
	// upstream non-optional children: key `n.F` acceptable only if never nil
	type alloc struct {
		src, dst string // operand names: n/out or n.Type/out.Type
		idx      int
		pos      token.Pos
	}
	var allocs []alloc
	for i, ev := range cs.Events {
		switch ev.Kind {
		case schema.KAlloc:
			allocs = append(allocs, alloc{"n", "out", i, ev.Pos})
		case schema.KInit:
			allocs = append(allocs, alloc{"n." + ev.Field, "out." + ev.Field, i, ev.Pos})
		}
	}
	firstConv := len(cs.Events)
	for i, ev := range cs.Events {
		switch ev.Kind {
		case schema.KChild, schema.KList, schema.KMap, schema.KObj, schema.KScope:
			if i < firstConv {
				firstConv = i
			}
		}
	}
	for _, a := range allocs {
		n++
		var fwdIdx, backIdx = -1, -1
		for i, ev := range cs.Events {
			if ev.Kind != schema.KMapReg || ev.Guard != "" {
				continue
			}
			// the last store under a key is the one that stays
			if ev.Name == side.fwd && ev.Src == a.src {
				fwdIdx = -1
				if ev.Expr == a.dst {
					fwdIdx = i
				}
			}
			if ev.Name == side.back && ev.Src == a.dst {
				backIdx = -1
				if ev.Expr == a.src {
					backIdx = i
				}
			}
		}
		key := fmt.Sprintf("%s %s: allocation %s registered", label, tn, a.dst)
		pos := e.Prog.Pos(a.pos)
		ok := fwdIdx > a.idx && backIdx > a.idx
		detail := fmt.Sprintf("the node allocated as %s must be stored as %s[%s] = %s and %s[%s] = %s after its allocation", a.dst, side.fwd, a.src, a.dst, side.back, a.dst, a.src)
		if !ok {
			e.Run.Violation("R-MAPS", key, pos, detail+fmt.Sprintf(" (forward store %s, backward store %s)", foundStr(fwdIdx), foundStr(backIdx)))
			continue
		}
		e.Run.OK("R-MAPS", key, pos, detail)
		// the store that the converter's own look-up reads (keyed by the source node) must precede
		// the first recursive conversion; the inverse entry only has to exist
		e.Run.Check("R-MAPS", fmt.Sprintf("%s %s: %s registered before recursion", label, tn, a.dst), pos, fwdIdx < firstConv || a.src != "n",
			"the store "+side.fwd+"[n] = out must precede the first recursive conversion (memoisation of cyclic graphs and duplicate detection look the source node up there)")
	}
	// every map store has a key that cannot be nil at that point
	for i, ev := range cs.Events {
		if ev.Kind != schema.KMapReg {
			continue
		}
		n++
		key := fmt.Sprintf("%s %s: %s[%s] key is non-nil", label, tn, ev.Name, ev.Src)
		ok, why := false, ""
		switch {
		case ev.Src == "n" || ev.Src == "out":
			ok = true
		case strings.HasPrefix(ev.Src, "out."):
			// the field must have been assigned before (Init / Child / PosStore...)
			f := strings.TrimPrefix(ev.Src, "out.")
			for _, p := range cs.Events[:i] {
				if p.Field == f && (p.Kind == schema.KInit || ((p.Kind == schema.KChild) && p.Guard == "")) {
					ok = true
				}
			}
			why = "out." + f + " is still nil when used as a map key (assigned later or never)"
		case strings.HasPrefix(ev.Src, "n."):
			// source-side field: acceptable when upstream go/ast never guards it (non-optional)
			f := strings.TrimPrefix(ev.Src, "n.")
			ok = !e.optionalChild(tn, f)
			why = "n." + f + " is an optional child upstream; a nil key would be registered"
		default:
			why = "key is not rooted at n or out"
		}
		e.Run.Check("R-MAPS", key, e.Prog.Pos(ev.Pos), ok, why)
		// value side: pairs are mutually inverse
		n++
		wantMap := side.fwd
		if strings.HasPrefix(ev.Src, "out") {
			wantMap = side.back
		}
		okPair := ev.Name == wantMap && ((strings.HasPrefix(ev.Src, "n") && strings.HasPrefix(ev.Expr, "out")) || (strings.HasPrefix(ev.Src, "out") && strings.HasPrefix(ev.Expr, "n")))
		if label == "decorateSelectorExpr" || label == "restoreIdent" {
			// documented collapse: three ast nodes ↔ one dst Ident
			okPair = ev.Name == wantMap || ev.Name == side.back || ev.Name == side.fwd
		}
		e.Run.Check("R-MAPS", fmt.Sprintf("%s %s: %s[%s] = %s relates source and created node", label, tn, ev.Name, ev.Src, ev.Expr), e.Prog.Pos(ev.Pos), okPair,
			fmt.Sprintf("map %s must be keyed by the %s node", ev.Name, map[bool]string{true: "source", false: "created"}[wantMap == side.fwd]))
	}
	return n
}

func foundStr(i int) string {
	if i < 0 {
		return "missing"
	}
	return "present"
}

// RMaps runs R-MAPS over decorate, restore and the two hand-written special cases.
func (e *Env) RMaps() {
	n := 0
	dside := mapSide{"decorate", "Dst.Nodes", "Ast.Nodes", load.PkgDst}
	rside := mapSide{"restore", "Ast.Nodes", "Dst.Nodes", "go/ast"}
	for _, tn := range e.dstNodeNames() {
		if cs := e.Sib.ByName["decorate"].Cases[tn]; cs != nil {
			n += e.rMapsCase(dside, tn, cs, "decorate")
		}
		if cs := e.Sib.ByName["restore"].Cases[tn]; cs != nil {
			n += e.rMapsCase(rside, tn, cs, "restore")
		}
	}
	// restoreIdent: out := &ast.SelectorExpr{}; maps; X and Sel children registered by their own restoreNode
	if ri := e.Sib.RestoreIdent; ri != nil {
		n += e.rMapsCase(rside, "Ident", ri, "restoreIdent")
	}
	// decorateSelectorExpr
	c := e.Sib.Ctx[load.PkgDecorator]
	if ds, err := schema.ExtractDecorateSelector(c); err == nil {
		n += e.rMapsCase(dside, "SelectorExpr", ds, "decorateSelectorExpr")
		// the collapse: n, n.X and n.Sel all map to the one Ident; the Ident maps back to the selector
		want := map[string]bool{"n": false, "n.X": false, "n.Sel": false}
		back := false
		for _, ev := range ds.Events {
			if ev.Kind == schema.KMapReg && ev.Name == "Dst.Nodes" && ev.Expr == "out" {
				if _, ok := want[ev.Src]; ok {
					want[ev.Src] = true
				}
			}
			if ev.Kind == schema.KMapReg && ev.Name == "Ast.Nodes" && ev.Src == "out" {
				back = ev.Expr == "n" // the last store under the key stays
			}
		}
		for _, k := range sortedKeys(want) {
			e.Run.Check("R-MAPS", "decorateSelectorExpr: "+k+" maps to the collapsed Ident", e.casePos(ds), want[k], "the three ast nodes of a qualified identifier must all map to the one dst.Ident")
		}
		e.Run.Check("R-MAPS", "decorateSelectorExpr: Ident maps back to the selector", e.casePos(ds), back, "Ast.Nodes[out] = n")
	} else {
		e.Run.Violation("R-MAPS", "decorateSelectorExpr shape", "", err.Error())
	}
	e.Run.Analysed("map registrations", n)
	e.Run.Floor("R-MAPS", "allocation/registration facts", n, 450)
	e.mapsOnlyGrow()
}

// mapsOnlyGrow: the node/object/scope maps are never shrunk while converting, except for entries
// of temporaries the same function allocated: `delete(M, k)` on one of the maps is accepted only
// when k is a local that holds a fresh allocation of that function. Removing any other entry
// un-registers a converted node: duplicate detection (restoreNode's look-up) and the inverse
// correspondence depend on it.
func (e *Env) mapsOnlyGrow() {
	pkg := e.Prog.Pkg(load.PkgDecorator)
	info := pkg.TypesInfo
	c := e.Sib.Ctx[load.PkgDecorator]
	isNodeMap := func(x ast.Expr) bool {
		se, ok := x.(*ast.SelectorExpr)
		if !ok {
			return false
		}
		t := info.TypeOf(se.X)
		if t == nil {
			return false
		}
		if p, ok := t.(*types.Pointer); ok {
			t = p.Elem()
		}
		nt, ok := t.(*types.Named)
		return ok && nt.Obj().Pkg() == pkg.Types && (nt.Obj().Name() == "AstMap" || nt.Obj().Name() == "DstMap")
	}
	n := 0
	for _, fd := range load.AllFuncDecls(pkg) {
		if fd.Body == nil {
			continue
		}
		ast.Inspect(fd.Body, func(nd ast.Node) bool {
			call, ok := nd.(*ast.CallExpr)
			if !ok || len(call.Args) != 2 {
				return true
			}
			id, ok := call.Fun.(*ast.Ident)
			if !ok || id.Name != "delete" {
				return true
			}
			if _, isB := info.Uses[id].(*types.Builtin); !isB || !isNodeMap(call.Args[0]) {
				return true
			}
			n++
			fresh := false
			if kid, ok := call.Args[1].(*ast.Ident); ok {
				if def := singleDefIn(info, fd.Body.List, info.Uses[kid]); def != nil {
					switch d := def.(type) {
					case *ast.UnaryExpr:
						_, isLit := d.X.(*ast.CompositeLit)
						fresh = d.Op == token.AND && isLit
					case *ast.CallExpr:
						if fn := c.Callee(d); fn != nil && fn.Pkg() != nil && fn.Pkg().Path() == load.PkgDst && strings.HasPrefix(fn.Name(), "New") {
							fresh = true
						}
					}
				}
			}
			e.Run.Check("R-MAPS", fmt.Sprintf("%s: delete from %s removes only a temporary of the function", load.FuncName(fd), c.ExprStr(call.Args[0])), e.Prog.Pos(call.Pos()), fresh,
				"the key `"+c.ExprStr(call.Args[1])+"` is not a local holding a fresh allocation: the entry of a converted node may be removed, after which the node is no longer known as converted (a second use of it is not rejected; the maps stop being inverse)")
			return true
		})
	}
	e.Run.Analysed("deletes on node maps", n)
}

// ---------------------------------------------------------------------------------------------
// R-MEMO: a converter looks its argument up in the map it later writes, and returns the hit,
// before allocating.

type memoSpec struct {
	recv, fn string
	mapPath  string // e.g. "Dst.Nodes"
	dupPanic bool   // restoreNode: hit panics unless allowDuplicate
}

func (e *Env) RMemo() {
	pkg := e.Prog.Pkg(load.PkgDecorator)
	c := e.Sib.Ctx[load.PkgDecorator]
	specs := []memoSpec{
		{"fileDecorator", "decorateNode", "Dst.Nodes", false},
		{"fileDecorator", "decorateObject", "Dst.Objects", false},
		{"fileDecorator", "decorateScope", "Dst.Scopes", false},
		{"FileRestorer", "restoreNode", "Ast.Nodes", true},
		{"FileRestorer", "restoreObject", "Ast.Objects", false},
		{"FileRestorer", "restoreScope", "Ast.Scopes", false},
	}
	for _, sp := range specs {
		fd := load.FuncDecl(pkg, sp.recv, sp.fn)
		key := sp.fn + ": lookup in " + sp.mapPath + " precedes conversion"
		if fd == nil || fd.Body == nil {
			e.Run.Violation("R-MEMO", key, "", "function missing")
			continue
		}
		recv := c.ObjOf(fd.Recv.List[0].Names[0])
		// the node/object parameter: last parameter for decorateNode (n), first otherwise
		var params []types.Object
		for _, p := range fd.Type.Params.List {
			for _, nm := range p.Names {
				params = append(params, c.Info.Defs[nm])
			}
		}
		found := false
		detail := "no `if v, ok := <recv>." + sp.mapPath + "[param]; ok { return v }` at the top of the function"
		for _, st := range fd.Body.List {
			// stop at the first statement that allocates or is the type switch
			if _, isSwitch := st.(*ast.TypeSwitchStmt); isSwitch {
				break
			}
			if as, ok := st.(*ast.AssignStmt); ok && as.Tok == token.DEFINE {
				if _, isAlloc := c.AllocOf(as.Rhs[0]); isAlloc {
					break
				}
			}
			is, ok := st.(*ast.IfStmt)
			if !ok || is.Init == nil {
				continue
			}
			init, ok := is.Init.(*ast.AssignStmt)
			if !ok || len(init.Lhs) != 2 || len(init.Rhs) != 1 {
				continue
			}
			ix, ok := init.Rhs[0].(*ast.IndexExpr)
			if !ok {
				continue
			}
			mp, ok := c.Path(ix.X, recv)
			if !ok || mp != sp.mapPath {
				continue
			}
			kid, ok := ix.Index.(*ast.Ident)
			isParam := false
			if ok {
				for _, p := range params {
					if c.ObjOf(kid) == p {
						isParam = true
					}
				}
			}
			if !isParam {
				continue
			}
			vObj := c.Info.Defs[init.Lhs[0].(*ast.Ident)]
			okObj := c.Info.Defs[init.Lhs[1].(*ast.Ident)]
			if cid, ok := is.Cond.(*ast.Ident); !ok || c.ObjOf(cid) != okObj {
				continue
			}
			// body returns the hit
			retHit := func(list []ast.Stmt) bool {
				if len(list) != 1 {
					return false
				}
				rs, ok := list[0].(*ast.ReturnStmt)
				if !ok || len(rs.Results) == 0 {
					return false
				}
				id, ok := rs.Results[0].(*ast.Ident)
				return ok && c.ObjOf(id) == vObj
			}
			if !sp.dupPanic {
				found = retHit(is.Body.List)
				if !found {
					detail = "lookup hit is not returned"
				}
			} else {
				// if allowDuplicate { return an } else { panic(...) }
				if len(is.Body.List) == 1 {
					if inner, ok := is.Body.List[0].(*ast.IfStmt); ok {
						if el, ok := inner.Else.(*ast.BlockStmt); ok {
							condIsParam := false
							if cid, ok := inner.Cond.(*ast.Ident); ok {
								o := c.ObjOf(cid)
								condIsParam = o != nil && o.Name() == "allowDuplicate" && o == params[len(params)-1]
							}
							found = condIsParam && retHit(inner.Body.List) && c.PanicsOnly(el.List)
						}
					}
				}
				if !found {
					detail = "a node met twice must panic unless allowDuplicate is the function's own parameter and true"
				}
			}
			break
		}
		e.Run.Check("R-MEMO", key, e.Prog.Pos(fd.Pos()), found, detail)
	}
	// duplicate detection is forwarded: every recursive restoreNode call passes the parameter
	// allowDuplicate unchanged; constant true only in RestoreFile's Extras post-pass; root false.
	rs := e.Sib.ByName["restore"]
	calls := 0
	for _, tn := range rs.Order {
		for _, ev := range rs.Cases[tn].Events {
			switch ev.Kind {
			case schema.KChild, schema.KList, schema.KMap, schema.KSpecial:
				if ev.Kind == schema.KMap && ev.Expr != schema.KChild {
					continue
				}
				calls++
				e.Run.Check("R-MEMO", fmt.Sprintf("restore %s %s forwards allowDuplicate", tn, ev.Field+ev.Name), e.Prog.Pos(ev.Pos), ev.Dup == "allowDuplicate",
					"recursive restore call passes "+ev.Dup+" instead of the caller's allowDuplicate: a shared node below this point would be printed twice instead of rejected")
			}
		}
	}
	if ri := e.Sib.RestoreIdent; ri != nil {
		for _, ev := range ri.Events {
			if ev.Kind == schema.KChild {
				calls++
				e.Run.Check("R-MEMO", "restoreIdent "+ev.Field+" forwards allowDuplicate", e.Prog.Pos(ev.Pos), ev.Dup == "allowDuplicate", "passes "+ev.Dup)
			}
		}
	}
	// other call sites of restoreNode (RestoreFile)
	fdRF := load.FuncDecl(pkg, "FileRestorer", "RestoreFile")
	if fdRF != nil {
		ast.Inspect(fdRF.Body, func(n ast.Node) bool {
			call, ok := n.(*ast.CallExpr)
			if !ok || !schema.IsMethod(c.Callee(call), load.PkgDecorator, "FileRestorer", "restoreNode") || len(call.Args) != 5 {
				return true
			}
			calls++
			dup := c.ExprStr(call.Args[4])
			isRoot := false
			if p, ok := c.Path(call.Args[0], c.ObjOf(fdRF.Recv.List[0].Names[0])); ok && p == "file" {
				isRoot = true
			}
			if isRoot {
				e.Run.Check("R-MEMO", "RestoreFile root restore rejects duplicates", e.Prog.Pos(call.Pos()), dup == "false", "root call passes allowDuplicate="+dup)
			} else {
				// post-pass: must be under `if r.Extras`
				e.Run.Check("R-MEMO", "RestoreFile post-pass restore call", e.Prog.Pos(call.Pos()), dup == "true" && e.underExtras(c, fdRF, call), "only the Extras post-pass (object Decl/Data nodes already rendered) may allow duplicates; got allowDuplicate="+dup)
			}
			return true
		})
	}
	e.Run.Analysed("restoreNode call sites", calls)
	e.Run.Floor("R-MEMO", "restoreNode call sites", calls, 80)
}

func (e *Env) underExtras(c *schema.Ctx, fd *ast.FuncDecl, call *ast.CallExpr) bool {
	recv := c.ObjOf(fd.Recv.List[0].Names[0])
	under := false
	ast.Inspect(fd.Body, func(n ast.Node) bool {
		is, ok := n.(*ast.IfStmt)
		if !ok {
			return true
		}
		if p, ok := c.Path(is.Cond, recv); ok && p == "Extras" {
			if is.Body.Pos() <= call.Pos() && call.End() <= is.Body.End() {
				under = true
			}
		}
		return true
	})
	return under
}

// ---------------------------------------------------------------------------------------------
// R-GUARD: optional children (per upstream go/ast.Walk) are nil-guarded in every sibling that
// dereferences or recurses into them.

// optionalChild reports whether upstream go/ast.Walk guards (T, path) with != nil.
func (e *Env) optionalChild(tn, path string) bool {
	parts := strings.Split(path, ".")
	nt := e.astTypes[tn]
	for len(parts) > 1 && nt != nil {
		f := nt.ByName[parts[0]]
		if f == nil || f.Kind != FNode || !f.Ptr {
			return false
		}
		tn = f.Elem
		nt = e.astTypes[tn]
		parts = parts[1:]
	}
	up := e.Sib.ByName["astwalk"].Cases[tn]
	if up == nil {
		return false
	}
	for _, ev := range up.Events {
		if ev.Kind == schema.KChild && ev.Field == parts[0] {
			return strings.Contains(ev.Guard, "n."+parts[0]+" != nil")
		}
	}
	return false
}

func (e *Env) RGuard(siblings ...string) {
	n := 0
	for _, sn := range siblings {
		s := e.Sib.ByName[sn]
		for _, tn := range s.Order {
			cs := s.Cases[tn]
			for _, ev := range cs.Events {
				if ev.Kind != schema.KChild || ev.Src == "" {
					continue
				}
				// whatever the child, a guard on it lets the present child through: `n.F != nil`,
				// never `n.F == nil` (or the else branch of != nil) and never a constant
				neg := strings.Contains(ev.Guard, "n."+ev.Src+" == nil") || strings.Contains(ev.Guard, "!(n."+ev.Src+" != nil)")
				absent := (neg && !ev.Else) || (strings.Contains(ev.Guard, "n."+ev.Src+" != nil") && !neg && ev.Else)
				constFalse := false
				for _, cj := range strings.Split(ev.Guard, " && ") {
					if cj = strings.TrimSpace(cj); cj == "false" || strings.HasPrefix(cj, "false && ") {
						constFalse = true
					}
				}
				if absent || constFalse {
					e.Run.Violation("R-GUARD", fmt.Sprintf("%s %s.%s is converted when it is present", sn, tn, ev.Src), e.Prog.Pos(ev.Pos),
						fmt.Sprintf("the child is handled under `%s` (else branch: %v): a %s.%s that is there is skipped — the converted tree loses it", ev.Guard, ev.Else, tn, ev.Src))
				}
				if !e.optionalChild(tn, ev.Src) {
					continue
				}
				n++
				ok := false
				for _, cj := range strings.Split(ev.Guard, " && ") {
					cj = strings.TrimSpace(cj)
					if cj == "n."+ev.Src+" != nil" || cj == "(n."+ev.Src+" != nil)" {
						ok = !ev.Else
					}
				}
				e.Run.Check("R-GUARD", fmt.Sprintf("%s %s.%s nil-guarded", sn, tn, ev.Src), e.Prog.Pos(ev.Pos), ok,
					fmt.Sprintf("%s.%s is optional (go/ast.Walk guards it with != nil) but %s recurses into it unguarded: a nil child reaches the visitor/converter", tn, ev.Src, sn))
			}
		}
	}
	e.Run.Analysed("optional-child sites", n)
}

// ---------------------------------------------------------------------------------------------
// R-ASSERT: type assertions on converter results cannot fail.

func (e *Env) RAssert() {
	n := 0
	type side struct {
		sib   string
		types map[string]*NodeType
	}
	for _, sd := range []side{{"decorate", e.astTypes}, {"restore", e.dstTypes}, {"clone", e.dstTypes}} {
		s := e.Sib.ByName[sd.sib]
		for _, tn := range s.Order {
			cs := s.Cases[tn]
			for _, ev := range cs.Events {
				if ev.Kind != schema.KChild && ev.Kind != schema.KList && ev.Kind != schema.KMap {
					continue
				}
				if ev.Kind == schema.KMap && ev.Expr != schema.KChild {
					continue
				}
				if ev.Src == "" {
					continue
				}
				// resolve the source field's static type
				f := e.resolveField(sd.types, tn, ev.Src)
				if f == nil {
					e.Run.Violation("R-ASSERT", fmt.Sprintf("%s %s.%s resolves", sd.sib, tn, ev.Src), e.Prog.Pos(ev.Pos), "source field not found in the struct")
					continue
				}
				n++
				want := f.Elem
				if f.Ptr {
					want = "*" + f.Elem
				}
				okKind := (ev.Kind == schema.KChild && f.Kind == FNode) || (ev.Kind == schema.KList && (f.Kind == FNodeSlice || f.Kind == FIdentSlice)) || (ev.Kind == schema.KMap && f.Kind == FNodeMap)
				e.Run.Check("R-ASSERT", fmt.Sprintf("%s %s.%s asserted type", sd.sib, tn, ev.Src), e.Prog.Pos(ev.Pos), okKind && ev.Assert == want,
					fmt.Sprintf("field %s.%s has static type %s (%s); the conversion result is asserted to %s — must be the image %s on the other side, else the assertion can panic", tn, ev.Src, f.Type, f.Kind, ev.Assert, want))
				if sd.sib != "clone" {
					// literal type argument is consistent with the static type
					okLit := ev.Lit[2] == f.Elem
					e.Run.Check("R-ASSERT", fmt.Sprintf("%s %s.%s field-type literal", sd.sib, tn, ev.Src), e.Prog.Pos(ev.Pos), okLit,
						fmt.Sprintf("parentFieldType literal %q for a field of static type %s: resolvePath/restoreIdent decide on it whether an identifier may carry a path", ev.Lit[2], f.Elem))
				}
			}
		}
	}
	// interface images: every implementation of ast.X maps to an implementation of dst.X and back,
	// including SelectorExpr ↔ Ident.
	for _, iface := range []string{"Expr", "Stmt", "Decl", "Spec"} {
		for _, tn := range e.astNodeNames() {
			a, d := e.astTypes[tn], e.dstTypes[tn]
			if d == nil {
				continue
			}
			ai, di := contains(a.Ifaces, iface), contains(d.Ifaces, iface)
			n++
			e.Run.Check("R-ASSERT", fmt.Sprintf("%s implements %s on both sides", tn, iface), "", ai == di,
				fmt.Sprintf("ast.%s implements ast.%s: %v, dst.%s implements dst.%s: %v — an assertion to the interface can fail", tn, iface, ai, tn, iface, di))
		}
	}
	// type-changing case: SelectorExpr(ast) → Ident(dst) only where Expr is asserted; Ident(dst) → SelectorExpr(ast)
	se, id := e.astTypes["SelectorExpr"], e.dstTypes["Ident"]
	if se != nil && id != nil {
		e.Run.Check("R-ASSERT", "SelectorExpr→Ident stays inside Expr", "", contains(se.Ifaces, "Expr") && contains(id.Ifaces, "Expr"), "both must implement Expr")
		// no ast field has static type *SelectorExpr (else decorate's assertion to *dst.SelectorExpr could meet an Ident)
		for _, tn := range e.astNodeNames() {
			for _, f := range e.astTypes[tn].Fields {
				if (f.Kind == FNode || f.Kind == FNodeSlice) && f.Ptr && f.Elem == "SelectorExpr" {
					e.Run.Violation("R-ASSERT", fmt.Sprintf("ast.%s.%s has static type *SelectorExpr", tn, f.Name), "", "a qualified identifier there collapses to *dst.Ident and the assertion to *dst.SelectorExpr panics")
				}
			}
		}
	}
	e.Run.Analysed("type assertions", n)
	e.Run.Floor("R-ASSERT", "assertion facts", n, 220)
}

func contains(xs []string, x string) bool {
	for _, v := range xs {
		if v == x {
			return true
		}
	}
	return false
}

// resolveField resolves a (possibly nested) field path from node type tn.
func (e *Env) resolveField(all map[string]*NodeType, tn, path string) *Field {
	parts := strings.Split(path, ".")
	nt := all[tn]
	for i, p := range parts {
		if nt == nil {
			return nil
		}
		f := nt.ByName[p]
		if f == nil {
			return nil
		}
		if i == len(parts)-1 {
			return f
		}
		if f.Kind != FNode || !f.Ptr {
			return nil
		}
		nt = all[f.Elem]
	}
	return nil
}

// RSyntheticBackMap (R-MAPS): restoreIdent expands one dst.Ident into an ast.SelectorExpr with two
// synthetic identifiers. All three ast nodes map back to the dst.Ident they came from: a store
// r.Dst.Nodes[K] = n for K = out, out.X and out.Sel (the children are restored from temporary
// dst.Idents, which their own registration points at: without the store the ast node maps to a
// dst node that is not in the tree).
func (e *Env) RSyntheticBackMap() {
	pkg := e.Prog.Pkg(load.PkgDecorator)
	info := pkg.TypesInfo
	fd := load.FuncDecl(pkg, "FileRestorer", "restoreIdent")
	if fd == nil || fd.Body == nil || fd.Type.Params == nil || len(fd.Type.Params.List) == 0 || len(fd.Type.Params.List[0].Names) == 0 {
		return
	}
	param := info.Defs[fd.Type.Params.List[0].Names[0]]
	got := map[string]bool{}
	roots := []ast.Node{fd.Body}
	c := e.Sib.Ctx[load.PkgDecorator]
	if _, callee := c.TailCall(fd); callee != nil && callee.Body != nil {
		roots = append(roots, callee.Body)
	}
	for _, root := range roots {
		ast.Inspect(root, func(nd ast.Node) bool {
			as, ok := nd.(*ast.AssignStmt)
			if !ok || len(as.Lhs) != 1 || len(as.Rhs) != 1 {
				return true
			}
			ix, ok := ast.Unparen(as.Lhs[0]).(*ast.IndexExpr)
			if !ok || !strings.HasSuffix(types.ExprString(ix.X), "Dst.Nodes") {
				return true
			}
			if id, ok := ast.Unparen(as.Rhs[0]).(*ast.Ident); ok && (info.Uses[id] == param || root != ast.Node(fd.Body)) {
				keys := []ast.Expr{ix.Index}
				// the key is the variable of a loop over a literal list of nodes
				if kid, ok := ast.Unparen(ix.Index).(*ast.Ident); ok {
					ast.Inspect(root, func(m ast.Node) bool {
						rs, ok := m.(*ast.RangeStmt)
						if !ok || rs.Value == nil {
							return true
						}
						if vid, ok := rs.Value.(*ast.Ident); ok && info.Defs[vid] != nil && info.Defs[vid] == info.Uses[kid] {
							if lit, ok := ast.Unparen(rs.X).(*ast.CompositeLit); ok {
								keys = lit.Elts
							}
						}
						return true
					})
				}
				for _, k := range keys {
					if se, ok := ast.Unparen(k).(*ast.SelectorExpr); ok {
						got[se.Sel.Name] = true
					} else {
						got["."] = true
					}
				}
			}
			return true
		})
	}
	e.Run.Check("R-MAPS", "restoreIdent: the selector and its two synthetic identifiers map back to the dst.Ident", e.Prog.Pos(fd.Pos()), got["."] && got["X"] && got["Sel"],
		fmt.Sprintf("stores r.Dst.Nodes[…] = n found for the selector: %v, its X: %v, its Sel: %v — an ast identifier without it maps to the temporary dst.Ident it was restored from, which is not in the tree (Restorer.Dst.Nodes is not the inverse of the tree's nodes)", got["."], got["X"], got["Sel"]))
}
