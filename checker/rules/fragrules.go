package rules

import (
	"fmt"
	"go/ast"
	"go/constant"
	"go/parser"
	"go/token"
	"go/types"
	"golang.org/x/tools/go/packages"
	"regexp"
	"sort"
	"strings"

	"dstverif/load"
	"dstverif/schema"
)

// Rules on the hand-written half of the decorator's fragment pass.

// RFragHelpers: each add*Fragment helper adopts a valid position, appends exactly one fragment of
// its kind at the cursor, and advances the cursor by the length the restorer uses for the same
// element (len(token.String()), len(string), length).
func (e *Env) RFragHelpers() {
	pkg := e.Prog.Pkg(load.PkgDecorator)
	info := pkg.TypesInfo
	c := e.Sib.Ctx[load.PkgDecorator]
	type spec struct {
		fn, frag string
		advance  string // "" none, "tok", "str", "len"
		atCursor bool   // Pos field is token.Pos(f.cursor); else the pos parameter
	}
	for _, sp := range []spec{
		{"addDecorationFragment", "decorationFragment", "", true},
		{"addTokenFragment", "tokenFragment", "tok", true},
		{"addStringFragment", "stringFragment", "str", true},
		{"addBadFragment", "badFragment", "len", true},
		{"addCommentFragment", "commentFragment", "", false},
		{"addNewlineFragment", "newlineFragment", "", false},
	} {
		fd := load.FuncDecl(pkg, "fileDecorator", sp.fn)
		key := sp.fn
		if fd == nil || fd.Body == nil {
			e.Run.Violation("R-FRAG", key+" exists", "", "missing")
			continue
		}
		pos := e.Prog.Pos(fd.Pos())
		recv := info.Defs[fd.Recv.List[0].Names[0]]
		params := map[string]types.Object{}
		var plist []types.Object
		for _, p := range fd.Type.Params.List {
			for _, nm := range p.Names {
				params[nm.Name] = info.Defs[nm]
				plist = append(plist, info.Defs[nm])
			}
		}
		var posParam types.Object
		for _, o := range plist {
			if isTokenPos(o.Type()) {
				posParam = o
			}
		}
		nAppend, appendOK := 0, false
		adoptIdx, appendIdx, advIdx := -1, -1, -1
		advExpr := ""
		for i, st := range fd.Body.List {
			switch s := st.(type) {
			case *ast.IfStmt:
				// if pos.IsValid() { f.cursor = int(pos) }
				if call, ok := s.Cond.(*ast.CallExpr); ok && len(s.Body.List) == 1 {
					if se, ok := call.Fun.(*ast.SelectorExpr); ok && se.Sel.Name == "IsValid" {
						if id, ok := se.X.(*ast.Ident); ok && info.Uses[id] == posParam {
							if stmtNorm(c, s.Body.List[0]) == "f.cursor = int("+id.Name+")" {
								adoptIdx = i
							}
						}
					}
				}
			case *ast.AssignStmt:
				if len(s.Lhs) != 1 || len(s.Rhs) != 1 {
					continue
				}
				if p, ok := c.Path(s.Lhs[0], recv); ok && p == "fragments" {
					nAppend++
					appendIdx = i
					if call, ok := s.Rhs[0].(*ast.CallExpr); ok && len(call.Args) == 2 && c.ExprStr(call.Fun) == "append" {
						if u, ok := call.Args[1].(*ast.UnaryExpr); ok && u.Op == token.AND {
							if cl, ok := u.X.(*ast.CompositeLit); ok {
								_, tn := schema.NamedTypeName(info.TypeOf(cl))
								posOK := false
								for _, el := range cl.Elts {
									if kv, ok := el.(*ast.KeyValueExpr); ok && c.ExprStr(kv.Key) == "Pos" {
										if sp.atCursor {
											posOK = c.ExprStr(kv.Value) == "token.Pos(f.cursor)"
										} else if id, ok := kv.Value.(*ast.Ident); ok {
											posOK = info.Uses[id] == posParam
										}
									}
								}
								appendOK = tn == sp.frag && posOK
							}
						}
					}
				}
				if p, ok := c.Path(s.Lhs[0], recv); ok && p == "cursor" && s.Tok == token.ADD_ASSIGN {
					advIdx = i
					advExpr = c.ExprStr(s.Rhs[0])
				}
			}
		}
		e.Run.Check("R-FRAG", key+" appends exactly one "+sp.frag+" at the right position", pos, nAppend == 1 && appendOK,
			fmt.Sprintf("%d appends to f.fragments; the fragment must be a %s whose Pos is %s", nAppend, sp.frag, map[bool]string{true: "token.Pos(f.cursor)", false: "the position it was given"}[sp.atCursor]))
		if sp.advance != "" {
			// which parameter is measured
			want := map[string]func(string) bool{
				"tok": func(s string) bool { return strings.HasPrefix(s, "len(") && strings.HasSuffix(s, ".String())") },
				"str": func(s string) bool { return strings.HasPrefix(s, "len(") && !strings.Contains(s, "String()") },
				"len": func(s string) bool { return !strings.HasPrefix(s, "len(") && !strings.ContainsAny(s, "+-*/ ") },
			}[sp.advance]
			e.Run.Check("R-FRAG", key+" adopts a valid position, then appends, then advances the cursor by the element's length", pos,
				adoptIdx >= 0 && adoptIdx < appendIdx && appendIdx < advIdx && want(advExpr),
				fmt.Sprintf("statement order adopt=%d append=%d advance=%d, advance expression %q (the restorer advances by the same quantity: R-SEQ compares the elements, this rule their lengths)", adoptIdx, appendIdx, advIdx, advExpr))
		} else {
			e.Run.Check("R-FRAG", key+" does not move the cursor", pos, advIdx < 0, "decoration points, comments and newlines have no extent in the node's token stream")
		}
	}
	// addNodeFragments prologue: if n.Pos().IsValid() { f.cursor = int(n.Pos()) }
	fr := e.Sib.ByName["fragger"]
	okPro := len(fr.Prologue) == 1 && stmtNorm(c, fr.Prologue[0]) == "if n.Pos().IsValid() { f.cursor = int(n.Pos()); }"
	e.Run.Check("R-FRAG", "addNodeFragments starts each node at its own position when it has one", e.Prog.Pos(fr.Func.Pos()), okPro, "prologue must be `if n.Pos().IsValid() { f.cursor = int(n.Pos()) }`")
	e.Run.Check("R-FRAG", "addNodeFragments does nothing after the switch", e.Prog.Pos(fr.Func.Pos()), len(fr.Epilogue) == 0, "statements after the type switch")
}

// RFragOrder: fragments are ordered by position with a STABLE sort (fragments at equal positions —
// a decoration point and the token that follows it — must keep their emission order), every
// comment of the file becomes a fragment, and the attachment loops end only by finding a
// decoration point or panicking.
func (e *Env) RFragOrder() {
	e.RAttachWithinFile()
	e.RStageMonotone()
	e.RFragDecorationPositions()
	e.RPhysicalLines()
	e.RTextExtent()
	e.RVisitAll()
	e.RSpacingMax()
	e.RSearchTransparency()
	pkg := e.Prog.Pkg(load.PkgDecorator)
	info := pkg.TypesInfo
	c := e.Sib.Ctx[load.PkgDecorator]
	fd := load.FuncDecl(pkg, "fileDecorator", "fragment")
	if fd == nil || fd.Body == nil {
		e.Run.Violation("R-FRAG", "fragment exists", "", "missing")
		return
	}
	nSort := 0
	ast.Inspect(fd.Body, func(n ast.Node) bool {
		call, ok := n.(*ast.CallExpr)
		if !ok {
			return true
		}
		fn := calleeFunc(info, call)
		if fn == nil || fn.Pkg() == nil || fn.Pkg().Path() != "sort" {
			return true
		}
		nSort++
		okStable := funcKey(fn) == "sort.SliceStable" && len(call.Args) == 2 && c.ExprStr(call.Args[0]) == "f.fragments"
		okCmp := false
		if okStable {
			if lit, ok := call.Args[1].(*ast.FuncLit); ok && len(lit.Body.List) == 1 {
				if rs, ok := lit.Body.List[0].(*ast.ReturnStmt); ok && len(rs.Results) == 1 {
					okCmp = c.ExprStr(rs.Results[0]) == "f.fragments[i].Position() < f.fragments[j].Position()"
				}
			}
		}
		e.Run.Check("R-FRAG", "fragment list ordered by position with a stable sort", e.Prog.Pos(call.Pos()), okStable && okCmp,
			"expected sort.SliceStable(f.fragments, …Position() < …Position()): with an unstable sort, fragments at the same position (a decoration point and the token after it, a comment and a newline) change order from run to run and comments attach to other points")
		return true
	})
	e.Run.Check("R-FRAG", "fragment sorts exactly once", e.Prog.Pos(fd.Pos()), nSort == 1, fmt.Sprintf("%d sort calls", nSort))
	// every comment becomes a fragment: in processFile, the loops over astf.Comments / cg.List reach
	// addCommentFragment(c.Text, c.Slash) unconditionally (no continue/break before it)
	lit := e.perFilePass(pkg, fd)
	if lit != nil {
		ok := false
		ast.Inspect(lit.Body, func(n ast.Node) bool {
			rs, isRange := n.(*ast.RangeStmt)
			if !isRange || len(rs.Body.List) == 0 {
				return true
			}
			if es, isExpr := rs.Body.List[0].(*ast.ExprStmt); isExpr {
				if call, isCall := es.X.(*ast.CallExpr); isCall && schema.IsMethod(c.Callee(call), load.PkgDecorator, "fileDecorator", "addCommentFragment") {
					vid, _ := rs.Value.(*ast.Ident)
					if vid != nil && len(call.Args) == 2 && c.ExprStr(call.Args[0]) == vid.Name+".Text" && c.ExprStr(call.Args[1]) == vid.Name+".Slash" {
						// the enclosing loops range over astf.Comments → cg.List
						ok = strings.HasSuffix(c.ExprStr(rs.X), ".List")
					}
				}
			}
			return true
		})
		e.Run.Check("R-FRAG", "every comment of the file becomes a fragment with its own text and position", e.Prog.Pos(lit.Pos()), ok,
			"the first statement of the loop over a comment group's List must be f.addCommentFragment(c.Text, c.Slash): a comment that is skipped is dropped from the output")
	}
	// avoid ranges: every loop that marks lines in the avoid set runs from the first to the last
	// line of ONE entity (the comment / string / bad node whose text was just tested): start and
	// end positions, read through the locals that hold them, name the same variable.
	if lit != nil {
		undo := c.InstallReachingIn(lit.Body)
		// the line of a position: through the file set (Position / PositionFor) or through a method of
		// the decorator that wraps such a look-up (which numbering it gives is R-SCAN's and
		// RPhysicalLines' business)
		posLine := regexp.MustCompile(`^f\.(?:Fset\.Position(?:For)?|\w+)\((.*?)(?:, (?:true|false))?\)\.Line(?: [+-] \d+)?$`)
		ident := regexp.MustCompile(`([A-Za-z_]\w*)\.`)
		nAvoid := 0
		checkSpanAt := func(fromInner, toInner string, at ast.Node, key string) {
			roots := map[string]bool{}
			for _, inner := range []string{fromInner, toInner} {
				for _, m := range ident.FindAllStringSubmatch(inner, -1) {
					if m[1] != "token" {
						roots[m[1]] = true
					}
				}
			}
			// the text test that selects the entity (strings.HasPrefix(X.Text|X.String, …)) names it too
			if guard, okg := pathCond(c, lit.Body.List, at); okg {
				for _, m := range regexp.MustCompile(`strings\.HasPrefix\(([A-Za-z_]\w*)\.`).FindAllStringSubmatch(guard, -1) {
					roots[m[1]] = true
				}
			}
			var names []string
			for r := range roots {
				names = append(names, r)
			}
			sort.Strings(names)
			e.Run.Check("R-FRAG", key, e.Prog.Pos(at.Pos()), len(names) == 1,
				"lines of "+fromInner+" .. "+toInner+" mix the extents of different things ("+strings.Join(names, ", ")+"): newlines between them are suppressed (or newlines inside are kept) and the text is printed on other lines")
		}
		// the bounds of a marking loop as text, with the parameters of the closure or function the
		// loop lives in replaced by the arguments of one call (printed in the caller's terms)
		boundsAt := func(fs *ast.ForStmt, params []*ast.Ident, call *ast.CallExpr) (string, string, bool) {
			init, ok1 := fs.Init.(*ast.AssignStmt)
			cond, ok2 := fs.Cond.(*ast.BinaryExpr)
			if !ok1 || !ok2 || len(init.Rhs) != 1 {
				return "", "", false
			}
			saved := c.Subst
			if call != nil {
				c.Subst = map[types.Object]ast.Expr{}
				for k, v := range saved {
					c.Subst[k] = v
				}
				for i, p := range params {
					if i >= len(call.Args) || info.Defs[p] == nil {
						continue
					}
					if ax, err := parser.ParseExpr(c.ExprStr(call.Args[i])); err == nil {
						c.Subst[info.Defs[p]] = &ast.ParenExpr{X: ax}
					}
				}
			}
			from, to := c.ExprStr(init.Rhs[0]), c.ExprStr(cond.Y)
			c.Subst = saved
			return from, to, true
		}
		marksSet := func(fs *ast.ForStmt) bool {
			marks := false
			ast.Inspect(fs.Body, func(m ast.Node) bool {
				if as, ok := m.(*ast.AssignStmt); ok {
					for _, l := range as.Lhs {
						if ix, ok := l.(*ast.IndexExpr); ok {
							if mt, ok := info.TypeOf(ix.X).Underlying().(*types.Map); ok && types.Identical(mt.Key(), types.Typ[types.Int]) && types.Identical(mt.Elem(), types.Typ[types.Bool]) {
								marks = true
							}
						}
					}
				}
				return true
			})
			return marks
		}
		judge := func(from, to string, at ast.Node) {
			nAvoid++
			key := fmt.Sprintf("fragment: avoided line range #%d spans one entity", nAvoid)
			fi, ti, ok := lineSpan(from, to, posLine)
			if !ok {
				e.Run.Check("R-FRAG", key, e.Prog.Pos(at.Pos()), false, "bounds `"+from+"` .. `"+to+"` are not the line of a position in the file set and the line of another (or the first line plus the line breaks counted in a text)")
				return
			}
			checkSpanAt(fi, ti, at, key)
		}
		ast.Inspect(lit.Body, func(n ast.Node) bool {
			fs, ok := n.(*ast.ForStmt)
			if !ok || fs.Init == nil || fs.Cond == nil || !marksSet(fs) {
				return true
			}
			// the loop may live in a local closure: then every call site is a range
			var inner *ast.FuncLit
			ast.Inspect(lit.Body, func(m ast.Node) bool {
				if fl, ok := m.(*ast.FuncLit); ok && fl.Body.Pos() <= fs.Pos() && fs.End() <= fl.Body.End() {
					inner = fl
				}
				return true
			})
			if inner != nil {
				var params []*ast.Ident
				for _, p := range inner.Type.Params.List {
					params = append(params, p.Names...)
				}
				var bound types.Object
				ast.Inspect(lit.Body, func(m ast.Node) bool {
					if as, ok := m.(*ast.AssignStmt); ok && len(as.Lhs) == 1 && len(as.Rhs) == 1 && as.Rhs[0] == ast.Expr(inner) {
						if id, ok := as.Lhs[0].(*ast.Ident); ok {
							bound = info.Defs[id]
						}
					}
					return true
				})
				if bound != nil {
					ast.Inspect(lit.Body, func(m ast.Node) bool {
						call, ok := m.(*ast.CallExpr)
						if !ok || len(call.Args) != len(params) {
							return true
						}
						if id, ok := call.Fun.(*ast.Ident); ok && info.Uses[id] == bound {
							if from, to, ok := boundsAt(fs, params, call); ok {
								judge(from, to, call)
							}
						}
						return true
					})
					return true
				}
			}
			if from, to, ok := boundsAt(fs, nil, nil); ok {
				judge(from, to, fs)
			}
			return true
		})
		// the marking loop may live in a function of the package that is handed the set: every
		// call site in the per-file pass is a range
		ast.Inspect(lit.Body, func(n ast.Node) bool {
			call, ok := n.(*ast.CallExpr)
			if !ok {
				return true
			}
			mk := e.markingFuncOf(pkg, call)
			if mk == nil {
				return true
			}
			var params []*ast.Ident
			for _, f := range mk.decl.Type.Params.List {
				params = append(params, f.Names...)
			}
			// the arguments in the caller's terms first, then the helper's own locals
			type sub struct {
				o types.Object
				x ast.Expr
			}
			var subs []sub
			for i, p := range params {
				if i < len(call.Args) && info.Defs[p] != nil {
					if ax, err := parser.ParseExpr(c.ExprStr(call.Args[i])); err == nil {
						subs = append(subs, sub{info.Defs[p], &ast.ParenExpr{X: ax}})
					}
				}
			}
			undoH := c.InstallReaching(mk.decl)
			saved := c.Subst
			c.Subst = map[types.Object]ast.Expr{}
			for k, v := range saved {
				c.Subst[k] = v
			}
			for _, sb := range subs {
				c.Subst[sb.o] = sb.x
			}
			var from, to string
			found := false
			ast.Inspect(mk.decl.Body, func(m ast.Node) bool {
				if fs, ok := m.(*ast.ForStmt); ok && fs.Init != nil && fs.Cond != nil && marksSet(fs) && !found {
					from, to, found = boundsAt(fs, nil, nil)
				}
				return true
			})
			c.Subst = saved
			undoH()
			if found {
				judge(from, to, call)
			}
			return true
		})
		undo()
		e.Run.Floor("R-FRAG", "avoided line ranges in fragment()", nAvoid, 2)
	}
	// link(): a decoration point returned by findDecoration is only used once the search has
	// succeeded: every use of the `dec` result (outside the search calls themselves) is reached
	// only with the matching `found` result true — after a `for !found { … }` loop without break, or
	// under a path condition that has `found` as a conjunct (e.g. after `if !found { panic }`). A
	// search that can give up silently leaves a comment or newline unattached (it disappears from
	// the output) or dereferences a nil decoration point.
	nLoops := 0
	// (link() itself, and the helpers that a retry sequence may have been moved into)
	var searchUsers []*ast.FuncDecl
	for _, d := range load.AllFuncDecls(pkg) {
		if d.Body != nil && d.Recv != nil && recvNamed(d) == "fileDecorator" && !strings.HasSuffix(e.Prog.File(d.Pos()), "-generated.go") {
			searchUsers = append(searchUsers, d)
		}
	}
	for _, lk := range searchUsers {
		type pair struct{ dec, found types.Object }
		var pairs []pair
		objOf := func(x ast.Expr) types.Object {
			id, ok := x.(*ast.Ident)
			if !ok || id.Name == "_" {
				return nil
			}
			if o := info.Defs[id]; o != nil {
				return o
			}
			return info.Uses[id]
		}
		// a search assignment: `…, dec, found = f.<search>(…)` where the method's last two results
		// are a decoration point and a bool (findDecoration, or a specialised search beside it)
		isSearch := func(as *ast.AssignStmt) bool {
			if len(as.Rhs) != 1 || len(as.Lhs) < 2 {
				return false
			}
			call, ok := as.Rhs[0].(*ast.CallExpr)
			if !ok {
				return false
			}
			fn := c.Callee(call)
			if fn == nil || fn.Pkg() == nil || fn.Pkg().Path() != load.PkgDecorator {
				return false
			}
			sig, ok := fn.Type().(*types.Signature)
			if !ok || sig.Recv() == nil || sig.Results().Len() != len(as.Lhs) {
				return false
			}
			k := sig.Results().Len()
			if b, ok := sig.Results().At(k - 1).Type().Underlying().(*types.Basic); !ok || b.Kind() != types.Bool {
				return false
			}
			_, tn := namedOf(sig.Results().At(k - 2).Type())
			return tn == "decorationFragment"
		}
		ast.Inspect(lk.Body, func(n ast.Node) bool {
			as, ok := n.(*ast.AssignStmt)
			if !ok || !isSearch(as) {
				return true
			}
			d, f := objOf(as.Lhs[len(as.Lhs)-2]), objOf(as.Lhs[len(as.Lhs)-1])
			if d != nil && f == nil {
				// the decoration point is kept, whether the search succeeded is thrown away
				nLoops++
				e.Run.Check("R-FRAG", "link: a decoration point from findDecoration is used only after the search succeeded", e.Prog.Pos(as.Pos()), false,
					"the `found` result of the search is discarded while its decoration point `"+d.Name()+"` is kept: a search that gives up leaves a nil decoration point behind")
				return true
			}
			if d == nil || f == nil {
				return true
			}
			for _, p := range pairs {
				if p.dec == d && p.found == f {
					return true
				}
			}
			pairs = append(pairs, pair{d, f})
			return true
		})
		for _, p := range pairs {
			// uses of dec outside assignments from findDecoration
			ast.Inspect(lk.Body, func(n ast.Node) bool {
				if as, ok := n.(*ast.AssignStmt); ok && isSearch(as) {
					return false
				}
				id, ok := n.(*ast.Ident)
				if !ok || info.Uses[id] != p.dec {
					return true
				}
				nLoops++
				good := false
				// (a) under `found` in the path condition
				if cond, okc := pathCond(c, lk.Body.List, id); okc {
					for _, cj := range splitTop(cond, " && ") {
						if strings.TrimSpace(cj) == p.found.Name() {
							good = true
						}
					}
				}
				// (b) after a `for !found` loop without break in an enclosing statement list
				ast.Inspect(lk.Body, func(m ast.Node) bool {
					fs, ok := m.(*ast.ForStmt)
					if !ok || fs.Cond == nil || fs.End() > id.Pos() {
						return true
					}
					if u, ok := ast.Unparen(fs.Cond).(*ast.UnaryExpr); ok && u.Op == token.NOT {
						if fid, ok := ast.Unparen(u.X).(*ast.Ident); ok && info.Uses[fid] == p.found {
							hasBreak := false
							ast.Inspect(fs.Body, func(b ast.Node) bool {
								if br, ok := b.(*ast.BranchStmt); ok && (br.Tok == token.BREAK || br.Tok == token.GOTO) {
									hasBreak = true
								}
								return true
							})
							// found must not be reset between the loop and the use
							reset := false
							ast.Inspect(lk.Body, func(b ast.Node) bool {
								if as, ok := b.(*ast.AssignStmt); ok && as.Pos() > fs.End() && as.End() < id.Pos() {
									for _, l := range as.Lhs {
										if objOf(l) == p.found {
											reset = true
										}
									}
								}
								return true
							})
							// inside the loop found is only ever set by a search
							forged := false
							ast.Inspect(fs.Body, func(b ast.Node) bool {
								if as, ok := b.(*ast.AssignStmt); ok && !(isSearch(as) && objOf(as.Lhs[len(as.Lhs)-1]) == p.found) {
									for _, l := range as.Lhs {
										if objOf(l) == p.found {
											forged = true
										}
									}
								}
								return true
							})
							if !hasBreak && !reset && !forged {
								good = true
							}
						}
					}
					return true
				})
				e.Run.Check("R-FRAG", "link: a decoration point from findDecoration is used only after the search succeeded", e.Prog.Pos(id.Pos()), good,
					"`"+p.dec.Name()+"` is used where `"+p.found.Name()+"` is not known to be true: a search that gives up silently leaves a comment or newline unattached (it disappears from the output) or dereferences a nil decoration point")
				return true
			})
		}
	}
	e.Run.Floor("R-FRAG", "uses of findDecoration results in link", nLoops, 2)
}

// RStageMonotone (R-FRAG): findIndentedComments sorts the comments that follow a statement into
// two groups — first the ones hanging at the statement's End indent, then the ones at its Start
// indent that belong to the next node — through an int stage that indexes the result array. The
// stage only ever moves forward: an assignment of a constant k to it must either assign the
// largest stage there is or be reachable only where the stage is already <= k. Sending the stage
// back re-opens the first group after the second has started: a later comment is attached to the
// previous node's End while the lines above it went to the next node's Start — the block is
// split and reordered.
func (e *Env) RStageMonotone() {
	pkg := e.Prog.Pkg(load.PkgDecorator)
	info := pkg.TypesInfo
	c := e.Sib.Ctx[load.PkgDecorator]
	fd := load.FuncDecl(pkg, "fileDecorator", "findIndentedComments")
	if fd == nil || fd.Body == nil {
		e.Run.Violation("R-FRAG", "findIndentedComments exists", "", "missing")
		return
	}
	// the stage: an int local that indexes an array-typed result/local in an assignment target
	var stage types.Object
	ast.Inspect(fd.Body, func(n ast.Node) bool {
		as, ok := n.(*ast.AssignStmt)
		if !ok {
			return true
		}
		for _, l := range as.Lhs {
			if ix, ok := l.(*ast.IndexExpr); ok {
				if _, isArr := info.TypeOf(ix.X).Underlying().(*types.Array); isArr {
					if id, ok := ix.Index.(*ast.Ident); ok {
						if v, ok := info.Uses[id].(*types.Var); ok && !v.IsField() {
							stage = v
						}
					}
				}
			}
		}
		return true
	})
	if stage == nil {
		// the two groups may be kept in separate variables, selected by flags: then "the stage only
		// moves forward" says that every bool local of the search, once raised, is never lowered
		// (a flag that is set back re-opens the first group after the second has started)
		lowered, flags := "", 0
		ast.Inspect(fd.Body, func(n ast.Node) bool {
			as, ok := n.(*ast.AssignStmt)
			if !ok || len(as.Lhs) != len(as.Rhs) {
				return true
			}
			for i, l := range as.Lhs {
				id, ok := l.(*ast.Ident)
				if !ok {
					continue
				}
				o := info.Uses[id]
				if o == nil {
					o = info.Defs[id]
				}
				if o == nil {
					continue
				}
				if b, ok := o.Type().Underlying().(*types.Basic); !ok || b.Kind() != types.Bool {
					continue
				}
				flags++
				if c.ExprStr(as.Rhs[i]) != "true" {
					lowered = id.Name + " = " + c.ExprStr(as.Rhs[i]) + " at " + e.Prog.Pos(as.Pos())
				}
			}
			return true
		})
		if flags > 0 && lowered == "" {
			e.Run.OK("R-FRAG", "findIndentedComments: the stage only moves forward", e.Prog.Pos(fd.Pos()), fmt.Sprintf("no indexed stage; %d flag assignments, all raising", flags))
			return
		}
		e.Run.Undecided("R-FRAG", "findIndentedComments: the stage only moves forward", e.Prog.Pos(fd.Pos()), "no int local indexing the result array"+map[bool]string{true: "", false: "; a flag is set to something other than true: " + lowered}[lowered == ""])
		return
	}
	type asg struct {
		k    int64
		node ast.Node
	}
	var asgs []asg
	bad := ""
	ast.Inspect(fd.Body, func(n ast.Node) bool {
		switch s := n.(type) {
		case *ast.AssignStmt:
			for i, l := range s.Lhs {
				id, ok := l.(*ast.Ident)
				if !ok || info.Uses[id] != types.Object(stage) || len(s.Lhs) != len(s.Rhs) {
					continue
				}
				tv, ok := info.Types[s.Rhs[i]]
				if s.Tok != token.ASSIGN || !ok || tv.Value == nil {
					bad = "the stage is assigned a non-constant (" + c.ExprStr(s.Rhs[i]) + ")"
					continue
				}
				k, _ := constant.Int64Val(tv.Value)
				asgs = append(asgs, asg{k, s})
			}
		case *ast.IncDecStmt:
			if id, ok := s.X.(*ast.Ident); ok && info.Uses[id] == types.Object(stage) && s.Tok == token.DEC {
				bad = "the stage is decremented"
			}
		}
		return true
	})
	if bad != "" {
		e.Run.Violation("R-FRAG", "findIndentedComments: the stage only moves forward", e.Prog.Pos(fd.Pos()), bad)
		return
	}
	var max int64
	for _, a := range asgs {
		if a.k > max {
			max = a.k
		}
	}
	for _, a := range asgs {
		ok := a.k == max
		if !ok {
			// reachable only with stage <= k already
			if cond, okc := pathCond(c, fd.Body.List, a.node); okc {
				for _, cj := range splitTop(cond, " && ") {
					cj = strings.TrimSpace(cj)
					for j := int64(0); j <= a.k; j++ {
						if cj == fmt.Sprintf("%s == %d", stage.Name(), j) {
							ok = true
						}
					}
					if cj == fmt.Sprintf("%s <= %d", stage.Name(), a.k) || cj == fmt.Sprintf("%s < %d", stage.Name(), a.k+1) {
						ok = true
					}
				}
			}
		}
		e.Run.Check("R-FRAG", "findIndentedComments: the stage only moves forward", e.Prog.Pos(a.node.Pos()), ok,
			fmt.Sprintf("`%s = %d` is reachable after a later stage has begun: the first group (comments hanging at the End indent) is re-opened after the second (comments for the next node) has started; a comment block is split between two nodes and reordered", stage.Name(), a.k))
	}
	e.Run.Analysed("stage assignments", len(asgs))
	e.Run.Floor("R-FRAG", "stage assignments in findIndentedComments", len(asgs), 1)
}

// RFragDecorationPositions (R-FRAG): where a decoration point sits in the position-ordered
// fragment list. The fragger gives the Start point of a node the node's own Pos(), its End point
// the node's End(), and every inner point no position of its own (token.NoPos: it takes the cursor,
// i.e. the end of the element emitted before it). Any other position — the End point at Pos(),
// an inner point at the position of the following token — moves the point across tokens and
// comments in the sorted list (and addDecorationFragment adopts a valid position as the cursor, so
// a position that lies before the cursor also drags every following position-less fragment back):
// comments attach to other points and are rendered elsewhere.
func (e *Env) RFragDecorationPositions() {
	fr := e.Sib.ByName["fragger"]
	n := 0
	for _, tn := range fr.Order {
		cs := fr.Cases[tn]
		if cs == nil {
			continue
		}
		for _, ev := range cs.Events {
			if ev.Kind != schema.KDec {
				continue
			}
			n++
			want := "NoPos"
			switch ev.Name {
			case "Start":
				want = "Pos()"
			case "End":
				want = "End()"
			}
			e.Run.Check("R-FRAG", fmt.Sprintf("fragger %s: decoration point %s is positioned by the node's extent (Start: Pos(), End: End()) or by the cursor", tn, ev.Name), e.Prog.Pos(ev.Pos), ev.Expr == want,
				fmt.Sprintf("positioned at %s, expected %s", ev.Expr, want))
		}
	}
	e.Run.Analysed("fragger decoration points", n)
	e.Run.Floor("R-FRAG", "fragger decoration points", n, 150)
}

// RPhysicalLines: every line or column number that the decorator uses to discover or place line
// breaks is a position in the source text itself. (*token.FileSet).Position and
// (*token.File).Position apply //line directives: after `//line x.go:2` two different lines of
// the file report the same number (a line break is then taken for one inside an earlier
// multi-line comment and dropped) or a line reports the number of the one before it (the line
// break between them is never seen). PositionFor(p, false), File.Line and File.LineStart are
// not adjusted. Debug output (arguments of fmt functions and of formatPos) may use either.
func (e *Env) RPhysicalLines() {
	pkg := e.Prog.Pkg(load.PkgDecorator)
	info := pkg.TypesInfo
	n := 0
	for _, fd := range load.AllFuncDecls(pkg) {
		if fd.Body == nil {
			continue
		}
		var stack []ast.Node
		ast.Inspect(fd.Body, func(nd ast.Node) bool {
			if nd == nil {
				stack = stack[:len(stack)-1]
				return true
			}
			stack = append(stack, nd)
			call, ok := nd.(*ast.CallExpr)
			if !ok {
				return true
			}
			kind, _, isLookup := e.posLookup(pkg, call, 0)
			if !isLookup {
				return true
			}
			n++
			if kind != "adjusted" {
				return true
			}
			// what is the adjusted position used for?
			use := ""
			parent := stack[len(stack)-2]
			switch p := parent.(type) {
			case *ast.SelectorExpr:
				if p.Sel.Name == "Line" || p.Sel.Name == "Column" {
					use = p.Sel.Name
				}
			case *ast.AssignStmt:
				// pos := fset.Position(p) … pos.Line
				for i, r := range p.Rhs {
					if r != ast.Expr(call) || i >= len(p.Lhs) {
						continue
					}
					id, ok := p.Lhs[i].(*ast.Ident)
					if !ok {
						continue
					}
					o := info.ObjectOf(id)
					ast.Inspect(fd.Body, func(m ast.Node) bool {
						if se, ok := m.(*ast.SelectorExpr); ok && (se.Sel.Name == "Line" || se.Sel.Name == "Column") {
							if xid, ok := se.X.(*ast.Ident); ok && info.Uses[xid] == o {
								use = se.Sel.Name
							}
						}
						return true
					})
				}
			case *ast.ReturnStmt:
				use = "returned"
			}
			if use == "" {
				return true // Filename (R-SAVE's business), or an argument of a debug/format call
			}
			e.Run.Check("R-FRAG", fmt.Sprintf("%s: line and column numbers used for layout are those of the source text", load.FuncName(fd)), e.Prog.Pos(call.Pos()), false,
				fmt.Sprintf("%s of %s is adjusted by //line directives: two lines of one file can report the same number (a line break is dropped as if it were inside a comment or raw string) or a line can report its predecessor's number (the break between them is never found); use PositionFor(p, false)", use, types.ExprString(call)))
			return true
		})
	}
	e.Run.Floor("R-FRAG", "position look-ups in the decorator", n, 5)
}

// RTextExtent (R-FRAG): where a comment or a string literal ends in the file is never computed
// from the length of its text. go/scanner removes every carriage return from raw string literals
// and from comments, so in a file with CRLF line endings the text is shorter than its extent in
// the source by one byte per line break it holds; ast.Comment.End, ast.CommentGroup.End and
// ast.BasicLit.End are computed from that length too. A position looked up at <start> + len(text)
// falls short of the real end: the last lines of a raw string are taken for code and the line
// break inside the literal is printed as a line break (and a trailing comma) after it. The line
// breaks themselves all survive in the text, so lines are counted, not bytes.
func (e *Env) RTextExtent() {
	pkg := e.Prog.Pkg(load.PkgDecorator)
	info := pkg.TypesInfo
	restoreHelpers := e.restoreOnly(pkg)
	n := 0
	isText := func(x ast.Expr) bool {
		se, ok := ast.Unparen(x).(*ast.SelectorExpr)
		if !ok {
			return false
		}
		if sel := info.Selections[se]; sel == nil || sel.Kind() != types.FieldVal {
			return false
		}
		b, ok := info.TypeOf(se).Underlying().(*types.Basic)
		return ok && b.Kind() == types.String
	}
	for _, fd := range load.AllFuncDecls(pkg) {
		if fd.Body == nil || isRestorePath(fd) || restoreHelpers[fd] {
			continue
		}
		ast.Inspect(fd.Body, func(nd ast.Node) bool {
			call, ok := nd.(*ast.CallExpr)
			if !ok {
				return true
			}
			_, arg, isLookup := e.posLookup(pkg, call, 0)
			if !isLookup {
				return true
			}
			n++
			// the position looked up, through a local that holds it
			if id, isID := ast.Unparen(arg).(*ast.Ident); isID {
				if def := singleDefIn(info, fd.Body.List, info.Uses[id]); def != nil {
					arg = def
				}
			}
			why := ""
			ast.Inspect(arg, func(m ast.Node) bool {
				c2, ok := m.(*ast.CallExpr)
				if !ok {
					return true
				}
				if id, ok := c2.Fun.(*ast.Ident); ok && id.Name == "len" && len(c2.Args) == 1 {
					if _, isBuiltin := info.Uses[id].(*types.Builtin); isBuiltin && isText(c2.Args[0]) {
						why = "len(" + types.ExprString(c2.Args[0]) + ")"
					}
				}
				if fn := calleeFunc(info, c2); fn != nil && fn.Name() == "End" && fn.Pkg() != nil && fn.Pkg().Path() == "go/ast" {
					if se, ok := c2.Fun.(*ast.SelectorExpr); ok {
						switch _, tn := namedOf(info.TypeOf(se.X)); tn {
						case "Comment", "CommentGroup", "BasicLit":
							why = types.ExprString(c2) + " (go/ast computes it from the length of the text)"
						}
					}
				}
				return true
			})
			if why != "" {
				e.Run.Check("R-FRAG", fmt.Sprintf("%s: the end of a text in the file is not taken from the length of the text", load.FuncName(fd)), e.Prog.Pos(call.Pos()), false,
					"the position looked up is computed from "+why+": go/scanner strips carriage returns from raw strings and comments, so in a CRLF file the text is shorter than its extent in the source and the position falls short of its real end — the last line break inside a raw string is taken for a line break of the code (`After: NewLine` on the literal, an extra `,` printed); count the line breaks in the text instead")
			}
			return true
		})
	}
	e.Run.Floor("R-FRAG", "position look-ups examined for text extents", n, 5)
}

// RVisitAll (R-FRAG): the attachment passes of link() consider every fragment. A pass that walks
// the fragment list with `range` does so by construction; one that walks it with an index does so
// when the index is advanced by the loop's post statement only. An advance inside the body (to
// step over fragments that a search has "already dealt with") needs an argument about what the
// search swept up — forwards it sweeps what follows the comment, backwards what precedes it — that
// this rule cannot make, so it is reported: a comment that is stepped over is never attached to a
// node and disappears from the tree and from everything printed afterwards.
func (e *Env) RVisitAll() {
	pkg := e.Prog.Pkg(load.PkgDecorator)
	info := pkg.TypesInfo
	fd := load.FuncDecl(pkg, "fileDecorator", "link")
	if fd == nil || fd.Body == nil {
		return
	}
	isFragments := func(x ast.Expr) bool {
		se, ok := ast.Unparen(x).(*ast.SelectorExpr)
		if !ok {
			return false
		}
		_, tn := namedOf(info.TypeOf(se.X))
		return se.Sel.Name == "fragments" && tn == "fileDecorator"
	}
	n := 0
	// the passes: the loops directly in the body of link (not the searches they call)
	for _, st := range fd.Body.List {
		switch loop := st.(type) {
		case *ast.RangeStmt:
			if isFragments(loop.X) {
				n++
				e.Run.OK("R-FRAG", fmt.Sprintf("link: pass %d visits every fragment", n), e.Prog.Pos(loop.Pos()), "range over the fragment list")
			}
		case *ast.ForStmt:
			// for i := …; i < len(f.fragments); i++
			be, ok := loop.Cond.(*ast.BinaryExpr)
			if !ok {
				continue
			}
			over := false
			ast.Inspect(be, func(m ast.Node) bool {
				if call, ok := m.(*ast.CallExpr); ok && len(call.Args) == 1 {
					if id, ok := call.Fun.(*ast.Ident); ok && id.Name == "len" && isFragments(call.Args[0]) {
						over = true
					}
				}
				return true
			})
			id, isID := ast.Unparen(be.X).(*ast.Ident)
			if !over || !isID {
				continue
			}
			n++
			idx := info.Uses[id]
			bad := token.NoPos
			ast.Inspect(loop.Body, func(m ast.Node) bool {
				switch v := m.(type) {
				case *ast.FuncLit:
					return false
				case *ast.AssignStmt:
					for _, l := range v.Lhs {
						if lid, ok := ast.Unparen(l).(*ast.Ident); ok && info.Uses[lid] == idx && bad == token.NoPos {
							bad = v.Pos()
						}
					}
				case *ast.IncDecStmt:
					if lid, ok := ast.Unparen(v.X).(*ast.Ident); ok && info.Uses[lid] == idx && bad == token.NoPos {
						bad = v.Pos()
					}
				}
				return true
			})
			post, _ := loop.Post.(*ast.IncDecStmt)
			okPost := post != nil && post.Tok == token.INC
			at := loop.Pos()
			if bad != token.NoPos {
				at = bad
			}
			e.Run.Check("R-FRAG", fmt.Sprintf("link: pass %d visits every fragment", n), e.Prog.Pos(at), bad == token.NoPos && okPost,
				"the index of the pass over the fragment list is changed inside the loop body (or not advanced by one per step): fragments are stepped over without being looked at; a comment among them (the second comment of a line whose first comment was attached backwards) is never attached and is lost from the tree")
		}
	}
	e.Run.Floor("R-FRAG", "attachment passes of link over the fragment list", n, 2)
}

// RSpacingMax (R-FRAG): the Before / After spacing of a node is the largest line break found
// next to it. Three line breaks in a row are found as an empty-line fragment followed by a
// new-line fragment; both describe the space between the same two nodes. A store that simply
// overwrites lets the later, smaller one win: the empty line is lost, import groups separated by
// two blank lines merge and are sorted as one, a free comment becomes a doc comment. Every store
// of a non-constant spacing into the decorator's before / after tables is therefore guarded by a
// comparison of the stored value with the present entry (M[x] < v).
func (e *Env) RSpacingMax() {
	pkg := e.Prog.Pkg(load.PkgDecorator)
	info := pkg.TypesInfo
	c := e.Sib.Ctx[load.PkgDecorator]
	n := 0
	for _, fd := range load.AllFuncDecls(pkg) {
		if fd.Body == nil || fd.Recv == nil || recvNamed(fd) != "fileDecorator" || strings.HasSuffix(e.Prog.File(fd.Pos()), "-generated.go") {
			continue
		}
		var stores []*ast.AssignStmt
		ast.Inspect(fd.Body, func(nd ast.Node) bool {
			as, ok := nd.(*ast.AssignStmt)
			if !ok || len(as.Lhs) != 1 || len(as.Rhs) != 1 || as.Tok == token.DEFINE {
				return true
			}
			ix, ok := ast.Unparen(as.Lhs[0]).(*ast.IndexExpr)
			if !ok {
				return true
			}
			se, ok := ast.Unparen(ix.X).(*ast.SelectorExpr)
			if !ok || (se.Sel.Name != "before" && se.Sel.Name != "after") {
				return true
			}
			if _, tn := namedOf(info.TypeOf(se.X)); tn != "fileDecorator" {
				return true
			}
			if tv, ok := info.Types[as.Rhs[0]]; ok && tv.Value != nil {
				return true // a constant spacing
			}
			stores = append(stores, as)
			return true
		})
		for _, as := range stores {
			n++
			elem, val := c.ExprStr(as.Lhs[0]), c.ExprStr(as.Rhs[0])
			pc, okp := pathCond(c, fd.Body.List, as)
			key := fmt.Sprintf("%s: the spacing of a node is the largest line break found next to it (%s)", load.FuncName(fd), elem)
			if as.Tok != token.ASSIGN {
				// an operator assignment: the table holds SpaceType values (None < NewLine <
				// EmptyLine), combining two of them arithmetically or bitwise is not their maximum
				e.Run.Violation("R-FRAG", key, e.Prog.Pos(as.Pos()), "`"+elem+" "+as.Tok.String()+" "+val+"` combines the recorded spacing with the new one by an operator: for an empty line followed by a plain line break (three line breaks in a row) the result is neither of the two (NewLine "+strings.TrimSuffix(as.Tok.String(), "=")+" EmptyLine is no SpaceType the restorer renders), the line breaks next to the node are lost")
				continue
			}
			if call, ok := ast.Unparen(as.Rhs[0]).(*ast.CallExpr); ok {
				if id, ok := call.Fun.(*ast.Ident); ok && id.Name == "max" {
					if _, isB := info.Uses[id].(*types.Builtin); isB {
						has := false
						for _, a := range call.Args {
							if c.ExprStr(a) == elem {
								has = true
							}
						}
						if has {
							e.Run.OK("R-FRAG", key, e.Prog.Pos(as.Pos()), "stored through the max builtin together with the recorded value")
							continue
						}
					}
				}
			}
			un, dec := unsatWith(pc, "!("+elem+" < "+val+")")
			if !okp || !dec {
				e.Run.Undecided("R-FRAG", key, e.Prog.Pos(as.Pos()), "condition not propositional: "+pc)
				continue
			}
			e.Run.Check("R-FRAG", key, e.Prog.Pos(as.Pos()), un,
				"`"+elem+" = "+val+"` executes when «"+pc+"», which does not require the new spacing to be larger than the present one: of two consecutive line-break fragments between the same nodes (three line breaks in a row: an empty line, then a plain line break) the later one wins and the empty line is lost")
		}
	}
	e.Run.Floor("R-FRAG", "stores of a line-break fragment's spacing into the before / after tables", n, 2)
}

// RBlankLine (R-SCAN): whether a line of the source is empty is not decided by a fixed byte
// distance. An empty line is a line that holds nothing but white space: "\n" in a gofmt-formatted
// file, but "\r\n" in a file with CRLF line endings and "\t\n" where an editor left blanks behind.
// A test that looks one byte past the start of the line (a position look-up at i+1, or a
// comparison of the next line's start with this line's start plus one) recognises the first form
// only: every other empty line becomes an ordinary line break, import groups merge and are sorted
// as one, a free-standing comment becomes a doc comment and is reformatted.
func (e *Env) RBlankLine() {
	pkg := e.Prog.Pkg(load.PkgDecorator)
	info := pkg.TypesInfo
	fd := load.FuncDecl(pkg, "fileDecorator", "fragment")
	if fd == nil {
		return
	}
	lit := e.perFilePass(pkg, fd)
	if lit == nil {
		e.Run.Undecided("R-SCAN", "per-file pass of fragment()", e.Prog.Pos(fd.Pos()), "no function that fragment() calls for an *ast.File and for each file of an *ast.Package")
		return
	}
	// functions that build a newline fragment whose Empty flag is one of their parameters
	emitter := map[types.Object]int{}
	for _, d := range load.AllFuncDecls(pkg) {
		if d.Body == nil || d.Type.Params == nil {
			continue
		}
		var params []types.Object
		for _, p := range d.Type.Params.List {
			for _, nm := range p.Names {
				params = append(params, info.Defs[nm])
			}
		}
		ast.Inspect(d.Body, func(n ast.Node) bool {
			cl, ok := n.(*ast.CompositeLit)
			if !ok {
				return true
			}
			if _, tn := namedOf(info.TypeOf(cl)); tn != "newlineFragment" {
				return true
			}
			for _, el := range cl.Elts {
				kv, ok := el.(*ast.KeyValueExpr)
				if !ok {
					continue
				}
				if k, ok := kv.Key.(*ast.Ident); !ok || k.Name != "Empty" {
					continue
				}
				if id, ok := ast.Unparen(kv.Value).(*ast.Ident); ok {
					for i, p := range params {
						if info.Uses[id] == p {
							emitter[info.Defs[d.Name]] = i
						}
					}
				}
			}
			return true
		})
	}
	constOf := func(x ast.Expr) (int64, bool) {
		x = ast.Unparen(x)
		if cl, ok := x.(*ast.CallExpr); ok && len(cl.Args) == 1 {
			if tv, ok := info.Types[cl.Fun]; ok && tv.IsType() {
				x = ast.Unparen(cl.Args[0])
			}
		}
		if tv, ok := info.Types[x]; ok && tv.Value != nil && tv.Value.Kind() == constant.Int {
			return constant.Int64Val(tv.Value)
		}
		return 0, false
	}
	plusConst := func(x ast.Expr) bool {
		x = ast.Unparen(x)
		if cl, ok := x.(*ast.CallExpr); ok && len(cl.Args) == 1 {
			if tv, ok := info.Types[cl.Fun]; ok && tv.IsType() {
				x = ast.Unparen(cl.Args[0])
			}
		}
		be, ok := x.(*ast.BinaryExpr)
		if !ok || (be.Op != token.ADD && be.Op != token.SUB) {
			return false
		}
		if k, ok := constOf(be.Y); ok && k != 0 {
			return true
		}
		k, ok := constOf(be.X)
		return ok && k != 0 && be.Op == token.ADD
	}
	// every definition of a local of the pass
	defs := map[types.Object][]ast.Expr{}
	ast.Inspect(lit.Body, func(n ast.Node) bool {
		if as, ok := n.(*ast.AssignStmt); ok && len(as.Lhs) == len(as.Rhs) {
			for i, l := range as.Lhs {
				if id, ok := l.(*ast.Ident); ok {
					o := info.Defs[id]
					if o == nil {
						o = info.Uses[id]
					}
					if o != nil {
						defs[o] = append(defs[o], as.Rhs[i])
					}
				}
			}
		}
		return true
	})
	lineTable := func(x ast.Expr) bool {
		hit := false
		var walk func(x ast.Expr, depth int)
		walk = func(x ast.Expr, depth int) {
			ast.Inspect(x, func(m ast.Node) bool {
				switch v := m.(type) {
				case *ast.CallExpr:
					switch funcKey(calleeFunc(info, v)) {
					case "(*go/token.File).LineStart", "(*go/token.File).Offset", "(*go/token.File).Pos":
						hit = true
					}
				case *ast.Ident:
					if depth < 3 {
						for _, d := range defs[info.Uses[v]] {
							walk(d, depth+1)
						}
					}
				}
				return !hit
			})
		}
		walk(x, 0)
		return hit
	}
	fixed := func(x ast.Expr) string {
		why := ""
		ast.Inspect(x, func(m ast.Node) bool {
			switch v := m.(type) {
			case *ast.CallExpr:
				if _, arg, ok := e.posLookup(pkg, v, 0); ok && plusConst(arg) {
					why = "the line of " + types.ExprString(arg) + " is looked up"
				}
			case *ast.BinaryExpr:
				if (v.Op == token.EQL || v.Op == token.NEQ) && (plusConst(v.X) || plusConst(v.Y)) && (lineTable(v.X) || lineTable(v.Y)) {
					why = "the starts of two lines are compared at a fixed distance (" + types.ExprString(v) + ")"
				}
			}
			return why == ""
		})
		return why
	}
	n := 0
	why, at := "", ""
	var stack []ast.Node
	ast.Inspect(lit.Body, func(nd ast.Node) bool {
		if nd == nil {
			stack = stack[:len(stack)-1]
			return true
		}
		stack = append(stack, nd)
		call, ok := nd.(*ast.CallExpr)
		if !ok {
			return true
		}
		idx, isEmitter := emitter[types.Object(calleeFunc(info, call))]
		if fn := calleeFunc(info, call); fn == nil || !isEmitter || idx >= len(call.Args) {
			return true
		}
		arg := call.Args[idx]
		var exprs []ast.Expr
		if tv, ok := info.Types[arg]; ok && tv.Value != nil {
			if tv.Value.String() != "true" {
				return true
			}
			// the conditions under which the call is reached
			for i := len(stack) - 2; i >= 0; i-- {
				if is, ok := stack[i].(*ast.IfStmt); ok {
					exprs = append(exprs, is.Cond)
				}
			}
		} else {
			exprs = append(exprs, arg)
		}
		n++
		seen := map[types.Object]bool{}
		var walk func(x ast.Expr, depth int)
		walk = func(x ast.Expr, depth int) {
			if w := fixed(x); w != "" && why == "" {
				why, at = w, e.Prog.Pos(call.Pos())
			}
			ast.Inspect(x, func(m ast.Node) bool {
				if id, ok := m.(*ast.Ident); ok && depth < 3 {
					if o := info.Uses[id]; o != nil && !seen[o] {
						seen[o] = true
						for _, d := range defs[o] {
							walk(d, depth+1)
						}
					}
				}
				return true
			})
		}
		for _, x := range exprs {
			walk(x, 0)
		}
		return true
	})
	e.Run.Check("R-SCAN", "fragment: whether a line is empty is not decided by a fixed byte distance", at, why == "",
		"an empty-line fragment is emitted when "+why+": only a line that consists of the single byte \"\\n\" is recognised; an empty line written \"\\r\\n\" (CRLF files) or holding blanks is decorated as an ordinary line break — import groups merge and are sorted as one (tokens reordered, a path imported in two groups dropped), a free-standing comment becomes a doc comment and go/printer reformats its text")
	e.Run.Floor("R-SCAN", "sites that emit an empty-line fragment", n, 1)
}

// recvNamed: the name of the receiver's type ("" for a function).
func recvNamed(fd *ast.FuncDecl) string {
	if fd.Recv == nil || len(fd.Recv.List) != 1 {
		return ""
	}
	t := fd.Recv.List[0].Type
	if st, ok := t.(*ast.StarExpr); ok {
		t = st.X
	}
	if id, ok := t.(*ast.Ident); ok {
		return id.Name
	}
	return ""
}

func filepathBase(p string) string {
	if i := strings.LastIndex(p, "/"); i >= 0 {
		return p[i+1:]
	}
	return p
}

// lineSpan: the bounds of a line-marking loop, printed in the terms of the per-file pass, name
// the first and the last line of something. Both are sums; integer constants (the +1 of "the
// lines that follow") are dropped and equal terms of opposite sign cancel. What is left of
// `from` is the line of a position; what is left of `to` is the line of a position, or the same
// first line plus strings.Count(T, "\n") — the line breaks a text holds. The results are the
// expressions that name the entity at either end (the position looked up, or T).
func lineSpan(from, to string, posLine *regexp.Regexp) (string, string, bool) {
	terms := func(s string) (map[string]int, bool) {
		x, err := parser.ParseExpr(s)
		if err != nil {
			return nil, false
		}
		out := map[string]int{}
		var flat func(e ast.Expr, sign int)
		flat = func(e ast.Expr, sign int) {
			e = ast.Unparen(e)
			if be, ok := e.(*ast.BinaryExpr); ok && (be.Op == token.ADD || be.Op == token.SUB) {
				flat(be.X, sign)
				if be.Op == token.SUB {
					flat(be.Y, -sign)
				} else {
					flat(be.Y, sign)
				}
				return
			}
			if bl, ok := e.(*ast.BasicLit); ok && bl.Kind == token.INT {
				return
			}
			out[types.ExprString(e)] += sign
		}
		flat(x, 1)
		for k, v := range out {
			if v == 0 {
				delete(out, k)
			}
		}
		return out, true
	}
	ft, ok1 := terms(from)
	tt, ok2 := terms(to)
	if !ok1 || !ok2 || len(ft) != 1 {
		return "", "", false
	}
	var fromTerm string
	for k, v := range ft {
		if v != 1 {
			return "", "", false
		}
		fromTerm = k
	}
	mf := posLine.FindStringSubmatch(fromTerm)
	if mf == nil {
		return "", "", false
	}
	switch len(tt) {
	case 1:
		for k, v := range tt {
			if mt := posLine.FindStringSubmatch(k); v == 1 && mt != nil {
				return mf[1], mt[1], true
			}
		}
	case 2:
		if tt[fromTerm] != 1 {
			return "", "", false
		}
		for k, v := range tt {
			if k == fromTerm {
				continue
			}
			if rest := strings.TrimPrefix(k, "strings.Count("); v == 1 && rest != k && strings.HasSuffix(rest, `, "\n")`) {
				return mf[1], strings.TrimSuffix(rest, `, "\n")`), true
			}
		}
	}
	return "", "", false
}

// posLookup: call maps a token.Pos to a token.Position. kind is "adjusted" (//line directives
// applied: FileSet.Position, File.Position, PositionFor(p, true)) or "physical" (PositionFor(p,
// false)); a same-package function whose body is a single return of such a look-up on its own
// parameter is a look-up of the same kind. arg is the position looked up.
func (e *Env) posLookup(pkg *packages.Package, call *ast.CallExpr, depth int) (kind string, arg ast.Expr, ok bool) {
	info := pkg.TypesInfo
	fn := calleeFunc(info, call)
	if fn == nil || fn.Pkg() == nil {
		return "", nil, false
	}
	if fn.Pkg().Path() == "go/token" {
		switch fn.Name() {
		case "Position":
			if len(call.Args) == 1 {
				return "adjusted", call.Args[0], true
			}
		case "PositionFor":
			if len(call.Args) == 2 {
				if tv := info.Types[call.Args[1]]; tv.Value != nil && tv.Value.String() == "false" {
					return "physical", call.Args[0], true
				}
				return "adjusted", call.Args[0], true
			}
		}
		return "", nil, false
	}
	if fn.Pkg() != pkg.Types || depth > 2 || len(call.Args) != 1 {
		return "", nil, false
	}
	for _, d := range load.AllFuncDecls(pkg) {
		if info.Defs[d.Name] != types.Object(fn) || d.Body == nil || len(d.Body.List) != 1 {
			continue
		}
		ret, isRet := d.Body.List[0].(*ast.ReturnStmt)
		if !isRet || len(ret.Results) != 1 || d.Type.Params == nil || len(d.Type.Params.List) != 1 || len(d.Type.Params.List[0].Names) != 1 {
			return "", nil, false
		}
		inner, isCall := ast.Unparen(ret.Results[0]).(*ast.CallExpr)
		if !isCall {
			return "", nil, false
		}
		k, a, okI := e.posLookup(pkg, inner, depth+1)
		if !okI {
			return "", nil, false
		}
		if id, isID := ast.Unparen(a).(*ast.Ident); !isID || info.Uses[id] != info.Defs[d.Type.Params.List[0].Names[0]] {
			return "", nil, false
		}
		return k, call.Args[0], true
	}
	return "", nil, false
}

// RSearchTransparency (R-FRAG): a comment that has already been attached to a decoration point
// is transparent to the attachment searches: in every method of the decorator that walks the
// fragment list looking for a decoration point (results ending in (*decorationFragment, bool)),
// the code that handles a *commentFragment never gives up the search (returns without a hit) for
// an attached comment. findDecoration skips them (`if current.Attached != nil { continue }`),
// findNode follows them; a search that stops there makes the second comment on a line miss the
// element it trails: it is swept forward onto the next sibling and travels with the wrong node.
func (e *Env) RSearchTransparency() {
	pkg := e.Prog.Pkg(load.PkgDecorator)
	info := pkg.TypesInfo
	c := e.Sib.Ctx[load.PkgDecorator]
	n := 0
	nCollect := 0
	for _, fd := range load.AllFuncDecls(pkg) {
		if fd.Body == nil || fd.Recv == nil || fd.Type.Results == nil {
			continue
		}
		fn, _ := info.Defs[fd.Name].(*types.Func)
		if fn == nil {
			continue
		}
		sig := fn.Type().(*types.Signature)
		k := sig.Results().Len()
		if k < 2 {
			continue
		}
		if b, ok := sig.Results().At(k - 1).Type().Underlying().(*types.Basic); !ok || b.Kind() != types.Bool {
			continue
		}
		if _, tn := namedOf(sig.Results().At(k - 2).Type()); tn != "decorationFragment" {
			continue
		}
		// the type switch over the fragments inside a loop
		ast.Inspect(fd.Body, func(nd ast.Node) bool {
			ts, ok := nd.(*ast.TypeSwitchStmt)
			if !ok {
				return true
			}
			var boundName string
			var subject ast.Expr
			switch a := ts.Assign.(type) {
			case *ast.AssignStmt:
				if len(a.Lhs) == 1 && len(a.Rhs) == 1 {
					boundName = types.ExprString(a.Lhs[0])
					if ta, ok := a.Rhs[0].(*ast.TypeAssertExpr); ok {
						subject = ta.X
					}
				}
			case *ast.ExprStmt:
				if ta, ok := a.X.(*ast.TypeAssertExpr); ok {
					subject = ta.X
				}
			}
			if subject == nil {
				return true
			}
			if _, tn := namedOf(info.TypeOf(subject)); tn != "fragment" {
				return true
			}
			// the clause that receives a *commentFragment
			var clause *ast.CaseClause
			explicit := false
			for _, cl := range ts.Body.List {
				cc := cl.(*ast.CaseClause)
				if cc.List == nil {
					if clause == nil {
						clause = cc
					}
					continue
				}
				for _, t := range cc.List {
					if _, tn := namedOf(info.TypeOf(t)); tn == "commentFragment" {
						clause, explicit = cc, len(cc.List) == 1
					}
				}
			}
			if clause == nil {
				return true // comments fall through the switch: the loop goes on
			}
			n++
			undo := c.InstallReaching(fd)
			defer undo()
			// the other half of transparency: a fragment that an earlier search attached is never
			// collected into the swept list again (it would be stored at a second decoration
			// point and printed twice). Every append of the bound fragment in an arm that sees it
			// as a comment or a line break is reached only when its Attached field is nil.
			if boundName != "" && boundName != "_" {
				for _, cl := range ts.Body.List {
					cc := cl.(*ast.CaseClause)
					if len(cc.List) != 1 {
						continue
					}
					if _, tn := namedOf(info.TypeOf(cc.List[0])); tn != "commentFragment" && tn != "newlineFragment" {
						continue
					}
					_, armType := namedOf(info.TypeOf(cc.List[0]))
					ast.Inspect(cc, func(m ast.Node) bool {
						if _, isLit := m.(*ast.FuncLit); isLit {
							return false
						}
						as, ok := m.(*ast.AssignStmt)
						if !ok || len(as.Rhs) != 1 {
							return true
						}
						call, ok := as.Rhs[0].(*ast.CallExpr)
						if !ok {
							return true
						}
						if id, ok := call.Fun.(*ast.Ident); !ok || id.Name != "append" {
							return true
						} else if _, isBuiltin := info.Uses[id].(*types.Builtin); !isBuiltin {
							return true
						}
						mentions := false
						for _, a := range call.Args {
							ast.Inspect(a, func(x ast.Node) bool {
								if id, ok := x.(*ast.Ident); ok && id.Name == boundName {
									mentions = true
								}
								return !mentions
							})
						}
						if !mentions {
							return true
						}
						nCollect++
						key := fmt.Sprintf("%s: an attached %s is not collected again", load.FuncName(fd), armType)
						cond, okc := pathCond(c, cc.Body, as)
						if cond == "" {
							cond = "true"
						}
						excl, dec := unsatWith(cond, boundName+".Attached != nil")
						if !okc || !dec {
							e.Run.Undecided("R-FRAG", key, e.Prog.Pos(as.Pos()), "condition not propositional: "+cond)
							return true
						}
						e.Run.Check("R-FRAG", key, e.Prog.Pos(as.Pos()), excl,
							"the fragment is appended to the swept list under `"+cond+"`, which a fragment that is already attached can satisfy: it is attached to a second decoration point and rendered twice")
						return true
					})
				}
			}
			ast.Inspect(clause, func(m ast.Node) bool {
				if _, isLit := m.(*ast.FuncLit); isLit {
					return false
				}
				rs, ok := m.(*ast.ReturnStmt)
				if !ok {
					return true
				}
				if len(rs.Results) == k && types.ExprString(rs.Results[k-1]) == "true" {
					return true // a hit
				}
				key := fmt.Sprintf("%s: an attached comment does not end the search", load.FuncName(fd))
				if !explicit || boundName == "" || boundName == "_" {
					e.Run.Check("R-FRAG", key, e.Prog.Pos(rs.Pos()), false,
						"the search gives up here for every fragment kind this arm receives, comments that are already attached included (the arm cannot tell: it does not see the fragment as a *commentFragment)")
					return true
				}
				cond, okc := pathCond(c, clause.Body, rs)
				if cond == "" {
					cond = "true"
				}
				excl, dec := unsatWith(cond, boundName+".Attached != nil")
				if !okc || !dec {
					e.Run.Undecided("R-FRAG", key, e.Prog.Pos(rs.Pos()), "condition not propositional: "+cond)
					return true
				}
				e.Run.Check("R-FRAG", key, e.Prog.Pos(rs.Pos()), excl,
					"the search returns without a hit under `"+cond+"`, which an attached comment can satisfy: such comments are skipped (findDecoration) or followed (findNode) everywhere else")
				return true
			})
			return true
		})
	}
	e.Run.Floor("R-FRAG", "comment arms of decoration searches", n, 2)
	e.Run.Floor("R-FRAG", "collections of a swept comment or line break", nCollect, 2)
}

// markingFunc: a function or method of the package that stores `true` into a map[int]bool it is
// handed as a parameter (the avoided-lines set of the per-file pass). mapIdx is the index of that
// parameter, params the names of all parameters in order.
type markingFunc struct {
	decl   *ast.FuncDecl
	mapIdx int
	params []string
}

func (e *Env) markingFuncOf(pkg *packages.Package, call *ast.CallExpr) *markingFunc {
	info := pkg.TypesInfo
	fn := calleeFunc(info, call)
	if fn == nil || fn.Pkg() != pkg.Types {
		return nil
	}
	for _, d := range load.AllFuncDecls(pkg) {
		if info.Defs[d.Name] != types.Object(fn) || d.Body == nil || d.Type.Params == nil {
			continue
		}
		mf := &markingFunc{decl: d, mapIdx: -1}
		var objs []types.Object
		for _, f := range d.Type.Params.List {
			for _, nm := range f.Names {
				mf.params = append(mf.params, nm.Name)
				objs = append(objs, info.Defs[nm])
			}
		}
		if len(mf.params) != len(call.Args) {
			return nil
		}
		ast.Inspect(d.Body, func(n ast.Node) bool {
			as, ok := n.(*ast.AssignStmt)
			if !ok || len(as.Lhs) != 1 {
				return true
			}
			ix, ok := as.Lhs[0].(*ast.IndexExpr)
			if !ok {
				return true
			}
			id, ok := ast.Unparen(ix.X).(*ast.Ident)
			if !ok {
				return true
			}
			mt, ok := info.TypeOf(id).Underlying().(*types.Map)
			if !ok || !types.Identical(mt.Key(), types.Typ[types.Int]) || !types.Identical(mt.Elem(), types.Typ[types.Bool]) {
				return true
			}
			for i, o := range objs {
				if info.Uses[id] == o {
					mf.mapIdx = i
				}
			}
			return true
		})
		if mf.mapIdx >= 0 {
			return mf
		}
	}
	return nil
}

// perFilePass finds the per-file pass of fragment() structurally: the function that fragment()
// calls once for an *ast.File and once per file in a loop over an *ast.Package's Files — a local
// closure of any name, or a function/method of the package (then returned as a literal made of
// its type and body). nil when fragment() has no such callee.
func (e *Env) perFilePass(pkg *packages.Package, fd *ast.FuncDecl) *ast.FuncLit {
	if cached, ok := perFilePassCache[fd]; ok {
		return cached
	}
	lit := e.perFilePass0(pkg, fd)
	if lit != nil {
		lit = e.mergePassHelpers(pkg, lit)
	}
	perFilePassCache[fd] = lit
	return lit
}

var perFilePassCache = map[*ast.FuncDecl]*ast.FuncLit{}

// passHelperParams: parameters of functions whose bodies were merged into the per-file pass; a
// store through such a parameter is a store into the caller's argument (checked at the call).
var passHelperParams = map[types.Object]bool{}

// passHelperArg: such a parameter → the variable it is bound to at the call (when the argument is
// a plain variable).
var passHelperArg = map[types.Object]types.Object{}

// mergePassHelpers: a per-file pass that hands the file (or something derived from it) and its
// set to functions of the package, called as statements of its body, is analysed with those
// functions' bodies in place of the calls. The merged body is made of the original, type-checked
// nodes: each call statement is replaced by `param := argument` bindings (the parameter
// identifiers of the callee, which the type checker knows as definitions) followed by the
// callee's statements.
func (e *Env) mergePassHelpers(pkg *packages.Package, lit *ast.FuncLit) *ast.FuncLit {
	info := pkg.TypesInfo
	changed := false
	var out []ast.Stmt
	for _, st := range lit.Body.List {
		es, ok := st.(*ast.ExprStmt)
		if !ok {
			out = append(out, st)
			continue
		}
		call, ok := es.X.(*ast.CallExpr)
		if !ok {
			out = append(out, st)
			continue
		}
		fn := calleeFunc(info, call)
		var decl *ast.FuncDecl
		if fn != nil && fn.Pkg() == pkg.Types {
			for _, d := range load.AllFuncDecls(pkg) {
				if info.Defs[d.Name] == types.Object(fn) && d.Body != nil && d.Type.Params != nil && len(d.Body.List) <= 40 {
					decl = d
				}
			}
		}
		if decl == nil || decl.Type.Results != nil && len(decl.Type.Results.List) > 0 {
			out = append(out, st)
			continue
		}
		// handed the file (or a value of a go/token or go/ast type) or a line set
		relevant := false
		for _, a := range call.Args {
			t := info.TypeOf(a)
			if t == nil {
				continue
			}
			if mt, ok := t.Underlying().(*types.Map); ok && types.Identical(mt.Key(), types.Typ[types.Int]) {
				relevant = true
			}
			if p, _ := namedOf(t); p == "go/ast" || p == "go/token" {
				relevant = true
			}
		}
		var params []*ast.Ident
		for _, f := range decl.Type.Params.List {
			params = append(params, f.Names...)
		}
		// no return statements in the callee (a return would end the callee only)
		hasRet := false
		ast.Inspect(decl.Body, func(n ast.Node) bool {
			if _, ok := n.(*ast.ReturnStmt); ok {
				hasRet = true
			}
			return true
		})
		if !relevant || hasRet || len(params) != len(call.Args) || call.Ellipsis.IsValid() {
			out = append(out, st)
			continue
		}
		changed = true
		for i, p := range params {
			if p.Name == "_" {
				continue
			}
			out = append(out, &ast.AssignStmt{Lhs: []ast.Expr{p}, Tok: token.DEFINE, TokPos: call.Pos(), Rhs: []ast.Expr{call.Args[i]}})
			if o := info.Defs[p]; o != nil {
				passHelperParams[o] = true
				if aid, ok := ast.Unparen(call.Args[i]).(*ast.Ident); ok && info.Uses[aid] != nil {
					passHelperArg[o] = info.Uses[aid]
				}
			}
		}
		out = append(out, decl.Body.List...)
	}
	if !changed {
		return lit
	}
	return &ast.FuncLit{Type: lit.Type, Body: &ast.BlockStmt{Lbrace: lit.Body.Lbrace, List: out, Rbrace: lit.Body.Rbrace}}
}

func (e *Env) perFilePass0(pkg *packages.Package, fd *ast.FuncDecl) *ast.FuncLit {
	info := pkg.TypesInfo
	if fd == nil || fd.Body == nil {
		return nil
	}
	// callees handed a value of type *ast.File, per call expression
	counts := map[types.Object]int{}
	inLoop := map[types.Object]bool{}
	var stack []ast.Node
	ast.Inspect(fd.Body, func(n ast.Node) bool {
		if n == nil {
			stack = stack[:len(stack)-1]
			return true
		}
		stack = append(stack, n)
		call, ok := n.(*ast.CallExpr)
		if !ok || len(call.Args) != 1 {
			return true
		}
		if _, tn := namedOf(info.TypeOf(call.Args[0])); tn != "File" {
			return true
		}
		if p, _ := namedOf(info.TypeOf(call.Args[0])); p != "go/ast" {
			return true
		}
		var callee types.Object
		switch f := call.Fun.(type) {
		case *ast.Ident:
			callee = info.Uses[f]
		case *ast.SelectorExpr:
			callee = info.Uses[f.Sel]
		}
		if callee == nil {
			return true
		}
		counts[callee]++
		for _, anc := range stack {
			if rs, ok := anc.(*ast.RangeStmt); ok {
				if se, ok := ast.Unparen(rs.X).(*ast.SelectorExpr); ok && se.Sel.Name == "Files" {
					inLoop[callee] = true
				}
			}
		}
		return true
	})
	for callee, k := range counts {
		if k < 2 || !inLoop[callee] {
			continue
		}
		// a local closure
		var lit *ast.FuncLit
		ast.Inspect(fd.Body, func(n ast.Node) bool {
			if as, ok := n.(*ast.AssignStmt); ok && len(as.Lhs) == 1 && len(as.Rhs) == 1 {
				if id, ok := as.Lhs[0].(*ast.Ident); ok && (info.Defs[id] == callee || info.Uses[id] == callee) {
					if fl, ok := as.Rhs[0].(*ast.FuncLit); ok {
						lit = fl
					}
				}
			}
			return true
		})
		if lit != nil {
			return lit
		}
		// a function or method of the package
		for _, d := range load.AllFuncDecls(pkg) {
			if info.Defs[d.Name] == callee && d.Body != nil {
				return &ast.FuncLit{Type: d.Type, Body: d.Body}
			}
		}
	}
	return nil
}
