package rules

import (
	"go/ast"
	"go/token"
	"go/types"
	"strings"

	"dstverif/load"
)

// RAddSurvives (R-ADD): an import declaration that receives a new spec is not thrown away.
// updateImports marks a declaration whose specs were all removed for deletion (an entry in a
// map from declarations to bool that the final pass over File.Decls consults). A spec that is appended to
// a declaration *after* that declaration may have been marked is lost together with it — the
// code keeps its qualified references, the import they need is not in the file — unless the
// mark is taken back (delete(marks, decl)) behind the append. Decided on the order of the
// top-level statements of updateImports: every append to a GenDecl's Specs lies before every
// marking statement, or is followed by a delete on the marking map before the final pass.
func (e *Env) RAddSurvives() {
	pkg := e.Prog.Pkg(load.PkgDecorator)
	info := pkg.TypesInfo
	c := e.Sib.Ctx[load.PkgDecorator]
	fd := load.FuncDecl(pkg, "FileRestorer", "updateImports")
	key := "updateImports: a declaration that receives a new spec is not marked for deletion"
	if fd == nil || fd.Body == nil {
		e.Run.Violation("R-ADD", key, "", "updateImports not found")
		return
	}
	isMarkMap := func(x ast.Expr) bool {
		m, ok := info.TypeOf(x).Underlying().(*types.Map)
		if !ok {
			return false
		}
		_, n := namedOf(m.Key())
		b, isB := m.Elem().Underlying().(*types.Basic)
		return (n == "GenDecl" || n == "Decl") && isB && b.Kind() == types.Bool
	}
	type site struct {
		top int
		pos ast.Node
	}
	var marks, adds, unmarks []site
	for i, st := range fd.Body.List {
		ast.Inspect(st, func(n ast.Node) bool {
			switch v := n.(type) {
			case *ast.AssignStmt:
				for k, l := range v.Lhs {
					if ix, ok := ast.Unparen(l).(*ast.IndexExpr); ok && isMarkMap(ix.X) {
						if k < len(v.Rhs) {
							if tv, ok := info.Types[v.Rhs[k]]; ok && tv.Value != nil && tv.Value.String() == "false" {
								unmarks = append(unmarks, site{i, v})
								continue
							}
						}
						marks = append(marks, site{i, v})
					}
					// X.Specs = append(X.Specs, …) on a GenDecl
					if se, ok := ast.Unparen(l).(*ast.SelectorExpr); ok && se.Sel.Name == "Specs" && k < len(v.Rhs) {
						if _, n := namedOf(info.TypeOf(se.X)); n == "GenDecl" {
							if call, ok := ast.Unparen(v.Rhs[k]).(*ast.CallExpr); ok {
								if id, ok := call.Fun.(*ast.Ident); ok && id.Name == "append" && len(call.Args) >= 2 && types.ExprString(call.Args[0]) == types.ExprString(l) {
									adds = append(adds, site{i, v})
								}
							}
						}
					}
				}
			case *ast.CallExpr:
				if id, ok := v.Fun.(*ast.Ident); ok && id.Name == "delete" && len(v.Args) == 2 && isMarkMap(v.Args[0]) {
					if _, isB := info.Uses[id].(*types.Builtin); isB {
						unmarks = append(unmarks, site{i, v})
					}
				}
			}
			return true
		})
	}
	if len(marks) == 0 {
		e.Run.OK("R-ADD", key, e.Prog.Pos(fd.Pos()), "no declaration is ever marked for deletion")
		return
	}
	e.Run.Analysed("R-ADD appends of a new import spec to a declaration", len(adds))
	for _, a := range adds {
		var after []string
		target := ""
		if as, ok := a.pos.(*ast.AssignStmt); ok {
			for _, l := range as.Lhs {
				if se, ok := ast.Unparen(l).(*ast.SelectorExpr); ok && se.Sel.Name == "Specs" {
					target = types.ExprString(se.X)
				}
			}
		}
		for _, m := range marks {
			if m.top < a.top || (m.top == a.top && m.pos.Pos() < a.pos.Pos()) {
				// a mark that leaves out the receiving declaration (`block != blocks[0]`) does not count
				if pc, okp := pathCond(c, fd.Body.List, m.pos); okp && target != "" && (strings.Contains(pc, " != "+target) || strings.Contains(pc, target+" != ")) {
					continue
				}
				after = append(after, e.Prog.Pos(m.pos.Pos()))
			}
		}
		if len(after) == 0 {
			e.Run.OK("R-ADD", key, e.Prog.Pos(a.pos.Pos()), "every marking statement comes later: the marking loop sees the new spec")
			continue
		}
		taken := false
		for _, u := range unmarks {
			if u.top > a.top || (u.top == a.top && u.pos.Pos() > a.pos.Pos()) {
				taken = true
			}
		}
		e.Run.Check("R-ADD", key, e.Prog.Pos(a.pos.Pos()), taken,
			"the spec is appended after the declaration may have been marked for deletion ("+strings.Join(after, ", ")+") and the mark is never taken back: when every old spec of that declaration was removed, the declaration is dropped together with the import that was just added — the code refers to a package the file does not import")
	}
}

// RDeclRemoval (R-ADD): an import declaration is removed from the file exactly when it has no
// spec left. (1) Every statement that marks a declaration for deletion runs only where the list
// of specs that were kept is empty (a conjunct `len(<kept>) == 0` of its path condition);
// (2) the final pass over File.Decls keeps exactly the unmarked declarations: the append into the
// new list is reached under the negation of the mark test, nothing else. Also (3): the
// conflict-free name search changes the candidate in every round (a loop on conflict(current)
// that does not assign current never ends), and (4) a new spec is given a Name exactly when an
// alias was chosen for its path.
func (e *Env) RDeclRemoval() {
	pkg := e.Prog.Pkg(load.PkgDecorator)
	info := pkg.TypesInfo
	c := e.Sib.Ctx[load.PkgDecorator]
	fd := load.FuncDecl(pkg, "FileRestorer", "updateImports")
	if fd == nil || fd.Body == nil {
		return
	}
	undo := c.InstallReaching(fd)
	defer undo()
	isMarkMap := func(x ast.Expr) bool {
		m, ok := info.TypeOf(x).Underlying().(*types.Map)
		if !ok {
			return false
		}
		_, n := namedOf(m.Key())
		b, isB := m.Elem().Underlying().(*types.Basic)
		return (n == "GenDecl" || n == "Decl") && isB && b.Kind() == types.Bool
	}
	nMarks, nKeep, nLoops, nNames := 0, 0, 0, 0
	ast.Inspect(fd.Body, func(nd ast.Node) bool {
		switch v := nd.(type) {
		case *ast.AssignStmt:
			for k, l := range v.Lhs {
				ix, ok := ast.Unparen(l).(*ast.IndexExpr)
				if !ok || !isMarkMap(ix.X) || k >= len(v.Rhs) {
					continue
				}
				if tv, ok := info.Types[v.Rhs[k]]; !ok || tv.Value == nil || tv.Value.String() != "true" {
					continue
				}
				nMarks++
				pc, okp := pathCond(c, fd.Body.List, v)
				empty := false
				for _, cj := range flatConjuncts(orTrue(pc)) {
					cj = strings.TrimSpace(cj)
					if m := strings.TrimSuffix(cj, " == 0"); m != cj && (strings.HasPrefix(m, "len(") || m == "count") {
						empty = true
					}
					if m := strings.TrimPrefix(cj, "0 == "); m != cj && strings.HasPrefix(m, "len(") {
						empty = true
					}
				}
				e.Run.Check("R-ADD", "updateImports: a declaration is marked for deletion only when no spec of it is kept", e.Prog.Pos(v.Pos()), okp && empty,
					"the mark is set under «"+pc+"», which does not say that the list of kept specs is empty: a declaration that still has imports is removed from the file (the code refers to packages the file no longer imports)")
			}
			// (4) is.Name = &dst.Ident{Name: aliases[path]}
			for k, l := range v.Lhs {
				se, ok := ast.Unparen(l).(*ast.SelectorExpr)
				if !ok || se.Sel.Name != "Name" || k >= len(v.Rhs) {
					continue
				}
				if _, tn := namedOf(info.TypeOf(se.X)); tn != "ImportSpec" {
					continue
				}
				al := ""
				ast.Inspect(v.Rhs[k], func(m ast.Node) bool {
					if ix, ok := m.(*ast.IndexExpr); ok && types.ExprString(ix.X) == "aliases" {
						al = c.ExprStr(ix)
					}
					return true
				})
				if al == "" {
					continue
				}
				pc, okp := pathCond(c, fd.Body.List, v)
				// inside the additions loop: the conjuncts that speak about the alias
				has, bad := false, false
				for _, cj := range flatConjuncts(orTrue(pc)) {
					cj = strings.TrimSpace(cj)
					if cj == al+` != ""` {
						has = true
					}
					if cj == "false" || cj == al+` == ""` {
						bad = true
					}
				}
				{
					nNames++
					e.Run.Check("R-ALIAS", "updateImports: a new import spec is given a name exactly when an alias was chosen for its path", e.Prog.Pos(v.Pos()), okp && has && !bad,
						"the name is stored under «"+pc+"» (specified: `"+al+` != ""`+"`): an import that needs an alias (its package name clashes with another import's) is written without one while the code uses the alias, or every new import is written with an empty name")
				}
			}
		case *ast.ForStmt:
			// (3) for conflict(current) { … }
			call, ok := ast.Unparen(v.Cond).(*ast.CallExpr)
			if v.Cond == nil || !ok || len(call.Args) != 1 {
				return true
			}
			arg, ok := ast.Unparen(call.Args[0]).(*ast.Ident)
			if !ok {
				return true
			}
			if t, ok := info.TypeOf(call).(*types.Basic); !ok || t.Kind() != types.Bool {
				return true
			}
			nLoops++
			assigned := false
			ast.Inspect(v.Body, func(m ast.Node) bool {
				if as, ok := m.(*ast.AssignStmt); ok {
					for _, l := range as.Lhs {
						if id, ok := l.(*ast.Ident); ok && info.Uses[id] == info.Uses[arg] {
							assigned = true
						}
					}
				}
				return true
			})
			e.Run.Check("R-UNIQ", "updateImports: the search for a conflict-free name tries another name in every round", e.Prog.Pos(v.Pos()), assigned,
				"the loop runs while "+types.ExprString(v.Cond)+" and never assigns "+arg.Name+": two imports with the same package name make the restorer loop for ever")
		case *ast.RangeStmt:
			// (2) the final pass: range over r.file.Decls with an append of the element
			if !strings.HasSuffix(types.ExprString(v.X), ".Decls") || v.Value == nil {
				return true
			}
			val, ok := v.Value.(*ast.Ident)
			if !ok {
				return true
			}
			ast.Inspect(v.Body, func(m ast.Node) bool {
				as, ok := m.(*ast.AssignStmt)
				if !ok || len(as.Rhs) != 1 {
					return true
				}
				call, ok := ast.Unparen(as.Rhs[0]).(*ast.CallExpr)
				if !ok || len(call.Args) != 2 {
					return true
				}
				if id, ok := call.Fun.(*ast.Ident); !ok || id.Name != "append" {
					return true
				}
				if a, ok := ast.Unparen(call.Args[1]).(*ast.Ident); !ok || a.Name != val.Name {
					return true
				}
				// is there a mark test in this loop at all?
				marked := ""
				ast.Inspect(v.Body, func(x ast.Node) bool {
					if ix, ok := x.(*ast.IndexExpr); ok && isMarkMap(ix.X) {
						marked = types.ExprString(ix)
					}
					return true
				})
				if marked == "" {
					return true
				}
				nKeep++
				pc, okp := pathCond(c, v.Body.List, as)
				eq, dec := equivalentGuards(orTrue(pc), "!"+marked)
				e.Run.Check("R-ADD", "updateImports: the final pass keeps exactly the declarations that are not marked for deletion", e.Prog.Pos(as.Pos()), okp && dec && eq,
					"a declaration is kept under «"+pc+"», specified `!"+marked+"`: with the test the other way round every declaration of the file except the empty import declarations is dropped")
				return true
			})
		}
		return true
	})
	// a final pass that tests the marks must keep something: a loop over File.Decls with a mark
	// test and no append of the element drops every declaration of the file
	ast.Inspect(fd.Body, func(nd ast.Node) bool {
		rs, ok := nd.(*ast.RangeStmt)
		if !ok || !strings.HasSuffix(types.ExprString(rs.X), ".Decls") || rs.Value == nil {
			return true
		}
		tests, keeps := false, false
		ast.Inspect(rs.Body, func(m ast.Node) bool {
			if ix, ok := m.(*ast.IndexExpr); ok && isMarkMap(ix.X) {
				tests = true
			}
			if call, ok := m.(*ast.CallExpr); ok && len(call.Args) == 2 {
				if id, ok := call.Fun.(*ast.Ident); ok && id.Name == "append" && types.ExprString(call.Args[1]) == types.ExprString(rs.Value) {
					keeps = true
				}
			}
			return true
		})
		if tests {
			e.Run.Check("R-ADD", "updateImports: the final pass hands the unmarked declarations on", e.Prog.Pos(rs.Pos()), keeps,
				"the loop over File.Decls tests the deletion marks but appends no declaration to the new list: as soon as one import declaration is emptied, the file loses all its declarations")
		}
		return true
	})
	// a spec that is created here gets its alias: either in its literal (Name: …aliases[path]…) or by a
	// store X.Name = … aliases[…] … on the variable it was assigned to
	ast.Inspect(fd.Body, func(nd ast.Node) bool {
		as, ok := nd.(*ast.AssignStmt)
		if !ok || as.Tok != token.DEFINE || len(as.Lhs) != 1 || len(as.Rhs) != 1 {
			return true
		}
		u, ok := ast.Unparen(as.Rhs[0]).(*ast.UnaryExpr)
		if !ok || u.Op != token.AND {
			return true
		}
		lit, ok := ast.Unparen(u.X).(*ast.CompositeLit)
		if !ok {
			return true
		}
		if _, tn := namedOf(info.TypeOf(lit)); tn != "ImportSpec" {
			return true
		}
		v := info.Defs[as.Lhs[0].(*ast.Ident)]
		mentionsAlias := func(n ast.Node) bool {
			f := false
			ast.Inspect(n, func(m ast.Node) bool {
				if ix, ok := m.(*ast.IndexExpr); ok && types.ExprString(ix.X) == "aliases" {
					f = true
				}
				// a local that was defined from aliases[…] (`if alias := aliases[path]; alias != ""`)
				if ex, ok := m.(ast.Expr); ok && !f {
					if id, ok := ex.(*ast.Ident); ok && strings.Contains(c.ExprStr(id), "aliases[") {
						f = true
					}
				}
				return true
			})
			return f
		}
		named := false
		for _, el := range lit.Elts {
			if kv, ok := el.(*ast.KeyValueExpr); ok && types.ExprString(kv.Key) == "Name" && mentionsAlias(kv.Value) {
				named = true
			}
		}
		ast.Inspect(fd.Body, func(m ast.Node) bool {
			st, ok := m.(*ast.AssignStmt)
			if !ok || len(st.Lhs) != 1 || len(st.Rhs) != 1 {
				return true
			}
			if se, ok := ast.Unparen(st.Lhs[0]).(*ast.SelectorExpr); ok && se.Sel.Name == "Name" {
				if id, ok := se.X.(*ast.Ident); ok && info.Uses[id] == v && mentionsAlias(st.Rhs[0]) {
					named = true
				}
			}
			return true
		})
		e.Run.Check("R-ALIAS", "updateImports: an import spec that is created gets the alias chosen for its path", e.Prog.Pos(as.Pos()), named,
			"the new spec is never given a name from aliases[…]: when its package name clashes with another import's, the code is printed with the alias and the import without it")
		return true
	})
	e.Run.Analysed("R-ADD deletion marks", nMarks)
	e.Run.Analysed("R-ADD final-pass keeps", nKeep)
	e.Run.Analysed("R-UNIQ conflict loops", nLoops)
	e.Run.Analysed("R-ALIAS new spec names", nNames)
}
