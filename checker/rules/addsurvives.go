package rules

import (
	"go/ast"
	"go/types"
	"strings"

	"dstverif/load"
)

// RAddSurvives (R-ADD): an import declaration that receives a new spec is not thrown away.
// updateImports marks a declaration whose specs were all removed for deletion (an entry in a
// map from declarations to bool that the final pass over File.Decls consults). A spec that is appended to
// a declaration *after* that declaration may have been marked is lost together with it — the
// code keeps its qualified references, the import they need is not in the file — unless the
// mark is taken back (delete(marks, decl)) behind the append. Decided on the order of the
// top-level statements of updateImports: every append to a GenDecl's Specs lies before every
// marking statement, or is followed by a delete on the marking map before the final pass.
func (e *Env) RAddSurvives() {
	pkg := e.Prog.Pkg(load.PkgDecorator)
	info := pkg.TypesInfo
	fd := load.FuncDecl(pkg, "FileRestorer", "updateImports")
	key := "updateImports: a declaration that receives a new spec is not marked for deletion"
	if fd == nil || fd.Body == nil {
		e.Run.Violation("R-ADD", key, "", "updateImports not found")
		return
	}
	isMarkMap := func(x ast.Expr) bool {
		m, ok := info.TypeOf(x).Underlying().(*types.Map)
		if !ok {
			return false
		}
		_, n := namedOf(m.Key())
		b, isB := m.Elem().Underlying().(*types.Basic)
		return (n == "GenDecl" || n == "Decl") && isB && b.Kind() == types.Bool
	}
	type site struct {
		top int
		pos ast.Node
	}
	var marks, adds, unmarks []site
	for i, st := range fd.Body.List {
		ast.Inspect(st, func(n ast.Node) bool {
			switch v := n.(type) {
			case *ast.AssignStmt:
				for k, l := range v.Lhs {
					if ix, ok := ast.Unparen(l).(*ast.IndexExpr); ok && isMarkMap(ix.X) {
						if k < len(v.Rhs) {
							if tv, ok := info.Types[v.Rhs[k]]; ok && tv.Value != nil && tv.Value.String() == "false" {
								unmarks = append(unmarks, site{i, v})
								continue
							}
						}
						marks = append(marks, site{i, v})
					}
					// X.Specs = append(X.Specs, …) on a GenDecl
					if se, ok := ast.Unparen(l).(*ast.SelectorExpr); ok && se.Sel.Name == "Specs" && k < len(v.Rhs) {
						if _, n := namedOf(info.TypeOf(se.X)); n == "GenDecl" {
							if call, ok := ast.Unparen(v.Rhs[k]).(*ast.CallExpr); ok {
								if id, ok := call.Fun.(*ast.Ident); ok && id.Name == "append" && len(call.Args) >= 2 && types.ExprString(call.Args[0]) == types.ExprString(l) {
									adds = append(adds, site{i, v})
								}
							}
						}
					}
				}
			case *ast.CallExpr:
				if id, ok := v.Fun.(*ast.Ident); ok && id.Name == "delete" && len(v.Args) == 2 && isMarkMap(v.Args[0]) {
					if _, isB := info.Uses[id].(*types.Builtin); isB {
						unmarks = append(unmarks, site{i, v})
					}
				}
			}
			return true
		})
	}
	if len(marks) == 0 {
		e.Run.OK("R-ADD", key, e.Prog.Pos(fd.Pos()), "no declaration is ever marked for deletion")
		return
	}
	e.Run.Floor("R-ADD", "appends of a new import spec to a declaration", len(adds), 1)
	for _, a := range adds {
		var after []string
		for _, m := range marks {
			if m.top < a.top || (m.top == a.top && m.pos.Pos() < a.pos.Pos()) {
				after = append(after, e.Prog.Pos(m.pos.Pos()))
			}
		}
		if len(after) == 0 {
			e.Run.OK("R-ADD", key, e.Prog.Pos(a.pos.Pos()), "every marking statement comes later: the marking loop sees the new spec")
			continue
		}
		taken := false
		for _, u := range unmarks {
			if u.top > a.top || (u.top == a.top && u.pos.Pos() > a.pos.Pos()) {
				taken = true
			}
		}
		e.Run.Check("R-ADD", key, e.Prog.Pos(a.pos.Pos()), taken,
			"the spec is appended after the declaration may have been marked for deletion ("+strings.Join(after, ", ")+") and the mark is never taken back: when every old spec of that declaration was removed, the declaration is dropped together with the import that was just added — the code refers to a package the file does not import")
	}
}
