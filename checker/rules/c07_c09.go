package rules

import (
	"strings"

	"dstverif/load"
)

func init() {
	register("C07", Meta{
		Explanation: "Static necessary conditions of import-managed restore: the scan that discovers used paths starts at the file, never prunes, records every identifier with a non-empty non-local path and every import spec (cgo always kept) and — by C13's Walk facts — reaches every identifier position; names are chosen in a deterministic order (map ranges in updateImports are order-insensitive or sorted with a total comparator); the conflict test consults exactly the set the chosen names go into; the name used in code and the alias written to the spec come pairwise from one call; the restorer's Alias map overrides source aliases; the path→name table has one writer and one reader; an expanded identifier is laid out like a source selector, takes its qualifier from the table, stays bare for dot-imports; the restorer writes the tree only inside updateImports. Does not decide exactness of the import set, block layout preservation or byte output. Roles of the import kinds on path conditions (R-ROLE): blank imports reach the alias table and are all marked required (but not for a package that is referred to), dot and blank imports get no name of their own and the name search is unreachable for them, a spec stays exactly when its path is required, no loop over the imports is left by break, the alias of `.`/`_` is handed on unchanged, an existing spec with another alias is renamed, and every name written into a spec is the alias chosen for its path. Declarations (R-ADD, R-GATE): marked for deletion only when no spec is kept, the final pass keeps exactly the unmarked ones, a declaration that receives new specs is not marked, a created declaration is in File.Decls on every path and spliced in without dropping one, only the lone import \"C\" is set aside, only import declarations are read as lists of import specs; parenthesis flags are written together and cleared only for one spec without comments; the conflict loop changes its candidate; the restorer's own path is compared without its vendor prefix.",
		NotCovered:  []string{"exactness of the resulting import set for every configuration", "preservation of block order/decorations when nothing is added", "byte output through go/printer"},
	}, func(e *Env) {
		e.RDiscovery()
		e.RCover("walk", e.dstNodeNames(), true)
		e.RWalk()
		e.RMapOrder(func(m mapRange) bool { return m.fd.Name.Name == "updateImports" })
		e.RUniqueNames()
		e.RNameSource()
		e.RSharedState()
		e.RAddsEveryMissing()
		e.RAddSurvives()
		e.RDeclRemoval()
		e.RGates()
		e.RCgoBlock()
		e.RImportRoles()
		e.RDeadAppend()
		e.RAliasFlow()
		e.RPackageNamesOwnership()
		e.RRestoreIdent()
		e.RPureRestore()
		e.RParenSync()
	})
	register("C08", Meta{
		Explanation: "Static necessary conditions of transparency: updateImports has a path to its final return that writes nothing to the tree (no unconditional sort, re-spacing or re-parenthesising: each such write is guarded by a flag set only where a spec is appended, or by a comparison of kept and original spec counts), and no store precedes an error return; decorateSelectorExpr feeds all 11 inner decoration/spacing slots of a qualified identifier, in source order, to mergeDecorations and stores the results on the identifier's Start, X, End, keeping the selector's own Before/After; mergeDecorations agrees, for every (state, slot class) pair, with the restorer's spacing state machine (applySpace/applyDecorations), so the merged lists render with the same line breaks as the original selector; an alias written in the source is kept even when it equals the package's name (findAlias drops an alias only when none was requested); restoreIdent renders exactly the sequence of restore's SelectorExpr case. Does not decide byte equality nor the resolvers' accuracy.",
		NotCovered:  []string{"byte equality through go/printer", "accuracy of user-supplied resolvers", "re-decoration giving identical Path annotations (depends on the resolver)"},
	}, func(e *Env) {
		e.RPureUpdateImports()
		e.RNameSource()
		e.RSharedState()
		e.RQuietRearrange()
		e.RPureRestore()
		e.RDiscovery()
		e.RAliasFlow()
		e.RMerge()
		e.RMergeAppendGuard()
		e.RGates()
		e.RRestoreIdent()
		e.C05Space()
	})
	register("C09", Meta{
		Explanation: "Static necessary conditions on the resolution chain: every child position whose static type is *Ident is in the avoid table and vice versa (in both converters), every other position passes its static type; decorate's Ident case resolves without force under a resolver, decorateSelectorExpr forces Sel only; resolvePath filters declaring positions, passes (file, parent, field, ident) to the resolver, strips the vendor prefix from both operands of the local-path comparison, with vendor matched on whole path elements; resolver errors are checked and returned at every call site; the classification clauses of the two decorator resolvers (PkgName → imported path, field and universe exclusion, shadowing test, dot-import and duplicate-name errors) are present. The classification itself is a runtime fact about go/types objects and is not decided. fileOf returns a package's file exactly when it contains the identifier (no break in the loop); the syntax-only resolver returns an error for a nil file, keeps the caller's name resolver, and reads an import's alias under its nil test.",
		NotCovered:  []string{"agreement with go/types on arbitrary programs (runtime facts about objects)", "agreement between the two resolvers"},
	}, func(e *Env) {
		e.RRoleFilter()
		e.RResolvePath()
		e.RCarry()
		e.RResolverFile()
		e.RFileOf()
		e.RGates()
		e.RGoastGates()
		e.RResolverClauses()
		e.RResolverErrorsFirst()
		e.RErr(e.pkgs(load.PkgDecorator, load.PkgGoast, load.PkgGotypes), 85)
		e.RAssert()
	})
	register("C10", Meta{
		Explanation: "Static necessary conditions of 'moved code keeps what it refers to', decided on dst's source — the behaviour itself (the output type-checks, every identifier denotes the same object) needs a type checker over output programs and is NOT decided. What is decided is that a reference is carried as (package path, object name) and nothing else, from the file it was read in to the file it is printed in: (1) recording: the identifier positions that may be resolved are exactly the non-declaring ones in both converters; resolvePath returns the vendor-stripped resolver answer (the local package's path too when ResolveLocalPath asks for it); decorate's Ident case and decorateSelectorExpr store that answer in Path and the selected object's name in Name, on every path that returns the identifier (R-CARRY), whatever name, alias or dot-import the source file used; the two decorator resolvers map a package-name qualifier to the imported package's path and any other use to its declaring package (their path-condition specifications); (2) carrying: Clone copies Name and Path of every Ident and shares nothing; (3) re-binding in the target file: updateImports' scan reaches every identifier of the file being restored and records each non-empty non-local Path as required, every required path without a spec gets one, names are chosen so that no two paths share one (the conflict test consults the set the names go into), the name used in code and the alias written to the spec come from one call, restoreIdent qualifies with the target file's name for n.Path (bare for the local path and for dot-imports) and builds Sel from n.Name, the path-to-name table has one writer and one reader, and the import declaration stays well-formed (parentheses follow the spec count).",
		NotCovered:  []string{"that the printed target file type-checks (needs go/types on output programs)", "that each identifier denotes the same object after the move (depends on the resolver's accuracy on the source program and on the declarations visible in the target)", "shadowing of a chosen import name by a declaration of the target file (excluded by the property's proviso)", "identifiers that refer to unexported or file-local objects of the source package"},
	}, func(e *Env) {
		e.RRoleFilter()
		e.RResolvePath()
		e.RCarry()
		e.RResolverClauses()
		e.RClone()
		e.RDiscovery()
		e.RCover("walk", e.dstNodeNames(), true)
		e.RWalk()
		e.RUniqueNames()
		e.RAddsEveryMissing()
		e.RAddSurvives()
		e.RDeclRemoval()
		e.RGates()
		e.RCgoBlock()
		e.RImportRoles()
		e.RAliasFlow()
		e.RPackageNamesOwnership()
		e.RRestoreIdent()
		e.RParenSync()
	})
	_ = strings.TrimSpace
}
