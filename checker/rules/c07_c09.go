package rules

import (
	"strings"

	"dstverif/load"
)

func init() {
	register("C07", Meta{
		Explanation: "Static necessary conditions of import-managed restore: the scan that discovers used paths starts at the file, never prunes, records every identifier with a non-empty non-local path and every import spec (cgo always kept) and — by C13's Walk facts — reaches every identifier position; names are chosen in a deterministic order (map ranges in updateImports are order-insensitive or sorted with a total comparator); the conflict test consults exactly the set the chosen names go into; the name used in code and the alias written to the spec come pairwise from one call; the restorer's Alias map overrides source aliases; the path→name table has one writer and one reader; an expanded identifier is laid out like a source selector, takes its qualifier from the table, stays bare for dot-imports; the restorer writes the tree only inside updateImports. Does not decide exactness of the import set, block layout preservation or byte output.",
		NotCovered:  []string{"exactness of the resulting import set for every configuration", "preservation of block order/decorations when nothing is added", "byte output through go/printer"},
	}, func(e *Env) {
		e.RDiscovery()
		e.RCover("walk", e.dstNodeNames(), true)
		e.RWalk()
		e.RMapOrder(func(m mapRange) bool { return m.fd.Name.Name == "updateImports" })
		e.RUniqueNames()
		e.RAddsEveryMissing()
		e.RDeadAppend()
		e.RAliasFlow()
		e.RPackageNamesOwnership()
		e.RRestoreIdent()
		e.RPureRestore()
		e.RParenSync()
	})
	register("C08", Meta{
		Explanation: "Static necessary conditions of transparency: updateImports has a path to its final return that writes nothing to the tree (no unconditional sort, re-spacing or re-parenthesising: each such write is guarded by a flag set only where a spec is appended, or by a comparison of kept and original spec counts), and no store precedes an error return; decorateSelectorExpr feeds all 11 inner decoration/spacing slots of a qualified identifier, in source order, to mergeDecorations and stores the results on the identifier's Start, X, End, keeping the selector's own Before/After; mergeDecorations agrees, for every (state, slot class) pair, with the restorer's spacing state machine (applySpace/applyDecorations), so the merged lists render with the same line breaks as the original selector; restoreIdent renders exactly the sequence of restore's SelectorExpr case. Does not decide byte equality nor the resolvers' accuracy.",
		NotCovered:  []string{"byte equality through go/printer", "accuracy of user-supplied resolvers", "re-decoration giving identical Path annotations (depends on the resolver)"},
	}, func(e *Env) {
		e.RPureUpdateImports()
		e.RQuietRearrange()
		e.RPureRestore()
		e.RDiscovery()
		e.RMerge()
		e.RRestoreIdent()
		e.C05Space()
	})
	register("C09", Meta{
		Explanation: "Static necessary conditions on the resolution chain: every child position whose static type is *Ident is in the avoid table and vice versa (in both converters), every other position passes its static type; decorate's Ident case resolves without force under a resolver, decorateSelectorExpr forces Sel only; resolvePath filters declaring positions, passes (file, parent, field, ident) to the resolver, strips the vendor prefix from both operands of the local-path comparison, with vendor matched on whole path elements; resolver errors are checked and returned at every call site; the classification clauses of the two decorator resolvers (PkgName → imported path, field and universe exclusion, shadowing test, dot-import and duplicate-name errors) are present. The classification itself is a runtime fact about go/types objects and is not decided.",
		NotCovered:  []string{"agreement with go/types on arbitrary programs (runtime facts about objects)", "agreement between the two resolvers"},
	}, func(e *Env) {
		e.RRoleFilter()
		e.RResolvePath()
		e.RResolverFile()
		e.RResolverClauses()
		e.RResolverErrorsFirst()
		e.RErr(e.pkgs(load.PkgDecorator, load.PkgGoast, load.PkgGotypes), 85)
		e.RAssert()
	})
	_ = strings.TrimSpace
}
