package rules

func init() {
	register("C12", Meta{
		Explanation: "Static analysis of the restorer's synthetic position space: the cursor only moves forward (reset once, ++, += len(...)/Length); every position written into the ast is the cursor or NoPos (or a parameter that receives the cursor at every call site); every token stores its position before advancing by its own length; every line-table entry is int(cursor)-base (+ byte index inside a ranged text) and is followed by a cursor advance; the comment list is append-only; RestoreFile takes the base before the cursor starts, registers the file after the tree is restored with a size that covers the cursor, and checks SetLines; positions and children are written in go/ast's declaration (= source) order. Decides monotonicity, containment and line-table order for all trees; rank equality with a re-parse of go/printer's output is not decided. File.FileStart/FileEnd are the base and base+size of the registered file (values resolved through helper parameters); fileSize is raised over the comment list and the line table; inside a text a line start is recorded for exactly its newline characters, in a reachable loop; every per-file collection of the FileRestorer is reset for every file, and a buffer that was handed out is never truncated and reused.",
		NotCovered:  []string{"rank equality with a fresh parse of the printed text (goes through go/printer)"},
	}, func(e *Env) {
		e.RCursor(true)
		e.RCommentLines()
		e.RParenSync()
		e.RCommentsNotShared()
		e.RAstOrder()
		e.RFileExtent()
		e.RPerFileReset()
	})
}
