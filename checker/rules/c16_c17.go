package rules

import (
	"golang.org/x/tools/go/packages"

	"dstverif/load"
)

func (e *Env) pkgs(paths ...string) []*packages.Package {
	var out []*packages.Package
	for _, p := range paths {
		out = append(out, e.Prog.Pkg(p))
	}
	return out
}

func init() {
	register("C16", Meta{
		Explanation: "Lock discipline and determinism, statically: every field of a mutex-carrying struct (goast.DecoratorResolver) that is written after construction is accessed only with the mutex held; package-level variables of the in-scope packages are only read; map-typed resolvers never update their receiver; the in-scope packages contain no go statement, channel operation or select; every range over a map is order-insensitive (auto-classified) or a frozen, reasoned exception; decorate never writes go/ast memory and restore writes the dst tree only inside updateImports. Decides race-freedom of dst's own shared state and absence of map-order dependence; does not look inside go/token, go/parser, go/format. No package-name resolver writes through its receiver; per-file buffers that escaped (SetLines keeps its slice) are not reused, per-file collections are reset; the shared Restorer's file set is defaulted only under a nil test.",
		NotCovered:  []string{"races inside go/token.FileSet, go/parser, go/format (standard library)", "resolvers supplied by the user"},
	}, func(e *Env) {
		e.RLock()
		e.RCacheAfterSuccess()
		e.RReadOnlyResolvers()
		e.RGlobals()
		e.RNoGoroutines()
		e.RMapOrder(nil)
		e.RPureDecorate()
		e.RPureRestore()
		e.RSharedState()
		e.RPerFileState()
		e.RBufferReuse()
		e.RPerFileReset()
		e.RFragOrder()
	})
	register("C17", Meta{
		Explanation: "Error discipline and purity, statically: every call into the dst module, a resolver interface, go/parser, go/format or go/packages that returns an error has it tested against nil by the next statement and returned (itself or %w-wrapped) at once, the error branch doing nothing else; decorate-path code never writes go/ast memory; restore-path code writes the dst tree only inside updateImports, where no store lies on a CFG path to an error return and the resolver loop precedes every store. Decides 'errors surface, input untouched' for every failure position; retry equality follows only together with C16's determinism.",
		NotCovered:  []string{"byte equality of the retry with a failure-free run (determinism is C16; go/printer outside)"},
	}, func(e *Env) {
		e.RErr(e.pkgs(load.PkgDecorator, load.PkgGoast, load.PkgGotypes, load.PkgGuess, load.PkgSimple, load.PkgGobuild, load.PkgGopkgs, load.PkgDst, load.PkgDstutil), 90)
		e.RPureDecorate()
		e.RPureRestore()
		e.RPureUpdateImports()
		e.RCacheAfterSuccess()
	})
}
