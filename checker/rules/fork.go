package rules

import (
	"bytes"
	"fmt"
	"go/ast"
	"go/parser"
	"go/printer"
	"go/token"
	"regexp"
	"strings"

	"golang.org/x/tools/go/packages"

	"dstverif/load"
)

// R-FORK: a function of the fork equals the upstream function after erasing the package
// qualifiers, comments, layout, and alpha-renaming locals. Used only where the property is
// phrased as "exactly as upstream does" (C13 Inspect adapter / Walk frame, C14, C18).

var qualRe = regexp.MustCompile(`\b(ast|dst|typeparams)\.`)

type forkOpts struct {
	elideSwitch bool                // replace the case bodies of the top-level type switch by nothing
	rewrite     func(string) string // frozen divergence applied to the upstream text before parsing
	verbatim    bool                // compare without the canonical rewrites (self-test of the rewrites)
}

var reAnySpelling = regexp.MustCompile(`\bany\b`)

// normFunc renders the normal form of a function declaration.
func (e *Env) normFunc(pkg *packages.Package, fd *ast.FuncDecl, opt forkOpts, upstream bool) (string, error) {
	var buf bytes.Buffer
	buf.WriteString("func")
	if err := printer.Fprint(&buf, e.Prog.Fset, fd.Type); err != nil {
		return "", err
	}
	// printer prints a FuncType as "func(...)": drop the duplicate keyword
	s := strings.Replace(buf.String(), "funcfunc", "func", 1)
	buf.Reset()
	buf.WriteString(s)
	buf.WriteString(" ")
	if err := printer.Fprint(&buf, e.Prog.Fset, fd.Body); err != nil {
		return "", err
	}
	text := qualRe.ReplaceAllString(buf.String(), "")
	if upstream && opt.rewrite != nil {
		text = opt.rewrite(text)
	}
	// spellings that depend on the Go version a side was written for, on both sides
	text = reAnySpelling.ReplaceAllString(text, "interface{}")
	// parsed as a file so that go/parser resolves local declarations (Ident.Obj)
	pf, err := parser.ParseFile(token.NewFileSet(), "norm.go", "package p\nvar _ = "+text, 0)
	if err != nil {
		return "", fmt.Errorf("re-parse of normal form failed: %v", err)
	}
	var fl *ast.FuncLit
	if gd, ok := pf.Decls[0].(*ast.GenDecl); ok && len(gd.Specs) == 1 {
		if vs, ok := gd.Specs[0].(*ast.ValueSpec); ok && len(vs.Values) == 1 {
			fl, _ = vs.Values[0].(*ast.FuncLit)
		}
	}
	if fl == nil {
		return "", fmt.Errorf("normal form is not a function literal")
	}
	// canonical form (forknorm.go), then a fresh parse so that the locals introduced or moved by
	// the rewrites are resolved again
	if !opt.verbatim {
		var rw func(string) string
		if upstream {
			rw = opt.rewrite
		}
		newNormEnv(pkg, fd.Name.Name, rw).canonicalize(fl)
		buf.Reset()
		if err := printer.Fprint(&buf, token.NewFileSet(), fl); err != nil {
			return "", err
		}
		pf2, err := parser.ParseFile(token.NewFileSet(), "norm2.go", "package p\nvar _ = "+buf.String(), 0)
		if err != nil {
			return "", fmt.Errorf("re-parse of the canonical form failed: %v\n%s", err, buf.String())
		}
		fl = nil
		if gd, ok := pf2.Decls[0].(*ast.GenDecl); ok && len(gd.Specs) == 1 {
			if vs, ok := gd.Specs[0].(*ast.ValueSpec); ok && len(vs.Values) == 1 {
				fl, _ = vs.Values[0].(*ast.FuncLit)
			}
		}
		if fl == nil {
			return "", fmt.Errorf("canonical form is not a function literal")
		}
	}
	if opt.elideSwitch {
		for _, st := range fl.Body.List {
			if ts, ok := st.(*ast.TypeSwitchStmt); ok {
				for _, c := range ts.Body.List {
					cc := c.(*ast.CaseClause)
					if cc.List != nil {
						cc.Body = nil
					}
				}
				// keep only `case nil` and default arms: the per-type table is compared
				// semantically by the schema rules
				var keep []ast.Stmt
				for _, c := range ts.Body.List {
					cc := c.(*ast.CaseClause)
					if cc.List == nil {
						keep = append(keep, cc)
						continue
					}
					if len(cc.List) == 1 {
						if id, ok := cc.List[0].(*ast.Ident); ok && id.Name == "nil" {
							keep = append(keep, cc)
						}
					}
				}
				ts.Body.List = keep
			}
		}
	}
	// alpha-rename locals in order of declaration
	idx := map[*ast.Object]int{}
	ast.Inspect(fl, func(n ast.Node) bool {
		id, ok := n.(*ast.Ident)
		if !ok || id.Obj == nil || id.Obj.Kind != ast.Var {
			return true
		}
		if _, seen := idx[id.Obj]; !seen {
			idx[id.Obj] = len(idx) + 1
		}
		id.Name = fmt.Sprintf("v%d", idx[id.Obj])
		return true
	})
	buf.Reset()
	if err := printer.Fprint(&buf, token.NewFileSet(), fl); err != nil {
		return "", err
	}
	return strings.TrimSpace(wsNorm.ReplaceAllString(buf.String(), " ")), nil
}

var wsNorm = regexp.MustCompile(`\s+`)

type forkPair struct {
	forkPkg, upPkg string
	recv, name     string
	opt            forkOpts
}

// firstDiff returns the first differing region of two normal forms.
func firstDiff(a, b string) (string, string) {
	i := 0
	for i < len(a) && i < len(b) && a[i] == b[i] {
		i++
	}
	start := i - 40
	if start < 0 {
		start = 0
	}
	cut := func(s string) string {
		end := i + 60
		if end > len(s) {
			end = len(s)
		}
		if start > len(s) {
			return ""
		}
		return s[start:end]
	}
	return cut(a), cut(b)
}

// RFork compares the listed functions with their upstream originals.
func (e *Env) RFork(pairs []forkPair) {
	for _, p := range pairs {
		fp, up := e.Prog.Pkg(p.forkPkg), e.Prog.Pkg(p.upPkg)
		ffd, ufd := load.FuncDecl(fp, p.recv, p.name), load.FuncDecl(up, p.recv, p.name)
		label := p.name
		if p.recv != "" {
			label = p.recv + "." + p.name
		}
		key := fmt.Sprintf("%s equals upstream %s", label, p.upPkg)
		if ffd == nil || ffd.Body == nil {
			e.Run.Violation("R-FORK", key, "", "function missing in the fork")
			continue
		}
		if ufd == nil || ufd.Body == nil {
			e.Run.Undecided("R-FORK", key, e.Prog.Pos(ffd.Pos()), "function missing upstream: no oracle")
			continue
		}
		fn, err1 := e.normFunc(fp, ffd, p.opt, false)
		un, err2 := e.normFunc(up, ufd, p.opt, true)
		if err1 != nil || err2 != nil {
			e.Run.Undecided("R-FORK", key, e.Prog.Pos(ffd.Pos()), fmt.Sprintf("normal form failed: %v %v", err1, err2))
			continue
		}
		detail := "identical after erasing qualifiers, comments, layout and local names"
		if fn != un {
			a, b := firstDiff(fn, un)
			detail = fmt.Sprintf("fork (%s) and upstream (%s) differ; first difference: fork «…%s…» upstream «…%s…»", e.Prog.Pos(ffd.Pos()), e.Prog.Pos(ufd.Pos()), a, b)
		}
		e.Run.Check("R-FORK", key, e.Prog.Pos(ffd.Pos()), fn == un, detail)
	}
	e.Run.Analysed("forked functions compared", len(pairs))
}
