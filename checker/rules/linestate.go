package rules

import (
	"fmt"
	"go/ast"
	"go/constant"
	"go/token"
	"go/types"
	"sort"
	"strings"

	"dstverif/load"
	"dstverif/schema"
)

// R-LINESTATE: the restorer's line-break state machine, decided by abstract interpretation of
// applySpace and applyDecorations against a reference machine.
//
// The abstract state is finite: fresh (the marker r.cursorAtNewLine equals the cursor), the
// bool/int locals of the function, and per step the observable effects — how many line starts
// were recorded (plain appends to the line table; byte-indexed entries inside a literal or
// comment are not line breaks of the layout) and which sink a comment went to. Every statement
// that moves the cursor clears fresh; `r.cursorAtNewLine = r.cursor` sets it.
//
//   - applySpace is evaluated for its complete input partition (SpaceType × fresh × Bad node ×
//     position, 24 classes): line breaks emitted and fresh on exit must equal the reference
//     (value of the constant, minus one on a fresh line, floored at 0; Bad nodes are followed by an
//     empty line; fresh afterwards iff a break was emitted or it was fresh and nothing moved).
//   - applyDecorations is evaluated for ALL decoration lists: decorations are partitioned into five
//     classes ("\n", // comment, one-line /* */, multi-line /* */, other text); the product of the
//     code's abstract state and the reference state is explored to a fixpoint over all class
//     sequences (finite because both are), for every (end, node has a Comment field, package
//     comment) environment. At every step the line breaks and the sink must agree with the
//     reference, and after every prefix the exit state must agree (fresh on exit).
//
// How the functions arrange this — marker updated per decoration or once after the loop, flags
// named firstLine or brokeLine, loops counted up or down, early returns — does not matter.

type lsClass int

const (
	clsNL lsClass = iota
	clsLine
	clsInline
	clsMulti
	clsOther
)

var lsClassNames = []string{`"\n"`, "// comment", "/* one-line */", "/* multi-line */", "other text"}

type lsEnv struct {
	// applyDecorations
	end, hasField, pkgComment bool
	// isFile: the node is the *ast.File; isStart: the list is a Start list. The header comments are
	// the lists with both (pkgComment = isFile && isStart)
	isFile, isStart bool
	class           lsClass
	// applySpace
	space       int64
	bad, after  bool
	dObj        types.Object // the decoration variable of the loop
	endObj      types.Object
	nodeObj     types.Object
	nameObj     types.Object
	posObj      types.Object
	spaceObj    types.Object
	decsObj     types.Object
	fileOKObj   map[types.Object]bool // ok variables of node.(*ast.File)
	undecidedIf string
}

// lsPos: a position relative to the cursor on entry of the step: same epoch and offset = equal.
// A cursor advance by an unknown positive amount (the length of a comment) starts a new epoch.
type lsPos struct{ ep, off int }

type lsState struct {
	fresh bool // mark == cur (kept in step by sync)
	cur   lsPos
	mark  lsPos
	poss  map[types.Object]lsPos // token.Pos locals
	offs  map[types.Object]lsPos // int locals that hold a file offset: the position it stands for
	// cend: where the content restored last (a node, or a comment of this list) ends. A "\n"
	// decoration that records its line start exactly there puts the End() of that content on the
	// next line; atEnd counts such line starts in the current step, unkStart the line starts whose
	// offset could not be related to the cursor.
	cend lsPos
	// raw: the end of the last raw string literal that spans lines (FileRestorer.rawLiteralEnd):
	// equal to the cursor on entry when the node's last token is such a literal, else nowhere
	raw      lsPos
	atEnd    int
	unkStart int
	// filled: local slices (collections of comments that are handed on later) known to hold
	// something (true) or nothing (false)
	filled map[types.Object]bool
	alias  map[types.Object]bool // local slices that alias the line table
	nextEp int
	bools  map[types.Object]bool
	ints   map[types.Object]int64
	breaks int
	sinks  []string
	advs   int  // cursor advanced by the length of the decoration
	inner  int  // loops over the decoration text that record line starts inside it
	done   bool // returned
	cont   bool // continue in the decoration loop
	ret    *int64
	// classification helpers: return value wanted
	retWanted, retSet bool
}

func (s *lsState) clone() *lsState {
	n := &lsState{fresh: s.fresh, cur: s.cur, mark: s.mark, cend: s.cend, raw: s.raw, atEnd: s.atEnd, unkStart: s.unkStart, offs: map[types.Object]lsPos{}, filled: map[types.Object]bool{}, nextEp: s.nextEp, poss: map[types.Object]lsPos{}, alias: map[types.Object]bool{}, bools: map[types.Object]bool{}, ints: map[types.Object]int64{}, breaks: s.breaks, done: s.done, cont: s.cont, advs: s.advs, inner: s.inner}
	for k, v := range s.poss {
		n.poss[k] = v
	}
	for k, v := range s.offs {
		n.offs[k] = v
	}
	for k, v := range s.filled {
		n.filled[k] = v
	}
	for k, v := range s.alias {
		n.alias[k] = v
	}
	for k, v := range s.bools {
		n.bools[k] = v
	}
	for k, v := range s.ints {
		n.ints[k] = v
	}
	n.sinks = append(n.sinks, s.sinks...)
	return n
}

func newLsState(fresh bool) *lsState {
	s := &lsState{bools: map[types.Object]bool{}, ints: map[types.Object]int64{}, poss: map[types.Object]lsPos{}, offs: map[types.Object]lsPos{}, filled: map[types.Object]bool{}, alias: map[types.Object]bool{}}
	s.setFresh(fresh)
	// on a fresh line nothing ends at the cursor; otherwise the node restored last may end there
	s.cend = lsPos{-3, 0}
	if !fresh {
		s.cend = s.cur
	}
	s.raw = lsPos{-4, 0}
	return s
}

// setFresh re-bases the positions: the cursor is the origin, the marker equals it or not.
func (s *lsState) setFresh(fresh bool) {
	s.cur = lsPos{0, 0}
	if fresh {
		s.mark = lsPos{0, 0}
	} else {
		s.mark = lsPos{-1, 0}
	}
	s.fresh = fresh
	s.nextEp = 0
}

func (s *lsState) sync() { s.fresh = s.mark == s.cur }

// rebase: at a step boundary only the relation marker == cursor (and, for position locals that
// live across steps, whether they equal the cursor) is kept.
func (s *lsState) rebase(drop func(types.Object) bool) {
	old := s.cur
	fresh := s.mark == s.cur
	atCend := s.cend == s.cur
	atRaw := s.raw == s.cur
	s.offs = map[types.Object]lsPos{}
	defer func() {
		s.cend = lsPos{-3, 0}
		if atCend {
			s.cend = s.cur
		}
		s.raw = lsPos{-4, 0}
		if atRaw {
			s.raw = s.cur
		}
	}()
	for o, p := range s.poss {
		if drop(o) {
			delete(s.poss, o)
		} else if p == old {
			s.poss[o] = lsPos{0, 0}
		} else {
			s.poss[o] = lsPos{-2, 0}
		}
	}
	s.setFresh(fresh)
}

func (s *lsState) key() string {
	var parts []string
	for k, v := range s.bools {
		parts = append(parts, fmt.Sprintf("%s@%d=%v", k.Name(), k.Pos(), v))
	}
	for k, v := range s.ints {
		parts = append(parts, fmt.Sprintf("%s@%d=%d", k.Name(), k.Pos(), v))
	}
	for k, v := range s.poss {
		parts = append(parts, fmt.Sprintf("%s@%d=%v", k.Name(), k.Pos(), v))
	}
	for k, v := range s.filled {
		parts = append(parts, fmt.Sprintf("%s@%d filled=%v", k.Name(), k.Pos(), v))
	}
	sort.Strings(parts)
	return fmt.Sprintf("fresh=%v at-content-end=%v at-raw-end=%v %s", s.fresh, s.cend == s.cur, s.raw == s.cur, strings.Join(parts, " "))
}

type lsEval struct {
	e     *Env
	c     *schema.Ctx
	info  *types.Info
	env   *lsEnv
	undec string
	skip  map[ast.Stmt]bool // the decoration loop itself (driven from outside)
	// dAlias: parameters of inlined helpers that stand for the decoration text
	dAlias map[types.Object]bool
	depth  int
	capN   int64
}

// intCap: one more than the largest integer constant that occurs in a comparison of the package's
// restorer code the machine walks (at least 3).
func (v *lsEval) intCap() int64 {
	if v.capN > 0 {
		return v.capN
	}
	v.capN = 3
	for _, fd := range load.AllFuncDecls(v.e.Prog.Pkg(load.PkgDecorator)) {
		if fd.Body == nil || !isRestorePath(fd) {
			continue
		}
		ast.Inspect(fd.Body, func(n ast.Node) bool {
			if be, ok := n.(*ast.BinaryExpr); ok {
				switch be.Op {
				case token.LSS, token.GTR, token.LEQ, token.GEQ, token.EQL, token.NEQ:
					for _, side := range []ast.Expr{be.X, be.Y} {
						if k, ok := constInt(v.info, side); ok && k+1 > v.capN && k < 64 {
							v.capN = k + 1
						}
					}
				}
			}
			return true
		})
	}
	return v.capN
}

func (v *lsEval) fail(f string, a ...interface{}) {
	if v.undec == "" {
		v.undec = fmt.Sprintf(f, a...)
	}
}

func (v *lsEval) isField(x ast.Expr, name string) bool {
	return v.e.isRestorerField(v.info, ast.Unparen(x), name)
}

func (v *lsEval) evalInt(s *lsState, x ast.Expr) (int64, bool) {
	x = ast.Unparen(x)
	if tv, ok := v.info.Types[x]; ok && tv.Value != nil && tv.Value.Kind() == constant.Int {
		n, ok := constant.Int64Val(tv.Value)
		return n, ok
	}
	switch t := x.(type) {
	case *ast.Ident:
		if v.env.spaceObj != nil && v.info.Uses[t] == v.env.spaceObj {
			if n, ok := s.ints[v.env.spaceObj]; ok {
				return n, true
			}
			return v.env.space, true
		}
		n, ok := s.ints[v.info.Uses[t]]
		return n, ok
	case *ast.BinaryExpr:
		a, ok1 := v.evalInt(s, t.X)
		b, ok2 := v.evalInt(s, t.Y)
		if ok1 && ok2 {
			switch t.Op {
			case token.ADD:
				return a + b, true
			case token.SUB:
				return a - b, true
			}
		}
	case *ast.CallExpr:
		// conversion int(x) / dst.SpaceType(x)
		if tv, ok := v.info.Types[t.Fun]; ok && tv.IsType() && len(t.Args) == 1 {
			return v.evalInt(s, t.Args[0])
		}
		// len(d) when the decoration is "\n"
		if id, ok := t.Fun.(*ast.Ident); ok && id.Name == "len" && len(t.Args) == 1 && v.isD(t.Args[0]) && v.env.dObj != nil && v.env.class == clsNL {
			if _, isB := v.info.Uses[id].(*types.Builtin); isB {
				return 1, true
			}
		}
		// a same-package classification of the decoration: f(d) returning constants
		if len(t.Args) == 1 && v.isD(t.Args[0]) {
			if fn := calleeFunc(v.info, t); fn != nil && fn.Pkg() != nil && fn.Pkg().Path() == load.PkgDecorator {
				for _, fd := range load.AllFuncDecls(v.e.Prog.Pkg(load.PkgDecorator)) {
					if v.info.Defs[fd.Name] != types.Object(fn) || fd.Body == nil || fd.Type.Params == nil || len(fd.Type.Params.List) != 1 || len(fd.Type.Params.List[0].Names) != 1 {
						continue
					}
					saved := v.env.dObj
					v.env.dObj = v.info.Defs[fd.Type.Params.List[0].Names[0]]
					sub := newLsState(s.fresh)
					var r int64
					sub.ret = &r
					sub.retWanted = true
					v.stmts(sub, fd.Body.List)
					v.env.dObj = saved
					if sub.done && sub.retSet {
						return r, true
					}
					return 0, false
				}
			}
		}
	}
	return 0, false
}

// strConst: the value of a constant string expression (literal or named constant).
func (v *lsEval) strConst(x ast.Expr) (string, bool) {
	if tv, ok := v.info.Types[x]; ok && tv.Value != nil && tv.Value.Kind() == constant.String {
		return constant.StringVal(tv.Value), true
	}
	return "", false
}

func (v *lsEval) isD(x ast.Expr) bool {
	id, ok := ast.Unparen(x).(*ast.Ident)
	if !ok {
		return false
	}
	o := v.info.Uses[id]
	return o != nil && ((v.env.dObj != nil && o == v.env.dObj) || v.dAlias[o])
}

// mentionsD: n reads the decoration text (directly or through an alias parameter).
func (v *lsEval) mentionsD(n ast.Node) bool {
	hit := false
	ast.Inspect(n, func(m ast.Node) bool {
		if x, ok := m.(ast.Expr); ok && v.isD(x) {
			hit = true
		}
		return !hit
	})
	return hit
}

// textLoop: a loop over a text that records the line starts inside it without moving the cursor.
// Over the decoration itself its effect depends on what the decoration is: "\n" holds exactly one
// line break, at its first byte — that is the decoration's own line break; a multi-line comment
// holds at least one (the inner line starts); a // comment and a one-line /* */ hold none.
func (v *lsEval) textLoop(s *lsState, n ast.Node) {
	if v.env.dObj == nil || !v.mentionsD(n) {
		s.inner++
		return
	}
	switch v.env.class {
	case clsNL:
		s.breaks++
		if s.cur == s.cend {
			// the text is emitted at the cursor: its line break starts the new line there
			s.atEnd++
		}
	case clsLine, clsInline:
	default:
		s.inner++
	}
}

// inlineCall: a call statement of a restorer method (or same-package function) without results
// that changes the line state is interpreted as its body, parameters bound to the arguments.
func (v *lsEval) inlineCall(s *lsState, call *ast.CallExpr) bool {
	fn := calleeFunc(v.info, call)
	if fn == nil || fn.Pkg() == nil || fn.Pkg().Path() != load.PkgDecorator || v.depth >= 3 {
		return false
	}
	sig, _ := fn.Type().(*types.Signature)
	if sig == nil || sig.Results().Len() != 0 || sig.Variadic() {
		return false
	}
	switch fn.Name() {
	case "applyDecorations", "applySpace", "applyLiteral", "restoreNode":
		return false
	}
	for _, fd := range load.AllFuncDecls(v.e.Prog.Pkg(load.PkgDecorator)) {
		if v.info.Defs[fd.Name] != types.Object(fn) || fd.Body == nil {
			continue
		}
		var params []types.Object
		for _, p := range fd.Type.Params.List {
			for _, nm := range p.Names {
				params = append(params, v.info.Defs[nm])
			}
		}
		if len(params) != len(call.Args) {
			return false
		}
		var bound []types.Object
		for i, p := range params {
			if p == nil {
				continue
			}
			a := call.Args[i]
			switch {
			case v.isD(a):
				if v.dAlias == nil {
					v.dAlias = map[types.Object]bool{}
				}
				v.dAlias[p] = true
				bound = append(bound, p)
			case isTokenPos(p.Type()):
				if pv, ok := v.posVal(s, a); ok {
					s.poss[p] = pv
				}
			default:
				if b, ok := p.Type().Underlying().(*types.Basic); ok {
					switch {
					case b.Kind() == types.Bool:
						if val, ok := v.evalBool(s, a); ok {
							s.bools[p] = val
						} else {
							v.fail("argument %s of %s", v.c.ExprStr(a), fn.Name())
							return true
						}
					case b.Info()&types.IsInteger != 0:
						if n, ok := v.evalInt(s, a); ok {
							s.ints[p] = n
						}
					}
				}
			}
		}
		v.depth++
		v.stmts(s, fd.Body.List)
		v.depth--
		s.done = false // a return ends the helper only
		for _, p := range bound {
			delete(v.dAlias, p)
		}
		for _, p := range params {
			if p != nil {
				delete(s.bools, p)
				delete(s.ints, p)
				delete(s.poss, p)
			}
		}
		return true
	}
	return false
}

func (v *lsEval) evalBool(s *lsState, x ast.Expr) (bool, bool) {
	x = ast.Unparen(x)
	switch b := x.(type) {
	case *ast.Ident:
		switch b.Name {
		case "true":
			return true, true
		case "false":
			return false, true
		}
		o := v.info.Uses[b]
		if o != nil && o == v.env.endObj {
			return v.env.end, true
		}
		if val, ok := s.bools[o]; ok {
			return val, true
		}
		return false, false
	case *ast.UnaryExpr:
		if b.Op == token.NOT {
			val, ok := v.evalBool(s, b.X)
			return !val, ok
		}
	case *ast.CallExpr:
		fn := calleeFunc(v.info, b)
		k := funcKey(fn)
		if len(b.Args) == 2 && v.isD(b.Args[0]) {
			if lit, ok := v.strConst(b.Args[1]); ok {
				cls := v.env.class
				switch {
				case k == "strings.HasPrefix" && lit == "//":
					return cls == clsLine, true
				case k == "strings.HasPrefix" && lit == "/*":
					return cls == clsInline || cls == clsMulti, true
				case k == "strings.Contains" && lit == "\n":
					// a // comment cannot contain a newline; "other text" is taken without one
					return cls == clsNL || cls == clsMulti, true
				}
			}
		}
		if fn != nil && load.CanonName(fn) == "hasCommentField" {
			return v.env.hasField, true
		}
		// a predicate over the node (Bad* types) declared in the same package
		if len(b.Args) == 1 && v.env.nodeObj != nil {
			if id, ok := b.Args[0].(*ast.Ident); ok && v.info.Uses[id] == v.env.nodeObj && fn != nil {
				for _, fd := range load.AllFuncDecls(v.e.Prog.Pkg(load.PkgDecorator)) {
					if v.info.Defs[fd.Name] == types.Object(fn) && fd.Body != nil {
						sp := &spaceEval{e: v.e, c: v.c, info: v.info, in: spaceIn{bad: v.env.bad, after: v.env.after}}
						return sp.evalNodePredicate(fd)
					}
				}
			}
		}
	case *ast.BinaryExpr:
		switch b.Op {
		case token.LAND, token.LOR:
			l, ok1 := v.evalBool(s, b.X)
			if ok1 && b.Op == token.LAND && !l {
				return false, true
			}
			if ok1 && b.Op == token.LOR && l {
				return true, true
			}
			r, ok2 := v.evalBool(s, b.Y)
			if ok1 && ok2 {
				if b.Op == token.LAND {
					return l && r, true
				}
				return l || r, true
			}
			return false, false
		case token.EQL, token.NEQ:
			neg := b.Op == token.NEQ
			// marker == cursor (or any two positions over them and position locals)
			if isTokenPos(v.info.TypeOf(b.X)) && isTokenPos(v.info.TypeOf(b.Y)) {
				if p1, ok1 := v.posVal(s, b.X); ok1 {
					if p2, ok2 := v.posVal(s, b.Y); ok2 {
						return (p1 == p2) != neg, true
					}
				}
				return false, false
			}
			// emptiness of a tracked local collection: len(x) == 0, x == nil
			if f, ok := v.filledOf(s, b.X, b.Y); ok {
				return f == neg, true
			}
			// d == "\n"
			for _, p := range [][2]ast.Expr{{b.X, b.Y}, {b.Y, b.X}} {
				if v.isD(p[0]) {
					if lit, ok := v.strConst(p[1]); ok && lit == "\n" {
						return (v.env.class == clsNL) != neg, true
					}
				}
				if id, ok := ast.Unparen(p[0]).(*ast.Ident); ok {
					o := v.info.Uses[id]
					if lit, ok := v.strConst(p[1]); ok {
						if o != nil && o == v.env.posObj && (lit == "After" || lit == "Before") {
							return ((lit == "After") == v.env.after) != neg, true
						}
						if o != nil && o == v.env.nameObj && lit == "Start" {
							// name == "Start": only matters together with the node being a file
							return v.env.isStart != neg, true
						}
					}
				}
			}
			// bool == bool
			if l, ok1 := v.evalBool(s, b.X); ok1 {
				if r, ok2 := v.evalBool(s, b.Y); ok2 {
					return (l == r) != neg, true
				}
			}
			fallthrough
		case token.LSS, token.GTR, token.LEQ, token.GEQ:
			// len(c) > 0 / 0 < len(c) for a tracked local collection
			if zero := func(x ast.Expr) bool { bl, ok := ast.Unparen(x).(*ast.BasicLit); return ok && bl.Value == "0" }; (b.Op == token.GTR && zero(b.Y)) || (b.Op == token.LSS && zero(b.X)) {
				if f, ok := v.filledOf(s, b.X, b.Y); ok {
					return f, true
				}
			}
			l, ok1 := v.evalInt(s, b.X)
			r, ok2 := v.evalInt(s, b.Y)
			if ok1 && ok2 {
				switch b.Op {
				case token.EQL:
					return l == r, true
				case token.NEQ:
					return l != r, true
				case token.LSS:
					return l < r, true
				case token.GTR:
					return l > r, true
				case token.LEQ:
					return l <= r, true
				case token.GEQ:
					return l >= r, true
				}
			}
		}
	}
	return false, false
}

// posVal: a token.Pos-valued expression over the cursor, the marker and position locals.
func (v *lsEval) posVal(s *lsState, x ast.Expr) (lsPos, bool) {
	x = ast.Unparen(x)
	switch {
	case v.isField(x, "cursor"):
		return s.cur, true
	case v.isField(x, "cursorAtNewLine"):
		return s.mark, true
	case v.isField(x, "rawLiteralEnd"):
		return s.raw, true
	}
	switch t := x.(type) {
	case *ast.Ident:
		p, ok := s.poss[v.info.Uses[t]]
		return p, ok
	case *ast.BinaryExpr:
		if t.Op == token.ADD {
			for _, pr := range [][2]ast.Expr{{t.X, t.Y}, {t.Y, t.X}} {
				if p, ok := v.posVal(s, pr[0]); ok {
					if k, ok := v.evalInt(s, pr[1]); ok {
						return lsPos{p.ep, p.off + int(k)}, true
					}
					if cl, ok := ast.Unparen(pr[1]).(*ast.CallExpr); ok && len(cl.Args) == 1 {
						if tv, ok := v.info.Types[cl.Fun]; ok && tv.IsType() {
							if k, ok := v.evalInt(s, cl.Args[0]); ok {
								return lsPos{p.ep, p.off + int(k)}, true
							}
						}
					}
				}
			}
		}
	case *ast.CallExpr:
		if tv, ok := v.info.Types[t.Fun]; ok && tv.IsType() && len(t.Args) == 1 {
			return v.posVal(s, t.Args[0])
		}
	}
	return lsPos{}, false
}

// offPos: the position a file offset stands for — a sum with one cursor-derived position
// (converted to int) or one offset local, r.base subtracted, and integer constants.
func (v *lsEval) offPos(s *lsState, x ast.Expr) (lsPos, bool) {
	var p lsPos
	nPos, nBase, k, ok := 0, 0, 0, true
	var flat func(e ast.Expr, neg bool)
	flat = func(e ast.Expr, neg bool) {
		e = ast.Unparen(e)
		if be, isBin := e.(*ast.BinaryExpr); isBin && (be.Op == token.ADD || be.Op == token.SUB) {
			flat(be.X, neg)
			flat(be.Y, neg != (be.Op == token.SUB))
			return
		}
		switch {
		case v.isField(e, "base"):
			if !neg {
				ok = false
			}
			nBase++
		default:
			if id, isID := e.(*ast.Ident); isID && !neg {
				if q, has := s.offs[v.info.Uses[id]]; has {
					p = q
					nPos++
					nBase++
					return
				}
			}
			if n, isInt := v.evalInt(s, e); isInt {
				if neg {
					k -= int(n)
				} else {
					k += int(n)
				}
				return
			}
			if tv, has := v.info.Types[e]; has && tv.Value != nil && tv.Value.Kind() == constant.Int {
				if n, exact := constant.Int64Val(tv.Value); exact {
					if neg {
						k -= int(n)
					} else {
						k += int(n)
					}
					return
				}
			}
			if cl, isCall := e.(*ast.CallExpr); isCall && len(cl.Args) == 1 && !neg {
				if tv, has := v.info.Types[cl.Fun]; has && tv.IsType() {
					if q, isPos := v.posVal(s, cl.Args[0]); isPos {
						p = q
						nPos++
						return
					}
				}
			}
			ok = false
		}
	}
	flat(x, false)
	if !ok || nPos != 1 || nBase != 1 {
		return lsPos{}, false
	}
	return lsPos{p.ep, p.off + k}, true
}

// noteStart: the value stored in the line table is append(<table>, offset); the line start it
// records is compared with the end of the content restored last.
func (v *lsEval) noteStart(s *lsState, r ast.Expr) {
	cl, ok := ast.Unparen(r).(*ast.CallExpr)
	if !ok || len(cl.Args) != 2 {
		s.unkStart++
		return
	}
	p, ok := v.offPos(s, cl.Args[1])
	if !ok {
		s.unkStart++
		return
	}
	if p == s.cend {
		s.atEnd++
	}
}

// filledOf: x and y are `len(c)` and 0 (or `c` and nil), in either order, for a local collection
// whose emptiness is tracked: is it filled?
func (v *lsEval) filledOf(s *lsState, x, y ast.Expr) (bool, bool) {
	for _, p := range [][2]ast.Expr{{x, y}, {y, x}} {
		a, b := ast.Unparen(p[0]), ast.Unparen(p[1])
		var coll ast.Expr
		if call, ok := a.(*ast.CallExpr); ok && len(call.Args) == 1 {
			if id, ok := call.Fun.(*ast.Ident); ok && id.Name == "len" {
				if bl, ok := b.(*ast.BasicLit); ok && bl.Value == "0" {
					coll = call.Args[0]
				}
			}
		} else if id, ok := b.(*ast.Ident); ok && id.Name == "nil" {
			coll = a
		}
		if id, ok := ast.Unparen(coll).(*ast.Ident); coll != nil && ok {
			if f, tracked := s.filled[v.info.Uses[id]]; tracked {
				return f, true
			}
		}
	}
	return false, false
}

// posDelta: a constant advance (token.Pos(k), k, token.Pos(len("lit"))).
func (v *lsEval) posDelta(s *lsState, x ast.Expr) (int, bool) {
	x = ast.Unparen(x)
	if k, ok := v.evalInt(s, x); ok {
		return int(k), true
	}
	if tv, ok := v.info.Types[x]; ok && tv.Value != nil && tv.Value.Kind() == constant.Int {
		n, ok := constant.Int64Val(tv.Value)
		return int(n), ok
	}
	return 0, false
}

// touches: does n write the cursor, the marker, the comment sinks, or a tracked local declared
// outside n?
func (v *lsEval) touches(n ast.Node, s *lsState) bool {
	hit := false
	ast.Inspect(n, func(m ast.Node) bool {
		switch x := m.(type) {
		case *ast.AssignStmt:
			for _, l := range x.Lhs {
				if v.isField(l, "cursor") || v.isField(l, "cursorAtNewLine") || v.isField(l, "comments") {
					hit = true
				}
				if id, ok := l.(*ast.Ident); ok {
					o := v.info.Uses[id]
					if o != nil && (o.Pos() < n.Pos() || o.Pos() > n.End()) {
						if _, tb := s.bools[o]; tb {
							hit = true
						}
						if _, ti := s.ints[o]; ti {
							hit = true
						}
						if _, tp := s.poss[o]; tp {
							hit = true
						}
						if s.alias[o] {
							hit = true
						}
					}
				}
			}
		case *ast.IncDecStmt:
			if v.isField(x.X, "cursor") {
				hit = true
			}
			if id, ok := x.X.(*ast.Ident); ok {
				o := v.info.Uses[id]
				if o != nil && (o.Pos() < n.Pos() || o.Pos() > n.End()) {
					if _, ti := s.ints[o]; ti {
						hit = true
					}
				}
			}
		case *ast.CallExpr:
			if v.e.isFieldSinkCall(v.info, x) {
				hit = true
			}
		case *ast.ReturnStmt:
			hit = true
		}
		return true
	})
	return hit
}

// effectFreeCall: a call of a same-package function that writes neither cursor, marker nor sinks.
func (v *lsEval) effectFreeCall(call *ast.CallExpr) bool {
	fn := calleeFunc(v.info, call)
	if fn == nil || fn.Pkg() == nil {
		return false
	}
	if fn.Pkg().Path() != load.PkgDecorator {
		// library calls used as statements (none expected)
		return false
	}
	for _, fd := range load.AllFuncDecls(v.e.Prog.Pkg(load.PkgDecorator)) {
		if v.info.Defs[fd.Name] != types.Object(fn) || fd.Body == nil {
			continue
		}
		clean := true
		ast.Inspect(fd.Body, func(m ast.Node) bool {
			switch x := m.(type) {
			case *ast.AssignStmt:
				for _, l := range x.Lhs {
					if v.isField(l, "cursor") || v.isField(l, "cursorAtNewLine") || v.isField(l, "comments") {
						clean = false
					}
				}
			case *ast.IncDecStmt:
				if v.isField(x.X, "cursor") {
					clean = false
				}
			case *ast.CallExpr:
				if f2 := calleeFunc(v.info, x); f2 != nil && f2.Pkg() != nil && f2.Pkg().Path() == load.PkgDecorator && f2 != fn {
					clean = false // no deeper than one level
				}
			}
			return true
		})
		return clean
	}
	return false
}

func (v *lsEval) stmts(s *lsState, list []ast.Stmt) {
	for _, st := range list {
		if v.undec != "" || s.done || s.cont {
			return
		}
		v.stmt(s, st)
	}
}

func (v *lsEval) stmt(s *lsState, st ast.Stmt) {
	if v.skip[st] {
		return
	}
	switch x := st.(type) {
	case *ast.EmptyStmt:
	case *ast.DeclStmt:
		gd, ok := x.Decl.(*ast.GenDecl)
		if !ok || gd.Tok != token.VAR {
			return
		}
		for _, sp := range gd.Specs {
			vs := sp.(*ast.ValueSpec)
			for i, nm := range vs.Names {
				o := v.info.Defs[nm]
				if o == nil {
					continue
				}
				if _, isSlice := o.Type().Underlying().(*types.Slice); isSlice && i >= len(vs.Values) {
					s.filled[o] = false // var x []T
				}
				if _, isPtr := o.Type().Underlying().(*types.Pointer); isPtr && i >= len(vs.Values) {
					s.filled[o] = false // var p *T: nil
				}
				switch b := o.Type().Underlying().(type) {
				case *types.Basic:
					switch {
					case b.Kind() == types.Bool:
						val := false
						if i < len(vs.Values) {
							var ok bool
							if val, ok = v.evalBool(s, vs.Values[i]); !ok {
								v.fail("initialiser of %s", nm.Name)
								return
							}
						}
						s.bools[o] = val
					case b.Info()&types.IsInteger != 0:
						var val int64
						if i < len(vs.Values) {
							var ok bool
							if val, ok = v.evalInt(s, vs.Values[i]); !ok {
								continue // an untracked int (an offset)
							}
						}
						s.ints[o] = val
					}
				}
			}
		}
	case *ast.IncDecStmt:
		if v.isField(x.X, "cursor") {
			if x.Tok == token.DEC {
				v.fail("cursor decremented")
				return
			}
			s.cur.off++
			s.sync()
			return
		}
		if id, ok := x.X.(*ast.Ident); ok {
			if p, tracked := s.poss[v.info.Uses[id]]; tracked {
				if x.Tok == token.INC {
					p.off++
				} else {
					p.off--
				}
				s.poss[v.info.Uses[id]] = p
				return
			}
		}
		if id, ok := x.X.(*ast.Ident); ok {
			if o := v.info.Uses[id]; o != nil {
				if n, tracked := s.ints[o]; tracked {
					if x.Tok == token.INC {
						// a counter that is only ever compared with small constants: beyond the
						// largest of them every value behaves the same, so it saturates there
						// (keeps the state space of the list walk finite)
						if n < v.intCap() {
							s.ints[o] = n + 1
						}
					} else {
						s.ints[o] = n - 1
					}
				}
			}
		}
	case *ast.AssignStmt:
		// comma-ok type assertion on the node: _, isFile := node.(*ast.File)
		if len(x.Lhs) == 2 && len(x.Rhs) == 1 {
			if ta, ok := ast.Unparen(x.Rhs[0]).(*ast.TypeAssertExpr); ok {
				if id, ok := ta.X.(*ast.Ident); ok && v.info.Uses[id] == v.env.nodeObj {
					if okID, ok := x.Lhs[1].(*ast.Ident); ok {
						o := v.info.Defs[okID]
						if o == nil {
							o = v.info.Uses[okID]
						}
						_, tn := schema.NamedTypeName(v.info.TypeOf(ta.Type))
						if tn == "File" && o != nil {
							// isFile && name == "Start" is the package-comment environment: the file
							// test alone is true exactly there (name == "Start" evaluates the same)
							s.bools[o] = v.env.isFile
							return
						}
					}
				}
			}
			v.fail("two-value assignment %s", v.c.ExprStr(x.Rhs[0]))
			return
		}
		if len(x.Lhs) != len(x.Rhs) {
			v.fail("multi-value assignment")
			return
		}
		for i, l := range x.Lhs {
			r := x.Rhs[i]
			switch {
			case v.isField(l, "cursor"):
				switch x.Tok {
				case token.ADD_ASSIGN, token.ASSIGN:
					// the cursor moves forward (monotonicity is R-CURSOR's business)
					if x.Tok == token.ASSIGN {
						if p, ok := v.posVal(s, r); ok {
							s.cur = p
						} else {
							s.nextEp++
							s.cur = lsPos{s.nextEp, 0}
						}
					} else if k, ok := v.posDelta(s, r); ok {
						s.cur.off += k
					} else {
						// advanced by the length of something that was restored: it ends here
						s.nextEp++
						s.cur = lsPos{s.nextEp, 0}
						s.cend = s.cur
					}
					s.sync()
					if x.Tok == token.ADD_ASSIGN && v.env.dObj != nil && v.env.class != clsNL {
						if cv, ok := ast.Unparen(r).(*ast.CallExpr); ok && len(cv.Args) == 1 {
							if ln, ok := ast.Unparen(cv.Args[0]).(*ast.CallExpr); ok && len(ln.Args) == 1 && v.isD(ln.Args[0]) {
								if id, ok := ln.Fun.(*ast.Ident); ok && id.Name == "len" {
									s.advs++
								}
							}
						}
					}
				default:
					v.fail("cursor operator %s", x.Tok)
					return
				}
			case v.isField(l, "cursorAtNewLine"):
				p, ok := v.posVal(s, r)
				if !ok {
					v.fail("marker set to %s, which is not a position derived from the cursor", v.c.ExprStr(r))
					return
				}
				s.mark = p
				s.sync()
			case v.isField(l, "lines"):
				// writing back a local that aliases the line table is not a line break
				if id, ok := ast.Unparen(r).(*ast.Ident); ok && s.alias[v.info.Uses[id]] {
					continue
				}
				s.breaks++
				v.noteStart(s, r)
			case v.isField(l, "comments"):
				s.sinks = append(s.sinks, "file")
			default:
				id, ok := l.(*ast.Ident)
				if !ok {
					// G.List = append(G.List, comment): the comment joins a group that is in the
					// file's comment list already
					if se, isSel := ast.Unparen(l).(*ast.SelectorExpr); isSel && se.Sel.Name == "List" {
						if p, tn := namedOf(v.info.TypeOf(se.X)); p == "go/ast" && tn == "CommentGroup" {
							s.sinks = append(s.sinks, "file")
						}
					}
					continue // a store into something this state does not track
				}
				if id.Name == "_" {
					continue
				}
				o := v.info.Defs[id]
				if o == nil {
					o = v.info.Uses[id]
				}
				if o == nil {
					continue
				}
				if isTokenPos(o.Type()) {
					if p, ok := v.posVal(s, r); ok && (x.Tok == token.ASSIGN || x.Tok == token.DEFINE) {
						s.poss[o] = p
					} else if x.Tok == token.ADD_ASSIGN {
						if p, tracked := s.poss[o]; tracked {
							if k, ok := v.posDelta(s, r); ok {
								p.off += k
								s.poss[o] = p
							} else {
								s.nextEp++
								s.poss[o] = lsPos{s.nextEp, 0}
							}
						}
					} else {
						delete(s.poss, o)
					}
					continue
				}
				if _, isPtr := o.Type().Underlying().(*types.Pointer); isPtr {
					// nil-ness of a local pointer: p = &T{…} sets it, p = nil clears it
					delete(s.filled, o)
					switch rv := ast.Unparen(r).(type) {
					case *ast.Ident:
						if rv.Name == "nil" {
							s.filled[o] = false
						}
					case *ast.UnaryExpr:
						if _, isLit := ast.Unparen(rv.X).(*ast.CompositeLit); isLit && rv.Op == token.AND {
							s.filled[o] = true
						}
					}
					continue
				}
				if _, isSlice := o.Type().Underlying().(*types.Slice); isSlice {
					// emptiness of a local collection: x = append(x, e…) fills it, x = nil and
					// x = x[:0] empty it, anything else is unknown
					delete(s.filled, o)
					switch rv := ast.Unparen(r).(type) {
					case *ast.Ident:
						if rv.Name == "nil" {
							s.filled[o] = false
						}
					case *ast.CallExpr:
						if fid, ok := rv.Fun.(*ast.Ident); ok && fid.Name == "append" && len(rv.Args) >= 2 && !rv.Ellipsis.IsValid() {
							s.filled[o] = true
						}
					case *ast.SliceExpr:
						if rv.High != nil && types.ExprString(rv.High) == "0" {
							s.filled[o] = false
						}
					}
					// lines := r.lines  /  lines = append(lines, …)
					if v.isField(r, "lines") {
						s.alias[o] = true
						continue
					}
					if s.alias[o] {
						if cl, ok := ast.Unparen(r).(*ast.CallExpr); ok && len(cl.Args) >= 1 {
							if fid, ok := cl.Fun.(*ast.Ident); ok && fid.Name == "append" {
								if aid, ok := ast.Unparen(cl.Args[0]).(*ast.Ident); ok && v.info.Uses[aid] == o {
									s.breaks++
									v.noteStart(s, r)
									continue
								}
							}
						}
						delete(s.alias, o)
					}
					continue
				}
				if o == v.env.spaceObj {
					n, ok := v.evalInt(s, r)
					if !ok {
						v.fail("value of %s", v.c.ExprStr(r))
						return
					}
					s.ints[o] = n
					continue
				}
				switch b := o.Type().Underlying().(type) {
				case *types.Basic:
					switch {
					case b.Kind() == types.Bool:
						val, ok := v.evalBool(s, r)
						if !ok {
							v.fail("value of %s := %s", id.Name, v.c.ExprStr(r))
							return
						}
						s.bools[o] = val
					case b.Info()&types.IsInteger != 0 && !isTokenPos(o.Type()):
						if p, isOff := v.offPos(s, r); isOff && (x.Tok == token.ASSIGN || x.Tok == token.DEFINE) {
							s.offs[o] = p
						} else {
							delete(s.offs, o)
						}
						n, ok := v.evalInt(s, r)
						if x.Tok == token.ADD_ASSIGN || x.Tok == token.SUB_ASSIGN {
							cur, tracked := s.ints[o]
							if !tracked || !ok {
								delete(s.ints, o)
								continue
							}
							if x.Tok == token.ADD_ASSIGN {
								s.ints[o] = cur + n
							} else {
								s.ints[o] = cur - n
							}
							continue
						}
						if ok {
							s.ints[o] = n
						} else {
							delete(s.ints, o) // an offset or length: not tracked
						}
					}
				}
			}
		}
	case *ast.ExprStmt:
		call, ok := x.X.(*ast.CallExpr)
		if !ok {
			return
		}
		if v.e.isFieldSinkCall(v.info, call) {
			s.sinks = append(s.sinks, "field")
			return
		}
		if id, ok := call.Fun.(*ast.Ident); ok && id.Name == "panic" {
			s.done = true
			return
		}
		if v.effectFreeCall(call) {
			// a helper that moves neither cursor nor marker: all it can do to the line state is to
			// record the line starts inside a text it is handed (which text: through its parameters)
			if fn := calleeFunc(v.info, call); fn != nil {
				for _, fd := range load.AllFuncDecls(v.e.Prog.Pkg(load.PkgDecorator)) {
					if v.info.Defs[fd.Name] == types.Object(fn) && fd.Body != nil {
						var bound []types.Object
						k := 0
						if fd.Type.Params != nil {
							for _, f := range fd.Type.Params.List {
								for _, nm := range f.Names {
									if k < len(call.Args) && v.isD(call.Args[k]) {
										if v.dAlias == nil {
											v.dAlias = map[types.Object]bool{}
										}
										if o := v.info.Defs[nm]; o != nil {
											v.dAlias[o] = true
											bound = append(bound, o)
										}
									}
									k++
								}
							}
						}
						ast.Inspect(fd.Body, func(m ast.Node) bool {
							if loopBody(m) != nil && v.e.isTextLoop(v.info, m) {
								v.textLoop(s, m)
							}
							return true
						})
						for _, o := range bound {
							delete(v.dAlias, o)
						}
					}
				}
			}
			return
		}
		if v.inlineCall(s, call) {
			return
		}
		v.fail("call %s", v.c.ExprStr(call))
	case *ast.BlockStmt:
		v.stmts(s, x.List)
	case *ast.IfStmt:
		if x.Init != nil {
			v.stmt(s, x.Init)
		}
		val, ok := v.evalBool(s, x.Cond)
		if !ok {
			v.fail("condition %s is outside the analysable subset", v.c.ExprStr(x.Cond))
			return
		}
		if val {
			v.stmts(s, x.Body.List)
		} else if x.Else != nil {
			v.stmt(s, x.Else)
		}
	case *ast.SwitchStmt:
		if x.Init != nil {
			v.stmt(s, x.Init)
		}
		var def *ast.CaseClause
		for _, cl := range x.Body.List {
			cc := cl.(*ast.CaseClause)
			if cc.List == nil {
				def = cc
				continue
			}
			for _, cv := range cc.List {
				match := false
				if x.Tag == nil {
					val, ok := v.evalBool(s, cv)
					if !ok {
						v.fail("case %s", v.c.ExprStr(cv))
						return
					}
					match = val
				} else {
					a, ok1 := v.evalInt(s, x.Tag)
					b, ok2 := v.evalInt(s, cv)
					if !ok1 || !ok2 {
						v.fail("switch %s / case %s", v.c.ExprStr(x.Tag), v.c.ExprStr(cv))
						return
					}
					match = a == b
				}
				if match {
					v.stmts(s, cc.Body)
					return
				}
			}
		}
		if def != nil {
			v.stmts(s, def.Body)
		}
	case *ast.TypeSwitchStmt:
		// switch node.(type) { case *dst.BadDecl, …: }
		for _, cl := range x.Body.List {
			cc := cl.(*ast.CaseClause)
			if cc.List == nil {
				continue
			}
			allBad := true
			for _, t := range cc.List {
				_, tn := schema.NamedTypeName(v.info.TypeOf(t))
				if !strings.HasPrefix(tn, "Bad") {
					allBad = false
				}
			}
			if !allBad {
				v.fail("type switch arm outside the Bad/other partition")
				return
			}
			if v.env.bad {
				v.stmts(s, cc.Body)
				return
			}
		}
		for _, cl := range x.Body.List {
			if cc := cl.(*ast.CaseClause); cc.List == nil && !v.env.bad {
				v.stmts(s, cc.Body)
			}
		}
	case *ast.ForStmt:
		if !v.touches(x.Body, s) && (x.Post == nil || !v.touches(x.Post, s)) {
			if v.e.isTextLoop(v.info, x) {
				v.textLoop(s, x)
			}
			return // a loop over the text of a literal/comment: its line entries are not layout breaks
		}
		if x.Init != nil {
			v.stmt(s, x.Init)
		}
		for iter := 0; ; iter++ {
			if iter > 16 {
				v.fail("loop does not terminate within 16 iterations")
				return
			}
			if x.Cond != nil {
				val, ok := v.evalBool(s, x.Cond)
				if !ok {
					v.fail("loop condition %s is outside the analysable subset", v.c.ExprStr(x.Cond))
					return
				}
				if !val {
					break
				}
			}
			v.stmts(s, x.Body.List)
			if v.undec != "" || s.done {
				return
			}
			s.cont = false
			if x.Post != nil {
				v.stmt(s, x.Post)
			}
		}
	case *ast.RangeStmt:
		if !v.touches(x.Body, s) {
			if v.e.isTextLoop(v.info, x) {
				v.textLoop(s, x)
			}
			return // loop over the text
		}
		v.fail("range loop over %s changes the line state", v.c.ExprStr(x.X))
	case *ast.ReturnStmt:
		if s.retWanted && len(x.Results) == 1 {
			if n, ok := v.evalInt(s, x.Results[0]); ok {
				*s.ret = n
				s.retSet = true
			}
		}
		s.done = true
	case *ast.BranchStmt:
		if x.Tok == token.CONTINUE {
			s.cont = true
			return
		}
		v.fail("%s statement", x.Tok)
	default:
		v.fail("%T outside the analysable subset", st)
	}
}

// ---- applySpace -------------------------------------------------------------------------------

func (e *Env) lineStateApplySpace() {
	pkg := e.Prog.Pkg(load.PkgDecorator)
	c := e.Sib.Ctx[load.PkgDecorator]
	info := pkg.TypesInfo
	fd := load.FuncDecl(pkg, "FileRestorer", "applySpace")
	if fd == nil || fd.Body == nil {
		e.Run.Violation("R-SPACE", "applySpace exists", "", "function missing")
		return
	}
	pos := e.Prog.Pos(fd.Pos())
	dstPkg := e.Prog.Pkg(load.PkgDst).Types
	consts := map[string]int64{}
	for _, n := range []string{"None", "NewLine", "EmptyLine"} {
		if cst, ok := dstPkg.Scope().Lookup(n).(*types.Const); ok {
			if v, ok := constant.Int64Val(cst.Val()); ok {
				consts[n] = v
			}
		}
	}
	e.Run.Check("R-SPACE", "SpaceType constants: None=0, NewLine=1 (single \\n), EmptyLine=2 (double \\n)", "", consts["None"] == 0 && consts["NewLine"] == 1 && consts["EmptyLine"] == 2 && len(consts) == 3,
		fmt.Sprintf("declared values %v; the documentation defines NewLine as a single and EmptyLine as a double line break", consts))
	var params []types.Object
	for _, p := range fd.Type.Params.List {
		for _, nm := range p.Names {
			params = append(params, info.Defs[nm])
		}
	}
	if len(params) != 3 {
		e.Run.Violation("R-SPACE", "applySpace(node, position, space)", pos, "signature changed")
		return
	}
	n := 0
	for _, sp := range []string{"None", "NewLine", "EmptyLine"} {
		for _, fresh := range []bool{false, true} {
			for _, bad := range []bool{false, true} {
				for _, after := range []bool{false, true} {
					env := &lsEnv{space: consts[sp], bad: bad, after: after, nodeObj: params[0], posObj: params[1], spaceObj: params[2]}
					ev := &lsEval{e: e, c: c, info: info, env: env}
					st := newLsState(fresh)
					ev.stmts(st, fd.Body.List)
					key := fmt.Sprintf("applySpace(space=%s, at-fresh-line=%v, bad-node=%v, position=%s)", sp, fresh, bad, map[bool]string{true: "After", false: "Before"}[after])
					if ev.undec != "" {
						e.Run.Undecided("R-SPACE", key, pos, ev.undec)
						continue
					}
					n++
					eff := consts[sp]
					if bad && after {
						eff = consts["EmptyLine"]
					}
					want := eff
					if fresh {
						want--
					}
					if want < 0 {
						want = 0
					}
					wantFresh := fresh || want > 0
					e.Run.Check("R-SPACE", key+" emits the documented number of line breaks", pos, int64(st.breaks) == want,
						fmt.Sprintf("%d line breaks emitted, %d expected (value of the constant%s, minus one when the cursor already sits directly after a line break, floored at 0)", st.breaks, want, map[bool]string{true: "; Bad nodes are always followed by an empty line", false: ""}[bad && after]))
					e.Run.Check("R-SPACE", key+" leaves the fresh-line marker right", pos, st.fresh == wantFresh,
						fmt.Sprintf("on exit the marker says fresh-line=%v; it must be %v (directly after a line break iff one was emitted, or the cursor already was and did not move): the next spacing would be miscounted by one", st.fresh, wantFresh))
				}
			}
		}
	}
	e.Run.Analysed("input classes of applySpace", n)
	e.Run.Floor("R-SPACE", "input classes evaluated", n, 24)
}

// ---- applyDecorations -------------------------------------------------------------------------

type lsRef struct {
	fresh, first bool
	atRaw        bool // the cursor has not moved since the multi-line raw string literal the node ends with
}

var lineStateDone = map[*Env]bool{}

func (e *Env) lineStateApplyDecorations() {
	if lineStateDone[e] {
		return
	}
	lineStateDone[e] = true
	pkg := e.Prog.Pkg(load.PkgDecorator)
	c := e.Sib.Ctx[load.PkgDecorator]
	info := pkg.TypesInfo
	fd := load.FuncDecl(pkg, "FileRestorer", "applyDecorations")
	if fd == nil || fd.Body == nil {
		e.Run.Violation("R-SPACE", "applyDecorations exists", "", "function missing")
		return
	}
	pos := e.Prog.Pos(fd.Pos())
	var params []types.Object
	for _, p := range fd.Type.Params.List {
		for _, nm := range p.Names {
			params = append(params, info.Defs[nm])
		}
	}
	if len(params) != 4 {
		e.Run.Violation("R-SPACE", "applyDecorations(node, name, decorations, end)", pos, "signature changed")
		return
	}
	var loop *ast.RangeStmt
	var before, after []ast.Stmt
	for _, st := range fd.Body.List {
		if rs, ok := st.(*ast.RangeStmt); ok && loop == nil {
			if id, ok := ast.Unparen(rs.X).(*ast.Ident); ok && info.Uses[id] == params[2] {
				loop = rs
				continue
			}
		}
		if loop == nil {
			before = append(before, st)
		} else {
			after = append(after, st)
		}
	}
	key := "applyDecorations agrees with the reference line-state machine for every decoration list"
	if loop == nil {
		e.Run.Undecided("R-SPACE", key, pos, "no top-level loop over the decorations parameter")
		return
	}
	var dObj types.Object
	if id, ok := loop.Value.(*ast.Ident); ok {
		dObj = info.Defs[id]
	}
	type node struct {
		code   *lsState
		ref    lsRef
		parent *node
		via    lsClass
	}
	trace := func(n *node) string {
		var seq []string
		for ; n != nil && n.parent != nil; n = n.parent {
			seq = append([]string{lsClassNames[n.via]}, seq...)
		}
		if len(seq) == 0 {
			return "[]"
		}
		return "[" + strings.Join(seq, ", ") + "]"
	}
	states, steps, envRound := 0, 0, 0
	for _, end := range []bool{false, true} {
		for _, hasField := range []bool{false, true} {
			for _, fileStart := range [][2]bool{{false, false}, {true, true}, {true, false}, {false, true}} {
				pkgComment := fileStart[0] && fileStart[1]
				for _, fresh0 := range []bool{false, true, false} {
					// third round: the list follows a raw string literal that spans lines (the cursor
					// is where it ended, not on a fresh line)
					afterRaw := false
					if envRound++; envRound%3 == 0 {
						afterRaw = true
					}
					env := &lsEnv{end: end, hasField: hasField, pkgComment: pkgComment, isFile: fileStart[0], isStart: fileStart[1], dObj: dObj, endObj: params[3], nodeObj: params[0], nameObj: params[1], decsObj: params[2]}
					envName := fmt.Sprintf("end=%v, node has a Comment field=%v, node is the file=%v, Start list=%v, fresh line on entry=%v, directly behind a multi-line raw string=%v", end, hasField, fileStart[0], fileStart[1], fresh0, afterRaw)
					ev := &lsEval{e: e, c: c, info: info, env: env}
					s0 := newLsState(fresh0)
					if afterRaw {
						s0.raw = s0.cur
					}
					ev.stmts(s0, before)
					if ev.undec != "" {
						e.Run.Undecided("R-SPACE", key, pos, "before the loop: "+ev.undec)
						return
					}
					root := &node{code: s0, ref: lsRef{fresh: fresh0, first: true, atRaw: afterRaw}}
					seen := map[string]bool{root.code.key() + fmt.Sprint(root.ref): true}
					work := []*node{root}
					for len(work) > 0 {
						cur := work[0]
						work = work[1:]
						states++
						// exit after this prefix
						ex := cur.code.clone()
						ex.breaks, ex.sinks, ex.done, ex.cont = 0, nil, false, false
						if !cur.code.done {
							ev.stmts(ex, after)
						}
						if ev.undec != "" {
							e.Run.Undecided("R-SPACE", key, pos, "after the loop: "+ev.undec)
							return
						}
						if len(ex.sinks) != 0 {
							e.Run.Violation("R-SPACE", "applyDecorations: every comment reaches its sink while its own decoration is rendered", pos, fmt.Sprintf("%s; decorations %s: a comment is handed to sink %q only after the loop over the list — comments of later decorations are in the file's comment list before it, and go/printer, which reads that list in order, prints them first", envName, trace(cur), strings.Join(ex.sinks, "+")))
							return
						}
						wantFresh := cur.ref.fresh && !pkgComment
						if ex.fresh != wantFresh || ex.breaks != 0 {
							e.Run.Violation("R-SPACE", key, pos, fmt.Sprintf("%s; decorations %s: on exit the marker says fresh-line=%v (reference: %v) and %d extra line starts were recorded after the loop — the spacing that follows is miscounted by one line break", envName, trace(cur), ex.fresh, wantFresh, ex.breaks))
							return
						}
						if cur.code.done {
							continue
						}
						for cls := clsNL; cls <= clsOther; cls++ {
							steps++
							env.class = cls
							nx := cur.code.clone()
							nx.breaks, nx.sinks, nx.cont, nx.advs, nx.inner, nx.atEnd, nx.unkStart = 0, nil, false, 0, 0, 0, 0
							ev.stmts(nx, loop.Body.List)
							if ev.undec != "" {
								e.Run.Undecided("R-SPACE", key, pos, "in the loop: "+ev.undec)
								return
							}
							// reference step
							ref := cur.ref
							if end && ref.fresh {
								ref.fresh = false // End decorations are indented: the cursor steps off the line start
								ref.atRaw = false
							}
							wantSink := ""
							if cls == clsLine || cls == clsInline || cls == clsMulti {
								wantSink = "file"
								// (go/parser: a comment is the node's line comment when it is on the
								// line where the node's last token starts — not directly behind a raw
								// string literal that began on an earlier line)
								if ref.first && end && hasField && !ref.atRaw {
									wantSink = "field"
								}
								ref.fresh = false
								ref.atRaw = false
							}
							wantBreaks := 0
							if cls == clsLine || cls == clsNL {
								wantBreaks = 1
								ref.fresh = true
								ref.first = false
								ref.atRaw = false
							}
							gotSink := strings.Join(nx.sinks, "+")
							child := &node{code: nx, ref: ref, parent: cur, via: cls}
							if nx.breaks != wantBreaks {
								e.Run.Violation("R-SPACE", key, pos, fmt.Sprintf("%s; decorations %s: the last one records %d line starts, the reference %d (a // comment or \"\\n\" contributes exactly its own line break, nothing else does)", envName, trace(child), nx.breaks, wantBreaks))
								return
							}
							if gotSink != wantSink {
								e.Run.Violation("R-SPACE", key, pos, fmt.Sprintf("%s; decorations %s: the last one goes to sink %q, the reference says %q (a comment goes to the node's Comment field only on the first line of an End decoration list of a node that has one, else to the file's comment list; exactly one sink)", envName, trace(child), gotSink, wantSink))
								return
							}
							if (cls == clsNL || cls == clsLine) && nx.unkStart > 0 {
								e.Run.Undecided("R-SPACE", key, pos, fmt.Sprintf("%s; decorations %s: the line start recorded for the line break is not a sum over the cursor (int(<position>) - r.base ± constants)", envName, trace(child)))
								return
							}
							if (cls == clsNL || cls == clsLine) && nx.atEnd > 0 {
								e.Run.Violation("R-SPACE", "applyDecorations: a line-break decoration never starts the new line at the position where the restored content ends", pos, fmt.Sprintf("%s; decorations %s: the line break of the last one starts the new line at the very position where the content restored before it — a node, or the // comment itself — ends (the cursor has not moved since): End() of that content lies on the next line. go/printer, which lays out lists by lineFor(x.End()), indents a multi-line return list twice and drops the trailing comma of a parameter list before a comment; ast.SortImports, which compares the line of a comment's end with the lines of the specs, moves a trailing comment to another import", envName, trace(child)))
								return
							}
							wantAdv := 0
							if cls == clsLine || cls == clsInline || cls == clsMulti {
								wantAdv = 1
							}
							if nx.advs != wantAdv {
								e.Run.Violation("R-SPACE", key, pos, fmt.Sprintf("%s; decorations %s: the cursor advances by the length of the last one %d times, the reference %d (once for every comment, never for anything else): positions after it are off by its length", envName, trace(child), nx.advs, wantAdv))
								return
							}
							if cls == clsMulti && nx.inner == 0 {
								e.Run.Violation("R-SPACE", key, pos, fmt.Sprintf("%s; decorations %s: the line starts inside the multi-line comment are not recorded on this path (no loop over its text): the line table falls behind the text and what follows is printed on the comment's line", envName, trace(child)))
								return
							}
							// drop the locals of the loop body (re-declared every iteration)
							for o := range nx.bools {
								if loop.Body.Pos() <= o.Pos() && o.Pos() <= loop.Body.End() {
									delete(nx.bools, o)
								}
							}
							for o := range nx.ints {
								if loop.Body.Pos() <= o.Pos() && o.Pos() <= loop.Body.End() {
									delete(nx.ints, o)
								}
							}
							nx.rebase(func(o types.Object) bool { return loop.Body.Pos() <= o.Pos() && o.Pos() <= loop.Body.End() })
							k := nx.key() + fmt.Sprint(ref)
							if !seen[k] {
								seen[k] = true
								work = append(work, child)
							}
						}
					}
				}
			}
		}
	}
	e.Run.OK("R-SPACE", key, pos, fmt.Sprintf("%d product states, %d transitions explored to a fixpoint over 5 decoration classes × 16 environments", states, steps))
	e.Run.Analysed("applyDecorations product states", states)
	e.Run.Floor("R-SPACE", "applyDecorations product states", states, 16)
}
