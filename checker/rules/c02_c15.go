package rules

import (
	"fmt"
	"go/ast"
	"go/constant"
	"go/token"
	"go/types"
	"golang.org/x/tools/go/packages"
	"regexp"
	"sort"
	"strings"

	"dstverif/load"
	"dstverif/schema"
)

// RLocality: a node's rendering reads only its own decorations and spacing; the only restorer
// state that crosses node boundaries is position bookkeeping.
func (e *Env) RLocality() {
	rs := e.Sib.ByName["restore"]
	n := 0
	cases := []*schema.Case{e.Sib.RestoreIdent}
	for _, tn := range rs.Order {
		cases = append(cases, rs.Cases[tn])
	}
	for _, cs := range cases {
		if cs == nil {
			continue
		}
		for _, ev := range cs.Events {
			if ev.Kind != schema.KDec && ev.Kind != schema.KSpace {
				continue
			}
			n++
			e.Run.Check("R-LOCAL", fmt.Sprintf("restore %s: %s %s reads the node's own storage", cs.Type, ev.Kind, ev.Name), e.Prog.Pos(ev.Pos),
				!strings.HasPrefix(ev.Src, "«") && (strings.HasPrefix(ev.Src, "Decs.") || strings.Contains(ev.Src, ".Decs.")),
				"decoration/spacing operand is "+ev.Src+": it must be a field of the node being restored (n.Decs.* or an inline child's Decs), else comments do not travel with the node when it is moved")
		}
	}
	e.Run.Floor("R-LOCAL", "render operands", n, 250)
	// field-write inventory of FileRestorer in the render path
	pkg := e.Prog.Pkg(load.PkgDecorator)
	info := pkg.TypesInfo
	// (rawLiteralEnd: a position marker like cursorAtNewLine — the cursor right after a raw string
	// literal that spans lines, compared with the cursor only)
	allowed := map[string]bool{"cursor": true, "cursorAtNewLine": true, "rawLiteralEnd": true, "lines": true, "comments": true, "nodeDecl": true, "nodeData": true}
	written := map[string]bool{}
	for _, fd := range load.AllFuncDecls(pkg) {
		if fd.Body == nil || !isRestorePath(fd) {
			continue
		}
		switch fd.Name.Name {
		case "RestoreFile", "updateImports", "FileRestorer", "NewRestorer", "NewRestorerWithImports":
			continue
		}
		if e.isResetCtx(fd) {
			continue // a reset helper of RestoreFile
		}
		var stack []ast.Node
		ast.Inspect(fd.Body, func(nd ast.Node) bool {
			if nd == nil {
				stack = stack[:len(stack)-1]
				return true
			}
			stack = append(stack, nd)
			se, ok := nd.(*ast.SelectorExpr)
			if !ok {
				return true
			}
			v, ok := info.Uses[se.Sel].(*types.Var)
			if !ok || !v.IsField() {
				return true
			}
			if _, tn := namedOf(info.TypeOf(se.X)); tn != "FileRestorer" && tn != "Restorer" {
				return true
			}
			if isWriteContext(stack) {
				written[load.CanonName(v)] = true
				if !allowed[load.CanonName(v)] {
					// map stores into r.Ast.* / r.Dst.* go through nested selectors and are not field writes of FileRestorer itself
					if load.CanonName(v) == "Ast" || load.CanonName(v) == "Dst" {
						return true
					}
					e.Run.Violation("R-LOCAL", "restorer field "+load.CanonName(v)+" written while rendering ("+load.FuncName(fd)+")", e.Prog.Pos(se.Pos()),
						"state carried from one node's rendering to the next may only be position bookkeeping (cursor, marker, line table, comment list): anything else can make a node render differently depending on its neighbours")
				}
			}
			return true
		})
	}
	var w []string
	for k := range written {
		w = append(w, k)
	}
	sort.Strings(w)
	e.Run.OK("R-LOCAL", "restorer state written while rendering is position bookkeeping only", "", fmt.Sprint(w))
}

// RParseGuard: ParseFile returns before decorating when the parser produced no file.
func (e *Env) RParseGuard() {
	pkg := e.Prog.Pkg(load.PkgDecorator)
	c := e.Sib.Ctx[load.PkgDecorator]
	fd := load.FuncDecl(pkg, "Decorator", "ParseFile")
	if fd == nil || fd.Body == nil {
		e.Run.Violation("R-NOPANIC", "ParseFile exists", "", "missing")
		return
	}
	// ParseFile, on path conditions over its inputs (locals replaced by their definitions):
	//  (1) DecorateFile is only reached with a file: the condition of every call excludes
	//      "parser returned nil and an error" (go/parser's contract: no error ⇒ a file);
	//  (2) a parse error is always reported: every return whose error result is nil is
	//      unreachable when the parser returned an error, and a return of some other error is
	//      either that error being non-nil or likewise unreachable.
	// Which of (file, err) / (nil, err) is returned for a partial file is not part of C15.
	const pf = `parser.ParseFile(d.Fset, filename, src, mode|parser.ParseComments)`
	perrNonNil := canonText(`res1(` + pf + `) != nil`)
	undo := c.InstallReaching(fd)
	defer undo()
	nCalls := 0
	ast.Inspect(fd.Body, func(n ast.Node) bool {
		call, ok := n.(*ast.CallExpr)
		if !ok || len(call.Args) != 1 || !(schema.IsMethod(c.Callee(call), load.PkgDecorator, "Decorator", "DecorateFile") || schema.IsMethod(c.Callee(call), load.PkgDecorator, "Decorator", "DecorateNode")) {
			return true
		}
		nCalls++
		arg := canonText(c.ExprStr(call.Args[0]))
		cond, okc := pathCond(c, fd.Body.List, call)
		key := "ParseFile: a nil file from the parser never reaches decoration"
		if !okc {
			e.Run.Undecided("R-NOPANIC", key, e.Prog.Pos(call.Pos()), "path condition not computable")
			return true
		}
		if !strings.HasPrefix(arg, "parser.ParseFile(") {
			e.Run.Violation("R-NOPANIC", key, e.Prog.Pos(call.Pos()), "DecorateFile is called with `"+arg+"`, not with the parser's result")
			return true
		}
		excl, dec := unsatWith(cond, arg+" == nil && res1("+arg+") != nil")
		if !dec {
			e.Run.Undecided("R-NOPANIC", key, e.Prog.Pos(call.Pos()), "condition not propositional: "+cond)
			return true
		}
		e.Run.Check("R-NOPANIC", key, e.Prog.Pos(call.Pos()), excl,
			"DecorateFile(f) is reachable under `"+cond+"`, which allows f == nil with a parse error (broken input: empty file, no package clause): decorating a nil *ast.File dereferences it")
		return true
	})
	e.Run.Floor("R-NOPANIC", "decorate calls in ParseFile", nCalls, 1)
	rets, okr := returnsOf(c, fd)
	if !okr {
		e.Run.Undecided("R-NOPANIC", "ParseFile returns", e.Prog.Pos(fd.Pos()), "path condition not computable")
		return
	}
	for _, r := range rets {
		key := "ParseFile: a parse error is reported through the error result"
		if len(r.results) != 2 {
			e.Run.Undecided("R-NOPANIC", key, e.Prog.Pos(r.pos), "bare return")
			continue
		}
		r1 := canonText(r.results[1])
		if strings.HasPrefix(r1, "res1(parser.ParseFile(") {
			e.Run.OK("R-NOPANIC", key, e.Prog.Pos(r.pos), "returns the parser's error")
			continue
		}
		good, dec := unsatWith(r.cond, perrNonNil)
		if r1 != "nil" && (!good || !dec) {
			// another error: fine when it is known to be non-nil here
			good, dec = unsatWith(r.cond, r1+" == nil")
		}
		if !dec {
			e.Run.Undecided("R-NOPANIC", key, e.Prog.Pos(r.pos), "condition not propositional: "+r.cond)
			continue
		}
		e.Run.Check("R-NOPANIC", key, e.Prog.Pos(r.pos), good,
			"returns ("+r.results[0]+", "+r1+") under `"+r.cond+"`, which is reachable when the parser reported an error: the syntax error is swallowed")
	}
}

// RMapsAllocated: maps of the per-file decorator/restorer state are allocated before use.
func (e *Env) RMapsAllocated() {
	pkg := e.Prog.Pkg(load.PkgDecorator)
	c := e.Sib.Ctx[load.PkgDecorator]
	// newFileDecorator allocates every map field of fileDecorator
	st := load.LookupType(pkg, "fileDecorator").Underlying().(*types.Struct)
	var mapFields []string
	for i := 0; i < st.NumFields(); i++ {
		if _, ok := st.Field(i).Type().Underlying().(*types.Map); ok {
			mapFields = append(mapFields, st.Field(i).Name())
		}
	}
	fd := load.FuncDecl(pkg, "Decorator", "newFileDecorator")
	init := map[string]bool{}
	if fd != nil {
		ast.Inspect(fd.Body, func(n ast.Node) bool {
			if kv, ok := n.(*ast.KeyValueExpr); ok {
				if id, ok := kv.Key.(*ast.Ident); ok {
					if _, isLit := kv.Value.(*ast.CompositeLit); isLit {
						init[id.Name] = true
					}
				}
			}
			return true
		})
	}
	for _, f := range mapFields {
		e.Run.Check("R-NOPANIC", "fileDecorator."+f+" allocated by newFileDecorator", e.Prog.Pos(fd.Pos()), init[f], "a nil map would panic on the first store")
	}
	// FileRestorer map fields allocated in RestoreFile's reset (Alias by the constructor)
	rst := load.LookupType(pkg, "FileRestorer").Underlying().(*types.Struct)
	rf := load.FuncDecl(pkg, "FileRestorer", "RestoreFile")
	reset := map[string]bool{}
	if rf != nil {
		// in RestoreFile itself or in a method it calls directly (a reset helper)
		for _, body := range e.withDirectCallees(pkg, rf) {
			ast.Inspect(body, func(n ast.Node) bool {
				as, ok := n.(*ast.AssignStmt)
				if !ok || len(as.Lhs) != len(as.Rhs) {
					return true
				}
				for i, l := range as.Lhs {
					se, ok := l.(*ast.SelectorExpr)
					if !ok {
						continue
					}
					v, ok := pkg.TypesInfo.Uses[se.Sel].(*types.Var)
					if !ok || !v.IsField() {
						continue
					}
					if _, isMap := v.Type().Underlying().(*types.Map); !isMap {
						continue
					}
					switch r := ast.Unparen(as.Rhs[i]).(type) {
					case *ast.CompositeLit:
						reset[v.Name()] = true
					case *ast.CallExpr:
						if id, ok := r.Fun.(*ast.Ident); ok && id.Name == "make" {
							reset[v.Name()] = true
						}
					}
				}
				return true
			})
		}
	}
	_ = c
	for i := 0; i < rst.NumFields(); i++ {
		f := rst.Field(i)
		if _, ok := f.Type().Underlying().(*types.Map); !ok || f.Name() == "Alias" {
			continue
		}
		e.Run.Check("R-NOPANIC", "FileRestorer."+f.Name()+" allocated by RestoreFile's reset", e.Prog.Pos(rf.Pos()), reset[f.Name()], "a nil map would panic on the first store")
	}
	// newMap allocates all six maps
	nm := load.FuncDecl(pkg, "", "newMap")
	cnt := 0
	if nm != nil {
		for _, body := range e.withDirectCallees(pkg, nm) {
			ast.Inspect(body, func(n ast.Node) bool {
				switch x := n.(type) {
				case *ast.CompositeLit:
					if _, isMap := pkg.TypesInfo.TypeOf(x).Underlying().(*types.Map); isMap {
						cnt++
					}
				case *ast.CallExpr:
					if id, ok := x.Fun.(*ast.Ident); ok && id.Name == "make" && len(x.Args) >= 1 {
						if _, isMap := pkg.TypesInfo.TypeOf(x.Args[0]).Underlying().(*types.Map); isMap {
							cnt++
						}
					}
				}
				return true
			})
		}
	}
	e.Run.Check("R-NOPANIC", "newMap allocates the six node/object/scope maps", "", cnt == 6, fmt.Sprintf("%d map literals", cnt))
	// appendDecoration / appendNewLine: the per-node inner map is allocated on first use — in the
	// function itself or in a helper it calls: `if M[K] == nil { M[K] = map[string][]string{} }`
	allocates := func(f *ast.FuncDecl) bool {
		found := false
		ast.Inspect(f.Body, func(n ast.Node) bool {
			is, ok := n.(*ast.IfStmt)
			if !ok || len(is.Body.List) != 1 {
				return true
			}
			be, ok := is.Cond.(*ast.BinaryExpr)
			if !ok || be.Op != token.EQL || !pkg.TypesInfo.Types[be.Y].IsNil() {
				return true
			}
			if _, isIdx := be.X.(*ast.IndexExpr); !isIdx {
				return true
			}
			as, ok := is.Body.List[0].(*ast.AssignStmt)
			if !ok || len(as.Lhs) != 1 || len(as.Rhs) != 1 || c.ExprStr(as.Lhs[0]) != c.ExprStr(be.X) {
				return true
			}
			if cl, ok := as.Rhs[0].(*ast.CompositeLit); ok {
				if _, isMap := pkg.TypesInfo.TypeOf(cl).Underlying().(*types.Map); isMap {
					found = true
				}
			}
			return true
		})
		return found
	}
	for _, name := range []string{"appendDecoration", "appendNewLine"} {
		f := load.FuncDecl(pkg, "", name)
		ok := false
		if f != nil && f.Body != nil {
			ok = allocates(f)
			if !ok {
				ast.Inspect(f.Body, func(n ast.Node) bool {
					if call, isCall := n.(*ast.CallExpr); isCall {
						if fn := c.Callee(call); fn != nil && fn.Pkg() == pkg.Types {
							for _, h := range load.AllFuncDecls(pkg) {
								if pkg.TypesInfo.Defs[h.Name] == types.Object(fn) && h.Body != nil && allocates(h) {
									ok = true
								}
							}
						}
					}
					return true
				})
			}
		}
		e.Run.Check("R-NOPANIC", name+" allocates the per-node map on first use", "", ok, "a store into the nil inner map of a node that has no decorations yet panics: expected `if m[n] == nil { m[n] = map[string][]string{} }` here or in a helper it calls")
	}
}

// panicConfirmed: number of explicit panic sites per function read and classified at build time.
// panicClassified: explicit panic sites on the paths reachable from the parse/print entry points,
// classified by their MESSAGE (the literal or format string), not by the function they sit in: a
// panic that moves with its code into a helper keeps its classification, a new message is
// undecided. Panics that re-raise a value (panic(err), panic(r)) are keyed by function and operand.
// The value is how many sites may carry the message.
var panicClassified = map[string]struct {
	n   int
	why string
}{
	"Decorator Path should be empty when Resolver is nil": {1, "API misuse precondition"},
	"Decorator Path should be set when Resolver is set":   {1, "API misuse precondition"},
	"Restorer Path should be empty when Resolver is nil":  {1, "API misuse precondition"},
	"Restorer Path should be set when Resolver is set":    {1, "API misuse precondition"},
	"ff.SetLines failed":           {1, "positional: the line table is proven strictly increasing and inside the file by R-CURSOR"},
	"resolvePath needs a Resolver": {1, "callers test f.Resolver != nil (R-RESOLVE)"},
	"decorateIdent: unsupported parentName %s, parentField %s, parentFieldType %s": {1, "field-type literal proven by R-ASSERT/R-ROLE"},
	"This syntax has been decorated with import management enabled, but the restorer does not have import management enabled. Use NewRestorerWithImports to create a restorer with import management. See the Imports section of the readme for more information.": {1, "API misuse precondition (path-carrying identifier without resolver)"},
	"Path %s set on illegal Ident %s: parentName %s, parentField %s, parentFieldType %s": {1, "API misuse precondition (path on a declaring position)"},
	"o.Decl is %T":                    {2, "default arm of a type switch over the documented Object.Decl contents"},
	"o.Data is %T":                    {2, "default arm of a type switch over the documented Object.Data contents"},
	"no decoration found for ":        {1, "positional: every comment lies between two decoration points of the file node; not decided statically"},
	"no decoration found for newline": {1, "positional (see above)"},
	"duplicate node: %#v":             {1, "documented contract (C06)"},
	"%T":                              {1, "default arm of mergeDecorations over the three slot types it is called with"},
	"attempt to replace *dst.File with non-*dst.File": {1, "fork of astutil: API misuse"},
	"Delete node not contained in slice":              {1, "fork of astutil: API misuse"},
	"InsertAfter node not contained in slice":         {1, "fork of astutil: API misuse"},
	"InsertBefore node not contained in slice":        {1, "fork of astutil: API misuse"},
	"value:mustUnquote:err":                           {2, "reached only after every import path of the file has been unquoted without error (RUnquoteValidated)"},
	"value:Apply:r":                                   {1, "re-panics foreign panics only"},
	"value:(*application).apply:abort":                {1, "abort sentinel recovered in Apply"},
	"value:(*printer).printf:localError{…}":           {1, "debug printer (dst.Print), same as go/ast: recovered in fprint"},
	"value:Fprint:e":                                  {1, "debug printer: re-panics foreign panics only"},
	"value:fprint:e":                                  {1, "debug printer: re-panics foreign panics only"},
}

// RUnquoteValidated (R-NOPANIC): go/parser returns partial files together with its error, and the
// decorator decorates them on purpose; in such a file an import spec can have a path that is not
// a string literal (`import fmt`, `import "a\qb"`). A function that unquotes its argument and
// panics on a syntax error (mustUnquote) may therefore be applied to an import path only in a
// function that has validated the paths first: before the first such call there is a pass over
// the file's import specs that unquotes every path with strconv.Unquote and leaves the function
// with an error when one fails.
func (e *Env) RUnquoteValidated() {
	n := 0
	for _, path := range []string{load.PkgDecorator, load.PkgGoast} {
		pkg := e.Prog.Pkg(path)
		info := pkg.TypesInfo
		// functions that panic when strconv.Unquote of their parameter fails
		panicky := map[types.Object]bool{}
		for _, fd := range load.AllFuncDecls(pkg) {
			if fd.Body == nil || fd.Type.Params == nil || len(fd.Type.Params.List) != 1 {
				continue
			}
			unq, pan := false, false
			ast.Inspect(fd.Body, func(nd ast.Node) bool {
				if call, ok := nd.(*ast.CallExpr); ok {
					if funcKey(calleeFunc(info, call)) == "strconv.Unquote" {
						unq = true
					}
					if id, ok := call.Fun.(*ast.Ident); ok && id.Name == "panic" {
						pan = true
					}
				}
				return true
			})
			if unq && pan {
				panicky[info.Defs[fd.Name]] = true
			}
		}
		isPathValue := func(x ast.Expr) bool {
			se, ok := ast.Unparen(x).(*ast.SelectorExpr)
			if !ok || se.Sel.Name != "Value" {
				return false
			}
			pe, ok := ast.Unparen(se.X).(*ast.SelectorExpr)
			return ok && pe.Sel.Name == "Path"
		}
		for _, fd := range load.AllFuncDecls(pkg) {
			if fd.Body == nil {
				continue
			}
			first := token.NoPos
			ast.Inspect(fd.Body, func(nd ast.Node) bool {
				if call, ok := nd.(*ast.CallExpr); ok && len(call.Args) == 1 {
					if fn := calleeFunc(info, call); fn != nil && panicky[fn] {
						hit := false
						ast.Inspect(call.Args[0], func(m ast.Node) bool {
							if x, ok := m.(ast.Expr); ok && isPathValue(x) {
								hit = true
							}
							return true
						})
						if hit && (first == token.NoPos || call.Pos() < first) {
							first = call.Pos()
						}
					}
				}
				return true
			})
			if first == token.NoPos {
				continue
			}
			n++
			cx := schema.CtxFor(e.Prog, path)
			undoR := cx.InstallReaching(fd)
			// the validation: a top-level statement before `first` that holds a checked
			// strconv.Unquote of an import path, followed by a top-level `if err != nil { return err }`
			// on the variable it records the failure in
			validated := false
			for i, st := range fd.Body.List {
				if st.End() > first {
					break
				}
				var errVar types.Object
				ast.Inspect(st, func(m ast.Node) bool {
					as, ok := m.(*ast.AssignStmt)
					if !ok || len(as.Rhs) != 1 {
						return true
					}
					// invalid = fmt.Errorf(…) / errors.New(…) under a failed strconv.Unquote(x.Path.Value)
					if id, ok := as.Lhs[0].(*ast.Ident); ok && len(as.Lhs) == 1 {
						if v, ok := info.ObjectOf(id).(*types.Var); ok && types.Identical(v.Type(), types.Universe.Lookup("error").Type()) {
							if pc, okp := pathCond(cx, fd.Body.List, as); okp && strings.Contains(pc, "strconv.Unquote(") && strings.Contains(pc, ".Path.Value") {
								errVar = v
							}
						}
					}
					return true
				})
				if errVar == nil {
					continue
				}
				for _, later := range fd.Body.List[i+1:] {
					if later.End() > first {
						break
					}
					if is, ok := later.(*ast.IfStmt); ok {
						if _, exact := condChecksNonNil(info, is.Cond, errVar); exact {
							if okB, _ := errBranchOK(info, is.Body.List, errVar); okB {
								validated = true
							}
						}
					}
				}
			}
			undoR()
			e.Run.Check("R-NOPANIC", fmt.Sprintf("%s: import paths are unquoted by a panicking helper only after they have been validated", load.FuncName(fd)), e.Prog.Pos(first), validated,
				"a function that panics on a malformed string literal is applied to an import path without an earlier pass that unquotes every path with strconv.Unquote and returns the error: go/parser returns files whose import path is not a string literal (`import fmt`) together with its error, the decorator decorates them, and restoring (or decorating with a resolver) panics with \"invalid syntax\"")
		}
	}
	e.Run.Analysed("functions that unquote import paths with a panicking helper", n)
}

// RPanicInventory: every explicit panic in the packages reachable from parse/print entry points
// is classified; a new one is reported as undecided.
func (e *Env) RPanicInventory() {
	n := 0
	perKey := map[string][]token.Pos{}
	// the default arm of a converter's type switch is proven unreachable by R-COVER wherever that
	// switch lives (in the function itself or in a helper it was moved to)
	inCoveredDefault := func(p token.Pos) string {
		for name, sib := range e.Sib.ByName {
			for _, st := range sib.DefaultBody {
				if st.Pos() <= p && p <= st.End() {
					return name
				}
			}
		}
		return ""
	}
	for _, path := range []string{load.PkgDst, load.PkgDecorator, load.PkgDstutil, load.PkgGoast, load.PkgGotypes, load.PkgGuess, load.PkgSimple} {
		pkg := e.Prog.Pkg(path)
		info := pkg.TypesInfo
		for _, fd := range load.AllFuncDecls(pkg) {
			if fd.Body == nil {
				continue
			}
			ast.Inspect(fd.Body, func(nd ast.Node) bool {
				call, ok := nd.(*ast.CallExpr)
				if !ok || len(call.Args) != 1 {
					return true
				}
				id, ok := call.Fun.(*ast.Ident)
				if !ok || id.Name != "panic" {
					return true
				}
				if _, isB := info.Uses[id].(*types.Builtin); !isB {
					return true
				}
				n++
				if sib := inCoveredDefault(call.Pos()); sib != "" {
					e.Run.OK("R-NOPANIC", "panic in the default arm of the "+sib+" type switch", e.Prog.Pos(call.Pos()), "proven unreachable by R-COVER (every node type has a case)")
					return true
				}
				if objectContentsDefault(info, fd, call) {
					e.Run.OK("R-NOPANIC", "panic in the default arm of a type switch over Object.Decl/Data contents", e.Prog.Pos(call.Pos()), "documented contents: Scope, Node, (int,) nil")
					return true
				}
				// message: a constant string, the format of fmt.Sprintf, or the constant left operand of +
				key := ""
				arg := ast.Unparen(call.Args[0])
				strConst := func(x ast.Expr) (string, bool) {
					if tv, ok := info.Types[x]; ok && tv.Value != nil && tv.Value.Kind() == constant.String {
						return constant.StringVal(tv.Value), true
					}
					return "", false
				}
				if sv, ok := strConst(arg); ok {
					key = sv
				} else if c2, ok := arg.(*ast.CallExpr); ok && funcKey(calleeFunc(info, c2)) == "fmt.Sprintf" && len(c2.Args) > 0 {
					if sv, ok := strConst(c2.Args[0]); ok {
						key = sv
					}
				} else if be, ok := arg.(*ast.BinaryExpr); ok && be.Op == token.ADD {
					if sv, ok := strConst(be.X); ok {
						key = sv
					}
				}
				if key == "" {
					key = "value:" + load.FuncName(fd) + ":" + types.ExprString(arg)
				}
				perKey[key] = append(perKey[key], call.Pos())
				return true
			})
		}
	}
	for _, key := range sortedKeys(perKey) {
		sites := perKey[key]
		cl, ok := panicClassified[key]
		label := key
		if len(label) > 60 {
			label = label[:60] + "…"
		}
		switch {
		case !ok:
			e.Run.Undecided("R-NOPANIC", "panic sites with message «"+label+"»", e.Prog.Pos(sites[0]), "an explicit panic with a message that is not classified: reachability from Parse/Fprint not decided")
		case len(sites) > cl.n:
			e.Run.Undecided("R-NOPANIC", "panic sites with message «"+label+"»", e.Prog.Pos(sites[len(sites)-1]), fmt.Sprintf("%d sites, %d were classified at build time (%s): the additional one is not decided", len(sites), cl.n, cl.why))
		default:
			e.Run.OK("R-NOPANIC", "panic sites with message «"+label+"»", e.Prog.Pos(sites[0]), fmt.Sprintf("%d sites: %s", len(sites), cl.why))
		}
	}
	e.Run.Analysed("explicit panic sites", n)
	e.Run.Floor("R-NOPANIC", "explicit panic sites", n, 15)
}

func init() {
	register("C02", Meta{
		Explanation: "Static locality and carriage: in every restore case every decoration and spacing operand is storage of the node being restored (or of its inline signature), the restorer state that crosses node boundaries is position bookkeeping only, decorate stores what the linker attached to a node on that node's dst counterpart under the same point name, Clone carries every field and decoration restore reads, and the attachment code treats case and comm clauses alike. Decides that what is attached to a node moves, duplicates and deletes with it; does not decide which node a comment is attached to (link() decides by line/indent heuristics over runtime positions).",
		NotCovered:  []string{"which node a comment attaches to (link() precedence heuristics are positional)", "equality with gofmt of the edited source text"},
	}, func(e *Env) {
		e.RLocality()
		e.RDecs(false)
		e.RSym()
		e.RClone()
		e.RClauseSym()
		e.RHangGuard()
		e.RColumnOne()
		e.RFragOrder()
	})
	register("C15", Meta{
		Explanation: "Static panic-freedom conditions: a nil file from the parser never reaches decoration and the parse error is returned with the partial tree; every child that go/ast.Walk treats as optional is nil-guarded in fragger, decorate, restore and clone; no converter type assertion can fail; every node type has a case (panicking defaults unreachable); all per-run maps are allocated before use; every explicit panic site in the in-scope packages is classified (API-misuse precondition, unreachable by type, or positional) and a new one is reported as undecided. The two 'no decoration found' panics and 'SetLines failed' depend on runtime positions: SetLines' precondition is covered by C12's line-table rule, the link() ones are not decided.",
		NotCovered:  []string{"unreachability of link()'s 'no decoration found' panics (positional)", "panics inside go/parser, go/printer"},
	}, func(e *Env) {
		e.RParseGuard()
		e.RResolverFile()
		e.RGuard("fragger", "decorate", "restore", "clone")
		e.RGates()
		e.RMapInit()
		e.RAssert()
		e.RCover("fragger", e.astNodeNames(), false)
		e.RCover("decorate", e.astNodeNames(), false)
		e.RCover("restore", e.dstNodeNames(), true)
		e.RMapsAllocated()
		e.RPanicInventory()
		e.RUnquoteValidated()
		e.RNilFile()
		e.RNilResults()
		e.RIndex()
		e.RErr(e.pkgs(load.PkgDecorator), 80)
	})
}

// RResolverFile (R-NOPANIC): the *ast.File handed to the DecoratorResolver is the file of the
// identifier, for a single file and for a package alike. fileDecorator.file is only set when a
// single *ast.File is decorated; passing the raw field to ResolveIdent hands a nil file to the
// resolver whenever a package is decorated (Decorator.ParseDir with a resolver), and the goast
// resolver dereferences it: every package panics. Checked: (1) resolvePath does not pass the raw
// field; (2) the helper it calls returns the field only under a nil check and otherwise searches
// a list of files; (3) DecorateNode fills that list from the package's Files.
func (e *Env) RResolverFile() {
	pkg := e.Prog.Pkg(load.PkgDecorator)
	info := pkg.TypesInfo
	c := e.Sib.Ctx[load.PkgDecorator]
	fd := load.FuncDecl(pkg, "fileDecorator", "resolvePath")
	dn := load.FuncDecl(pkg, "Decorator", "DecorateNode")
	if fd == nil || fd.Body == nil || dn == nil || dn.Body == nil {
		e.Run.Violation("R-NOPANIC", "resolvePath and DecorateNode exist", "", "missing")
		return
	}
	isFileField := func(x ast.Expr) bool {
		se, ok := ast.Unparen(x).(*ast.SelectorExpr)
		if !ok {
			return false
		}
		v, ok := info.Uses[se.Sel].(*types.Var)
		return ok && v.IsField() && v.Name() == "file" && v.Type().String() == "*go/ast.File"
	}
	var call *ast.CallExpr
	ast.Inspect(fd.Body, func(n ast.Node) bool {
		if cl, ok := n.(*ast.CallExpr); ok {
			if fn := c.Callee(cl); fn != nil && fn.Name() == "ResolveIdent" && len(cl.Args) == 4 {
				call = cl
			}
		}
		return true
	})
	if call == nil {
		e.Run.Violation("R-NOPANIC", "resolvePath calls the resolver", e.Prog.Pos(fd.Pos()), "no ResolveIdent call")
		return
	}
	key := "resolvePath: the resolver is given the identifier's own file, also when a package is decorated"
	arg := ast.Unparen(call.Args[0])
	if isFileField(arg) {
		e.Run.Violation("R-NOPANIC", key, e.Prog.Pos(call.Pos()),
			"the raw field "+c.ExprStr(arg)+" is passed; it is only set when a single *ast.File is decorated, so Decorator.ParseDir / DecorateNode(*ast.Package) with a resolver hands nil to ResolveIdent (goast dereferences it: nil pointer panic for every package)")
		return
	}
	hc, ok := arg.(*ast.CallExpr)
	var helper *ast.FuncDecl
	if ok {
		if fn := c.Callee(hc); fn != nil {
			for _, d := range load.AllFuncDecls(pkg) {
				if info.Defs[d.Name] == types.Object(fn) {
					helper = d
				}
			}
		}
	}
	if helper == nil || helper.Body == nil {
		e.Run.Undecided("R-NOPANIC", key, e.Prog.Pos(call.Pos()), "file argument `"+c.ExprStr(arg)+"` is neither the file field nor a same-package helper")
		return
	}
	// (2) returns of the helper: the field only under `field != nil`; some return yields an element of a []*ast.File field
	rets, okr := returnsOf(c, helper)
	guardedField, listField := true, ""
	sawField := false
	if okr {
		for _, r := range rets {
			if len(r.results) != 1 {
				continue
			}
			if strings.HasSuffix(r.results[0], ".file") {
				sawField = true
				if imp, dec := unsatWith(r.cond, r.results[0]+" == nil"); !dec || !imp {
					guardedField = false
				}
			}
		}
	}
	ast.Inspect(helper.Body, func(n ast.Node) bool {
		rs, ok := n.(*ast.RangeStmt)
		if !ok {
			return true
		}
		if se, ok := ast.Unparen(rs.X).(*ast.SelectorExpr); ok {
			if v, ok := info.Uses[se.Sel].(*types.Var); ok && v.IsField() && v.Type().String() == "[]*go/ast.File" {
				// the loop returns its element
				vid, _ := rs.Value.(*ast.Ident)
				ast.Inspect(rs.Body, func(m ast.Node) bool {
					if r, ok := m.(*ast.ReturnStmt); ok && len(r.Results) == 1 && vid != nil {
						if id, ok := r.Results[0].(*ast.Ident); ok && info.Uses[id] == info.Defs[vid] {
							listField = v.Name()
						}
					}
					return true
				})
			}
		}
		return true
	})
	// or an element of the list reached through locals (index loop, `if pf := f.list[i]; …`)
	if listField == "" && okr {
		re := regexp.MustCompile(`^\w+\.(\w+)\[[^\]]+\]$`)
		for _, r := range rets {
			if len(r.results) != 1 {
				continue
			}
			if m := re.FindStringSubmatch(r.results[0]); m != nil {
				if st, ok := load.LookupType(pkg, "fileDecorator").Underlying().(*types.Struct); ok {
					for i := 0; i < st.NumFields(); i++ {
						if st.Field(i).Name() == m[1] && st.Field(i).Type().String() == "[]*go/ast.File" {
							listField = m[1]
						}
					}
				}
			}
		}
	}
	// or an indexed element of the list (binary search)
	if listField == "" {
		ast.Inspect(helper.Body, func(n ast.Node) bool {
			r, ok := n.(*ast.ReturnStmt)
			if !ok || len(r.Results) != 1 {
				return true
			}
			if ix, ok := ast.Unparen(r.Results[0]).(*ast.IndexExpr); ok {
				if se, ok := ast.Unparen(ix.X).(*ast.SelectorExpr); ok {
					if v, ok := info.Uses[se.Sel].(*types.Var); ok && v.IsField() && v.Type().String() == "[]*go/ast.File" {
						listField = v.Name()
					}
				}
			}
			return true
		})
	}
	// boundary: an identifier may be the very last token of its file (id.End() == File.End()):
	// a strict comparison between a file's End() and the identifier's End() excludes it
	ast.Inspect(helper.Body, func(n ast.Node) bool {
		be, ok := n.(*ast.BinaryExpr)
		if !ok || (be.Op != token.LSS && be.Op != token.GTR) {
			return true
		}
		isEndOf := func(x ast.Expr, typ string) bool {
			call, ok := ast.Unparen(x).(*ast.CallExpr)
			if !ok || len(call.Args) != 0 {
				return false
			}
			se, ok := call.Fun.(*ast.SelectorExpr)
			if !ok || se.Sel.Name != "End" {
				return false
			}
			_, tn := namedOf(info.TypeOf(se.X))
			return tn == typ
		}
		if (isEndOf(be.X, "File") && isEndOf(be.Y, "Ident")) || (isEndOf(be.X, "Ident") && isEndOf(be.Y, "File")) {
			e.Run.Violation("R-NOPANIC", "the file of an identifier is found also when the identifier is the last token of the file", e.Prog.Pos(be.Pos()),
				"`"+c.ExprStr(be)+"` is strict: an identifier that ends its file (a final `var x T` or `type T int`) has End() equal to the file's End(), no file is found and the resolver is handed a nil file (goast dereferences it)")
		}
		return true
	})
	e.Run.Check("R-NOPANIC", key, e.Prog.Pos(call.Pos()), okr && sawField && guardedField && listField != "",
		fmt.Sprintf("helper %s: returns the file field only under a nil check: %v; falls back to a search among a list of files: %v", helper.Name.Name, sawField && guardedField, listField != ""))
	// (3) DecorateNode fills the list from the package's files
	filled := false
	scanBodies := []*ast.BlockStmt{dn.Body}
	ast.Inspect(dn.Body, func(n ast.Node) bool {
		if cl, ok := n.(*ast.CallExpr); ok {
			if fn := c.Callee(cl); fn != nil && fn.Pkg() == pkg.Types {
				for _, d := range load.AllFuncDecls(pkg) {
					if info.Defs[d.Name] == types.Object(fn) && d.Body != nil && d != dn {
						scanBodies = append(scanBodies, d.Body)
					}
				}
			}
		}
		return true
	})
	for _, sb := range scanBodies {
		ast.Inspect(sb, func(n ast.Node) bool {
			rs, ok := n.(*ast.RangeStmt)
			if !ok {
				return true
			}
			se, ok := ast.Unparen(rs.X).(*ast.SelectorExpr)
			if !ok || se.Sel.Name != "Files" {
				return true
			}
			if p, nme := namedOf(info.TypeOf(se.X)); p != "go/ast" || nme != "Package" {
				return true
			}
			ast.Inspect(rs.Body, func(m ast.Node) bool {
				if as, ok := m.(*ast.AssignStmt); ok && len(as.Lhs) == 1 {
					if l, ok := as.Lhs[0].(*ast.SelectorExpr); ok && l.Sel.Name == listField && listField != "" {
						filled = true
					}
					// … or into a local slice that is stored in the field afterwards
					if lid, ok := as.Lhs[0].(*ast.Ident); ok && len(as.Rhs) == 1 {
						if cl, ok := as.Rhs[0].(*ast.CallExpr); ok && types.ExprString(cl.Fun) == "append" && len(cl.Args) >= 1 && types.ExprString(cl.Args[0]) == lid.Name {
							lo := info.Uses[lid]
							ast.Inspect(sb, func(k ast.Node) bool {
								if st, ok := k.(*ast.AssignStmt); ok && len(st.Lhs) == 1 && len(st.Rhs) == 1 && st.Pos() > rs.End() {
									if l, ok := st.Lhs[0].(*ast.SelectorExpr); ok && l.Sel.Name == listField && listField != "" {
										if rid, ok := ast.Unparen(st.Rhs[0]).(*ast.Ident); ok && info.Uses[rid] == lo {
											filled = true
										}
									}
								}
								return true
							})
						}
					}
				}
				return true
			})
			return true
		})
	}
	e.Run.Check("R-NOPANIC", "DecorateNode records the files of a package for identifier resolution", e.Prog.Pos(dn.Pos()), filled,
		"no loop over the *ast.Package's Files that fills fileDecorator."+listField+": with a package the resolver would get no file")
}

// objectContentsDefault: the panic is the body of the default arm of a type switch that has an arm
// for *Scope (of dst or go/ast): the switches over Object.Decl / Object.Data, whose documented
// contents are a Scope, a Node, an int (Data) or nil.
func objectContentsDefault(info *types.Info, fd *ast.FuncDecl, call *ast.CallExpr) bool {
	found := false
	ast.Inspect(fd.Body, func(n ast.Node) bool {
		ts, ok := n.(*ast.TypeSwitchStmt)
		if !ok {
			return true
		}
		hasScope := false
		var def *ast.CaseClause
		for _, cl := range ts.Body.List {
			cc := cl.(*ast.CaseClause)
			if cc.List == nil {
				def = cc
				continue
			}
			for _, t := range cc.List {
				if _, tn := namedOf(info.TypeOf(t)); tn == "Scope" {
					hasScope = true
				}
			}
		}
		if hasScope && def != nil && def.Pos() <= call.Pos() && call.End() <= def.End() && len(def.Body) == 1 {
			found = true
		}
		// or the statement that follows the switch (every arm that recognises the value returns)
		if hasScope && def == nil {
			ast.Inspect(fd.Body, func(m ast.Node) bool {
				blk, ok := m.(*ast.BlockStmt)
				if !ok {
					return true
				}
				for i, st := range blk.List {
					if st == ast.Stmt(ts) && i+1 < len(blk.List) {
						nx := blk.List[i+1]
						if nx.Pos() <= call.Pos() && call.End() <= nx.End() {
							if _, isExpr := nx.(*ast.ExprStmt); isExpr {
								found = true
							}
						}
					}
				}
				return true
			})
		}
		return true
	})
	return found
}

// withDirectCallees: the body of fd and the bodies of the same-package functions it calls directly.
func (e *Env) withDirectCallees(pkg *packages.Package, fd *ast.FuncDecl) []*ast.BlockStmt {
	out := []*ast.BlockStmt{fd.Body}
	seen := map[*ast.FuncDecl]bool{fd: true}
	ast.Inspect(fd.Body, func(n ast.Node) bool {
		call, ok := n.(*ast.CallExpr)
		if !ok {
			return true
		}
		fn := calleeFunc(pkg.TypesInfo, call)
		if fn == nil || fn.Pkg() != pkg.Types {
			return true
		}
		for _, d := range load.AllFuncDecls(pkg) {
			if pkg.TypesInfo.Defs[d.Name] == types.Object(fn) && d.Body != nil && !seen[d] {
				seen[d] = true
				out = append(out, d.Body)
			}
		}
		return true
	})
	return out
}
