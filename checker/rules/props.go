package rules

// Props maps property ids to their drivers.
var Props = map[string]func(e *Env){}

// Meta describes what a property's check decides (goes to the evidence file).
type Meta struct {
	Explanation string
	NotCovered  []string
	Assumptions []string
}

var Metas = map[string]Meta{}

func register(id string, m Meta, f func(e *Env)) {
	Props[id] = f
	Metas[id] = m
}

var commonAssumptions = []string{
	"go/packages + go/types of go1.23.5 type-check /repo's working tree correctly; generated files are analysed as ordinary source",
	"go/printer, go/parser, go/token, go/format behave as documented (their internals are outside the analysis)",
	"frozen exception tables in /verif/checker/rules (one line of reason each) are correct",
}

// CommonAssumptions returns the assumptions shared by all checks.
func CommonAssumptions() []string { return commonAssumptions }
