package rules

import (
	"fmt"
	"go/ast"
	"go/token"
	"go/types"
	"strings"

	"golang.org/x/tools/go/packages"

	"dstverif/load"
)

// R-ERR: every call that can return an error from the dst module, a resolver interface, go/parser,
// go/format or go/packages has its error checked and returned (or wrapped with %w) at once; the
// error branch does nothing else to tracked state.

var errExternal = map[string]bool{
	"go/parser.ParseFile": true, "go/parser.ParseDir": true, "go/format.Node": true,
	"golang.org/x/tools/go/packages.Load": true,
	"go/build.Import":                     true, "(*go/build.Context).Import": true, "(*go/build.Context).ImportDir": true, "go/build.ImportDir": true,
}

func returnsError(fn *types.Func) bool {
	if fn == nil {
		return false
	}
	res := fn.Type().(*types.Signature).Results()
	if res.Len() == 0 {
		return false
	}
	return types.Identical(res.At(res.Len()-1).Type(), types.Universe.Lookup("error").Type())
}

func inErrScope(fn *types.Func) bool {
	if fn == nil || fn.Pkg() == nil {
		return false
	}
	if strings.HasPrefix(fn.Pkg().Path(), load.ModPath) {
		return true
	}
	return errExternal[funcKey(fn)]
}

type errSite struct {
	pkg   *packages.Package
	fd    *ast.FuncDecl
	call  *ast.CallExpr
	fn    *types.Func
	stack []ast.Node
}

func (e *Env) errSites(pkgs []*packages.Package) []errSite {
	var out []errSite
	for _, pkg := range pkgs {
		for _, fd := range load.AllFuncDecls(pkg) {
			if fd.Body == nil {
				continue
			}
			var stack []ast.Node
			ast.Inspect(fd.Body, func(n ast.Node) bool {
				if n == nil {
					stack = stack[:len(stack)-1]
					return true
				}
				stack = append(stack, n)
				call, ok := n.(*ast.CallExpr)
				if !ok {
					return true
				}
				fn := calleeFunc(pkg.TypesInfo, call)
				if returnsError(fn) && inErrScope(fn) {
					out = append(out, errSite{pkg, fd, call, fn, append([]ast.Node{}, stack...)})
				}
				// a call through a function value (a hook field, a local that holds one of
				// several look-up functions) whose last result is an error
				if fn == nil {
					if tv, ok := pkg.TypesInfo.Types[call.Fun]; ok && !tv.IsType() && !tv.IsBuiltin() {
						if sig, ok := tv.Type.Underlying().(*types.Signature); ok && sig.Results().Len() > 0 &&
							types.Identical(sig.Results().At(sig.Results().Len()-1).Type(), types.Universe.Lookup("error").Type()) {
							if _, isLit := ast.Unparen(call.Fun).(*ast.FuncLit); !isLit {
								out = append(out, errSite{pkg, fd, call, nil, append([]ast.Node{}, stack...)})
							}
						}
					}
				}
				return true
			})
		}
	}
	return out
}

// errReturned: statement list `body` ends in a return that hands errObj on (itself or %w-wrapped),
// or records it in a captured error variable and stops (closure idiom `outer = err; return false`).
func errBranchOK(info *types.Info, body []ast.Stmt, errObj types.Object) (bool, string) {
	if len(body) == 0 {
		return false, "empty error branch: the error is dropped"
	}
	last, ok := body[len(body)-1].(*ast.ReturnStmt)
	if !ok {
		if es, isExpr := body[len(body)-1].(*ast.ExprStmt); isExpr {
			if call, isCall := es.X.(*ast.CallExpr); isCall {
				if id, isID := call.Fun.(*ast.Ident); isID && id.Name == "panic" {
					return false, "error branch panics instead of returning the error"
				}
			}
		}
		return false, "error branch does not end in a return"
	}
	hands := func(x ast.Expr) bool {
		if id, ok := x.(*ast.Ident); ok && (info.Uses[id] == errObj) {
			return true
		}
		if call, ok := x.(*ast.CallExpr); ok {
			if fn := calleeFunc(info, call); fn != nil && funcKey(fn) == "fmt.Errorf" && len(call.Args) >= 2 {
				if bl, ok := call.Args[0].(*ast.BasicLit); ok && strings.Contains(bl.Value, "%w") {
					for _, a := range call.Args[1:] {
						if id, ok := a.(*ast.Ident); ok && info.Uses[id] == errObj {
							return true
						}
					}
				}
			}
		}
		return false
	}
	passed := false
	for _, r := range last.Results {
		if hands(r) {
			passed = true
		}
	}
	// closure idiom: outer = err; return false
	for _, s := range body[:len(body)-1] {
		as, ok := s.(*ast.AssignStmt)
		if !ok || len(as.Lhs) != 1 || len(as.Rhs) != 1 {
			return false, "error branch does more than return the error"
		}
		if !hands(as.Rhs[0]) {
			return false, "error branch does more than return the error"
		}
		// recorded in an error variable of the enclosing function or in an error field of the
		// callback's state (visitor struct)
		if lid, lok := as.Lhs[0].(*ast.Ident); lok {
			if v, ok := info.Uses[lid].(*types.Var); ok && types.Identical(v.Type(), types.Universe.Lookup("error").Type()) {
				passed = true
			}
		} else if se, sok := as.Lhs[0].(*ast.SelectorExpr); sok {
			if v, ok := info.Uses[se.Sel].(*types.Var); ok && v.IsField() && types.Identical(v.Type(), types.Universe.Lookup("error").Type()) {
				passed = true
			}
		} else {
			return false, "error branch does more than return the error"
		}
	}
	if !passed {
		return false, "the return on the error branch does not carry the error (neither itself nor wrapped with %w)"
	}
	return true, ""
}

func condChecksNonNil(info *types.Info, cond ast.Expr, errObj types.Object) (checks bool, exact bool) {
	switch c := cond.(type) {
	case *ast.ParenExpr:
		return condChecksNonNil(info, c.X, errObj)
	case *ast.BinaryExpr:
		if c.Op == token.NEQ {
			if id, ok := c.X.(*ast.Ident); ok && info.Uses[id] == errObj && info.Types[c.Y].IsNil() {
				return true, true
			}
		}
		if c.Op == token.LAND {
			a, _ := condChecksNonNil(info, c.X, errObj)
			b, _ := condChecksNonNil(info, c.Y, errObj)
			return a || b, false
		}
		if c.Op == token.LOR {
			// err != nil || other: the branch is taken at least whenever the error is non-nil, and
			// the error is nil after it
			// (`err != nil || path == ""`, returning the zero result for both, is common)
			for _, side := range []ast.Expr{c.X, c.Y} {
				if tv, ok := info.Types[ast.Unparen(side)]; ok && tv.Value != nil {
					return false, false // a constant operand: the test decides nothing
				}
			}
			if _, exact := condChecksNonNil(info, c.X, errObj); exact {
				return true, true
			}
			if _, exact := condChecksNonNil(info, c.Y, errObj); exact {
				return true, true
			}
		}
	}
	return false, false
}

func (e *Env) RErr(pkgs []*packages.Package, floorN int) {
	sites := e.errSites(pkgs)
	for _, s := range sites {
		info := s.pkg.TypesInfo
		callee := "the function value " + types.ExprString(s.call.Fun)
		if s.fn != nil {
			callee = shortFunc(s.fn)
		}
		key := fmt.Sprintf("error of %s checked in %s", callee, load.FuncName(s.fd))
		pos := e.Prog.Pos(s.call.Pos())
		if s.fn == nil && e.Prog.File(s.call.Pos()) == "resolve.go" {
			// the package builder forked from go/ast collects import errors in its error list, as
			// upstream does; that code is compared with upstream by R-FORK
			e.Run.OK("R-ERR", key, pos, "collected in the package builder's error list (upstream design, R-FORK)")
			continue
		}
		parent := s.stack[len(s.stack)-2]
		switch p := parent.(type) {
		case *ast.ReturnStmt:
			e.Run.OK("R-ERR", key, pos, "propagated by `return f(...)`")
			continue
		case *ast.ExprStmt:
			e.Run.Violation("R-ERR", key, pos, "result discarded: a failure (e.g. of a resolver) is silently ignored")
			continue
		case *ast.AssignStmt:
			if len(p.Rhs) != 1 || p.Rhs[0] != ast.Expr(s.call) {
				e.Run.Violation("R-ERR", key, pos, "call is part of a multi-value assignment that hides its error")
				continue
			}
			eid, ok := p.Lhs[len(p.Lhs)-1].(*ast.Ident)
			if !ok || eid.Name == "_" {
				e.Run.Violation("R-ERR", key, pos, "error result assigned to the blank identifier")
				continue
			}
			errObj := info.Defs[eid]
			if errObj == nil {
				errObj = info.Uses[eid]
			}
			// the statement that follows the assignment
			var next ast.Stmt
			var rest []ast.Stmt
			grand := s.stack[len(s.stack)-3]
			if is, ok := grand.(*ast.IfStmt); ok && is.Init == ast.Stmt(p) {
				next = is
			} else {
				list := stmtList(grand)
				for i, st := range list {
					if st == ast.Stmt(p) && i+1 < len(list) {
						next = list[i+1]
						rest = list[i+2:]
					}
				}
			}
			is, ok := next.(*ast.IfStmt)
			checks, exact := false, false
			if ok {
				checks, exact = condChecksNonNil(info, is.Cond, errObj)
			}
			if !ok || !checks {
				// no `if err != nil` right after the call: the error is still handled if it is
				// kept and handed on by every return that follows (the partial-result idiom in
				// any arrangement of its tests)
				if why := e.everyLaterReturnCarries(info, s.fd, p, errObj); why == "" {
					e.Run.OK("R-ERR", key, pos, "kept and returned by every later return")
				} else if !ok {
					e.Run.Violation("R-ERR", key, pos, "the error is not checked by the next statement, and "+why)
				} else {
					e.Run.Violation("R-ERR", key, pos, "the next statement does not test the error against nil, and "+why)
				}
				continue
			}
			okB, why := errBranchOK(info, is.Body.List, errObj)
			if !okB {
				e.Run.Violation("R-ERR", key, pos, why)
				continue
			}
			if exact {
				e.Run.OK("R-ERR", key, pos, "checked and returned at once")
				continue
			}
			// deferred form: the error is returned only under an extra condition; every later return
			// of the function must hand it on or return another error that was checked on that path
			okDeferred := true
			whyD := ""
			// the returns that can follow: everything behind the test in the enclosing function (or
			// function literal), not only in the block of the call; and an error variable that is
			// declared inside a loop body is gone (or overwritten) with the next iteration
			var encl ast.Node = s.fd.Body
			for _, anc := range s.stack {
				if fl, ok := anc.(*ast.FuncLit); ok {
					encl = fl.Body
				}
			}
			rest = nil
			ast.Inspect(encl, func(n ast.Node) bool {
				if _, isLit := n.(*ast.FuncLit); isLit && n.Pos() > is.End() {
					return false
				}
				if rs, ok := n.(*ast.ReturnStmt); ok && rs.Pos() > is.End() {
					rest = append(rest, rs)
				}
				return true
			})
			for _, anc := range s.stack {
				var body *ast.BlockStmt
				switch l := anc.(type) {
				case *ast.ForStmt:
					body = l.Body
				case *ast.RangeStmt:
					body = l.Body
				}
				if body != nil && errObj.Pos() >= body.Pos() && errObj.Pos() <= body.End() {
					okDeferred = false
					whyD = "the error variable is declared inside the loop at " + e.Prog.Pos(anc.Pos()) + ": when the extra condition does not hold the loop goes on and the error is gone"
				}
			}
			if len(rest) == 0 {
				okDeferred = false
				whyD = "no return follows that could carry it"
			}
			for _, st := range rest {
				ast.Inspect(st, func(n ast.Node) bool {
					if _, isLit := n.(*ast.FuncLit); isLit {
						return false
					}
					rs, ok := n.(*ast.ReturnStmt)
					if !ok {
						return true
					}
					carries := false
					for _, r := range rs.Results {
						if id, ok := r.(*ast.Ident); ok {
							if info.Uses[id] == errObj {
								carries = true
							}
							if v, ok := info.Uses[id].(*types.Var); ok && v != errObj && types.Identical(v.Type(), types.Universe.Lookup("error").Type()) {
								carries = true // another error, returned from its own check
							}
						}
					}
					if !carries {
						okDeferred = false
						whyD = "return at " + e.Prog.Pos(rs.Pos()) + " drops the pending error"
					}
					return true
				})
			}
			e.Run.Check("R-ERR", key, pos, okDeferred, "deferred form (error kept while a partial result is processed): every later return must carry it; "+whyD)
			continue
		default:
			e.Run.Violation("R-ERR", key, pos, fmt.Sprintf("call used inside %T: its error cannot be checked", parent))
		}
	}
	e.Run.Analysed("error-returning call sites", len(sites))
	e.Run.Floor("R-ERR", "error-returning call sites", len(sites), floorN)
}

func stmtList(n ast.Node) []ast.Stmt {
	switch b := n.(type) {
	case *ast.BlockStmt:
		return b.List
	case *ast.CaseClause:
		return b.Body
	case *ast.CommClause:
		return b.Body
	}
	return nil
}

func shortFunc(fn *types.Func) string {
	k := funcKey(fn)
	k = strings.ReplaceAll(k, load.ModPath+"/", "")
	k = strings.ReplaceAll(k, load.ModPath, "dst")
	return k
}

// everyLaterReturnCarries: "" when at least one return follows the assignment and every return
// after it (outside function literals) has the error variable itself among its results, or
// another error variable (a later failure, returned from its own check).
func (e *Env) everyLaterReturnCarries(info *types.Info, fd *ast.FuncDecl, after ast.Node, errObj types.Object) string {
	n := 0
	why := ""
	own := 0
	ast.Inspect(fd.Body, func(nd ast.Node) bool {
		if _, isLit := nd.(*ast.FuncLit); isLit {
			return false
		}
		rs, ok := nd.(*ast.ReturnStmt)
		if !ok || rs.Pos() < after.End() {
			return true
		}
		n++
		carries := false
		for _, r := range rs.Results {
			if id, ok := r.(*ast.Ident); ok {
				if info.Uses[id] == errObj {
					carries = true
					own++
				} else if v, ok := info.Uses[id].(*types.Var); ok && types.Identical(v.Type(), types.Universe.Lookup("error").Type()) {
					carries = true
				}
			}
		}
		if !carries && why == "" {
			why = "the return at " + e.Prog.Pos(rs.Pos()) + " drops it"
		}
		return true
	})
	if n == 0 || own == 0 {
		return "no later return hands it on"
	}
	return why
}
