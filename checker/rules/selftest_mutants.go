package rules

// Mutant is a single-site textual edit of the current tree used by the thorough tier's
// sensitivity self-test: the edited tree must still type-check and the property's check must
// report a violation on it. Find must occur in File; the first occurrence is replaced.
type Mutant struct {
	Name, File, Find, Replace string
}

const (
	fRest  = "decorator/restorer-generated.go"
	fDeco  = "decorator/decorator-node-generated.go"
	fFrag  = "decorator/decorator-fragment-generated.go"
	fClone = "clone-generated.go"
	fR     = "decorator/restorer.go"
	fD     = "decorator/decorator.go"
	fDF    = "decorator/decorator-fragment.go"
	fWalk  = "walk.go"
	fRew   = "dstutil/rewrite.go"
)

var mCrossFile = Mutant{"findDecoration searches across the files of a package", fDF, "\t\tif !f.sameFile(f.fragments[from], f.fragments[i]) {\n\t\t\t// never attach to a decoration point in another file of the package\n\t\t\treturn\n\t\t}\n", ""}
var mRawFile = Mutant{"resolvePath passes the raw file field to the resolver", fD, "f.Resolver.ResolveIdent(f.fileOf(id), parent, parentField, id)", "f.Resolver.ResolveIdent(f.file, parent, parentField, id)"}
var mAvoidGroup = Mutant{"fragment avoids up to the end of the comment group", fDF, "endLine := startLine + strings.Count(c.Text, \"\\n\")", "endLine := f.position(cg.End()).Line"}
var mDeleteReg = Mutant{"restoreIdent forgets the identifier's registration", fR, "\tr.Dst.Nodes[out.Sel] = n\n", "\tr.Dst.Nodes[out.Sel] = n\n\tdelete(r.Ast.Nodes, r.Dst.Nodes[out.Sel])\n"}
var mResolveAll = Mutant{"updateImports asks the resolver about every required import", fR, "\tfor path := range packagesInUse {\n\t\tif _, ok := effectiveAlias[path]; ok {", "\tfor path := range importsRequired {\n\t\tif _, ok := effectiveAlias[path]; ok {"}
var mEndAtPos = Mutant{"fragger BinaryExpr places its End point at the node's start", fFrag, "\t\t// Node: Y\n\t\tif n.Y != nil {\n\t\t\tf.addNodeFragments(n.Y)\n\t\t}\n\n\t\t// Decoration: End\n\t\tf.addDecorationFragment(n, \"End\", n.End())", "\t\t// Node: Y\n\t\tif n.Y != nil {\n\t\t\tf.addNodeFragments(n.Y)\n\t\t}\n\n\t\t// Decoration: End\n\t\tf.addDecorationFragment(n, \"End\", n.Pos())"}
var mInnerAtToken = Mutant{"fragger BinaryExpr positions the X point at the operator", fFrag, "\t\t// Decoration: X\n\t\tf.addDecorationFragment(n, \"X\", token.NoPos)\n\n\t\t// Token: Op\n\t\tf.addTokenFragment(n, n.Op, n.OpPos)", "\t\t// Decoration: X\n\t\tf.addDecorationFragment(n, \"X\", n.OpPos)\n\n\t\t// Token: Op\n\t\tf.addTokenFragment(n, n.Op, n.OpPos)"}
var mTokenLen = Mutant{"restore DeferStmt advances by len(go)", fRest, "len(token.DEFER.String())", "len(token.GO.String())"}
var mDropTok = Mutant{"restore AssignStmt drops out.Tok", fRest, "\t\tout.Tok = n.Tok\n\t\tout.TokPos = r.cursor\n\t\tr.cursor += token.Pos(len(n.Tok.String()))\n\n\t\t// Decoration: Tok\n\t\tr.applyDecorations(out, \"Tok\", n.Decs.Tok, false)\n\n\t\t// List: Rhs", "\t\tout.TokPos = r.cursor\n\t\tr.cursor += token.Pos(len(n.Tok.String()))\n\n\t\t// Decoration: Tok\n\t\tr.applyDecorations(out, \"Tok\", n.Decs.Tok, false)\n\n\t\t// List: Rhs"}
var mElseGuard = Mutant{"restore IfStmt else token unguarded", fRest, "if n.Else != nil {\n\t\t\tr.cursor", "if true {\n\t\t\tr.cursor"}
var mSwapDecs = Mutant{"restore ArrayType swaps Lbrack and Len points", fRest, "r.applyDecorations(out, \"Lbrack\", n.Decs.Lbrack, false)", "r.applyDecorations(out, \"Len\", n.Decs.Len, false)"}
var mDropChildDeco = Mutant{"decorate BinaryExpr drops Y", fDeco, "\t\t\tout.Y = child.(dst.Expr)\n", "\t\t\t_ = child.(dst.Expr)\n"}
var mFragNoChild = Mutant{"fragger ExprStmt skips X", fFrag, "case *ast.ExprStmt:\n\n\t\t// Decoration: Start\n\t\tf.addDecorationFragment(n, \"Start\", n.Pos())\n\n\t\t// Node: X\n\t\tif n.X != nil {\n\t\t\tf.addNodeFragments(n.X)\n\t\t}", "case *ast.ExprStmt:\n\n\t\t// Decoration: Start\n\t\tf.addDecorationFragment(n, \"Start\", n.Pos())\n\n\t\t// Node: X\n\t\tif n.X != nil {\n\t\t}"}
var mNoParseComments = Mutant{"ParseFile drops ParseComments", fD, "parser.ParseFile(d.Fset, filename, src, mode|parser.ParseComments)", "parser.ParseFile(d.Fset, filename, src, mode)"}
var mEndFlag = Mutant{"restore BlockStmt End rendered with end=false", fRest, "\t\tr.cursor += token.Pos(len(token.RBRACE.String()))\n\n\t\t// Decoration: End\n\t\tr.applyDecorations(out, \"End\", n.Decs.End, true)", "\t\tr.cursor += token.Pos(len(token.RBRACE.String()))\n\n\t\t// Decoration: End\n\t\tr.applyDecorations(out, \"End\", n.Decs.End, false)"}
var mCondDec = Mutant{"restore CallExpr renders Fun point only when non-empty args", fRest, "\t\tr.applyDecorations(out, \"Fun\", n.Decs.Fun, false)", "\t\tif len(n.Args) > 0 {\n\t\t\tr.applyDecorations(out, \"Fun\", n.Decs.Fun, false)\n\t\t}"}
var mCloneAlias = Mutant{"Clone BlockStmt shares the statement list", fClone, "\t\tfor _, v := range n.List {\n\t\t\tout.List = append(out.List, Clone(v).(Stmt))\n\t\t}", "\t\tout.List = n.List"}
var mCloneDropDec = Mutant{"Clone CallExpr drops the Ellipsis decorations", fClone, "\t\tout.Decs.Ellipsis = append(out.Decs.Ellipsis, n.Decs.Ellipsis...)\n", ""}
var mCloneShareDec = Mutant{"Clone BasicLit shares End decorations", fClone, "case *BasicLit:\n\t\tout := &BasicLit{}\n\n\t\tout.Decs.Before = n.Decs.Before\n\n\t\t// Decoration: Start\n\t\tout.Decs.Start = append(out.Decs.Start, n.Decs.Start...)", "case *BasicLit:\n\t\tout := &BasicLit{}\n\n\t\tout.Decs.Before = n.Decs.Before\n\n\t\t// Decoration: Start\n\t\tout.Decs.Start = n.Decs.Start"}
var mDupFlag = Mutant{"restore ParenExpr allows duplicates below", fRest, "r.restoreNode(n.X, \"ParenExpr\", \"X\", \"Expr\", allowDuplicate)", "r.restoreNode(n.X, \"ParenExpr\", \"X\", \"Expr\", true)"}
var mDropMapReg = Mutant{"restore StarExpr not registered in Dst.Nodes", fRest, "\t\tout := &ast.StarExpr{}\n\t\tr.Ast.Nodes[n] = out\n\t\tr.Dst.Nodes[out] = n\n", "\t\tout := &ast.StarExpr{}\n\t\tr.Ast.Nodes[n] = out\n"}
var mLateMapReg = Mutant{"decorate UnaryExpr registered after its child", fDeco, "\t\tout := &dst.UnaryExpr{}\n\t\tf.Dst.Nodes[n] = out\n\t\tf.Ast.Nodes[out] = n\n", "\t\tout := &dst.UnaryExpr{}\n\t\tf.Ast.Nodes[out] = n\n\t\tdefer func() { f.Dst.Nodes[n] = out }()\n"}
var mWalkDrop = Mutant{"Walk KeyValueExpr skips Value", fWalk, "\t\tWalk(v, n.Key)\n\t\tWalk(v, n.Value)\n", "\t\tWalk(v, n.Key)\n"}
var mWalkOrder = Mutant{"Walk BinaryExpr visits Y first", fWalk, "\t\tWalk(v, n.X)\n\t\tWalk(v, n.Y)\n", "\t\tWalk(v, n.Y)\n\t\tWalk(v, n.X)\n"}
var mWalkNoNil = Mutant{"Walk drops the closing Visit(nil)", fWalk, "\tv.Visit(nil)\n}", "\t_ = v\n}"}
var mApplyName = Mutant{"apply IfStmt passes the wrong field name", fRew, "a.apply(n, \"Cond\", nil, n.Cond)", "a.apply(n, \"Init\", nil, n.Cond)"}
var mApplyDrop = Mutant{"apply CaseClause skips Body", fRew, "\t\ta.applyList(n, \"List\")\n\t\ta.applyList(n, \"Body\")\n\n\tcase *dst.SwitchStmt:", "\t\ta.applyList(n, \"List\")\n\n\tcase *dst.SwitchStmt:"}
var mIterStep = Mutant{"InsertAfter does not skip the inserted node", fRew, "\tv.Index(i + 1).Set(reflect.ValueOf(n))\n\tc.iter.step++", "\tv.Index(i + 1).Set(reflect.ValueOf(n))"}
var mUnsortedFiles = Mutant{"apply Package visits files in map order", fRew, "\t\tsort.Strings(names)\n", "\t\t_ = sort.Strings\n"}
var mCursorBack = Mutant{"applySpace moves the cursor backwards", fR, "\t\tr.cursor++\n\n\t\tlineOffset := int(r.cursor) - r.base // remember lines are relative to the file base\n\t\tr.lines = append(r.lines, lineOffset)\n\t\tr.cursor++\n\t\tr.cursorAtNewLine = r.cursor", "\t\tr.cursor--\n\n\t\tlineOffset := int(r.cursor) - r.base // remember lines are relative to the file base\n\t\tr.lines = append(r.lines, lineOffset)\n\t\tr.cursor++\n\t\tr.cursorAtNewLine = r.cursor"}
var mNoAdvanceNL = Mutant{"applyDecorations line break does not advance the cursor", fR, "\t\t\tr.lines = append(r.lines, lineOffset)\n\t\t\tr.cursor++\n\n\t\t\tr.cursorAtNewLine = r.cursor", "\t\t\tr.lines = append(r.lines, lineOffset)\n\n\t\t\tr.cursorAtNewLine = r.cursor"}
var mAddFileEarly = Mutant{"RestoreFile registers the file before restoring", fR, "\t// restore the file, populate comments and lines\n\tf := r.restoreNode(r.file, \"\", \"\", \"\", false).(*ast.File)\n\n\tfor _, cg := range r.comments {\n\t\tf.Comments = append(f.Comments, cg)\n\t}\n\n\tif len(r.lines) > 1 && r.lines[1] == r.lines[0] {\n\t\t// a newline decoration before anything else in the file starts a line at offset 0, where\n\t\t// the first line starts already: the line table must be strictly increasing\n\t\tr.lines = r.lines[1:]\n\t}\n\n\tff := r.Fset.AddFile(r.Name, r.base, r.fileSize())", "\tff := r.Fset.AddFile(r.Name, r.base, r.fileSize())\n\n\t// restore the file, populate comments and lines\n\tf := r.restoreNode(r.file, \"\", \"\", \"\", false).(*ast.File)\n\n\tfor _, cg := range r.comments {\n\t\tf.Comments = append(f.Comments, cg)\n\t}\n\n\tif len(r.lines) > 1 && r.lines[1] == r.lines[0] {\n\t\t// a newline decoration before anything else in the file starts a line at offset 0, where\n\t\t// the first line starts already: the line table must be strictly increasing\n\t\tr.lines = r.lines[1:]\n\t}"}
var mPosNotCursor = Mutant{"applyDecorations comment position off by one", fR, "List: []*ast.Comment{{Slash: r.cursor, Text: d}}", "List: []*ast.Comment{{Slash: r.cursor + 1, Text: d}}"}
var mSpaceNoFresh = Mutant{"applySpace ignores the fresh-line state", fR, "\tif r.cursor == r.cursorAtNewLine {\n\t\tnewlines--\n\t}", "\tif r.cursor == r.cursorAtNewLine && newlines > 1 {\n\t\tnewlines--\n\t}"}
var mSpaceEmpty3 = Mutant{"applySpace emits three breaks for EmptyLine", fR, "\tcase dst.EmptyLine:\n\t\tnewlines = 2", "\tcase dst.EmptyLine:\n\t\tnewlines = 3"}
var mSpaceLast = Mutant{"restore GoStmt applies After spacing before End", fRest, "\t\t// Decoration: End\n\t\tr.applyDecorations(out, \"End\", n.Decs.End, true)\n\t\tr.applySpace(n, \"After\", n.Decs.After)\n\n\t\treturn out\n\tcase *dst.Ident:", "\t\tr.applySpace(n, \"After\", n.Decs.After)\n\n\t\t// Decoration: End\n\t\tr.applyDecorations(out, \"End\", n.Decs.End, true)\n\n\t\treturn out\n\tcase *dst.Ident:"}
var mNoSort = Mutant{"updateImports does not sort the required imports", fR, "\tsort.Slice(importsRequiredOrdered, func(i, j int) bool { return packagePathOrderLess(importsRequiredOrdered[i], importsRequiredOrdered[j]) })\n", ""}
var mAlwaysSort = Mutant{"updateImports always re-sorts the first block", fR, "\tif added {\n\t\t// rearrange import block", "\tif added || len(blocks) > 0 {\n\t\t// rearrange import block"}
var mStoreBeforeErr = Mutant{"updateImports drops aliases before resolving", fR, "\tfor path := range packagesInUse {\n\t\tif _, ok := effectiveAlias[path]; ok {", "\tfor _, b := range blocks {\n\t\tb.Lparen = true\n\t}\n\tfor path := range packagesInUse {\n\t\tif _, ok := effectiveAlias[path]; ok {"}
var mSwallowErr = Mutant{"updateImports ignores a resolver failure", fR, "\t\tif err != nil {\n\t\t\treturn fmt.Errorf(\"could not resolve package %s: %w\", path, err)\n\t\t}\n\t\tresolved[path] = name", "\t\tif err != nil {\n\t\t\tname = path\n\t\t}\n\t\tresolved[path] = name"}
var mErrNoWrap = Mutant{"updateImports returns an unrelated error", fR, "return fmt.Errorf(\"could not resolve package %s: %w\", path, err)", "return fmt.Errorf(\"could not resolve package %s\", path)"}
var mDecoDropErr = Mutant{"decorate CallExpr ignores the error of Fun", fDeco, "\t\t\tchild, err := f.decorateNode(n, \"CallExpr\", \"Fun\", \"Expr\", n.Fun)\n\t\t\tif err != nil {\n\t\t\t\treturn nil, err\n\t\t\t}", "\t\t\tchild, err := f.decorateNode(n, \"CallExpr\", \"Fun\", \"Expr\", n.Fun)\n\t\t\tif err != nil {\n\t\t\t\tchild = nil\n\t\t\t}\n\t\t\tif child == nil {\n\t\t\t\treturn nil, nil\n\t\t\t}"}
var mUnlockEarly = Mutant{"goast imports() unlocks before touching the cache", "decorator/resolver/goast/resolver.go", "\tr.filesM.Lock()\n\tdefer r.filesM.Unlock()\n", "\tr.filesM.Lock()\n\tr.filesM.Unlock()\n"}
var mGlobalWrite = Mutant{"resolvePath memoises in the avoid table", fD, "\tpath = stripVendor(path)\n", "\tpath = stripVendor(path)\n\tif path == \"\" {\n\t\tavoid[parentName+\".\"+parentField+\".\"+id.Name] = false\n\t}\n"}
var mGoroutine = Mutant{"Load converts imports concurrently", "decorator/load.go", "\tvar out []*Package\n", "\tgo func() {}()\n\tvar out []*Package\n"}
var mObjLate = Mutant{"decorateObject registers after converting Decl", fD, "\tout := &dst.Object{}\n\tf.Dst.Objects[o] = out\n\tf.Ast.Objects[out] = o\n", "\tout := &dst.Object{}\n\tdefer func() { f.Dst.Objects[o] = out; f.Ast.Objects[out] = o }()\n"}
var mScopeNoOuter = Mutant{"restoreScope drops Outer", fR, "\tout.Outer = r.restoreScope(s.Outer)\n", ""}
var mExtrasGate = Mutant{"restoreObject ignores Extras", fR, "func (r *FileRestorer) restoreObject(o *dst.Object) *ast.Object {\n\tif !r.Extras {\n\t\treturn nil\n\t}", "func (r *FileRestorer) restoreObject(o *dst.Object) *ast.Object {\n\tif !r.Extras && o == nil {\n\t\treturn nil\n\t}"}
var mAppendAlias = Mutant{"Replace stores the caller's slice", "decorations.go", "\t*d = append([]string{}, decs...) // ensure we don't modify decs", "\t*d = decs"}
var mAppendOrder = Mutant{"Append puts new decorations first", "decorations.go", "\t*d = append(*d, decs...)", "\t*d = append(append([]string{}, decs...), *d...)"}
var mWriteFirst = Mutant{"save writes before checking the print error", "decorator/load.go", "\t\tif err := r.Fprint(buf, file); err != nil {\n\t\t\treturn err\n\t\t}\n\t\tif err := writeFile(p.Decorator.Filenames[file], buf.Bytes(), 0666); err != nil {\n\t\t\treturn err\n\t\t}", "\t\tperr := r.Fprint(buf, file)\n\t\tif err := writeFile(p.Decorator.Filenames[file], buf.Bytes(), 0666); err != nil {\n\t\t\treturn err\n\t\t}\n\t\tif perr != nil {\n\t\t\treturn perr\n\t\t}"}
var mSharedBuf = Mutant{"save shares one buffer between files", "decorator/load.go", "\tfor _, file := range p.Syntax {\n\t\tbuf := &bytes.Buffer{}\n", "\tbuf := &bytes.Buffer{}\n\tfor _, file := range p.Syntax {\n"}
var mExtraWriter = Mutant{"Load writes a marker file", "decorator/load.go", "\tvar out []*Package\n", "\t_ = os.WriteFile(\"dst.lock\", nil, 0600)\n\tvar out []*Package\n"}
var mAvoidTypo = Mutant{"avoid table misspells TypeSpec.Name", fD, "\t\"TypeSpec.Name\":     true,", "\t\"TypeSpec.Names\":    true,"}
var mForceX = Mutant{"decorateSelectorExpr forces the wrong field", fD, "f.resolvePath(true, n, \"SelectorExpr\", \"Sel\", \"Ident\", n.Sel)", "f.resolvePath(true, n, \"SelectorExpr\", \"X\", \"Ident\", n.Sel)"}
var mNoVendorLocal = Mutant{"resolvePath compares against the unstripped local path", fD, "path == stripVendor(f.Path)", "path == f.Path"}
var mFieldPath = Mutant{"gotypes resolver gives struct fields a path", "decorator/resolver/gotypes/resolver.go", "\tif v, ok := obj.(*types.Var); ok && v.IsField() {", "\tif v, ok := obj.(*types.Var); ok && v.IsField() && v.Embedded() {"}
var mMergeOrder = Mutant{"decorateSelectorExpr merges X's End after the selector's X point", fD, "mergeDecorations(xEnd, xAfter, nX, sBefore, sStart)", "mergeDecorations(xAfter, nX, xEnd, sBefore, sStart)"}
var mIdentNoPeriod = Mutant{"restoreIdent renders X point before the period", fR, "\t// Token: Period\n\tr.cursor += token.Pos(len(token.PERIOD.String()))\n\n\t// Decoration: X\n\tr.applyDecorations(out, \"X\", n.Decs.X, false)", "\t// Decoration: X\n\tr.applyDecorations(out, \"X\", n.Decs.X, false)\n\n\t// Token: Period\n\tr.cursor += token.Pos(len(token.PERIOD.String()))"}
var mNilFileGuard = Mutant{"ParseFile decorates a nil file", fD, "\tif perr != nil && f == nil {\n\t\treturn nil, perr\n\t}\n", "\tif perr != nil && f == nil && filename != \"\" {\n\t\treturn nil, perr\n\t}\n"}
var mUnguardChild = Mutant{"restore ReturnStmt... IfStmt Init restored unguarded", fRest, "\t\tif n.Init != nil {\n\t\t\tout.Init = r.restoreNode(n.Init, \"IfStmt\", \"Init\", \"Stmt\", allowDuplicate).(ast.Stmt)\n\t\t}", "\t\tout.Init = r.restoreNode(n.Init, \"IfStmt\", \"Init\", \"Stmt\", allowDuplicate).(ast.Stmt)"}
var mNewPanic = Mutant{"link panics on detached comments", fDF, "\t\t\tif frag.Attached != nil {\n\t\t\t\tcontinue\n\t\t\t}\n\n\t\t\t// Comments (or comment groups)", "\t\t\tif frag.Attached != nil {\n\t\t\t\tcontinue\n\t\t\t}\n\t\t\tif frag.Indent > 1000 {\n\t\t\t\tpanic(\"indent\")\n\t\t\t}\n\n\t\t\t// Comments (or comment groups)"}
var mDecKey = Mutant{"decorate Ellipsis reads the decorations of the child", fDeco, "case *ast.Ellipsis:\n\t\tout := &dst.Ellipsis{}\n\t\tf.Dst.Nodes[n] = out\n\t\tf.Ast.Nodes[out] = n\n\n\t\tout.Decs.Before = f.before[n]", "case *ast.Ellipsis:\n\t\tout := &dst.Ellipsis{}\n\t\tf.Dst.Nodes[n] = out\n\t\tf.Ast.Nodes[out] = n\n\n\t\tout.Decs.Before = f.before[n.Elt]"}
var mFileScope = Mutant{"processFile no longer skips other files' fragments", fDF, "\t\t\t\tif f.Fset.File(frag.Position()) != tokenf {\n\t\t\t\t\t// fragment of another file of the package: its line numbers mean nothing here\n\t\t\t\t\tcontinue\n\t\t\t\t}\n", ""}
var mNewPkgErr = Mutant{"NewPackage keeps going after a package name mismatch without reporting", "resolve.go", "\t\t\tp.errorf(\"package %s; expected %s\", name, pkgName)\n", ""}
var mScopeInsert = Mutant{"Scope.Insert overwrites", "scope.go", "\tif alt = s.Objects[obj.Name]; alt == nil {\n\t\ts.Objects[obj.Name] = obj\n\t}", "\talt = s.Objects[obj.Name]\n\ts.Objects[obj.Name] = obj"}

var mDropPath = Mutant{"decorate Ident drops the resolved path", fDeco, "\t\t\tout.Path = path\n\t\t}", "\t\t\t_ = path\n\t\t}"}
var mSelName = Mutant{"decorateSelectorExpr names the identifier after the object, not the selector", fD, "out.Name = n.Sel.Name", "out.Name = n.Sel.Obj.Name"}
var mSelPathCond = Mutant{"decorateSelectorExpr stores the path only when it is not the local one", fD, "\tout.Path = path\n", "\tif path != f.Path {\n\t\tout.Path = path\n\t}\n"}
var mSelFromAlias = Mutant{"restoreIdent builds Sel from the package name", fR, "out.Sel = r.restoreNode(dst.NewIdent(n.Name),", "out.Sel = r.restoreNode(dst.NewIdent(name),"}
var mGoastStopEarly = Mutant{"goast imports() stops after the first parenthesised import declaration", "decorator/resolver/goast/resolver.go", "\t\t\t\treturn false\n\t\t\t}\n\t\t\treturn true\n\t\tcase *ast.ImportSpec:", "\t\t\t\treturn false\n\t\t\t}\n\t\t\tdone = node.Rparen.IsValid()\n\t\t\treturn true\n\t\tcase *ast.ImportSpec:"}
var mLinesReuse = Mutant{"RestoreFile reuses the line table's array", fR, "\tr.lines = []int{0} // initialise with the first line at Pos 0", "\tr.lines = append(r.lines[:0], 0)"}
var mBackMapSel = Mutant{"decorateSelectorExpr maps the identifier back to Sel", fD, "\tf.Ast.Nodes[out] = n\n\n\t// String: Name\n\tout.Name = n.Sel.Name", "\tf.Ast.Nodes[out] = n\n\tf.Ast.Nodes[out] = n.Sel\n\n\t// String: Name\n\tout.Name = n.Sel.Name"}
var mClonePath = Mutant{"Clone Ident forgets the path", fClone, "\t\t// Path: Path\n\t\tout.Path = n.Path\n", ""}
var mPrependClip = Mutant{"Prepend appends to the capacity-clipped argument", "decorations.go", "\t*d = append(append([]string{}, decs...), *d...) // ensure we don't modify decs", "\t*d = append(decs[:len(decs):len(decs)], *d...)"}

var mAttachedStops = Mutant{"findDecoration gives up at a comment that is already attached", fDF, "\t\tcase *commentFragment:\n\t\t\tif current.Attached != nil {\n\t\t\t\tcontinue\n\t\t\t}\n\t\t\tif direction == 1 {", "\t\tcase *commentFragment:\n\t\t\tif current.Attached != nil {\n\t\t\t\treturn\n\t\t\t}\n\t\t\tif direction == 1 {"}
var mAttachedRecollected = Mutant{"findDecoration collects a comment that is already attached a second time", fDF, "\t\tcase *commentFragment:\n\t\t\tif current.Attached != nil {\n\t\t\t\tcontinue\n\t\t\t}\n", "\t\tcase *commentFragment:\n\t\t\tif current.Attached != nil && stopAtNewline {\n\t\t\t\tcontinue\n\t\t\t}\n"}
var mAdjustedLine = Mutant{"fragment() marks comment lines with //line-adjusted numbers", fDF, "startLine := f.position(c.Pos()).Line", "startLine := f.Fset.Position(c.Pos()).Line"}

var mCgoNamed = Mutant{"updateImports sends the cgo pseudo-import through name selection", fR, "\t\tif path == \"C\" {\n\t\t\t// no conflict checking for the cgo pseudo-import: it is always called C in the code\n\t\t\t// and never has an alias\n\t\t\tr.packageNames[path], aliases[path] = \"C\", \"\"\n\t\t\tcontinue\n\t\t}\n", ""}
var mCgoEmptyName = Mutant{"updateImports gives the cgo pseudo-import the empty name of dot and blank imports", fR, "r.packageNames[path], aliases[path] = \"C\", \"\"", "r.packageNames[path], aliases[path] = \"\", \"\""}
var mTextLen = Mutant{"fragment() finds the end of a raw string by the length of its value", fDF, "endLine := startLine + strings.Count(frag.String, \"\\n\")", "endLine := f.position(frag.Pos + token.Pos(len(frag.String))).Line"}
var mCommentEnd = Mutant{"fragment() finds the end of a comment by its End()", fDF, "endLine := startLine + strings.Count(c.Text, \"\\n\")", "endLine := f.position(c.End()).Line"}
var mLineAtNodeEnd = Mutant{"applyDecorations starts the line of a newline decoration at the end of the node", fR, "\t\t\tif r.cursor != r.cursorAtNewLine {\n", "\t\t\tif false {\n"}
var mHangOnlyEmpty = Mutant{"link() searches hanging comments of a clause only when it has no body", fDF, "\t\t\tif caseClause || commClause {\n", "\t\t\tif start == end && (caseClause || commClause) {\n"}
var mKeepLineZero = Mutant{"RestoreFile keeps a first line start that repeats offset 0", fR, "\tif len(r.lines) > 1 && r.lines[1] == r.lines[0] {", "\tif len(r.lines) > 1 && r.lines[1] < r.lines[0] {"}
var mLocalPath = Mutant{"gotypes resolver gives a path to objects that are not package-level", "decorator/resolver/gotypes/resolver.go", "\tif obj.Parent() != pkg.Scope() {", "\tif false {"}

var mLineCommentAtEnd = Mutant{"applyDecorations steps over a byte before a newline decoration only, not before the line break of a // comment", fR, "\t\t\tif r.cursor != r.cursorAtNewLine {\n", "\t\t\tif isNewline && r.cursor != r.cursorAtNewLine {\n"}
var mAskResolverForC = Mutant{"updateImports asks the resolver for the cgo pseudo-package", fR, "\t\tif path == \"C\" {\n\t\t\t// the cgo pseudo-package is not a package a resolver can find: it is always called C\n\t\t\tcontinue\n\t\t}\n", ""}
var mParensAlwaysDropped = Mutant{"updateImports drops the parentheses of a commented spec that is left alone", fR, "} else if count == 1 && len(specs[0].Decorations().Start) == 0 {", "} else if count == 1 {"}
var mImplicitSemiNoPos = Mutant{"restore leaves the implicit semicolon of an empty statement without a position", fRest, "\t\t} else {\n\t\t\tout.Semicolon = r.cursor\n\t\t}\n", "\t\t}\n"}
var mNoPathValidation = Mutant{"updateImports does not return the error of a malformed import path", fR, "\tif invalid != nil {\n\t\treturn invalid\n\t}\n", ""}
var mSpacingOverwritten = Mutant{"link pass 2 lets a later line break overwrite an empty line", fDF, "if foundBefore && f.before[nodeBefore] < spaceType {", "if foundBefore {"}
var mHangOneLevel = Mutant{"link searches hanging comments only below a statement that ends exactly one level deeper", fDF, "\t\t\tif end <= start {\n", "\t\t\tif end != start+1 {\n"}
var mNoFileExtent = Mutant{"RestoreFile does not record the extent of the file", fR, "\tsetFileExtent(f, token.Pos(ff.Base()), token.Pos(ff.Base()+ff.Size()))\n", ""}
var mGotypesC = Mutant{"gotypes resolver gives C.x the path of the cgo pseudo-package", "decorator/resolver/gotypes/resolver.go", "\t\tif pn.Imported().Path() == \"C\" {", "\t\tif false {"}

// round 3 of the hunt (H12–H15): the unrepaired forms of the defects that were repaired
var mVendorRawScan = Mutant{"updateImports compares identifier paths with the restorer's raw (vendored) path", fR, "if n.Path == stripVendor(r.Path) {", "if n.Path == r.Path {"}
var mVendorRawIdent = Mutant{"restoreIdent compares the identifier's path with the restorer's raw (vendored) path", fR, "if n.Path != stripVendor(r.Path) {", "if n.Path != r.Path {"}
var mGoastNilFile = Mutant{"goast walks a nil file", "decorator/resolver/goast/resolver.go", "\tif file == nil {\n", "\tif file == nil && false {\n"}
var mGopkgsWritesConfig = Mutant{"gopackages configures the receiver's Config on every call", "decorator/resolver/gopackages/resolver.go", "\tcfg.Tests = false\n", "\tcfg.Tests = false\n\tr.Config.Tests = false\n"}
var mFileEndNoBase = Mutant{"File.FileEnd without the file's base", fR, "token.Pos(ff.Base()+ff.Size())", "token.Pos(ff.Size()+1)"}
var mLinesTruncated = Mutant{"RestoreFile truncates and refills the line table it handed out", fR, "r.lines = []int{0}", "r.lines = append(r.lines[:0], 0)"}
var mSpacingOr = Mutant{"link ORs the spacing into the table", fDF, "\t\t\t\t\tf.before[nodeBefore] = spaceType\n", "\t\t\t\t\tf.before[nodeBefore] |= spaceType\n"}
var mErrCheckWeakened = Mutant{"Load returns DecorateFile's error only under an extra condition", "decorator/load.go", "\t\t\t\tfile, err := p.Decorator.DecorateFile(f)\n\t\t\t\tif err != nil {", "\t\t\t\tfile, err := p.Decorator.DecorateFile(f)\n\t\t\t\tif err != nil && len(goFiles) > 1 {"}

var mGroupPerComment = Mutant{"applyDecorations makes a comment group of every comment", fR, "} else if group != nil && breaksSinceComment <= 1 {\n\t\t\t\tgroup.List = append(group.List, &ast.Comment{Slash: r.cursor, Text: d})\n\t\t\t} else {", "} else {"}
var mRawLitCommentField = Mutant{"a comment behind a multi-line raw string goes to the Comment field", fR, " && r.cursor != r.rawLiteralEnd {", " {"}

// from the mutation sweep (DESIGN 8.21): one representative per rule that was added or tightened
var mBlankNotRequired = Mutant{"blank entries of the alias table are not marked required", fR, "\t\tif alias == \"_\" {\n\t\t\timportsRequired[path] = true", "\t\tif alias != \"_\" {\n\t\t\timportsRequired[path] = true"}
var mKeepAlways = Mutant{"every spec is kept", fR, "\t\t\tif importsRequired[path] {", "\t\t\tif true || importsRequired[path] {"}
var mMarkInverted = Mutant{"declarations that still have specs are marked for deletion", fR, "\t\t\tif count == 0 {", "\t\t\tif count != 0 {"}
var mFinalPassInverted = Mutant{"the final pass keeps the marked declarations", fR, "\t\t\tif deleteBlocks[decl] {", "\t\t\tif !deleteBlocks[decl] {"}
var mConflictNoUpdate = Mutant{"the conflict loop never changes its candidate", fR, "\t\t\tcurrent = fmt.Sprintf(\"%s%d\", preferred, modifier)\n", ""}
var mRparenDropped = Mutant{"Rparen not cleared with Lparen", fR, "\t\t\t\tblock.Lparen = false\n\t\t\t\tblock.Rparen = false\n", "\t\t\t\tblock.Lparen = false\n"}
var mDotNameKept = Mutant{"restoreIdent keeps the qualifier of a dot-import", fR, "\t\tif name == \".\" {\n\t\t\tname = \"\"\n", "\t\tif name == \".\" {\n"}
var mFileSizeNoComments = Mutant{"fileSize ignores the comment list", fR, "\t\t\tend = int(cg.End()) + 1\n", ""}
var mLiteralNoLines = Mutant{"applyLiteral records the lines of no newline", fR, "\t\tif char == '\\n' {", "\t\tif char != '\\n' {"}
var mScopeArmNoStore = Mutant{"restoreObject drops a scope-valued Decl", fR, "\t\tout.Decl = r.restoreScope(decl)", "\t\tr.restoreScope(decl)"}
var mFsetDefaultInverted = Mutant{"RestoreFile replaces the caller's file set", fR, "\tif r.Fset == nil {", "\tif r.Fset != nil {"}

// SelfTestMutants lists, per property, the mutants its check must catch.
var SelfTestMutants = map[string][]Mutant{
	"C01": {mTokenLen, mDropTok, mElseGuard, mFragNoChild, mNoParseComments, mFileScope, mDecKey, mCrossFile, mAvoidGroup, mEndAtPos, mInnerAtToken, mAttachedStops, mAdjustedLine, mTextLen, mCommentEnd, mLineAtNodeEnd, mHangOnlyEmpty, mHangOneLevel, mLineCommentAtEnd, mRawLitCommentField},
	"C02": {mDecKey, mCloneDropDec, mSpaceLast, mCondDec, mCrossFile, mEndAtPos, mAttachedStops, mHangOnlyEmpty},
	"C03": {mDropTok, mDropChildDeco, mFragNoChild, mElseGuard, mCrossFile, mAvoidGroup, mAdjustedLine, mTextLen, mCommentEnd, mLineAtNodeEnd, mSpacingOverwritten, mSpacingOr, mGroupPerComment},
	"C04": {mSwapDecs, mEndFlag, mCondDec, mRawLitCommentField, mAttachedRecollected},
	"C05": {mSpaceNoFresh, mSpaceEmpty3, mSpaceLast, mNoAdvanceNL, mLineAtNodeEnd, mLineCommentAtEnd},
	"C06": {mCloneAlias, mCloneDropDec, mCloneShareDec, mDupFlag, mDeleteReg, mClonePath},
	"C07": {mNoSort, mIdentNoPeriod, mResolveAll, mCgoNamed, mCgoEmptyName, mParensAlwaysDropped, mAskResolverForC, mVendorRawScan, mVendorRawIdent, mBlankNotRequired, mKeepAlways, mMarkInverted, mFinalPassInverted, mConflictNoUpdate, mRparenDropped, mDotNameKept},
	"C08": {mAlwaysSort, mMergeOrder, mIdentNoPeriod, mStoreBeforeErr, mResolveAll, mCgoNamed, mCgoEmptyName, mAskResolverForC},
	"C09": {mAvoidTypo, mForceX, mNoVendorLocal, mFieldPath, mRawFile, mDropPath, mSelName, mSelPathCond, mGoastStopEarly, mLocalPath, mGotypesC, mGoastNilFile},
	"C10": {mDropPath, mSelName, mSelPathCond, mSelFromAlias, mForceX, mNoVendorLocal, mClonePath, mVendorRawScan, mVendorRawIdent, mBlankNotRequired, mMarkInverted, mConflictNoUpdate},
	"C11": {mDropMapReg, mLateMapReg, mDropChildDeco, mDeleteReg, mBackMapSel},
	"C12": {mCursorBack, mNoAdvanceNL, mAddFileEarly, mPosNotCursor, mLinesReuse, mKeepLineZero, mLineAtNodeEnd, mImplicitSemiNoPos, mNoFileExtent, mLineCommentAtEnd, mFileEndNoBase, mFileSizeNoComments, mLiteralNoLines, mRparenDropped},
	"C13": {mWalkDrop, mWalkOrder, mWalkNoNil},
	"C14": {mApplyName, mApplyDrop, mIterStep, mUnsortedFiles, mWalkDrop},
	"C15": {mNilFileGuard, mUnguardChild, mNewPanic, mRawFile, mNoPathValidation},
	"C16": {mUnlockEarly, mGlobalWrite, mGoroutine, mNoSort, mGopkgsWritesConfig, mLinesTruncated, mFsetDefaultInverted},
	"C17": {mSwallowErr, mErrNoWrap, mStoreBeforeErr, mDecoDropErr, mErrCheckWeakened},
	"C18": {mObjLate, mScopeNoOuter, mExtrasGate, mNewPkgErr, mScopeInsert, mScopeArmNoStore},
	"C19": {mAppendAlias, mAppendOrder, mPrependClip},
	"C20": {mWriteFirst, mSharedBuf, mExtraWriter},
}
