package rules

import (
	"fmt"
	"go/ast"
	"go/constant"
	"go/token"
	"go/types"
	"strings"

	"golang.org/x/tools/go/packages"

	"dstverif/load"
	"dstverif/schema"
)

// file-system mutators: who may call (or take the value of) these.
var fsWriters = map[string]bool{
	"os.WriteFile": true, "io/ioutil.WriteFile": true, "os.Create": true, "os.OpenFile": true, "os.Rename": true,
	"os.Remove": true, "os.RemoveAll": true, "os.Mkdir": true, "os.MkdirAll": true, "os.Truncate": true,
	"os.CreateTemp": true, "io/ioutil.TempFile": true, "os.Symlink": true, "os.Link": true, "os.Chmod": true,
	"(*os.File).Write": true, "(*os.File).WriteString": true, "(*os.File).WriteAt": true, "(*os.File).Truncate": true,
	"(*os.File).ReadFrom": true,
}

func funcKey(fn *types.Func) string {
	if fn == nil || fn.Pkg() == nil {
		return ""
	}
	sig := fn.Type().(*types.Signature)
	if sig.Recv() != nil {
		t := sig.Recv().Type()
		ptr := ""
		if p, ok := t.(*types.Pointer); ok {
			t = p.Elem()
			ptr = "*"
		}
		if n, ok := t.(*types.Named); ok {
			return "(" + ptr + fn.Pkg().Path() + "." + n.Obj().Name() + ")." + load.CanonName(fn)
		}
		return ""
	}
	return fn.Pkg().Path() + "." + load.CanonName(fn)
}

// RWho: only the sanctioned sites reference a file-system mutator.
func (e *Env) RWho() {
	type site struct{ fn, key, pos string }
	var sites []site
	for _, pkg := range e.Prog.InScopePkgs() {
		for _, fd := range load.AllFuncDecls(pkg) {
			if fd.Body == nil {
				continue
			}
			ast.Inspect(fd.Body, func(n ast.Node) bool {
				id, ok := n.(*ast.Ident)
				if !ok {
					return true
				}
				fn, ok := pkg.TypesInfo.Uses[id].(*types.Func)
				if !ok {
					return true
				}
				if k := funcKey(fn); fsWriters[k] {
					sites = append(sites, site{pkg.PkgPath + "." + load.FuncName(fd), k, e.Prog.Pos(id.Pos())})
				}
				return true
			})
		}
		// package-level initialisers
		for _, f := range pkg.Syntax {
			for _, d := range f.Decls {
				gd, ok := d.(*ast.GenDecl)
				if !ok || gd.Tok != token.VAR {
					continue
				}
				ast.Inspect(gd, func(n ast.Node) bool {
					if id, ok := n.(*ast.Ident); ok {
						if fn, ok := pkg.TypesInfo.Uses[id].(*types.Func); ok && fsWriters[funcKey(fn)] {
							sites = append(sites, site{pkg.PkgPath + ".<package var>", funcKey(fn), e.Prog.Pos(id.Pos())})
						}
					}
					return true
				})
			}
		}
	}
	allowedFn := map[string]bool{
		load.PkgDecorator + ".(*Package).Save":             true,
		load.PkgDecorator + ".(*Package).SaveWithResolver": true,
	}
	nAllowed := 0
	writerHelpers := map[string]bool{}
	// a helper of the package that replaces the file like os.WriteFile does (truncatingWriter) may
	// open, write, sync and close
	for _, fd := range load.AllFuncDecls(e.Prog.Pkg(load.PkgDecorator)) {
		if fn, ok := e.Prog.Pkg(load.PkgDecorator).TypesInfo.Defs[fd.Name].(*types.Func); ok && e.truncatingWriter(fn) {
			writerHelpers[load.PkgDecorator+"."+load.FuncName(fd)] = true
		}
	}
	for _, s := range sites {
		ok := allowedFn[s.fn] && (s.key == "io/ioutil.WriteFile" || s.key == "os.WriteFile")
		if writerHelpers[s.fn] && (s.key == "os.OpenFile" || strings.HasPrefix(s.key, "(*os.File).")) {
			ok = true
		}
		if ok {
			nAllowed++
		}
		e.Run.Check("R-WHO", "file-system writer "+s.key+" referenced in "+s.fn, s.pos, ok,
			"only Package.Save/SaveWithResolver may reference a file-system mutator (WriteFile, handed to save); any other site can write, create, rename or delete files")
	}
	// positive control: the legitimate writer reference must be found on every run
	e.Run.Check("R-WHO", "positive control: the sanctioned WriteFile reference is found", "", nAllowed >= 1, "no reference to WriteFile in Save/SaveWithResolver: the rule would be blind")
	e.Run.Analysed("fs writer references", len(sites))
}

// C20Save: structure of (*Package).save.
func (e *Env) C20Save() {
	pkg := e.Prog.Pkg(load.PkgDecorator)
	c := e.Sib.Ctx[load.PkgDecorator]
	info := pkg.TypesInfo
	fd := load.FuncDecl(pkg, "Package", "save")
	if fd == nil || fd.Body == nil {
		e.Run.Violation("R-SAVE", "save exists", "", "(*Package).save not found")
		return
	}
	pos := e.Prog.Pos(fd.Pos())
	recv := c.ObjOf(fd.Recv.List[0].Names[0])
	var resolverParam, writeParam types.Object
	for _, p := range fd.Type.Params.List {
		for _, nm := range p.Names {
			o := info.Defs[nm]
			if _, isSig := o.Type().Underlying().(*types.Signature); isSig {
				writeParam = o
			} else {
				resolverParam = o
			}
		}
	}
	if writeParam == nil || resolverParam == nil {
		e.Run.Violation("R-SAVE", "save takes (resolver, writeFile)", pos, "signature changed")
		return
	}
	// call sites of save bind writeFile to ioutil.WriteFile
	nCallers := 0
	for _, f := range load.AllFuncDecls(pkg) {
		if f.Body == nil {
			continue
		}
		ast.Inspect(f.Body, func(n ast.Node) bool {
			call, ok := n.(*ast.CallExpr)
			if !ok || !schema.IsMethod(c.Callee(call), load.PkgDecorator, "Package", "save") || len(call.Args) != 2 {
				return true
			}
			nCallers++
			bound := ""
			if se, ok := call.Args[1].(*ast.SelectorExpr); ok {
				if fn, ok := info.Uses[se.Sel].(*types.Func); ok {
					bound = funcKey(fn)
				}
			}
			if id, ok := call.Args[1].(*ast.Ident); ok {
				if fn, ok := info.Uses[id].(*types.Func); ok && e.truncatingWriter(fn) {
					bound = "os.WriteFile" // a helper of this package that does what os.WriteFile does
				}
			}
			e.Run.Check("R-SAVE", "save called from "+load.FuncName(f)+" with the real file writer", e.Prog.Pos(call.Pos()), bound == "io/ioutil.WriteFile" || bound == "os.WriteFile",
				"writeFile bound to "+orDash(bound))
			// the resolver handed to save is the caller's parameter or a freshly constructed one —
			// never state kept on the Package between calls (a failed save must not influence the next)
			okRes := false
			switch a := call.Args[0].(type) {
			case *ast.Ident:
				if _, isParam := info.Uses[a].(*types.Var); isParam {
					for _, p := range f.Type.Params.List {
						for _, nm := range p.Names {
							if info.Defs[nm] == info.Uses[a] {
								okRes = true
							}
						}
					}
				}
			case *ast.CallExpr:
				if fn := c.Callee(a); fn != nil && fn.Pkg() != nil && strings.HasSuffix(fn.Pkg().Path(), "/resolver/gopackages") && fn.Name() == "New" {
					okRes = true
				}
			}
			e.Run.Check("R-SAVE", "save called from "+load.FuncName(f)+" with the caller's resolver or a fresh one", e.Prog.Pos(call.Pos()), okRes,
				"resolver operand is "+c.ExprStr(call.Args[0])+": a resolver retained on the Package carries state (memoised names, configuration) from a failed save into the next")
			return true
		})
	}
	e.Run.Check("R-SAVE", "save is called", pos, nCallers >= 1, fmt.Sprintf("%d call sites of save", nCallers))

	// restorer: r := NewRestorerWithImports(p.PkgPath, resolver)
	var rObj types.Object
	for _, st := range fd.Body.List {
		as, ok := st.(*ast.AssignStmt)
		if !ok || as.Tok != token.DEFINE || len(as.Lhs) != 1 || len(as.Rhs) != 1 {
			continue
		}
		call, ok := as.Rhs[0].(*ast.CallExpr)
		if !ok || !schema.IsFunc(c.Callee(call), load.PkgDecorator, "NewRestorerWithImports") || len(call.Args) != 2 {
			continue
		}
		p0, ok0 := c.Path(call.Args[0], recv)
		a1, ok1 := call.Args[1].(*ast.Ident)
		good := ok0 && p0 == "PkgPath" && ok1 && c.ObjOf(a1) == resolverParam
		e.Run.Check("R-SAVE", "restorer built with the package's path and the caller's resolver", e.Prog.Pos(as.Pos()), good,
			"NewRestorerWithImports("+c.ExprStr(call.Args[0])+", "+c.ExprStr(call.Args[1])+")")
		rObj = info.Defs[as.Lhs[0].(*ast.Ident)]
	}
	if rObj == nil {
		e.Run.Violation("R-SAVE", "restorer built with the package's path and the caller's resolver", pos, "no `r := NewRestorerWithImports(p.PkgPath, resolver)`")
	}

	// writeFile call sites
	type wsite struct {
		call  *ast.CallExpr
		stack []ast.Node
	}
	var writes []wsite
	var stack []ast.Node
	ast.Inspect(fd.Body, func(n ast.Node) bool {
		if n == nil {
			stack = stack[:len(stack)-1]
			return true
		}
		stack = append(stack, n)
		if call, ok := n.(*ast.CallExpr); ok {
			if id, ok := call.Fun.(*ast.Ident); ok && c.ObjOf(id) == writeParam {
				writes = append(writes, wsite{call, append([]ast.Node{}, stack...)})
			}
		}
		if id, ok := n.(*ast.Ident); ok && c.ObjOf(id) == writeParam {
			// any use that is not the callee of a call
			parent := stack[len(stack)-2]
			if call, ok := parent.(*ast.CallExpr); !ok || call.Fun != id {
				e.Run.Violation("R-SAVE", "writeFile is only called", e.Prog.Pos(id.Pos()), "the writer escapes (stored or passed on)")
			}
		}
		return true
	})
	e.Run.Check("R-SAVE", "exactly one write site", pos, len(writes) == 1, fmt.Sprintf("%d calls of writeFile in save", len(writes)))
	if len(writes) != 1 {
		return
	}
	w := writes[0]
	wpos := e.Prog.Pos(w.call.Pos())
	// enclosing range over p.Syntax
	var loop *ast.RangeStmt
	nLoops := 0
	for _, n := range w.stack {
		switch l := n.(type) {
		case *ast.RangeStmt:
			loop = l
			nLoops++
		case *ast.ForStmt:
			nLoops++
		}
	}
	okLoop := loop != nil && nLoops == 1
	var fileObj types.Object
	if okLoop {
		p, ok := c.Path(loop.X, recv)
		okLoop = ok && p == "Syntax"
		if id, ok := loop.Value.(*ast.Ident); ok {
			fileObj = info.Defs[id]
		}
		okLoop = okLoop && fileObj != nil
	}
	e.Run.Check("R-SAVE", "the write sits in a single range over p.Syntax", wpos, okLoop, "one file per decorated source file: the only loop around the write must be `for _, file := range p.Syntax`")
	if !okLoop {
		return
	}
	// the block that contains the write statement
	var blk *ast.BlockStmt
	var wstmt ast.Stmt
	for i := len(w.stack) - 1; i >= 0; i-- {
		if b, ok := w.stack[i].(*ast.BlockStmt); ok {
			blk = b
			wstmt = w.stack[i+1].(ast.Stmt)
			break
		}
	}
	e.Run.Check("R-SAVE", "the write is a statement of the loop body", wpos, blk == loop.Body, "the write is nested under a further condition or block")
	if blk != loop.Body {
		return
	}
	widx := -1
	for i, s := range blk.List {
		if s == wstmt {
			widx = i
		}
	}
	// args
	okArgs := len(w.call.Args) == 3
	var bufObj types.Object
	if okArgs {
		// name: p.Decorator.Filenames[file]
		okName := false
		if ix, ok := w.call.Args[0].(*ast.IndexExpr); ok {
			p, okp := c.Path(ix.X, recv)
			id, oki := ix.Index.(*ast.Ident)
			okName = okp && p == "Decorator.Filenames" && oki && c.ObjOf(id) == fileObj
		}
		e.Run.Check("R-SAVE", "file name is the decorator's record for this file", wpos, okName, "name operand is "+c.ExprStr(w.call.Args[0])+"; must be p.Decorator.Filenames[file] for the loop's file")
		// data: buf.Bytes()
		if dc, ok := w.call.Args[1].(*ast.CallExpr); ok && len(dc.Args) == 0 {
			if se, ok := dc.Fun.(*ast.SelectorExpr); ok && se.Sel.Name == "Bytes" {
				if id, ok := se.X.(*ast.Ident); ok {
					if fn := c.Callee(dc); fn != nil && funcKey(fn) == "(*bytes.Buffer).Bytes" {
						bufObj = c.ObjOf(id)
					}
				}
			}
		}
		e.Run.Check("R-SAVE", "data operand is the print buffer's bytes", wpos, bufObj != nil, "data operand is "+c.ExprStr(w.call.Args[1]))
	}
	if bufObj == nil {
		return
	}
	// buffer is allocated fresh inside the loop body, before the print
	bufIdx, printIdx := -1, -1
	printOK := false
	isBuf := func(x ast.Expr) bool {
		if u, ok := x.(*ast.UnaryExpr); ok && u.Op == token.AND {
			x = u.X
		}
		id, ok := x.(*ast.Ident)
		return ok && c.ObjOf(id) == bufObj
	}
	checked := checkedCalls(c, info, blk.List)
	for i, s := range blk.List[:widx+1] {
		if as, ok := s.(*ast.AssignStmt); ok && as.Tok == token.DEFINE && len(as.Lhs) == 1 {
			if id, ok := as.Lhs[0].(*ast.Ident); ok && info.Defs[id] == bufObj {
				if _, isAlloc := c.AllocOf(as.Rhs[0]); isAlloc {
					bufIdx = i
				}
			}
		}
		if es, ok := s.(*ast.ExprStmt); ok {
			// buf.Reset(): a buffer that lives across the iterations is emptied for this one
			if call, ok := es.X.(*ast.CallExpr); ok && len(call.Args) == 0 {
				if se, ok := call.Fun.(*ast.SelectorExpr); ok && se.Sel.Name == "Reset" && isBuf(se.X) {
					if fn := c.Callee(call); fn != nil && funcKey(fn) == "(*bytes.Buffer).Reset" {
						bufIdx = i
					}
				}
			}
		}
		if ds, ok := s.(*ast.DeclStmt); ok {
			// var buf bytes.Buffer — a fresh zero value per iteration
			if gd, ok := ds.Decl.(*ast.GenDecl); ok && gd.Tok == token.VAR {
				for _, sp := range gd.Specs {
					vs := sp.(*ast.ValueSpec)
					for _, nm := range vs.Names {
						if info.Defs[nm] == bufObj && len(vs.Values) == 0 {
							bufIdx = i
						}
					}
				}
			}
		}
	}
	werr := false
	for _, cc := range checked {
		call := cc.call
		fn := c.Callee(call)
		if fn != nil && fn.Name() == "Fprint" && len(call.Args) == 2 && (schema.IsMethod(fn, load.PkgDecorator, "Restorer", "Fprint") || schema.IsMethod(fn, load.PkgDecorator, "FileRestorer", "Fprint")) && cc.end < widx+1 && cc.start <= widx {
			recvOK := false
			if se, ok := call.Fun.(*ast.SelectorExpr); ok {
				if id, ok := se.X.(*ast.Ident); ok && c.ObjOf(id) == rObj {
					recvOK = true
				}
			}
			a1, ok1 := call.Args[1].(*ast.Ident)
			if cc.start < widx {
				printIdx = cc.start
				printOK = recvOK && isBuf(call.Args[0]) && ok1 && c.ObjOf(a1) == fileObj && cc.returnsErr
			}
		}
		if call == w.call {
			werr = cc.returnsErr
			widx = cc.start
		}
	}
	e.Run.Check("R-SAVE", "buffer is fresh per file", wpos, bufIdx >= 0 && (printIdx < 0 || bufIdx < printIdx), "the print buffer must be allocated inside the loop body before printing (a shared buffer would prepend earlier files' contents)")
	e.Run.Check("R-SAVE", "write is preceded by a successful import-managed print of the same file into the same buffer", wpos, printOK && printIdx >= 0,
		"before the write, the loop body must contain `if err := r.Fprint(buf, file); err != nil { return err }` with r the restorer built above; otherwise a file is written from a failed or foreign print")
	// between print and write the buffer is untouched
	clean := true
	if printIdx >= 0 {
		for si, s := range blk.List[printIdx+1 : widx] {
			if inChecked(checked, printIdx+1+si) {
				continue
			}
			ast.Inspect(s, func(n ast.Node) bool {
				if id, ok := n.(*ast.Ident); ok && c.ObjOf(id) == bufObj {
					clean = false
				}
				return true
			})
		}
	}
	e.Run.Check("R-SAVE", "buffer untouched between print and write", wpos, clean, "the buffer is used between the print and the write")
	e.Run.Check("R-SAVE", "write error is returned at once", wpos, werr, "the write's error must be checked and returned before the next file is touched")
	// no branch statement in the loop body that could skip or repeat
	bad := ""
	ast.Inspect(loop.Body, func(n ast.Node) bool {
		switch b := n.(type) {
		case *ast.BranchStmt:
			bad = b.Tok.String()
		case *ast.GoStmt:
			bad = "go"
		case *ast.DeferStmt:
			bad = "defer"
		case *ast.FuncLit:
			return false
		}
		return true
	})
	e.Run.Check("R-SAVE", "loop body has no continue/break/goto/go/defer", wpos, bad == "", "found "+bad)

	// Filenames is written only in DecorateNode, one entry per decorated file
	nW := 0
	for _, f := range load.AllFuncDecls(pkg) {
		if f.Body == nil {
			continue
		}
		ast.Inspect(f.Body, func(n ast.Node) bool {
			var targets []ast.Expr
			switch s := n.(type) {
			case *ast.AssignStmt:
				targets = s.Lhs
			case *ast.CallExpr:
				if id, ok := s.Fun.(*ast.Ident); ok && id.Name == "delete" && len(s.Args) == 2 {
					targets = []ast.Expr{&ast.IndexExpr{X: s.Args[0]}}
				}
			}
			for _, t := range targets {
				var base ast.Expr
				if ix, ok := t.(*ast.IndexExpr); ok {
					base = ix.X
				} else {
					base = t
				}
				if se, ok := base.(*ast.SelectorExpr); ok && se.Sel.Name == "Filenames" {
					if v, ok := info.Uses[se.Sel].(*types.Var); ok && v.IsField() {
						_, isIdx := t.(*ast.IndexExpr)
						if !isIdx {
							continue // constructor composite literal uses key:value, not assignment
						}
						nW++
						okFn := load.FuncName(f) == "(*Decorator).DecorateNode" || e.calledOnlyFrom(pkg, f, "DecorateNode")
						e.Run.Check("R-SAVE", "Filenames written in "+load.FuncName(f), e.Prog.Pos(t.Pos()), okFn,
							"the file-name table may only be filled while decorating (in DecorateNode or a helper only it calls)")
					}
				}
			}
			return true
		})
	}
	e.Run.Check("R-SAVE", "Filenames has its two writers (file, package files)", pos, nW == 2, fmt.Sprintf("%d stores to Decorator.Filenames", nW))
	e.filenamesWriters(c)
	e.Run.Analysed("functions", 4)
}

// returnsErr: the returned expression is the error itself or wraps it with %w.
func (e *Env) returnsErr(c *schema.Ctx, r ast.Expr, errObj types.Object) bool {
	if id, ok := r.(*ast.Ident); ok {
		return c.ObjOf(id) == errObj
	}
	if call, ok := r.(*ast.CallExpr); ok {
		if fn := c.Callee(call); fn != nil && funcKey(fn) == "fmt.Errorf" && len(call.Args) >= 2 {
			if f, ok := schema.StringLit(call.Args[0]); ok && strings.Contains(f, "%w") {
				for _, a := range call.Args[1:] {
					if id, ok := a.(*ast.Ident); ok && c.ObjOf(id) == errObj {
						return true
					}
				}
			}
		}
	}
	return false
}

// filenamesWriters: the value stored per file is the FileSet's *file name* of the file that
// contains the decorated node (not a //line-adjusted position), resp. the package's file-map key;
// the key is the dst file produced for that very node.
func (e *Env) filenamesWriters(c *schema.Ctx) {
	pkg := e.Prog.Pkg(load.PkgDecorator)
	info := pkg.TypesInfo
	fd := load.FuncDecl(pkg, "Decorator", "DecorateNode")
	if fd == nil {
		return
	}
	// n: the node parameter; out: result of decorateNode(..., n)
	var nParam types.Object
	for _, p := range fd.Type.Params.List {
		for _, nm := range p.Names {
			nParam = info.Defs[nm]
		}
	}
	var outObj types.Object
	ast.Inspect(fd.Body, func(n ast.Node) bool {
		as, ok := n.(*ast.AssignStmt)
		if !ok || len(as.Rhs) != 1 || len(as.Lhs) != 2 {
			return true
		}
		if call, ok := as.Rhs[0].(*ast.CallExpr); ok && schema.IsMethod(c.Callee(call), load.PkgDecorator, "fileDecorator", "decorateNode") && len(call.Args) == 5 {
			if id, ok := call.Args[4].(*ast.Ident); ok && c.ObjOf(id) == nParam {
				if oid, ok := as.Lhs[0].(*ast.Ident); ok {
					outObj = c.ObjOf(oid)
				}
			}
		}
		return true
	})
	// the stores may live in a helper that DecorateNode calls with (n, out): analyse that body with
	// its parameters bound to the arguments
	holder := fd
	c.Subst = map[types.Object]ast.Expr{}
	defer func() { c.Subst = nil }()
	hasStore := func(f *ast.FuncDecl) bool {
		found := false
		ast.Inspect(f.Body, func(n ast.Node) bool {
			if ix, ok := n.(*ast.IndexExpr); ok {
				if se, ok := ix.X.(*ast.SelectorExpr); ok && se.Sel.Name == "Filenames" {
					found = true
				}
			}
			return true
		})
		return found
	}
	if !hasStore(fd) {
		ast.Inspect(fd.Body, func(n ast.Node) bool {
			call, ok := n.(*ast.CallExpr)
			if !ok {
				return true
			}
			fn := c.Callee(call)
			if fn == nil || fn.Pkg() != pkg.Types {
				return true
			}
			for _, h := range load.AllFuncDecls(pkg) {
				if info.Defs[h.Name] == types.Object(fn) && h.Body != nil && hasStore(h) {
					holder = h
					i := 0
					for _, p := range h.Type.Params.List {
						for _, nm := range p.Names {
							if i < len(call.Args) {
								c.Subst[info.Defs[nm]] = call.Args[i]
							}
							i++
						}
					}
				}
			}
			return true
		})
	}
	isRoot := func(x ast.Expr, root types.Object) bool {
		if root == nil {
			return false
		}
		p, ok := c.Path(x, root)
		return ok && p == ""
	}
	rootedAtCaseVar := func(e2 ast.Expr, want func(types.Object) bool) bool {
		ok := false
		ast.Inspect(e2, func(n ast.Node) bool {
			if id, isID := n.(*ast.Ident); isID {
				if o := c.ObjOf(id); o != nil && want(o) {
					ok = true
				}
			}
			return true
		})
		return ok
	}
	ast.Inspect(holder.Body, func(n ast.Node) bool {
		cc, ok := n.(*ast.CaseClause)
		if !ok || len(cc.List) != 1 {
			return true
		}
		_, tn := schema.NamedTypeName(info.TypeOf(cc.List[0]))
		caseVar := info.Implicits[cc]
		for _, st := range cc.Body {
			ast.Inspect(st, func(m ast.Node) bool {
				as, ok := m.(*ast.AssignStmt)
				if !ok || len(as.Lhs) != 1 || len(as.Rhs) != 1 {
					return true
				}
				ix, ok := as.Lhs[0].(*ast.IndexExpr)
				if !ok {
					return true
				}
				se, ok := ix.X.(*ast.SelectorExpr)
				if !ok || se.Sel.Name != "Filenames" {
					return true
				}
				pos := e.Prog.Pos(as.Pos())
				switch tn {
				case "File":
					// value: <fset>.File(<pos rooted at the case's n>).Name()
					good := false
					rhs := ast.Unparen(as.Rhs[0])
					if id, ok := rhs.(*ast.Ident); ok {
						// a local that holds the name (`name := tf.Name()`)
						if def := singleDef(info, holder, id); def != nil {
							rhs = ast.Unparen(def)
						}
					}
					if call, ok := rhs.(*ast.CallExpr); ok && len(call.Args) == 0 && funcKey(c.Callee(call)) == "(*go/token.File).Name" {
						recvX := call.Fun.(*ast.SelectorExpr).X
						if id, ok := recvX.(*ast.Ident); ok {
							// a local holding the *token.File (e.g. `if tf := fset.File(pos); tf != nil`)
							if def := singleDef(info, holder, id); def != nil {
								recvX = def
							}
						}
						if inner, ok := recvX.(*ast.CallExpr); ok && len(inner.Args) == 1 && funcKey(c.Callee(inner)) == "(*go/token.FileSet).File" {
							good = rootedAtCaseVar(inner.Args[0], func(o types.Object) bool { return o == caseVar })
						}
					}
					e.Run.Check("R-SAVE", "file name recorded for a decorated file is the file set's name of that file", pos, good,
						"value stored is "+c.ExprStr(as.Rhs[0])+"; it must be Fset.File(<position of n>).Name() — the path the file was read from (Position().Filename follows //line directives and names another file)")
					// key: out.(*dst.File)
					keyOK := false
					if ta, ok := ix.Index.(*ast.TypeAssertExpr); ok && isRoot(ta.X, outObj) {
						keyOK = true
					}
					e.Run.Check("R-SAVE", "file name recorded under the dst file decorated from it", pos, keyOK, "key is "+c.ExprStr(ix.Index))
				case "Package":
					// inside `for k, v := range n.Files`: Filenames[d.Dst.Nodes[v].(*dst.File)] = k
					good := false
					var rs *ast.RangeStmt
					ast.Inspect(st, func(r ast.Node) bool {
						if x, ok := r.(*ast.RangeStmt); ok && x.Body.Pos() <= as.Pos() && as.End() <= x.Body.End() {
							rs = x
						}
						return true
					})
					if rs != nil {
						p, okp := c.Path(rs.X, caseVar)
						kid, okk := rs.Key.(*ast.Ident)
						vid, okv := rs.Value.(*ast.Ident)
						rid, okr := as.Rhs[0].(*ast.Ident)
						if okp && p == "Files" && okk && okv && okr && c.ObjOf(rid) == info.Defs[kid] {
							if ta, ok := ix.Index.(*ast.TypeAssertExpr); ok {
								if mix, ok := ta.X.(*ast.IndexExpr); ok {
									if id, ok := mix.Index.(*ast.Ident); ok && c.ObjOf(id) == info.Defs[vid] && strings.HasSuffix(c.ExprStr(mix.X), ".Dst.Nodes") {
										good = true
									}
								}
							}
						}
					}
					e.Run.Check("R-SAVE", "file names of a package recorded from its file map, keyed by the dst file of each entry", pos, good,
						"expected `for k, v := range n.Files { Filenames[Dst.Nodes[v].(*dst.File)] = k }`; found "+c.ExprStr(ix.Index)+" = "+c.ExprStr(as.Rhs[0]))
				default:
					e.Run.Violation("R-SAVE", "Filenames written for node kind "+tn, pos, "only files and packages have file names")
				}
				return true
			})
		}
		return true
	})
}

func init() {
	register("C20", Meta{
		Explanation: "Who-may-write and ordering analysis: in the in-scope packages the only reference to a file-system mutator is ioutil.WriteFile handed to save by Save/SaveWithResolver; in save the single write sits in the one range over p.Syntax, is preceded in the same iteration by a successful r.Fprint(buf, file) into a buffer allocated in that iteration with r = NewRestorerWithImports(p.PkgPath, resolver), writes buf.Bytes() to p.Decorator.Filenames[file]; both error branches return the error at once; Filenames is written only in DecorateNode from the file set / package map. Decides 'exactly its files, nowhere else, stop at first error' for all packages; byte identity of unedited files inherits C08's limits.",
		NotCovered:  []string{"on-disk byte identity for unedited files (goes through go/printer; see C08)"},
	}, func(e *Env) {
		e.RWho()
		e.C20Save()
		e.RReadOnlyResolvers()
		e.RGates()
		e.RCacheAfterSuccess()
	})
}

// singleDef returns the defining expression of a local that is defined exactly once in fd.
func singleDef(info *types.Info, fd *ast.FuncDecl, id *ast.Ident) ast.Expr {
	obj := info.Uses[id]
	if obj == nil {
		return nil
	}
	var def ast.Expr
	n := 0
	ast.Inspect(fd.Body, func(nd ast.Node) bool {
		as, ok := nd.(*ast.AssignStmt)
		if !ok {
			return true
		}
		for i, l := range as.Lhs {
			lid, ok := l.(*ast.Ident)
			if !ok {
				continue
			}
			if info.Defs[lid] == obj || (as.Tok != token.DEFINE && info.Uses[lid] == obj) {
				n++
				if len(as.Lhs) == len(as.Rhs) {
					def = as.Rhs[i]
				}
			}
		}
		return true
	})
	if n == 1 {
		return def
	}
	return nil
}

type checkedCall struct {
	call       *ast.CallExpr
	start, end int // statement indices covered (end exclusive)
	returnsErr bool
}

// checkedCalls recognises both spellings of an immediately checked call in a statement list:
// `if err := f(); err != nil { return err }` and `err := f()` / `err = f()` followed by
// `if err != nil { return err }`.
func checkedCalls(c *schema.Ctx, info *types.Info, list []ast.Stmt) []checkedCall {
	var out []checkedCall
	errReturn := func(is *ast.IfStmt, errObj types.Object) bool {
		be, ok := is.Cond.(*ast.BinaryExpr)
		if !ok || be.Op != token.NEQ {
			return false
		}
		id, ok := be.X.(*ast.Ident)
		if !ok || c.ObjOf(id) != errObj || !info.Types[be.Y].IsNil() || len(is.Body.List) != 1 {
			return false
		}
		rs, ok := is.Body.List[0].(*ast.ReturnStmt)
		if !ok || len(rs.Results) != 1 {
			return false
		}
		rid, ok := rs.Results[0].(*ast.Ident)
		return ok && c.ObjOf(rid) == errObj
	}
	objOf := func(x ast.Expr) types.Object {
		id, ok := x.(*ast.Ident)
		if !ok {
			return nil
		}
		if o := info.Defs[id]; o != nil {
			return o
		}
		return info.Uses[id]
	}
	for i, st := range list {
		switch s := st.(type) {
		case *ast.IfStmt:
			if as, ok := s.Init.(*ast.AssignStmt); ok && len(as.Lhs) == 1 && len(as.Rhs) == 1 {
				if call, ok := as.Rhs[0].(*ast.CallExpr); ok {
					out = append(out, checkedCall{call, i, i + 1, errReturn(s, objOf(as.Lhs[0]))})
				}
			}
		case *ast.AssignStmt:
			if len(s.Lhs) == 1 && len(s.Rhs) == 1 {
				if call, ok := s.Rhs[0].(*ast.CallExpr); ok && i+1 < len(list) {
					if is, ok := list[i+1].(*ast.IfStmt); ok && is.Init == nil {
						out = append(out, checkedCall{call, i, i + 2, errReturn(is, objOf(s.Lhs[0]))})
					}
				}
			}
		}
	}
	return out
}

func inChecked(cs []checkedCall, idx int) bool {
	for _, c := range cs {
		if c.start <= idx && idx < c.end {
			return true
		}
	}
	return false
}

// calledOnlyFrom: every call of f in pkg sits in the function named caller.
func (e *Env) calledOnlyFrom(pkg *packages.Package, f *ast.FuncDecl, caller string) bool {
	info := pkg.TypesInfo
	target := info.Defs[f.Name]
	n, ok := 0, true
	for _, g := range load.AllFuncDecls(pkg) {
		if g.Body == nil {
			continue
		}
		ast.Inspect(g.Body, func(nd ast.Node) bool {
			if call, isCall := nd.(*ast.CallExpr); isCall {
				if fn := calleeFunc(info, call); fn != nil && types.Object(fn) == target {
					n++
					if g.Name.Name != caller {
						ok = false
					}
				}
			}
			return true
		})
	}
	return ok && n >= 1
}

// truncatingWriter: fn is a function of the decorator package with the signature of os.WriteFile
// that opens the named file with os.OpenFile(name, O_WRONLY|O_CREATE|O_TRUNC, perm) — exactly those
// flags, by constant value —, writes the data to it and closes it: what os.WriteFile does. Without
// O_TRUNC a shorter print would leave the tail of the old contents in the file.
func (e *Env) truncatingWriter(fn *types.Func) bool {
	pkg := e.Prog.Pkg(load.PkgDecorator)
	info := pkg.TypesInfo
	if fn == nil || fn.Pkg() != pkg.Types {
		return false
	}
	sig, ok := fn.Type().(*types.Signature)
	if !ok || sig.Recv() != nil || sig.Params().Len() != 3 || sig.Results().Len() != 1 {
		return false
	}
	var fd *ast.FuncDecl
	for _, d := range load.AllFuncDecls(pkg) {
		if info.Defs[d.Name] == types.Object(fn) {
			fd = d
		}
	}
	osPkg := e.Prog.All["os"]
	if fd == nil || fd.Body == nil || osPkg == nil {
		return false
	}
	want := int64(0)
	for _, nm := range []string{"O_WRONLY", "O_CREATE", "O_TRUNC"} {
		cst, ok := osPkg.Types.Scope().Lookup(nm).(*types.Const)
		if !ok {
			return false
		}
		v, ok := constant.Int64Val(cst.Val())
		if !ok {
			return false
		}
		want |= v
	}
	opens, writes, closes := false, false, false
	ast.Inspect(fd.Body, func(n ast.Node) bool {
		call, ok := n.(*ast.CallExpr)
		if !ok {
			return true
		}
		switch k := funcKey(calleeFunc(info, call)); k {
		case "os.OpenFile":
			if len(call.Args) == 3 {
				if tv, ok := info.Types[call.Args[1]]; ok && tv.Value != nil {
					if v, ok := constant.Int64Val(tv.Value); ok && v == want {
						opens = true
					}
				}
			}
		case "(*os.File).Write":
			writes = true
		case "(*os.File).Close":
			closes = true
		}
		return true
	})
	return opens && writes && closes
}
