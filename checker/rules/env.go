// Package rules holds the rule families of DESIGN.md section 2.2 and the per-property drivers.
package rules

import (
	"fmt"
	"go/types"
	"regexp"
	"sort"
	"strings"

	"dstverif/load"
	"dstverif/report"
	"dstverif/schema"
)

// Env is what every rule sees.
type Env struct {
	Prog *load.Program
	Sib  *schema.Siblings
	Run  *report.Run
	Tier string

	dstTypes map[string]*NodeType
	astTypes map[string]*NodeType
	ssa      *ssaState
}

// FieldKind classifies a struct field of a node type.
type FieldKind int

const (
	FValue      FieldKind = iota // string, bool, int, token.Token, ChanDir ... (immutable kinds)
	FPos                         // token.Pos
	FNode                        // pointer to node struct or node interface
	FNodeSlice                   // slice of nodes
	FNodeMap                     // map[string]node
	FObjMap                      // map[string]*Object
	FObject                      // *Object
	FScope                       // *Scope
	FDecs                        // the Decs struct
	FComment                     // *CommentGroup / []*CommentGroup
	FIdentSlice                  // []*Ident that is not syntax (File.Unresolved)
	FOther
)

func (k FieldKind) String() string {
	return [...]string{"value", "pos", "node", "nodeslice", "nodemap", "objmap", "object", "scope", "decs", "comment", "unresolved", "other"}[k]
}

// Field is one struct field.
type Field struct {
	Name string
	Kind FieldKind
	Type types.Type
	Elem string // element / pointee type name for node kinds ("Expr", "Ident", ...)
	Ptr  bool   // concrete pointer (vs interface)
}

// NodeType is one struct type implementing Node.
type NodeType struct {
	Name   string
	Named  *types.Named
	Struct *types.Struct
	Fields []Field
	ByName map[string]*Field
	Ifaces []string // which of Expr/Stmt/Decl/Spec it implements
}

// NewEnv builds the environment (extracts the siblings, computes struct facts).
func NewEnv(prog *load.Program, run *report.Run, tier string) (*Env, error) {
	sib, err := schema.ExtractAll(prog)
	if err != nil {
		return nil, err
	}
	e := &Env{Prog: prog, Sib: sib, Run: run, Tier: tier}
	e.dstTypes = e.nodeTypes(load.PkgDst)
	e.astTypes = e.nodeTypes("go/ast")
	if len(e.dstTypes) < 50 || len(e.astTypes) < 50 {
		return nil, fmt.Errorf("node type discovery found %d dst / %d ast node types (floor 50)", len(e.dstTypes), len(e.astTypes))
	}
	return e, nil
}

// nodeTypes discovers every struct type T of pkg with *T implementing pkg.Node.
func (e *Env) nodeTypes(pkgPath string) map[string]*NodeType {
	pkg := e.Prog.Pkg(pkgPath).Types
	nodeObj := pkg.Scope().Lookup("Node")
	if nodeObj == nil {
		return nil
	}
	nodeIface, _ := nodeObj.Type().Underlying().(*types.Interface)
	ifaces := map[string]*types.Interface{}
	for _, n := range []string{"Expr", "Stmt", "Decl", "Spec"} {
		if o := pkg.Scope().Lookup(n); o != nil {
			if it, ok := o.Type().Underlying().(*types.Interface); ok {
				ifaces[n] = it
			}
		}
	}
	out := map[string]*NodeType{}
	for _, name := range pkg.Scope().Names() {
		tn, ok := pkg.Scope().Lookup(name).(*types.TypeName)
		if !ok || tn.IsAlias() {
			continue
		}
		named, ok := tn.Type().(*types.Named)
		if !ok {
			continue
		}
		st, ok := named.Underlying().(*types.Struct)
		if !ok {
			continue
		}
		if !types.Implements(types.NewPointer(named), nodeIface) {
			continue
		}
		nt := &NodeType{Name: name, Named: named, Struct: st, ByName: map[string]*Field{}}
		for in, it := range ifaces {
			if types.Implements(types.NewPointer(named), it) {
				nt.Ifaces = append(nt.Ifaces, in)
			}
		}
		sort.Strings(nt.Ifaces)
		for i := 0; i < st.NumFields(); i++ {
			f := st.Field(i)
			nt.Fields = append(nt.Fields, classifyField(f, pkgPath, nodeIface))
		}
		for i := range nt.Fields {
			nt.ByName[nt.Fields[i].Name] = &nt.Fields[i]
		}
		out[name] = nt
	}
	return out
}

func classifyField(f *types.Var, pkgPath string, nodeIface *types.Interface) Field {
	fl := Field{Name: f.Name(), Type: f.Type(), Kind: FOther}
	t := types.Unalias(f.Type())
	isNode := func(t types.Type) (string, bool, bool) {
		t = types.Unalias(t)
		if p, ok := t.(*types.Pointer); ok {
			if n, ok := types.Unalias(p.Elem()).(*types.Named); ok && n.Obj().Pkg() != nil && n.Obj().Pkg().Path() == pkgPath {
				if _, isStruct := n.Underlying().(*types.Struct); isStruct && types.Implements(t, nodeIface) {
					return n.Obj().Name(), true, true
				}
			}
			return "", false, false
		}
		if n, ok := t.(*types.Named); ok && n.Obj().Pkg() != nil && n.Obj().Pkg().Path() == pkgPath {
			if it, ok := n.Underlying().(*types.Interface); ok && types.Implements(n, nodeIface) && it.NumMethods() > 0 {
				return n.Obj().Name(), false, true
			}
		}
		return "", false, false
	}
	pkgName := func(t types.Type) (string, string) { return schema.NamedTypeName(t) }
	if f.Name() == "Decs" {
		fl.Kind = FDecs
		return fl
	}
	if p, n := pkgName(t); p == "go/token" && n == "Pos" {
		fl.Kind = FPos
		return fl
	}
	if p, n := pkgName(t); p == pkgPath && n == "CommentGroup" {
		fl.Kind = FComment
		return fl
	}
	if p, n := pkgName(t); p == pkgPath && n == "Object" {
		fl.Kind = FObject
		return fl
	}
	if p, n := pkgName(t); p == pkgPath && n == "Scope" {
		fl.Kind = FScope
		return fl
	}
	if el, ptr, ok := isNode(t); ok {
		fl.Kind, fl.Elem, fl.Ptr = FNode, el, ptr
		return fl
	}
	switch u := t.(type) {
	case *types.Slice:
		if p, n := pkgName(u.Elem()); p == pkgPath && n == "CommentGroup" {
			fl.Kind = FComment
			return fl
		}
		if el, ptr, ok := isNode(u.Elem()); ok {
			fl.Kind, fl.Elem, fl.Ptr = FNodeSlice, el, ptr
			if f.Name() == "Unresolved" {
				fl.Kind = FIdentSlice
			}
			return fl
		}
	case *types.Map:
		if p, n := pkgName(u.Elem()); p == pkgPath && n == "Object" {
			fl.Kind = FObjMap
			return fl
		}
		if el, ptr, ok := isNode(u.Elem()); ok {
			fl.Kind, fl.Elem, fl.Ptr = FNodeMap, el, ptr
			return fl
		}
	case *types.Basic:
		fl.Kind = FValue
		return fl
	}
	if b, ok := t.Underlying().(*types.Basic); ok && b.Info()&(types.IsInteger|types.IsString|types.IsBoolean) != 0 {
		// named basic kinds: token.Token, ChanDir, ObjKind, SpaceType
		fl.Kind = FValue
		return fl
	}
	return fl
}

// sortedKeys returns the sorted keys of a string-keyed map.
func sortedKeys[V any](m map[string]V) []string {
	out := make([]string, 0, len(m))
	for k := range m {
		out = append(out, k)
	}
	sort.Strings(out)
	return out
}

var pathRe = regexp.MustCompile(`\bn((?:\.[A-Za-z_][A-Za-z0-9_]*)+)`)

// pathsIn returns the `n.A.B` paths occurring in a normalised expression string ("A.B").
func pathsIn(s string) []string {
	var out []string
	for _, m := range pathRe.FindAllStringSubmatch(s, -1) {
		out = append(out, strings.TrimPrefix(m[1], "."))
	}
	return out
}

// substPaths rewrites every n.<path> in s through f (which receives the path without "n.").
// f returns the replacement for the longest prefix it knows and the number of components it
// consumed (0 = leave unchanged).
func substPaths(s string, f func(parts []string) (string, int)) string {
	return pathRe.ReplaceAllStringFunc(s, func(m string) string {
		parts := strings.Split(strings.TrimPrefix(m, "n."), ".")
		rep, n := f(parts)
		if n == 0 {
			return m
		}
		rest := parts[n:]
		if len(rest) > 0 {
			return rep + "." + strings.Join(rest, ".")
		}
		return rep
	})
}

func (e *Env) pos(p interface{ IsValid() bool }) string { return "" }

// casePos renders the position of a case.
func (e *Env) casePos(c *schema.Case) string {
	if c == nil {
		return "-"
	}
	return e.Prog.Pos(c.Pos)
}
