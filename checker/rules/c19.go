package rules

import (
	"fmt"
	"go/ast"
	"go/token"
	"go/types"
	"strings"

	"dstverif/load"
)

// C19: abstract evaluation of the five Decorations methods over sequences of the atoms
// D (the receiver's old contents) and A (the argument). append(x, y...) ↦ x·y keeping x's base.

type absSeq struct {
	atoms []string // "D", "A"
	base  string   // "recv", "arg", "fresh", "nil", "?"
	ok    bool
	why   string
}

func (s absSeq) String() string {
	if !s.ok {
		return "⊤(" + s.why + ")"
	}
	a := strings.Join(s.atoms, "·")
	if a == "" {
		a = "ε"
	}
	return a + " [base " + s.base + "]"
}

type c19eval struct {
	info *types.Info
	recv types.Object
	arg  types.Object
}

func (ev *c19eval) eval(e ast.Expr) absSeq {
	switch x := e.(type) {
	case *ast.ParenExpr:
		return ev.eval(x.X)
	case *ast.StarExpr:
		if id, ok := x.X.(*ast.Ident); ok && ev.info.Uses[id] == ev.recv {
			return absSeq{atoms: []string{"D"}, base: "recv", ok: true}
		}
	case *ast.Ident:
		if tv, ok := ev.info.Types[x]; ok && tv.IsNil() {
			return absSeq{base: "nil", ok: true}
		}
		if ev.arg != nil && ev.info.Uses[x] == ev.arg {
			return absSeq{atoms: []string{"A"}, base: "arg", ok: true}
		}
	case *ast.CompositeLit:
		if len(x.Elts) == 0 {
			if _, isSlice := ev.info.TypeOf(x).Underlying().(*types.Slice); isSlice {
				return absSeq{base: "fresh", ok: true}
			}
		}
	case *ast.CallExpr:
		if id, ok := x.Fun.(*ast.Ident); ok {
			if _, isB := ev.info.Uses[id].(*types.Builtin); isB && id.Name == "append" {
				if len(x.Args) == 1 {
					return ev.eval(x.Args[0])
				}
				if len(x.Args) == 2 && x.Ellipsis.IsValid() {
					a, b := ev.eval(x.Args[0]), ev.eval(x.Args[1])
					if !a.ok {
						return a
					}
					if !b.ok {
						return b
					}
					base := a.base
					if base == "nil" {
						base = "fresh" // append to nil allocates
					}
					return absSeq{atoms: append(append([]string{}, a.atoms...), b.atoms...), base: base, ok: true}
				}
			}
			if _, isB := ev.info.Uses[id].(*types.Builtin); isB && id.Name == "make" {
				return absSeq{ok: false, why: "make with a length is not ε"}
			}
		}
		// conversion Decorations(x) / []string(x)
		if tv, ok := ev.info.Types[x.Fun]; ok && tv.IsType() && len(x.Args) == 1 {
			return ev.eval(x.Args[0])
		}
	}
	return absSeq{ok: false, why: "expression outside the analysable subset: " + types.ExprString(e)}
}

func (e *Env) C19() {
	pkg := e.Prog.Pkg(load.PkgDst)
	want := map[string]struct {
		atoms  string
		ret    bool
		hasArg bool
	}{
		"Append":  {"D·A", false, true},
		"Prepend": {"A·D", false, true},
		"Replace": {"A", false, true},
		"Clear":   {"", false, false},
		"All":     {"D", true, false},
	}
	for _, name := range []string{"Append", "Prepend", "Replace", "Clear", "All"} {
		w := want[name]
		fd := load.FuncDecl(pkg, "Decorations", name)
		key := "Decorations." + name
		if fd == nil || fd.Body == nil {
			e.Run.Violation("R-LIST", key+" exists", "", "method missing")
			continue
		}
		pos := e.Prog.Pos(fd.Pos())
		_, ptrRecv := fd.Recv.List[0].Type.(*ast.StarExpr)
		e.Run.Check("R-LIST", key+" has a pointer receiver", pos, ptrRecv, "a value receiver would update a copy of the list")
		ev := &c19eval{info: pkg.TypesInfo}
		if len(fd.Recv.List[0].Names) == 1 {
			ev.recv = pkg.TypesInfo.Defs[fd.Recv.List[0].Names[0]]
		}
		if fd.Type.Params != nil && len(fd.Type.Params.List) == 1 && len(fd.Type.Params.List[0].Names) == 1 {
			ev.arg = pkg.TypesInfo.Defs[fd.Type.Params.List[0].Names[0]]
			_, variadic := fd.Type.Params.List[0].Type.(*ast.Ellipsis)
			e.Run.Check("R-LIST", key+" takes a variadic list", pos, variadic, "signature changed")
		}
		if len(fd.Body.List) != 1 {
			e.Run.Undecided("R-LIST", key+" is a single statement", pos, fmt.Sprintf("%d statements: outside the straight-line subset", len(fd.Body.List)))
			continue
		}
		var val absSeq
		switch st := fd.Body.List[0].(type) {
		case *ast.AssignStmt:
			okShape := !w.ret && st.Tok == token.ASSIGN && len(st.Lhs) == 1 && len(st.Rhs) == 1
			if okShape {
				star, isStar := st.Lhs[0].(*ast.StarExpr)
				okShape = isStar
				if isStar {
					id, isID := star.X.(*ast.Ident)
					okShape = isID && pkg.TypesInfo.Uses[id] == ev.recv
				}
			}
			if !okShape {
				e.Run.Violation("R-LIST", key+" stores the new list into the receiver", pos, "the single statement is not `*d = <expr>`")
				continue
			}
			val = ev.eval(st.Rhs[0])
		case *ast.ReturnStmt:
			if !w.ret || len(st.Results) != 1 {
				e.Run.Violation("R-LIST", key+" result", pos, "unexpected return")
				continue
			}
			val = ev.eval(st.Results[0])
		default:
			e.Run.Undecided("R-LIST", key+" statement kind", pos, fmt.Sprintf("%T is outside the straight-line subset", st))
			continue
		}
		if !val.ok {
			e.Run.Undecided("R-LIST", key+" value", pos, val.why)
			continue
		}
		e.Run.Check("R-LIST", key+" contents", pos, strings.Join(val.atoms, "·") == w.atoms,
			fmt.Sprintf("abstract value %s; an ordered list requires %s (D = old contents, A = arguments)", val, orEps(w.atoms)))
		if w.ret {
			e.Run.Check("R-LIST", key+" returns the receiver's own slice", pos, val.base == "recv", "All must return what is stored (and therefore rendered); got base "+val.base)
			continue
		}
		// freshness: stored slice's base is the receiver's own slice or fresh; never the argument
		e.Run.Check("R-LIST", key+" does not retain or write into the argument", pos, val.base != "arg",
			fmt.Sprintf("the stored slice is based on the caller's argument slice (%s): it aliases it, and append may write into its spare capacity", val))
		if name == "Prepend" || name == "Replace" {
			e.Run.Check("R-LIST", key+" builds on a fresh slice", pos, val.base == "fresh", "base is "+val.base)
		}
	}
	e.Run.Analysed("methods", 5)
	e.Run.Floor("R-LIST", "methods evaluated", 5, 5)
}

func orEps(s string) string {
	if s == "" {
		return "ε"
	}
	return s
}

func init() {
	register("C19", Meta{
		Explanation: "Abstract evaluation of the five Decorations methods (each a single statement) over sequences of two atoms, D = old contents and A = the argument: Append stores D·A, Prepend A·D on a fresh base, Replace A on a fresh base, Clear ε, All returns the receiver's own slice; the stored slice is never based on the argument (no retention, no write into its spare capacity). Since each method is a function of (D, A) only, this decides the list behaviour for every call sequence. A loop or helper call makes the method UNDECIDED.",
	}, func(e *Env) { e.C19() })
}
