package rules

import (
	"fmt"
	"go/ast"
	"go/token"
	"go/types"
	"strings"

	"dstverif/load"
)

// C19: abstract evaluation of the five Decorations methods over sequences of the atoms
// D (the receiver's old contents) and A (the argument). append(x, y...) ↦ x·y keeping x's base.

type absSeq struct {
	atoms   []string // "D", "A"
	unknown bool     // contents not expressible (partial slice): base still tracked
	base    string   // "recv", "arg", "fresh", "nil"
	ok      bool
	why     string
}

func (s absSeq) String() string {
	if !s.ok {
		return "⊤(" + s.why + ")"
	}
	a := strings.Join(s.atoms, "·")
	if a == "" {
		a = "ε"
	}
	if s.unknown {
		a = "?"
	}
	return a + " [base " + s.base + "]"
}

type c19eval struct {
	info   *types.Info
	recv   types.Object
	arg    types.Object
	vars   map[types.Object]absSeq // locals
	cur    *absSeq                 // current abstract value of *d (nil = D unchanged)
	copies []absSeq                // destinations of copy() calls
}

func (ev *c19eval) eval(e ast.Expr) absSeq {
	switch x := e.(type) {
	case *ast.ParenExpr:
		return ev.eval(x.X)
	case *ast.StarExpr:
		if id, ok := x.X.(*ast.Ident); ok && ev.info.Uses[id] == ev.recv {
			if ev.cur != nil {
				return *ev.cur
			}
			return absSeq{atoms: []string{"D"}, base: "recv", ok: true}
		}
	case *ast.Ident:
		if tv, ok := ev.info.Types[x]; ok && tv.IsNil() {
			return absSeq{base: "nil", ok: true}
		}
		if ev.arg != nil && ev.info.Uses[x] == ev.arg {
			return absSeq{atoms: []string{"A"}, base: "arg", ok: true}
		}
		if v, ok := ev.vars[ev.info.Uses[x]]; ok {
			return v
		}
	case *ast.SliceExpr:
		v := ev.eval(x.X)
		if !v.ok {
			return v
		}
		full := x.Low == nil || types.ExprString(x.Low) == "0"
		if x.High != nil && types.ExprString(x.High) != "len("+types.ExprString(x.X)+")" {
			full = false
		}
		if !full {
			v.unknown = true
		}
		if v.base == "nil" {
			v.base = "fresh"
		}
		return v // a slice expression shares its operand's backing array
	case *ast.CompositeLit:
		if len(x.Elts) == 0 {
			if _, isSlice := ev.info.TypeOf(x).Underlying().(*types.Slice); isSlice {
				return absSeq{base: "fresh", ok: true}
			}
		}
	case *ast.CallExpr:
		if id, ok := x.Fun.(*ast.Ident); ok {
			if _, isB := ev.info.Uses[id].(*types.Builtin); isB && id.Name == "append" {
				if len(x.Args) == 1 {
					return ev.eval(x.Args[0])
				}
				if len(x.Args) == 2 && x.Ellipsis.IsValid() {
					a, b := ev.eval(x.Args[0]), ev.eval(x.Args[1])
					if !a.ok {
						return a
					}
					if !b.ok {
						return b
					}
					base := a.base
					if base == "nil" {
						base = "fresh" // append to nil allocates
					}
					return absSeq{atoms: append(append([]string{}, a.atoms...), b.atoms...), unknown: a.unknown || b.unknown, base: base, ok: true}
				}
			}
			if _, isB := ev.info.Uses[id].(*types.Builtin); isB && id.Name == "make" {
				return absSeq{ok: false, why: "make with a length is not ε"}
			}
		}
		// conversion Decorations(x) / []string(x)
		if tv, ok := ev.info.Types[x.Fun]; ok && tv.IsType() && len(x.Args) == 1 {
			return ev.eval(x.Args[0])
		}
	}
	return absSeq{ok: false, why: "expression outside the analysable subset: " + types.ExprString(e)}
}

type c19path struct {
	val         absSeq
	conditional bool
}

// run interprets a statement list over all paths (conditions are not interpreted: every branch is
// taken). It returns the final value per path: the value stored in *d (or returned, for All).
func (ev *c19eval) run(list []ast.Stmt) (paths []c19path, undecided string) {
	type state struct {
		cur         *absSeq
		vars        map[types.Object]absSeq
		conditional bool
	}
	clone := func(s state) state {
		n := state{conditional: s.conditional, vars: map[types.Object]absSeq{}}
		if s.cur != nil {
			c := *s.cur
			n.cur = &c
		}
		for k, v := range s.vars {
			n.vars[k] = v
		}
		return n
	}
	finish := func(s state, ret *absSeq) {
		if ret != nil {
			paths = append(paths, c19path{*ret, s.conditional})
			return
		}
		v := absSeq{atoms: []string{"D"}, base: "recv", ok: true}
		if s.cur != nil {
			v = *s.cur
		}
		paths = append(paths, c19path{v, s.conditional})
	}
	var exec func(list []ast.Stmt, s state) (live []state)
	exec = func(list []ast.Stmt, s state) []state {
		live := []state{s}
		for _, st := range list {
			var next []state
			for _, cs := range live {
				ev.cur, ev.vars = cs.cur, cs.vars
				switch x := st.(type) {
				case *ast.AssignStmt:
					if len(x.Lhs) != 1 || len(x.Rhs) != 1 {
						undecided = "multi-assignment"
						return nil
					}
					v := ev.eval(x.Rhs[0])
					if star, ok := x.Lhs[0].(*ast.StarExpr); ok {
						if id, ok := star.X.(*ast.Ident); ok && ev.info.Uses[id] == ev.recv && x.Tok == token.ASSIGN {
							ns := clone(cs)
							ns.cur = &v
							next = append(next, ns)
							continue
						}
					}
					if id, ok := x.Lhs[0].(*ast.Ident); ok {
						obj := ev.info.Defs[id]
						if obj == nil {
							obj = ev.info.Uses[id]
						}
						if obj != nil && obj != ev.arg && obj != ev.recv {
							ns := clone(cs)
							if _, isSlice := obj.Type().Underlying().(*types.Slice); isSlice {
								ns.vars[obj] = v
							}
							next = append(next, ns)
							continue
						}
					}
					undecided = "assignment to " + types.ExprString(x.Lhs[0])
					return nil
				case *ast.ReturnStmt:
					if len(x.Results) == 1 {
						v := ev.eval(x.Results[0])
						finish(cs, &v)
					} else {
						finish(cs, nil)
					}
				case *ast.IfStmt:
					if x.Init != nil {
						undecided = "if with init statement"
						return nil
					}
					a := clone(cs)
					a.conditional = true
					next = append(next, exec(x.Body.List, a)...)
					b := clone(cs)
					b.conditional = true
					switch el := x.Else.(type) {
					case nil:
						next = append(next, b)
					case *ast.BlockStmt:
						next = append(next, exec(el.List, b)...)
					case *ast.IfStmt:
						next = append(next, exec([]ast.Stmt{el}, b)...)
					}
					if undecided != "" {
						return nil
					}
				case *ast.ExprStmt:
					if call, ok := x.X.(*ast.CallExpr); ok {
						if id, ok := call.Fun.(*ast.Ident); ok && id.Name == "copy" && len(call.Args) == 2 {
							if _, isB := ev.info.Uses[id].(*types.Builtin); isB {
								ev.copies = append(ev.copies, ev.eval(call.Args[0]))
								next = append(next, cs)
								continue
							}
						}
					}
					undecided = "call statement " + types.ExprString(x.X)
					return nil
				case *ast.EmptyStmt:
					next = append(next, cs)
				default:
					undecided = fmt.Sprintf("%T is outside the analysable subset (loops, helper calls)", st)
					return nil
				}
			}
			live = next
		}
		return live
	}
	for _, s := range exec(list, state{vars: map[types.Object]absSeq{}}) {
		finish(s, nil)
	}
	return
}

func (e *Env) C19() {
	pkg := e.Prog.Pkg(load.PkgDst)
	want := map[string]struct {
		atoms  string
		ret    bool
		hasArg bool
	}{
		"Append":  {"D·A", false, true},
		"Prepend": {"A·D", false, true},
		"Replace": {"A", false, true},
		"Clear":   {"", false, false},
		"All":     {"D", true, false},
	}
	for _, name := range []string{"Append", "Prepend", "Replace", "Clear", "All"} {
		w := want[name]
		fd := load.FuncDecl(pkg, "Decorations", name)
		key := "Decorations." + name
		if fd == nil || fd.Body == nil {
			e.Run.Violation("R-LIST", key+" exists", "", "method missing")
			continue
		}
		pos := e.Prog.Pos(fd.Pos())
		_, ptrRecv := fd.Recv.List[0].Type.(*ast.StarExpr)
		e.Run.Check("R-LIST", key+" has a pointer receiver", pos, ptrRecv, "a value receiver would update a copy of the list")
		ev := &c19eval{info: pkg.TypesInfo}
		if len(fd.Recv.List[0].Names) == 1 {
			ev.recv = pkg.TypesInfo.Defs[fd.Recv.List[0].Names[0]]
		}
		if fd.Type.Params != nil && len(fd.Type.Params.List) == 1 && len(fd.Type.Params.List[0].Names) == 1 {
			ev.arg = pkg.TypesInfo.Defs[fd.Type.Params.List[0].Names[0]]
			_, variadic := fd.Type.Params.List[0].Type.(*ast.Ellipsis)
			e.Run.Check("R-LIST", key+" takes a variadic list", pos, variadic, "signature changed")
		}
		paths, undecided := ev.run(fd.Body.List)
		if undecided != "" {
			e.Run.Undecided("R-LIST", key+" is in the analysable subset", pos, undecided)
			continue
		}
		if len(paths) == 0 {
			e.Run.Undecided("R-LIST", key+" has a path", pos, "no path to the end of the method")
			continue
		}
		for _, v := range ev.copies {
			e.Run.Check("R-LIST", key+" does not write into the argument", pos, v.base != "arg", "copy() destination is based on the caller's argument slice")
		}
		for pi, pth := range paths {
			pk := key
			if len(paths) > 1 {
				pk = fmt.Sprintf("%s path %d", key, pi+1)
			}
			val := pth.val
			if !val.ok {
				e.Run.Undecided("R-LIST", pk+" value", pos, val.why)
				continue
			}
			contentsOK := !val.unknown && strings.Join(val.atoms, "·") == w.atoms
			switch {
			case contentsOK:
				e.Run.OK("R-LIST", pk+" contents", pos, fmt.Sprintf("abstract value %s", val))
			case !pth.conditional && !val.unknown:
				e.Run.Violation("R-LIST", pk+" contents", pos, fmt.Sprintf("abstract value %s; an ordered list requires %s (D = old contents, A = arguments)", val, orEps(w.atoms)))
			default:
				if val.base != "arg" {
					e.Run.Undecided("R-LIST", pk+" contents", pos, fmt.Sprintf("abstract value %s on a conditional path or through a partial slice; expected %s", val, orEps(w.atoms)))
				}
			}
			if w.ret {
				e.Run.Check("R-LIST", pk+" returns the receiver's own slice", pos, val.base == "recv", "All must return what is stored (and therefore rendered); got base "+val.base)
				continue
			}
			// freshness: stored slice's base is the receiver's own slice or fresh; never the argument
			e.Run.Check("R-LIST", pk+" does not retain or write into the argument", pos, val.base != "arg",
				fmt.Sprintf("on some path the stored slice is based on the caller's argument slice (%s): the list aliases it (later caller writes show up in the list / are rendered) and append may write into its spare capacity", val))
			if (name == "Prepend" || name == "Replace") && val.base != "arg" {
				e.Run.Check("R-LIST", pk+" builds on a fresh slice", pos, val.base == "fresh", "base is "+val.base)
			}
		}
	}
	e.Run.Analysed("methods", 5)
	e.Run.Floor("R-LIST", "methods evaluated", 5, 5)
}

func orEps(s string) string {
	if s == "" {
		return "ε"
	}
	return s
}

func init() {
	register("C19", Meta{
		Explanation: "Abstract evaluation of the five Decorations methods (each a single statement) over sequences of two atoms, D = old contents and A = the argument: Append stores D·A, Prepend A·D on a fresh base, Replace A on a fresh base, Clear ε, All returns the receiver's own slice; the stored slice is never based on the argument (no retention, no write into its spare capacity). Since each method is a function of (D, A) only, this decides the list behaviour for every call sequence. A loop or helper call makes the method UNDECIDED.",
	}, func(e *Env) { e.C19() })
}
