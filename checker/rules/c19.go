package rules

import (
	"fmt"
	"go/ast"
	"go/token"
	"go/types"
	"strings"

	"dstverif/load"
)

// C19: abstract evaluation of the five Decorations methods over sequences of the atoms
// D (the receiver's old contents) and A (the argument). append(x, y...) ↦ x·y keeping x's base.

type absSeq struct {
	atoms   []string // "D", "A"
	unknown bool     // contents not expressible (partial slice): base still tracked
	base    string   // "recv", "arg", "fresh", "nil"
	ok      bool
	why     string
	// clipped: the slice has no spare capacity (x[lo:hi:hi]): appending at least one element to it
	// allocates a new array
	clipped bool
}

func (s absSeq) String() string {
	if !s.ok {
		return "⊤(" + s.why + ")"
	}
	a := strings.Join(s.atoms, "·")
	if a == "" {
		a = "ε"
	}
	if s.unknown {
		a = "?"
	}
	return a + " [base " + s.base + "]"
}

// ---- in-place updates of the receiver's own array: array segments with symbolic bounds ----
// Bounds are linear forms over d = len(*d) at entry, n = len(argument), c = cap(*d) at entry
// (all >= 0). Comparisons are decided by the signs of the coefficients only; anything else is
// undecided. Branch conditions are not interpreted (every branch is taken, as above).

type lin map[string]int

func linConst(k int) lin  { return lin{"1": k} }
func linSym(s string) lin { return lin{s: 1} }
func (a lin) add(b lin, sign int) lin {
	out := lin{}
	for k, v := range a {
		out[k] += v
	}
	for k, v := range b {
		out[k] += sign * v
	}
	for k, v := range out {
		if v == 0 {
			delete(out, k)
		}
	}
	return out
}
func (a lin) isZero() bool { return len(a) == 0 }

// sign: +1 if a >= 0 for all d,n,c >= 0 and a is not identically 0; -1 if a <= 0 likewise; 0 if a
// is identically zero; 2 if unknown.
func (a lin) sign() int {
	if len(a) == 0 {
		return 0
	}
	pos, neg := false, false
	for _, v := range a {
		if v > 0 {
			pos = true
		} else if v < 0 {
			neg = true
		}
	}
	switch {
	case pos && !neg:
		return 1
	case neg && !pos:
		return -1
	}
	return 2
}
func (a lin) String() string {
	var parts []string
	for _, k := range []string{"d", "n", "c", "1"} {
		if v, ok := a[k]; ok {
			name := map[string]string{"d": "len(list)", "n": "len(args)", "c": "cap(list)", "1": ""}[k]
			switch {
			case k == "1":
				parts = append(parts, fmt.Sprint(v))
			case v == 1:
				parts = append(parts, name)
			default:
				parts = append(parts, fmt.Sprintf("%d*%s", v, name))
			}
		}
	}
	if len(parts) == 0 {
		return "0"
	}
	return strings.Join(parts, "+")
}

// ipWrite: cells [lo, hi) of the receiver's array receive src[slo : slo+(hi-lo)], src being "D"
// (the list's contents at entry) or "A" (the argument).
type ipWrite struct {
	lo, hi lin
	src    string
	slo    lin
}

type ipState struct {
	touched bool   // the path updates the receiver's array in place
	why     string // non-empty: undecided
	curLen  lin    // current len(*d) (view at offset 0 of the receiver's array)
	writes  []ipWrite
	ints    map[types.Object]lin
}

func (s *ipState) clone() *ipState {
	n := &ipState{touched: s.touched, why: s.why, curLen: s.curLen, ints: map[types.Object]lin{}}
	n.writes = append(n.writes, s.writes...)
	for k, v := range s.ints {
		n.ints[k] = v
	}
	return n
}

type c19eval struct {
	decls  map[*types.Func]*ast.FuncDecl // same-package functions, for single-expression helpers
	depth  int
	ip     *ipState
	info   *types.Info
	recv   types.Object
	arg    types.Object
	vars   map[types.Object]absSeq // locals
	cur    *absSeq                 // current abstract value of *d (nil = D unchanged)
	copies []absSeq                // destinations of copy() calls
	// facts: what the branch conditions taken so far say about the entry list ("D") and the
	// argument ("A"): +1 not empty, -1 empty
	facts map[string]int
}

// nonEmpty: the sequence certainly has an element under the current facts.
func (ev *c19eval) nonEmpty(v absSeq) bool {
	if v.unknown {
		return false
	}
	for _, a := range v.atoms {
		if ev.facts[a] > 0 {
			return true
		}
	}
	return false
}

// emptinessTest: cond is a test of len(list at entry) or len(argument) against 0 (or 1):
// returns the atom and what holds in the then-branch (+1 not empty, -1 empty).
func (ev *c19eval) emptinessTest(cond ast.Expr) (atom string, then int, ok bool) {
	be, isB := ast.Unparen(cond).(*ast.BinaryExpr)
	if !isB {
		return "", 0, false
	}
	l, ok1 := ev.intExpr(be.X)
	k, ok2 := ev.intExpr(be.Y)
	if !ok1 || !ok2 || len(l) != 1 || len(k) > 1 {
		return "", 0, false
	}
	switch {
	case l["d"] == 1:
		atom = "D"
	case l["n"] == 1:
		atom = "A"
	default:
		return "", 0, false
	}
	kv, isConst := k["1"]
	if len(k) == 1 && !isConst {
		return "", 0, false
	}
	switch {
	case be.Op == token.EQL && kv == 0, be.Op == token.LEQ && kv == 0, be.Op == token.LSS && kv == 1:
		return atom, -1, true
	case be.Op == token.NEQ && kv == 0, be.Op == token.GTR && kv == 0, be.Op == token.GEQ && kv == 1:
		return atom, 1, true
	}
	return "", 0, false
}

func (ev *c19eval) eval(e ast.Expr) absSeq {
	switch x := e.(type) {
	case *ast.ParenExpr:
		return ev.eval(x.X)
	case *ast.StarExpr:
		if id, ok := x.X.(*ast.Ident); ok && ev.info.Uses[id] == ev.recv {
			if ev.cur != nil {
				return *ev.cur
			}
			return absSeq{atoms: []string{"D"}, base: "recv", ok: true}
		}
	case *ast.Ident:
		if tv, ok := ev.info.Types[x]; ok && tv.IsNil() {
			return absSeq{base: "nil", ok: true}
		}
		if ev.arg != nil && ev.info.Uses[x] == ev.arg {
			return absSeq{atoms: []string{"A"}, base: "arg", ok: true}
		}
		if v, ok := ev.vars[ev.info.Uses[x]]; ok {
			return v
		}
	case *ast.SliceExpr:
		v := ev.eval(x.X)
		if !v.ok {
			return v
		}
		full := x.Low == nil || types.ExprString(x.Low) == "0"
		if x.High != nil && types.ExprString(x.High) != "len("+types.ExprString(x.X)+")" {
			full = false
		}
		if !full {
			v.unknown = true
		}
		v.clipped = x.Slice3 && x.High != nil && x.Max != nil && types.ExprString(x.High) == types.ExprString(x.Max)
		if v.base == "nil" {
			v.base = "fresh"
		}
		return v // a slice expression shares its operand's backing array
	case *ast.CompositeLit:
		if len(x.Elts) == 0 {
			if _, isSlice := ev.info.TypeOf(x).Underlying().(*types.Slice); isSlice {
				return absSeq{base: "fresh", ok: true}
			}
		}
	case *ast.CallExpr:
		if id, ok := x.Fun.(*ast.Ident); ok {
			if _, isB := ev.info.Uses[id].(*types.Builtin); isB && id.Name == "append" {
				if len(x.Args) == 1 {
					return ev.eval(x.Args[0])
				}
				if len(x.Args) == 2 && x.Ellipsis.IsValid() {
					a, b := ev.eval(x.Args[0]), ev.eval(x.Args[1])
					if !a.ok {
						return a
					}
					if !b.ok {
						return b
					}
					base := a.base
					if base == "nil" {
						base = "fresh" // append to nil allocates
					}
					if a.clipped && ev.nonEmpty(b) {
						base = "fresh" // no spare capacity and something to add: a new array
					}
					return absSeq{atoms: append(append([]string{}, a.atoms...), b.atoms...), unknown: a.unknown || b.unknown, base: base, ok: true}
				}
			}
			if _, isB := ev.info.Uses[id].(*types.Builtin); isB && id.Name == "make" {
				return absSeq{ok: false, why: "make with a length is not ε"}
			}
		}
		// conversion Decorations(x) / []string(x)
		if tv, ok := ev.info.Types[x.Fun]; ok && tv.IsType() && len(x.Args) == 1 {
			return ev.eval(x.Args[0])
		}
		// a same-package helper whose body is a single `return <expression>`: evaluated with its
		// slice parameters bound to the arguments' abstract values
		if fn := calleeFunc(ev.info, x); fn != nil && ev.decls != nil && !x.Ellipsis.IsValid() {
			if h := ev.decls[fn]; h != nil && h.Body != nil && len(h.Body.List) == 1 && ev.depth < 3 {
				if ret, ok := h.Body.List[0].(*ast.ReturnStmt); ok && len(ret.Results) == 1 {
					var params []types.Object
					for _, p := range h.Type.Params.List {
						for _, nm := range p.Names {
							params = append(params, ev.info.Defs[nm])
						}
					}
					if len(params) == len(x.Args) {
						saved := map[types.Object]absSeq{}
						had := map[types.Object]bool{}
						for i, p := range params {
							if _, isSlice := p.Type().Underlying().(*types.Slice); !isSlice {
								continue
							}
							if old, ok := ev.vars[p]; ok {
								saved[p], had[p] = old, true
							}
							ev.vars[p] = ev.eval(x.Args[i])
						}
						ev.depth++
						v := ev.eval(ret.Results[0])
						ev.depth--
						for _, p := range params {
							if had[p] {
								ev.vars[p] = saved[p]
							} else {
								delete(ev.vars, p)
							}
						}
						return v
					}
				}
			}
		}
	}
	return absSeq{ok: false, why: "expression outside the analysable subset: " + types.ExprString(e)}
}

// intExpr evaluates an int-typed expression to a linear form (false: not linear over d, n, c).
func (ev *c19eval) intExpr(e ast.Expr) (lin, bool) {
	switch x := ast.Unparen(e).(type) {
	case *ast.BasicLit:
		if x.Kind == token.INT {
			k := 0
			fmt.Sscan(x.Value, &k)
			return linConst(k), true
		}
	case *ast.Ident:
		if v, ok := ev.ip.ints[ev.info.Uses[x]]; ok {
			return v, true
		}
	case *ast.BinaryExpr:
		a, ok1 := ev.intExpr(x.X)
		b, ok2 := ev.intExpr(x.Y)
		if ok1 && ok2 {
			switch x.Op {
			case token.ADD:
				return a.add(b, 1), true
			case token.SUB:
				return a.add(b, -1), true
			}
		}
	case *ast.CallExpr:
		id, ok := x.Fun.(*ast.Ident)
		if !ok || len(x.Args) != 1 {
			break
		}
		if _, isB := ev.info.Uses[id].(*types.Builtin); !isB {
			break
		}
		arg := ast.Unparen(x.Args[0])
		isRecv := false
		if st, ok := arg.(*ast.StarExpr); ok {
			if rid, ok := st.X.(*ast.Ident); ok && ev.info.Uses[rid] == ev.recv {
				isRecv = true
			}
		}
		isArg := false
		if aid, ok := arg.(*ast.Ident); ok && ev.arg != nil && ev.info.Uses[aid] == ev.arg {
			isArg = true
		}
		switch {
		case id.Name == "len" && isRecv && ev.cur == nil:
			return ev.ip.curLen, true
		case id.Name == "cap" && isRecv && ev.cur == nil:
			return linSym("c"), true
		case id.Name == "len" && isArg:
			return linSym("n"), true
		}
	}
	return nil, false
}

// ipView: e as a range of cells: of the receiver's array ("recv") or of the argument ("arg").
func (ev *c19eval) ipView(e ast.Expr) (arr string, lo, hi lin, ok bool) {
	e = ast.Unparen(e)
	var loE, hiE ast.Expr
	if sl, isSl := e.(*ast.SliceExpr); isSl {
		if sl.Slice3 {
			return "", nil, nil, false
		}
		e, loE, hiE = ast.Unparen(sl.X), sl.Low, sl.High
	}
	var full lin
	switch x := e.(type) {
	case *ast.StarExpr:
		if id, isID := x.X.(*ast.Ident); isID && ev.info.Uses[id] == ev.recv && ev.cur == nil {
			arr, full = "recv", ev.ip.curLen
		}
	case *ast.Ident:
		if ev.arg != nil && ev.info.Uses[x] == ev.arg {
			arr, full = "arg", linSym("n")
		}
	}
	if arr == "" {
		return "", nil, nil, false
	}
	lo, hi = lin{}, full
	if loE != nil {
		v, okv := ev.intExpr(loE)
		if !okv {
			return "", nil, nil, false
		}
		lo = v
	}
	if hiE != nil {
		v, okv := ev.intExpr(hiE)
		if !okv {
			return "", nil, nil, false
		}
		hi = v
	}
	return arr, lo, hi, true
}

// ipCopy: copy(dst, src) with dst a range of the receiver's array.
func (ev *c19eval) ipCopy(dst, src ast.Expr) bool {
	da, dlo, dhi, ok1 := ev.ipView(dst)
	sa, slo, shi, ok2 := ev.ipView(src)
	if !ok1 || !ok2 || da != "recv" {
		return false
	}
	ip := ev.ip
	ip.touched = true
	dl, sl := dhi.add(dlo, -1), shi.add(slo, -1)
	var count lin
	switch sl.add(dl, -1).sign() {
	case 0, 1: // len(src) >= len(dst)
		count = dl
	case -1:
		count = sl
	default:
		ip.why = "copy length min(" + dl.String() + ", " + sl.String() + ") not decidable"
		return true
	}
	srcName := "A"
	if sa == "recv" {
		srcName = "D"
		// the cells read must still hold the entry contents: inside [0, d) and not written before
		if slo.sign() == -1 || slo.sign() == 2 || linSym("d").add(slo.add(count, 1), -1).sign() == -1 || linSym("d").add(slo.add(count, 1), -1).sign() == 2 {
			ip.why = "copy reads cells of the list's array outside its entry contents"
			return true
		}
		for _, w := range ip.writes {
			before := slo.add(w.hi, -1).sign()              // w.hi <= slo
			after := w.lo.add(slo.add(count, 1), -1).sign() // w.lo >= slo+count
			if !(before == 0 || before == 1 || after == 0 || after == 1) {
				ip.why = "copy reads cells that an earlier copy may have overwritten"
				return true
			}
		}
	}
	ip.writes = append(ip.writes, ipWrite{dlo, dlo.add(count, 1), srcName, slo})
	return true
}

// ipVerdict compares the receiver after an in-place path with the expected contents.
// expected: ordered atoms, e.g. ["A","D"]. Returns ("", "") ok; (violation, ""); ("", undecided).
func (ev *c19eval) ipVerdict(expected []string) (violation, undecided string) {
	ip := ev.ip
	if ip.why != "" {
		return "", ip.why
	}
	size := map[string]lin{"D": linSym("d"), "A": linSym("n")}
	pos := lin{}
	for _, atom := range expected {
		lo, hi := pos, pos.add(size[atom], 1)
		pos = hi
		// the last write that touches [lo, hi) must be exactly (lo, hi, atom, 0); or, for D at
		// offset 0 with no write touching it, the entry contents themselves
		found := false
		for i := len(ip.writes) - 1; i >= 0; i-- {
			w := ip.writes[i]
			disjoint := func() int { // 1 disjoint, 0 overlaps/unknown
				a, b := lo.add(w.hi, -1).sign(), w.lo.add(hi, -1).sign()
				if a == 0 || a == 1 || b == 0 || b == 1 {
					return 1
				}
				return 0
			}()
			if disjoint == 1 {
				continue
			}
			if w.src == atom && w.lo.add(lo, -1).isZero() && w.slo.isZero() {
				diff := hi.add(w.hi, -1)
				if diff.isZero() {
					found = true
					break
				}
				if sg := diff.sign(); sg == 1 {
					return fmt.Sprintf("only %s of the %s elements of %s are moved to their place (cells from %s): the last %s are lost whenever that is > 0",
						w.hi.add(w.lo, -1), size[atom], map[string]string{"D": "the list", "A": "the arguments"}[atom], lo, diff), ""
				}
			}
			return "", fmt.Sprintf("cells [%s, %s) are written by a copy that is not the expected one", lo, hi)
		}
		if !found {
			if atom == "D" && lo.isZero() {
				continue // untouched entry contents
			}
			return fmt.Sprintf("cells [%s, %s) never receive %s", lo, hi, map[string]string{"D": "the list's old contents", "A": "the arguments"}[atom]), ""
		}
	}
	if d := ip.curLen.add(pos, -1); !d.isZero() {
		return fmt.Sprintf("the list ends up with length %s, an ordered list has %s", ip.curLen, pos), ""
	}
	return "", ""
}

// methodCall: recv.M(arg...) where M is a method of the same list type with one variadic
// parameter whose body is in the append-expression subset with a single unconditional path. The
// callee's result over its own (D, A) is composed with the caller's current list and argument.
func (ev *c19eval) methodCall(call *ast.CallExpr, cur *absSeq) (absSeq, bool) {
	se, ok := call.Fun.(*ast.SelectorExpr)
	if !ok || len(call.Args) != 1 || !call.Ellipsis.IsValid() || ev.depth > 2 {
		return absSeq{}, false
	}
	if id, ok := se.X.(*ast.Ident); !ok || ev.info.Uses[id] != ev.recv {
		return absSeq{}, false
	}
	fn, ok := ev.info.Uses[se.Sel].(*types.Func)
	if !ok {
		return absSeq{}, false
	}
	h := ev.decls[fn]
	if h == nil || h.Body == nil || h.Recv == nil || len(h.Recv.List[0].Names) != 1 || h.Type.Params == nil || len(h.Type.Params.List) != 1 || len(h.Type.Params.List[0].Names) != 1 {
		return absSeq{}, false
	}
	sub := &c19eval{info: ev.info, decls: ev.decls, depth: ev.depth + 1}
	sub.recv = ev.info.Defs[h.Recv.List[0].Names[0]]
	sub.arg = ev.info.Defs[h.Type.Params.List[0].Names[0]]
	paths, und := sub.run(h.Body.List)
	if und != "" || len(paths) != 1 || paths[0].conditional || !paths[0].val.ok || paths[0].val.unknown || (paths[0].ip != nil && paths[0].ip.touched) {
		return absSeq{}, false
	}
	res := paths[0].val
	d := absSeq{atoms: []string{"D"}, base: "recv", ok: true}
	if cur != nil {
		d = *cur
	}
	a := ev.eval(call.Args[0])
	if !a.ok || !d.ok || a.unknown || d.unknown {
		return absSeq{}, false
	}
	out := absSeq{ok: true}
	for _, at := range res.atoms {
		switch at {
		case "D":
			out.atoms = append(out.atoms, d.atoms...)
		case "A":
			out.atoms = append(out.atoms, a.atoms...)
		}
	}
	switch res.base {
	case "recv":
		out.base = d.base
	case "arg":
		out.base = a.base
	default:
		out.base = res.base
	}
	return out, true
}

type c19path struct {
	ip          *ipState
	val         absSeq
	conditional bool
	facts       map[string]int // emptiness of D / A established by the conditions on the path
}

// run interprets a statement list over all paths (conditions are not interpreted: every branch is
// taken). It returns the final value per path: the value stored in *d (or returned, for All).
func (ev *c19eval) run(list []ast.Stmt) (paths []c19path, undecided string) {
	type state struct {
		cur         *absSeq
		vars        map[types.Object]absSeq
		conditional bool
		ip          *ipState
		facts       map[string]int
	}
	clone := func(s state) state {
		n := state{conditional: s.conditional, vars: map[types.Object]absSeq{}, ip: s.ip.clone(), facts: map[string]int{}}
		for k, v := range s.facts {
			n.facts[k] = v
		}
		if s.cur != nil {
			c := *s.cur
			n.cur = &c
		}
		for k, v := range s.vars {
			n.vars[k] = v
		}
		return n
	}
	finish := func(s state, ret *absSeq) {
		if ret != nil {
			paths = append(paths, c19path{ip: s.ip, val: *ret, conditional: s.conditional, facts: s.facts})
			return
		}
		v := absSeq{atoms: []string{"D"}, base: "recv", ok: true}
		if s.cur != nil {
			v = *s.cur
		}
		paths = append(paths, c19path{ip: s.ip, val: v, conditional: s.conditional, facts: s.facts})
	}
	var exec func(list []ast.Stmt, s state) (live []state)
	exec = func(list []ast.Stmt, s state) []state {
		live := []state{s}
		for _, st := range list {
			var next []state
			for _, cs := range live {
				ev.cur, ev.vars, ev.ip, ev.facts = cs.cur, cs.vars, cs.ip, cs.facts
				switch x := st.(type) {
				case *ast.AssignStmt:
					if len(x.Lhs) != 1 || len(x.Rhs) != 1 {
						undecided = "multi-assignment"
						return nil
					}
					// int locals (n := len(decs))
					if id, ok := x.Lhs[0].(*ast.Ident); ok {
						obj := ev.info.Defs[id]
						if obj == nil {
							obj = ev.info.Uses[id]
						}
						if obj != nil {
							if b, isB := obj.Type().Underlying().(*types.Basic); isB && b.Info()&types.IsInteger != 0 {
								ns := clone(cs)
								if v, okv := ev.intExpr(x.Rhs[0]); okv && x.Tok != token.ADD_ASSIGN && x.Tok != token.SUB_ASSIGN {
									ns.ip.ints[obj] = v
								} else {
									delete(ns.ip.ints, obj)
								}
								next = append(next, ns)
								continue
							}
						}
					}
					// in-place re-slice of the receiver: *d = (*d)[:hi]
					if star, ok := x.Lhs[0].(*ast.StarExpr); ok && x.Tok == token.ASSIGN && cs.cur == nil {
						if id, ok := star.X.(*ast.Ident); ok && ev.info.Uses[id] == ev.recv {
							if sl, isSl := ast.Unparen(x.Rhs[0]).(*ast.SliceExpr); isSl {
								if arr, lo, hi, okv := ev.ipView(sl); okv && arr == "recv" && lo.isZero() {
									ns := clone(cs)
									ns.ip.touched = true
									ns.ip.curLen = hi
									next = append(next, ns)
									continue
								}
							}
						}
					}
					if cs.ip.touched {
						ns := clone(cs)
						ns.ip.why = "the list is rebuilt after its array was updated in place"
						next = append(next, ns)
						continue
					}
					v := ev.eval(x.Rhs[0])
					if star, ok := x.Lhs[0].(*ast.StarExpr); ok {
						if id, ok := star.X.(*ast.Ident); ok && ev.info.Uses[id] == ev.recv && x.Tok == token.ASSIGN {
							ns := clone(cs)
							ns.cur = &v
							next = append(next, ns)
							continue
						}
					}
					if id, ok := x.Lhs[0].(*ast.Ident); ok {
						obj := ev.info.Defs[id]
						if obj == nil {
							obj = ev.info.Uses[id]
						}
						if obj != nil && obj != ev.arg && obj != ev.recv {
							ns := clone(cs)
							if _, isSlice := obj.Type().Underlying().(*types.Slice); isSlice {
								ns.vars[obj] = v
							}
							next = append(next, ns)
							continue
						}
					}
					undecided = "assignment to " + types.ExprString(x.Lhs[0])
					return nil
				case *ast.ReturnStmt:
					if len(x.Results) == 1 {
						v := ev.eval(x.Results[0])
						finish(cs, &v)
					} else {
						finish(cs, nil)
					}
				case *ast.IfStmt:
					if x.Init != nil {
						after := exec([]ast.Stmt{x.Init}, clone(cs))
						if undecided != "" || len(after) != 1 {
							if undecided == "" {
								undecided = "if with a branching init statement"
							}
							return nil
						}
						cs = after[0]
					}
					a := clone(cs)
					b := clone(cs)
					if atom, then, okT := ev.emptinessTest(x.Cond); okT && cs.facts[atom] == 0 {
						// a test of emptiness is interpreted: each branch knows which side it is on
						a.facts[atom], b.facts[atom] = then, -then
					} else if okT && cs.facts[atom] != 0 {
						// already decided on this path: one branch is dead
						if cs.facts[atom] == then {
							next = append(next, exec(x.Body.List, a)...)
						} else {
							switch el := x.Else.(type) {
							case nil:
								next = append(next, b)
							case *ast.BlockStmt:
								next = append(next, exec(el.List, b)...)
							case *ast.IfStmt:
								next = append(next, exec([]ast.Stmt{el}, b)...)
							}
						}
						if undecided != "" {
							return nil
						}
						continue
					} else {
						a.conditional = true
						b.conditional = true
					}
					next = append(next, exec(x.Body.List, a)...)
					switch el := x.Else.(type) {
					case nil:
						next = append(next, b)
					case *ast.BlockStmt:
						next = append(next, exec(el.List, b)...)
					case *ast.IfStmt:
						next = append(next, exec([]ast.Stmt{el}, b)...)
					}
					if undecided != "" {
						return nil
					}
				case *ast.ExprStmt:
					if call, ok := x.X.(*ast.CallExpr); ok {
						// d.M(x...) with M another method of the list: its abstract effect, composed
						if nv, ok := ev.methodCall(call, cs.cur); ok {
							ns := clone(cs)
							ns.cur = &nv
							next = append(next, ns)
							continue
						}
						if id, ok := call.Fun.(*ast.Ident); ok && id.Name == "copy" && len(call.Args) == 2 {
							if _, isB := ev.info.Uses[id].(*types.Builtin); isB {
								ns := clone(cs)
								ev.ip = ns.ip
								if cs.cur == nil && ev.ipCopy(call.Args[0], call.Args[1]) {
									next = append(next, ns)
									continue
								}
								ev.copies = append(ev.copies, ev.eval(call.Args[0]))
								next = append(next, cs)
								continue
							}
						}
					}
					undecided = "call statement " + types.ExprString(x.X)
					return nil
				case *ast.EmptyStmt:
					next = append(next, cs)
				default:
					undecided = fmt.Sprintf("%T is outside the analysable subset (loops, helper calls)", st)
					return nil
				}
			}
			live = next
		}
		return live
	}
	for _, s := range exec(list, state{vars: map[types.Object]absSeq{}, facts: map[string]int{}, ip: &ipState{curLen: linSym("d"), ints: map[types.Object]lin{}}}) {
		finish(s, nil)
	}
	return
}

func (e *Env) C19() {
	pkg := e.Prog.Pkg(load.PkgDst)
	want := map[string]struct {
		atoms  string
		ret    bool
		hasArg bool
	}{
		"Append":  {"D·A", false, true},
		"Prepend": {"A·D", false, true},
		"Replace": {"A", false, true},
		"Clear":   {"", false, false},
		"All":     {"D", true, false},
	}
	for _, name := range []string{"Append", "Prepend", "Replace", "Clear", "All"} {
		w := want[name]
		fd := load.FuncDecl(pkg, "Decorations", name)
		key := "Decorations." + name
		if fd == nil || fd.Body == nil {
			e.Run.Violation("R-LIST", key+" exists", "", "method missing")
			continue
		}
		pos := e.Prog.Pos(fd.Pos())
		_, ptrRecv := fd.Recv.List[0].Type.(*ast.StarExpr)
		e.Run.Check("R-LIST", key+" has a pointer receiver", pos, ptrRecv, "a value receiver would update a copy of the list")
		ev := &c19eval{info: pkg.TypesInfo, decls: map[*types.Func]*ast.FuncDecl{}}
		for _, d := range load.AllFuncDecls(pkg) {
			if fn, ok := pkg.TypesInfo.Defs[d.Name].(*types.Func); ok {
				ev.decls[fn] = d
			}
		}
		if len(fd.Recv.List[0].Names) == 1 {
			ev.recv = pkg.TypesInfo.Defs[fd.Recv.List[0].Names[0]]
		}
		if fd.Type.Params != nil && len(fd.Type.Params.List) == 1 && len(fd.Type.Params.List[0].Names) == 1 {
			ev.arg = pkg.TypesInfo.Defs[fd.Type.Params.List[0].Names[0]]
			_, variadic := fd.Type.Params.List[0].Type.(*ast.Ellipsis)
			e.Run.Check("R-LIST", key+" takes a variadic list", pos, variadic, "signature changed")
		}
		paths, undecided := ev.run(fd.Body.List)
		if undecided != "" {
			e.Run.Undecided("R-LIST", key+" is in the analysable subset", pos, undecided)
			continue
		}
		if len(paths) == 0 {
			e.Run.Undecided("R-LIST", key+" has a path", pos, "no path to the end of the method")
			continue
		}
		for _, v := range ev.copies {
			e.Run.Check("R-LIST", key+" does not write into the argument", pos, v.base != "arg", "copy() destination is based on the caller's argument slice")
		}
		for pi, pth := range paths {
			pk := key
			if len(paths) > 1 {
				pk = fmt.Sprintf("%s path %d", key, pi+1)
			}
			val := pth.val
			if pth.ip != nil && pth.ip.touched && !w.ret {
				ev.ip = pth.ip
				var expected []string
				if w.atoms != "" {
					expected = strings.Split(w.atoms, "·")
				}
				viol, und := ev.ipVerdict(expected)
				switch {
				case viol != "":
					e.Run.Violation("R-LIST", pk+" contents (in-place update of the list's array)", pos, viol+"; an ordered list requires "+orEps(w.atoms)+" (D = old contents, A = arguments)")
				case und != "":
					e.Run.Undecided("R-LIST", pk+" contents (in-place update of the list's array)", pos, und)
				default:
					e.Run.OK("R-LIST", pk+" contents (in-place update of the list's array)", pos, "array segments: "+orEps(w.atoms))
				}
				continue
			}
			if !val.ok {
				e.Run.Undecided("R-LIST", pk+" value", pos, val.why)
				continue
			}
			// atoms that the path's conditions make empty do not count on either side
			live := func(atoms []string) string {
				var out []string
				for _, a := range atoms {
					if pth.facts[a] >= 0 {
						out = append(out, a)
					}
				}
				return strings.Join(out, "·")
			}
			var wantAtoms []string
			if w.atoms != "" {
				wantAtoms = strings.Split(w.atoms, "·")
			}
			contentsOK := !val.unknown && live(val.atoms) == live(wantAtoms)
			switch {
			case contentsOK:
				e.Run.OK("R-LIST", pk+" contents", pos, fmt.Sprintf("abstract value %s", val))
			case !pth.conditional && !val.unknown:
				e.Run.Violation("R-LIST", pk+" contents", pos, fmt.Sprintf("abstract value %s; an ordered list requires %s (D = old contents, A = arguments)", val, orEps(w.atoms)))
			default:
				if val.base != "arg" {
					e.Run.Undecided("R-LIST", pk+" contents", pos, fmt.Sprintf("abstract value %s on a conditional path or through a partial slice; expected %s", val, orEps(w.atoms)))
				}
			}
			if w.ret {
				e.Run.Check("R-LIST", pk+" returns the receiver's own slice", pos, val.base == "recv", "All must return what is stored (and therefore rendered); got base "+val.base)
				continue
			}
			// freshness: stored slice's base is the receiver's own slice or fresh; never the argument
			e.Run.Check("R-LIST", pk+" does not retain or write into the argument", pos, val.base != "arg",
				fmt.Sprintf("on some path the stored slice is based on the caller's argument slice (%s): the list aliases it (later caller writes show up in the list / are rendered) and append may write into its spare capacity", val))
			if (name == "Prepend" || name == "Replace") && val.base != "arg" {
				e.Run.Check("R-LIST", pk+" builds on a fresh slice", pos, val.base == "fresh", "base is "+val.base)
			}
		}
	}
	e.Run.Analysed("methods", 5)
	e.Run.Floor("R-LIST", "methods evaluated", 5, 5)
}

func orEps(s string) string {
	if s == "" {
		return "ε"
	}
	return s
}

func init() {
	register("C19", Meta{
		Explanation: "Abstract evaluation of the five Decorations methods (each a single statement) over sequences of two atoms, D = old contents and A = the argument: Append stores D·A, Prepend A·D on a fresh base, Replace A on a fresh base, Clear ε, All returns the receiver's own slice; the stored slice is never based on the argument (no retention, no write into its spare capacity). Since each method is a function of (D, A) only, this decides the list behaviour for every call sequence. A loop or helper call makes the method UNDECIDED.",
	}, func(e *Env) { e.C19() })
}
