package rules

import (
	"go/ast"
	"go/parser"
	"go/token"
	"go/types"
	"strings"

	"dstverif/schema"
)

// pathCond returns the condition (normalised Go expression over the function's conditions) under
// which target executes inside body: the enclosing if/else conditions, and the negation of every
// earlier sibling guard `if c { return | continue | break | panic }` in the enclosing blocks.
func pathCond(c *schema.Ctx, body []ast.Stmt, target ast.Node) (string, bool) {
	contains := func(n ast.Node) bool {
		return n != nil && n.Pos() <= target.Pos() && target.End() <= n.End()
	}
	leaves := func(list []ast.Stmt) bool {
		if len(list) == 0 {
			return false
		}
		switch s := list[len(list)-1].(type) {
		case *ast.ReturnStmt:
			return true
		case *ast.BranchStmt:
			return s.Tok == token.CONTINUE || s.Tok == token.BREAK
		case *ast.ExprStmt:
			if call, ok := s.X.(*ast.CallExpr); ok {
				if id, ok := call.Fun.(*ast.Ident); ok && id.Name == "panic" {
					return true
				}
			}
		}
		return false
	}
	// fall: the condition under which control runs off the end of list ("true"/"false" when constant)
	var fall func(list []ast.Stmt) string
	and := func(a, b string) string {
		switch {
		case a == "false" || b == "false":
			return "false"
		case a == "true":
			return b
		case b == "true":
			return a
		}
		return paren(a) + " && " + paren(b)
	}
	or := func(a, b string) string {
		switch {
		case a == "true" || b == "true":
			return "true"
		case a == "false":
			return b
		case b == "false":
			return a
		}
		return "(" + a + " || " + b + ")"
	}
	// caseConds: for every clause of a (tagged or tagless) expression switch, the condition under
	// which it is selected (its own tests and the negation of all earlier ones; default: the
	// negation of all tests)
	caseConds := func(s *ast.SwitchStmt) map[*ast.CaseClause]string {
		out := map[*ast.CaseClause]string{}
		tag := ""
		if s.Tag != nil {
			tag = c.ExprStr(s.Tag)
			if strings.ContainsAny(tag, " ") {
				tag = "(" + tag + ")"
			}
		}
		var all []string
		var def *ast.CaseClause
		for _, cl := range s.Body.List {
			cc := cl.(*ast.CaseClause)
			if cc.List == nil {
				def = cc
				continue
			}
			var cs []string
			for _, x := range cc.List {
				t := c.ExprStr(x)
				if tag != "" {
					t = tag + " == " + t
				} else if strings.ContainsAny(t, "&|") {
					t = "(" + t + ")"
				}
				cs = append(cs, t)
			}
			own := strings.Join(cs, " || ")
			if len(cs) > 1 {
				own = "(" + own + ")"
			}
			parts := append(append([]string{}, all...), own)
			out[cc] = strings.Join(parts, " && ")
			all = append(all, schema.NegGuard(own))
		}
		if def != nil {
			out[def] = strings.Join(all, " && ")
			if len(all) == 0 {
				out[def] = "true"
			}
		}
		return out
	}
	fallStmt := func(st ast.Stmt) string {
		switch s := st.(type) {
		case *ast.SwitchStmt:
			if s.Init != nil {
				return "true"
			}
			conds := caseConds(s)
			out := "false"
			hasDefault := false
			var negs []string
			for _, cl := range s.Body.List {
				cc := cl.(*ast.CaseClause)
				if cc.List == nil {
					hasDefault = true
				}
				for _, b := range cc.Body {
					if br, ok := b.(*ast.BranchStmt); ok && br.Tok == token.FALLTHROUGH {
						return "true"
					}
				}
				// a break inside the clause leaves the switch, not the function
				f := fall(cc.Body)
				hasBreak := false
				ast.Inspect(cc, func(n ast.Node) bool {
					switch b := n.(type) {
					case *ast.BranchStmt:
						if b.Tok == token.BREAK {
							hasBreak = true
						}
					case *ast.ForStmt, *ast.RangeStmt, *ast.FuncLit, *ast.SelectStmt:
						return false
					}
					return true
				})
				if hasBreak {
					f = "true"
				}
				out = or(out, and(conds[cc], f))
			}
			if !hasDefault {
				for _, cl := range s.Body.List {
					cc := cl.(*ast.CaseClause)
					_ = cc
				}
				// no clause selected
				last := ""
				for _, cl := range s.Body.List {
					cc := cl.(*ast.CaseClause)
					var cs []string
					for _, x := range cc.List {
						t := c.ExprStr(x)
						if s.Tag != nil {
							tg := c.ExprStr(s.Tag)
							if strings.ContainsAny(tg, " ") {
								tg = "(" + tg + ")"
							}
							t = tg + " == " + t
						} else if strings.ContainsAny(t, "&|") {
							t = "(" + t + ")"
						}
						cs = append(cs, t)
					}
					own := strings.Join(cs, " || ")
					if len(cs) > 1 {
						own = "(" + own + ")"
					}
					negs = append(negs, schema.NegGuard(own))
				}
				last = strings.Join(negs, " && ")
				if last == "" {
					last = "true"
				}
				out = or(out, last)
			}
			return out
		case *ast.IfStmt:
			cnd := c.ExprStr(s.Cond)
			fb := fall(s.Body.List)
			fe := "true"
			switch el := s.Else.(type) {
			case *ast.BlockStmt:
				fe = fall(el.List)
			case *ast.IfStmt:
				fe = fall([]ast.Stmt{el})
			}
			if fb == fe {
				return fb // (C && f) || (!C && f) is f
			}
			return or(and(cnd, fb), and(schema.NegGuard(cnd), fe))
		case *ast.BlockStmt:
			return fall(s.List)
		}
		if leaves([]ast.Stmt{st}) {
			return "false"
		}
		return "true"
	}
	fall = func(list []ast.Stmt) string {
		out := "true"
		for _, st := range list {
			out = and(out, fallStmt(st))
			if out == "false" {
				break
			}
		}
		return out
	}
	var conds []string
	var find func(list []ast.Stmt) bool
	find = func(list []ast.Stmt) bool {
		for _, st := range list {
			if !contains(st) {
				// an earlier statement that may leave: the condition under which it falls through
				// holds afterwards
				if f := fallStmt(st); f != "true" {
					conds = append(conds, f)
				}
				continue
			}
			if ast.Node(st) == target {
				return true
			}
			switch s := st.(type) {
			case *ast.IfStmt:
				if contains(s.Body) {
					conds = append(conds, c.ExprStr(s.Cond))
					return find(s.Body.List)
				}
				if s.Else != nil && contains(s.Else) {
					conds = append(conds, schema.NegGuard(c.ExprStr(s.Cond)))
					switch el := s.Else.(type) {
					case *ast.BlockStmt:
						return find(el.List)
					case *ast.IfStmt:
						return find([]ast.Stmt{el})
					}
				}
				return true // in Init or Cond
			case *ast.BlockStmt:
				return find(s.List)
			case *ast.LabeledStmt:
				return find([]ast.Stmt{s.Stmt})
			case *ast.ForStmt:
				return find(s.Body.List)
			case *ast.RangeStmt:
				return find(s.Body.List)
			case *ast.SwitchStmt:
				cds := caseConds(s)
				for _, cl := range s.Body.List {
					cc := cl.(*ast.CaseClause)
					if contains(cc) {
						if cd := cds[cc]; cd != "" && cd != "true" {
							conds = append(conds, cd)
						}
						return find(cc.Body)
					}
				}
				return true
			case *ast.TypeSwitchStmt:
				// the clause's own test: ok(x.(T)) for its types; the default clause (and every
				// clause, implicitly) excludes the types of the clauses before it
				var subject ast.Expr
				switch a := s.Assign.(type) {
				case *ast.AssignStmt:
					if len(a.Rhs) == 1 {
						if ta, ok := a.Rhs[0].(*ast.TypeAssertExpr); ok {
							subject = ta.X
						}
					}
				case *ast.ExprStmt:
					if ta, ok := a.X.(*ast.TypeAssertExpr); ok {
						subject = ta.X
					}
				}
				test := func(cc *ast.CaseClause) string {
					var alts []string
					for _, t := range cc.List {
						if id, ok := t.(*ast.Ident); ok && id.Name == "nil" {
							alts = append(alts, c.ExprStr(subject)+" == nil")
							continue
						}
						alts = append(alts, "ok("+c.ExprStr(subject)+".("+c.ExprStr(t)+"))")
					}
					if len(alts) == 1 {
						return alts[0]
					}
					return "(" + strings.Join(alts, " || ") + ")"
				}
				for _, cl := range s.Body.List {
					if cc := cl.(*ast.CaseClause); contains(cc) {
						if subject != nil && c.TypeSwitchConds {
							if cc.List != nil {
								conds = append(conds, test(cc))
							} else {
								for _, o := range s.Body.List {
									if oc := o.(*ast.CaseClause); oc.List != nil {
										conds = append(conds, schema.NegGuard(test(oc)))
									}
								}
							}
						}
						return find(cc.Body)
					}
				}
				return true
			default:
				// inside a function literal or an ordinary statement
				var lit *ast.FuncLit
				ast.Inspect(st, func(n ast.Node) bool {
					if fl, ok := n.(*ast.FuncLit); ok && contains(fl.Body) && lit == nil {
						lit = fl
					}
					return true
				})
				if lit != nil {
					return find(lit.Body.List)
				}
				return true
			}
		}
		return false
	}
	if !find(body) {
		return "", false
	}
	var parts []string
	for _, cd := range conds {
		if strings.ContainsAny(cd, "&|") && !(strings.HasPrefix(cd, "(") && strings.HasSuffix(cd, ")") && balanced(cd[1:len(cd)-1])) {
			cd = "(" + cd + ")"
		}
		parts = append(parts, cd)
	}
	return strings.Join(parts, " && "), true
}

// equivalentGuards: a ⇔ b over all valuations of their atoms.
func equivalentGuards(a, b string) (bool, bool) {
	ga, gb := parseGuard(a), parseGuard(b)
	if !ga.ok || !gb.ok {
		return false, false
	}
	atoms := map[string]bool{}
	if ga.expr != nil {
		collectAtoms(ga.expr, atoms)
	}
	if gb.expr != nil {
		collectAtoms(gb.expr, atoms)
	}
	vals, ok := valuations(atoms, 12)
	if !ok {
		return false, false
	}
	for _, v := range vals {
		if evalGuard(ga.expr, v) != evalGuard(gb.expr, v) {
			return false, true
		}
	}
	return true, true
}

// unsatWith: (a ∧ b) is false under every valuation.
func unsatWith(a, b string) (bool, bool) {
	ga, gb := parseGuard(a), parseGuard(b)
	if !ga.ok || !gb.ok {
		return false, false
	}
	atoms := map[string]bool{}
	if ga.expr != nil {
		collectAtoms(ga.expr, atoms)
	}
	if gb.expr != nil {
		collectAtoms(gb.expr, atoms)
	}
	vals, ok := valuations(atoms, 12)
	if !ok {
		return false, false
	}
	for _, v := range vals {
		if evalGuard(ga.expr, v) && evalGuard(gb.expr, v) {
			return false, true
		}
	}
	return true, true
}

func paren(s string) string {
	if strings.ContainsAny(s, "&|") && !(strings.HasPrefix(s, "(") && strings.HasSuffix(s, ")") && balanced(s[1:len(s)-1])) {
		return "(" + s + ")"
	}
	return s
}

// splitTopAnd splits a condition into its top-level conjuncts.
func splitTopAnd(s string) []string {
	x, err := parser.ParseExpr(s)
	if err != nil {
		return []string{s}
	}
	var out []string
	var walk func(e ast.Expr)
	walk = func(e ast.Expr) {
		e = ast.Unparen(e)
		if be, ok := e.(*ast.BinaryExpr); ok && be.Op == token.LAND {
			walk(be.X)
			walk(be.Y)
			return
		}
		out = append(out, types.ExprString(e))
	}
	walk(x)
	return out
}
