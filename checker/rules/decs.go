package rules

import (
	"fmt"
	"go/ast"
	"go/token"
	"go/types"
	"strings"

	"dstverif/load"
	"dstverif/schema"
)

// decPoints returns the decoration list fields of T's Decs struct: own named points in struct
// order, plus whether Start/End/Before/After exist (embedded NodeDecs).
func (e *Env) decPoints(nt *NodeType) (named []string, hasNodeDecs bool) {
	f := nt.ByName["Decs"]
	if f == nil {
		return nil, false
	}
	st, ok := f.Type.Underlying().(*types.Struct)
	if !ok {
		return nil, false
	}
	for i := 0; i < st.NumFields(); i++ {
		fl := st.Field(i)
		if fl.Embedded() {
			if _, n := schema.NamedTypeName(fl.Type()); n == "NodeDecs" {
				hasNodeDecs = true
			}
			continue
		}
		if _, n := schema.NamedTypeName(fl.Type()); n == "Decorations" {
			named = append(named, fl.Name())
		}
	}
	return
}

func isRender(ev schema.Event) bool {
	switch ev.Kind {
	case schema.KSpace, schema.KDec, schema.KPosStore, schema.KAdvance, schema.KChild, schema.KList, schema.KLiteral, schema.KMap:
		return true
	}
	return false
}

// RDecs: every decoration point of every node type is rendered exactly once, spacing first and
// last, `end` flag only on the own End point; listing, accessor and decorate agree.
func (e *Env) RDecs(withListing bool) {
	rs := e.Sib.ByName["restore"]
	de := e.Sib.ByName["decorate"]
	ls := e.Sib.ByName["listing"]
	sites := 0
	for _, tn := range e.dstNodeNames() {
		rc := rs.Cases[tn]
		nt := e.dstTypes[tn]
		if rc == nil {
			continue
		}
		named, hasND := e.decPoints(nt)
		if tn == "Package" {
			for _, ev := range rc.Events {
				if ev.Kind == schema.KDec || ev.Kind == schema.KSpace {
					e.Run.Violation("R-DECS", "restore Package renders decorations", e.Prog.Pos(ev.Pos), "Package has no decorations")
				}
			}
			continue
		}
		if !hasND {
			e.Run.Violation("R-DECS", tn+" Decs embeds NodeDecs", e.casePos(rc), "decorations struct lacks the common NodeDecs")
			continue
		}
		want := append(append([]string{"Start"}, named...), "End")
		// --- restore
		count := map[string]int{}
		var order []string
		firstRender, lastRender := -1, -1
		for i, ev := range rc.Events {
			if isRender(ev) {
				if firstRender < 0 {
					firstRender = i
				}
				lastRender = i
			}
			if ev.Kind != schema.KDec {
				continue
			}
			sites++
			own := strings.HasPrefix(ev.Src, "Decs.")
			key := fmt.Sprintf("restore %s point %s", tn, ev.Name)
			if !own {
				key = fmt.Sprintf("restore %s special point %s", tn, ev.Src)
			}
			pos := e.Prog.Pos(ev.Pos)
			e.Run.Check("R-DECS", key+": attached to out", pos, ev.NodeArg == "out", "applyDecorations must receive the node being built (comment sinks are chosen by it), got "+ev.NodeArg)
			e.Run.Check("R-DECS", key+": unconditional", pos, ev.Guard == "" && ev.Loop == "", "a decoration point rendered under a condition loses decorations when the condition is false: if "+ev.Guard)
			if ev.Expr != "" {
				e.Run.Violation("R-DECS", key+": end flag constant", pos, "end flag is not a constant: "+ev.Expr)
			}
			if own {
				field := strings.TrimPrefix(ev.Src, "Decs.")
				e.Run.Check("R-DECS", key+": name matches storage", pos, field == ev.Name, fmt.Sprintf("point rendered as %q reads n.Decs.%s", ev.Name, field))
				e.Run.Check("R-DECS", key+": end flag", pos, ev.End == (ev.Name == "End"), fmt.Sprintf("end=%v for point %s (true exactly for the own End point: End comments are indented / routed to Comment fields)", ev.End, ev.Name))
				count[field]++
				order = append(order, field)
			} else {
				e.Run.Check("R-DECS", key+": end flag", pos, !ev.End, "a nested (signature) decoration point is never the node's own End")
			}
		}
		for _, w := range want {
			e.Run.Check("R-DECS", fmt.Sprintf("restore %s point %s rendered exactly once", tn, w), e.casePos(rc), count[w] == 1,
				fmt.Sprintf("decoration point %s.Decs.%s is rendered %d times by restore case %s", tn, w, count[w], tn))
		}
		for k := range count {
			found := false
			for _, w := range want {
				if w == k {
					found = true
				}
			}
			if !found {
				e.Run.Violation("R-DECS", fmt.Sprintf("restore %s point %s exists", tn, k), e.casePos(rc), "rendered point is not a Decorations field of "+tn+"Decorations")
			}
		}
		// struct order = render order for the named points (documentation order)
		var orderedNamed []string
		for _, o := range order {
			if o != "Start" && o != "End" {
				orderedNamed = append(orderedNamed, o)
			}
		}
		e.Run.Check("R-DECS", fmt.Sprintf("restore %s named points in declaration order", tn), e.casePos(rc), strings.Join(orderedNamed, ",") == strings.Join(named, ","),
			fmt.Sprintf("render order %v differs from %sDecorations field order %v", orderedNamed, tn, named))
		// spacing first / last
		if firstRender >= 0 {
			f, l := rc.Events[firstRender], rc.Events[lastRender]
			e.Run.Check("R-DECS", fmt.Sprintf("restore %s Before spacing first", tn), e.Prog.Pos(f.Pos),
				f.Kind == schema.KSpace && f.Name == "Before" && f.Src == "Decs.Before" && f.NodeArg == "n" && f.Guard == "",
				"first rendering event must be applySpace(n, \"Before\", n.Decs.Before); found "+f.String())
			e.Run.Check("R-DECS", fmt.Sprintf("restore %s After spacing last", tn), e.Prog.Pos(l.Pos),
				l.Kind == schema.KSpace && l.Name == "After" && l.Src == "Decs.After" && l.NodeArg == "n" && l.Guard == "",
				"last rendering event must be applySpace(n, \"After\", n.Decs.After); found "+l.String())
			nSpace := 0
			for _, ev := range rc.Events {
				if ev.Kind == schema.KSpace {
					nSpace++
				}
			}
			e.Run.Check("R-DECS", fmt.Sprintf("restore %s spacing applied exactly twice", tn), e.casePos(rc), nSpace == 2, fmt.Sprintf("%d applySpace calls", nSpace))
		}
		// special points: adjacent to the same-named own point
		e.specialPoints(tn, rc)

		// --- decorate: same set, stored into the same-named field, keyed by the case's node
		if dc := de.Cases[tn]; dc != nil {
			dcount := map[string]int{}
			for _, ev := range dc.Events {
				switch ev.Kind {
				case schema.KDec:
					sites++
					dcount[ev.Name]++
					e.Run.Check("R-DECS", fmt.Sprintf("decorate %s point %s: stored in same-named field, keyed by n", tn, ev.Name), e.Prog.Pos(ev.Pos),
						ev.Field == "Decs."+ev.Name && ev.Src == "decorations[n]" && ev.Guard == "",
						fmt.Sprintf("decorations[%s][%q] stored into out.%s", strings.TrimSuffix(strings.TrimPrefix(ev.Src, "decorations["), "]"), ev.Name, ev.Field))
				case schema.KSpace:
					wantSrc := map[string]string{"Before": "before[n]", "After": "after[n]"}[ev.Name]
					e.Run.Check("R-DECS", fmt.Sprintf("decorate %s spacing %s keyed by n", tn, ev.Name), e.Prog.Pos(ev.Pos), ev.Src == wantSrc && ev.Guard == "",
						fmt.Sprintf("out.%s = f.%s", ev.Field, ev.Src))
				}
			}
			for _, w := range want {
				e.Run.Check("R-DECS", fmt.Sprintf("decorate %s point %s copied exactly once", tn, w), e.casePos(dc), dcount[w] == 1,
					fmt.Sprintf("decorate case %s copies point %s %d times: comments the linker attached there are lost", tn, w, dcount[w]))
			}
			for k, n := range dcount {
				if count[k] == 0 {
					e.Run.Violation("R-DECS", fmt.Sprintf("decorate %s point %s is rendered by restore", tn, k), e.casePos(dc), fmt.Sprintf("copied %d times by decorate but never rendered", n))
				}
			}
		}
		// --- listing
		if withListing {
			if lc := ls.Cases[tn]; lc != nil {
				var lorder []string
				okShape := true
				var sp []string
				for _, ev := range lc.Events {
					switch ev.Kind {
					case schema.KDec:
						lorder = append(lorder, ev.Name)
						if ev.Src != "Decs."+ev.Name {
							okShape = false
						}
					case schema.KSpace:
						sp = append(sp, ev.Name+"="+ev.Src)
					default:
						okShape = false
					}
				}
				e.Run.Check("R-DECS", fmt.Sprintf("listing %s points equal restore's, in render order", tn), e.casePos(lc), okShape && strings.Join(lorder, ",") == strings.Join(order, ","),
					fmt.Sprintf("dstutil.Decorations lists %v, restore renders %v (each listed point must be backed by n.Decs.<same name>)", lorder, order))
				e.Run.Check("R-DECS", fmt.Sprintf("listing %s spacing", tn), e.casePos(lc), strings.Join(sp, ",") == "Before=Decs.Before,After=Decs.After",
					"before/after must be n.Decs.Before / n.Decs.After; got "+strings.Join(sp, ","))
			}
		}
	}
	if withListing {
		e.accessors()
	}
	e.Run.Analysed("decoration render/copy sites", sites)
	e.Run.Floor("R-DECS", "decoration sites (restore+decorate)", sites, 300)
}

// specialPoints: nested decoration sources (FuncDecl renders its signature's points) must exist
// in the nested Decs struct and sit directly after the same-named own point — for End, directly
// before the Body child.
func (e *Env) specialPoints(tn string, rc *schema.Case) {
	nt := e.dstTypes[tn]
	var idx []int
	for i, ev := range rc.Events {
		if ev.Kind == schema.KDec && !strings.HasPrefix(ev.Src, "Decs.") {
			idx = append(idx, i)
		}
	}
	for _, i := range idx {
		ev := rc.Events[i]
		parts := strings.Split(ev.Src, ".")
		key := fmt.Sprintf("restore %s special point %s", tn, ev.Src)
		pos := e.Prog.Pos(ev.Pos)
		// resolve n.<Child>.Decs.<X>
		if len(parts) != 3 || parts[1] != "Decs" {
			e.Run.Violation("R-DECS", key+": resolves", pos, "decoration source is not n.<child>.Decs.<point>")
			continue
		}
		cf := nt.ByName[parts[0]]
		if cf == nil || cf.Kind != FNode || !cf.Ptr {
			e.Run.Violation("R-DECS", key+": resolves", pos, "no such concrete child field")
			continue
		}
		child := e.dstTypes[cf.Elem]
		named, _ := e.decPoints(child)
		ok := parts[2] == "Start" || parts[2] == "End"
		for _, n := range named {
			if n == parts[2] {
				ok = true
			}
		}
		e.Run.Check("R-DECS", key+": resolves", pos, ok && parts[2] == ev.Name, fmt.Sprintf("point %s of %s rendered under name %s", parts[2], cf.Elem, ev.Name))
		// the child must be initialised in this case (Init) and never restored as a node itself
		// adjacency
		if ev.Name == "End" {
			next := schema.Event{}
			if i+1 < len(rc.Events) {
				next = rc.Events[i+1]
			}
			e.Run.Check("R-DECS", key+": placement", pos, next.Kind == schema.KChild && next.Field == "Body",
				"the signature's End point must be rendered directly before the body; next event: "+next.String())
		} else {
			prev := rc.Events[i-1]
			e.Run.Check("R-DECS", key+": placement", pos, prev.Kind == schema.KDec && prev.Name == ev.Name && strings.HasPrefix(prev.Src, "Decs."),
				"a signature point must be rendered directly after the same-named own point; previous event: "+prev.String())
		}
	}
}

// accessors: (*T).Decorations() returns &n.Decs.NodeDecs (nil for Package).
func (e *Env) accessors() {
	pkg := e.Prog.Pkg(load.PkgDst)
	n := 0
	for _, tn := range e.dstNodeNames() {
		fd := load.FuncDecl(pkg, tn, "Decorations")
		if fd == nil || fd.Body == nil {
			e.Run.Violation("R-DECS", "accessor "+tn+".Decorations", "", "method missing")
			continue
		}
		n++
		ok := false
		detail := "body is not a single return"
		onlyDefs := true
		for _, st := range fd.Body.List[:len(fd.Body.List)-1] {
			if as, isAs := st.(*ast.AssignStmt); !isAs || as.Tok != token.DEFINE {
				onlyDefs = false
			}
		}
		if len(fd.Body.List) >= 1 && onlyDefs {
			if rs, isRet := fd.Body.List[len(fd.Body.List)-1].(*ast.ReturnStmt); isRet && len(rs.Results) == 1 {
				c := e.Sib.Ctx[load.PkgDst]
				got := c.ExprStr(rs.Results[0])
				recv := ""
				if len(fd.Recv.List[0].Names) == 1 {
					recv = fd.Recv.List[0].Names[0].Name
				}
				if tn == "Package" {
					ok = got == "nil"
				} else {
					ok = got == "&"+recv+".Decs.NodeDecs" || e.addrOfOwnField(c, fd, rs.Results[0], "Decs.NodeDecs")
					if ok {
						// the receiver must be a pointer so that the storage is the node's own
						_, isPtr := fd.Recv.List[0].Type.(*ast.StarExpr)
						ok = isPtr
					}
				}
				detail = "returns " + got
			}
		}
		e.Run.Check("R-DECS", "accessor "+tn+".Decorations returns the node's own storage", e.Prog.Pos(fd.Pos()), ok, detail)
	}
	e.Run.Analysed("accessors", n)
}

// ---------------------------------------------------------------------------------------------
// R-NAME

var nameNoNamesake = map[string]string{
	"Ident.X": "storage for the decorations around the dot of a collapsed qualified identifier; rendered by restoreIdent after the period token (checked by R-IDENT)",
}

func lastComp(p string) string {
	if i := strings.LastIndex(p, "."); i >= 0 {
		return p[i+1:]
	}
	return p
}

func tokenConstName(tok string) string {
	if strings.HasPrefix(tok, "token.") {
		return strings.TrimPrefix(tok, "token.")
	}
	return ""
}

func elemNames(el Elem, x string) bool {
	switch el.Kind {
	case "C", "L", "M":
		return lastComp(el.Field) == x
	case "T":
		if lastComp(el.PosField) == x || (el.ValField != "" && lastComp(el.ValField) == x) {
			return true
		}
		return strings.EqualFold(tokenConstName(el.Token), x)
	case "S":
		return lastComp(el.Field) == x || lastComp(el.PosField) == x
	}
	return false
}

// RName: a named point follows the element it is named for with only tokens in between; Start
// precedes everything, End follows everything.
func (e *Env) RName() {
	rs := e.Sib.ByName["restore"]
	n := 0
	for _, tn := range e.dstNodeNames() {
		rc := rs.Cases[tn]
		if rc == nil || tn == "Package" {
			continue
		}
		elems, _ := e.restoreElems(rc, e.decorateValues(tn))
		var own []Elem
		for _, el := range elems {
			if el.Kind == "D" && !strings.HasPrefix(el.Src, "Decs.") {
				continue
			}
			own = append(own, el)
		}
		for i, el := range own {
			if el.Kind != "D" {
				continue
			}
			n++
			key := fmt.Sprintf("%s point %s", tn, el.Name)
			pos := e.Prog.Pos(el.Pos)
			switch el.Name {
			case "Start":
				ok := true
				for _, p := range own[:i] {
					if p.Kind != "D" {
						ok = false
					}
				}
				e.Run.Check("R-NAME", key+" precedes all tokens and children", pos, ok && i == 0, "Start must be rendered before the node's first token or child")
			case "End":
				e.Run.Check("R-NAME", key+" follows all tokens and children", pos, i == len(own)-1, "End must be rendered after the node's last token or child")
			default:
				if why, frozen := nameNoNamesake[tn+"."+el.Name]; frozen {
					e.Run.Note("R-NAME exception %s.%s: %s", tn, el.Name, why)
					continue
				}
				found := false
				var between []string
				for j := i - 1; j >= 0; j-- {
					p := own[j]
					if elemNames(p, el.Name) {
						found = true
						break
					}
					if p.Kind == "T" {
						between = append(between, p.Key())
						continue
					}
					between = append(between, p.Key())
					break
				}
				e.Run.Check("R-NAME", key+" follows its namesake", pos, found,
					fmt.Sprintf("point %q must be rendered after the token or child it is named for with only tokens in between; walking back found %v", el.Name, between))
			}
		}
	}
	e.Run.Analysed("named points", n)
	e.Run.Floor("R-NAME", "decoration points placed", n, 150)
}

// ---------------------------------------------------------------------------------------------
// R-CLONE

var cloneNotCarried = map[string]string{
	"File.Unresolved": "resolution data; never populated by dst and not consulted by printing",
}

// expandFields lists every leaf storage path of a node struct that a complete copy must
// cover: value fields, children, Decs.<points> and, for children that the restorer renders
// inline (Init), the child's own fields.
func (e *Env) expandFields(nt *NodeType, inline map[string]bool) map[string]*Field {
	out := map[string]*Field{}
	var rec func(prefix string, t *NodeType, depth int)
	rec = func(prefix string, t *NodeType, depth int) {
		for i := range t.Fields {
			f := &t.Fields[i]
			p := prefix + f.Name
			if f.Kind == FDecs && depth > 0 {
				// an inline child's own decorations matter only where the restorer reads them
				// (added from restore's reads by the caller)
				continue
			}
			if f.Kind == FDecs {
				st, _ := f.Type.Underlying().(*types.Struct)
				if st == nil {
					continue
				}
				for j := 0; j < st.NumFields(); j++ {
					df := st.Field(j)
					if df.Embedded() {
						if nd, ok := df.Type().Underlying().(*types.Struct); ok {
							for k := 0; k < nd.NumFields(); k++ {
								out[p+"."+nd.Field(k).Name()] = &Field{Name: nd.Field(k).Name(), Kind: FDecs, Type: nd.Field(k).Type()}
							}
						}
						continue
					}
					out[p+"."+df.Name()] = &Field{Name: df.Name(), Kind: FDecs, Type: df.Type()}
				}
				continue
			}
			if inline[p] && f.Kind == FNode && f.Ptr && depth < 2 {
				rec(p+".", e.dstTypes[f.Elem], depth+1)
				continue
			}
			out[p] = f
		}
	}
	rec("", nt, 0)
	return out
}

// RClone: Clone copies every field and decoration the restorer reads, alias-free.
func (e *Env) RClone() {
	cl := e.Sib.ByName["clone"]
	rs := e.Sib.ByName["restore"]
	facts := 0
	for _, tn := range e.dstNodeNames() {
		cc, rc := cl.Cases[tn], rs.Cases[tn]
		if cc == nil {
			continue
		}
		nt := e.dstTypes[tn]
		// children allocated inline by clone (Init) or rendered inline by restore
		inline := map[string]bool{}
		for _, ev := range cc.Events {
			if ev.Kind == schema.KInit {
				inline[ev.Field] = true
			}
		}
		if rc != nil {
			for _, ev := range rc.Events {
				if ev.Kind == schema.KInit {
					inline[ev.Field] = true
				}
			}
		}
		need := e.expandFields(nt, inline)
		// paths restore reads
		if rc != nil {
			for p := range readsOfEvents(rc.Events) {
				fp := fieldPrefix(nt, e.dstTypes, p)
				if fp == "" {
					continue
				}
				if _, ok := need[fp]; !ok {
					// nested read outside the expansion (n.Type.Decs.X when Type is not Init in clone)
					need[fp] = &Field{Name: lastComp(fp), Kind: FDecs}
					if !strings.Contains(fp, ".Decs.") {
						need[fp].Kind = FOther
					}
				}
			}
		}
		written := map[string]schema.Event{}
		freshMap := map[string]bool{}
		allocSeen := false
		var valueCopy *schema.Event
		for i, ev := range cc.Events {
			pos := e.Prog.Pos(ev.Pos)
			switch ev.Kind {
			case schema.KAlloc:
				e.Run.Check("R-CLONE", fmt.Sprintf("%s: fresh allocation of the same type", tn), pos, ev.Field == tn && i == 0 && ev.Guard == "", "Clone case must start with out := &"+tn+"{}; found "+ev.String())
				allocSeen = true
				if ev.Name == "value-copy" {
					cp := ev
					valueCopy = &cp
				}
			case schema.KRet:
				e.Run.Check("R-CLONE", fmt.Sprintf("%s: returns the fresh node", tn), pos, ev.Expr == "out" && ev.Guard == "" && i == len(cc.Events)-1, "the only return must be `return out` at the end of the case; found return "+ev.Expr)
			case schema.KOpaque:
				e.Run.Violation("R-CLONE", fmt.Sprintf("%s: unrecognised statement", tn), pos, "statement with effects on n/out in an unrecognised shape: "+ev.Expr)
			case schema.KOther, schema.KInit:
			default:
				if ev.Kind == schema.KValue && strings.HasPrefix(ev.Expr, "map[") && strings.HasSuffix(ev.Expr, "{}") {
					freshMap[ev.Field] = true
					continue
				}
				if _, dup := written[ev.Field]; dup {
					e.Run.Violation("R-CLONE", fmt.Sprintf("%s.%s written once", tn, ev.Field), pos, "field written twice by Clone")
				}
				written[ev.Field] = ev
			}
		}
		if !allocSeen {
			e.Run.Violation("R-CLONE", fmt.Sprintf("%s: fresh allocation of the same type", tn), e.casePos(cc), "no allocation")
		}
		for _, p := range sortedKeys(need) {
			f := need[p]
			if _, frozen := cloneNotCarried[tn+"."+p]; frozen {
				continue
			}
			if inline[p] {
				continue
			}
			facts++
			ev, ok := written[p]
			key := fmt.Sprintf("%s.%s copied", tn, p)
			if !ok && valueCopy != nil {
				// out := *n copied the field as it is: that is the whole copy of a plain value, and
				// shared storage for anything that refers to other memory
				plain := f.Kind == FValue || (f.Kind == FDecs && (lastComp(p) == "Before" || lastComp(p) == "After"))
				e.Run.Check("R-CLONE", key, e.Prog.Pos(valueCopy.Pos), plain,
					fmt.Sprintf("out := *n copies out.%s (%s) by reference and the case never replaces it with a deep copy: the clone shares that storage with the original (an edit of one shows up in the other)", p, f.Kind))
				continue
			}
			if !ok {
				e.Run.Violation("R-CLONE", key, e.casePos(cc), fmt.Sprintf("Clone case %s never writes out.%s (%s): a clone prints differently from / lacks data of the original", tn, p, f.Kind))
				continue
			}
			pos := e.Prog.Pos(ev.Pos)
			good, why := false, ""
			switch f.Kind {
			case FNode:
				good = ev.Kind == schema.KChild && ev.Src == p
				why = "a child must be written from Clone(n." + p + ")"
			case FNodeSlice, FIdentSlice:
				good = ev.Kind == schema.KList && ev.Src == p && ev.Expr == schema.KChild
				why = "a node list must be rebuilt from clones appended to the fresh out." + p
			case FNodeMap:
				good = ev.Kind == schema.KMap && ev.Src == p && ev.Expr == schema.KChild && freshMap[p]
				why = "a node map must be a fresh map rebuilt from clones"
			case FObjMap:
				good = ev.Kind == schema.KMap && ev.Src == p && ev.Expr == schema.KObj && freshMap[p]
				why = "an object map must be a fresh map rebuilt through CloneObject"
			case FObject:
				good = ev.Kind == schema.KObj && ev.Src == p
				why = "objects are written only from CloneObject"
			case FScope:
				good = ev.Kind == schema.KScope && ev.Src == p
				why = "scopes are written only from CloneScope"
			case FDecs:
				switch lastComp(p) {
				case "Before", "After":
					good = ev.Kind == schema.KSpace && ev.Src == p
					why = "spacing is a plain copy of n." + p
				default:
					good = ev.Kind == schema.KDec && ev.Src == p && ev.Name == "fresh-append"
					why = "a decoration list must be copied as append(out." + p + ", n." + p + "...) onto the fresh node (anything else shares the backing array)"
				}
			case FValue:
				good = ev.Kind == schema.KValue && ev.Src == p
				why = "a value field is a plain copy of n." + p
			default:
				good = false
				why = "field of unclassified kind " + f.Type.String()
			}
			if good && ev.Guard != "" && ev.Guard != "n."+p+" != nil" {
				good, why = false, "copy is conditional on "+ev.Guard
			}
			e.Run.Check("R-CLONE", key, pos, good, fmt.Sprintf("%s; found %s", why, ev.String()))
		}
		// nothing written that aliases: any Value event whose field has reference kind
		for p, ev := range written {
			f := need[p]
			if f == nil {
				// written but not a known storage path
				e.Run.Violation("R-CLONE", fmt.Sprintf("%s.%s is a field", tn, p), e.Prog.Pos(ev.Pos), "Clone writes a path that is not a field of the struct")
			}
		}
	}
	e.cloneObjScope()
	e.Run.Analysed("clone field facts", facts)
	e.Run.Floor("R-CLONE", "field facts", facts, 300)
}

// cloneObjScope: CloneObject / CloneScope return the nil constant on all paths.
func (e *Env) cloneObjScope() {
	pkg := e.Prog.Pkg(load.PkgDst)
	for _, name := range []string{"CloneObject", "CloneScope"} {
		fd := load.FuncDecl(pkg, "", name)
		ok := fd != nil && fd.Body != nil
		detail := "function missing"
		if ok {
			nret := 0
			ast.Inspect(fd.Body, func(n ast.Node) bool {
				if _, isLit := n.(*ast.FuncLit); isLit {
					return false
				}
				if rs, isRet := n.(*ast.ReturnStmt); isRet {
					nret++
					if len(rs.Results) != 1 || !pkg.TypesInfo.Types[rs.Results[0]].IsNil() {
						ok = false
						detail = "returns a non-nil value at " + e.Prog.Pos(rs.Pos())
					}
				}
				return true
			})
			if nret == 0 {
				ok = false
				detail = "no return"
			}
		}
		pos := ""
		if fd != nil {
			pos = e.Prog.Pos(fd.Pos())
		}
		e.Run.Check("R-CLONE", name+" drops the link", pos, ok, "clones must not stay attached to the original's objects/scopes: "+detail)
	}
}

var _ = token.NoPos

// addrOfOwnField: x denotes the address of recv.<path> — directly or through locals that hold the
// address of a part of the receiver (`decs := &n.Decs`), never through a value copy.
func (e *Env) addrOfOwnField(c *schema.Ctx, fd *ast.FuncDecl, x ast.Expr, path string) bool {
	info := c.Info
	recv := info.Defs[fd.Recv.List[0].Names[0]]
	u, ok := x.(*ast.UnaryExpr)
	if !ok || u.Op != token.AND {
		return false
	}
	var parts []string
	cur := u.X
	for hops := 0; hops < 8; hops++ {
		switch v := cur.(type) {
		case *ast.SelectorExpr:
			parts = append([]string{v.Sel.Name}, parts...)
			cur = v.X
		case *ast.ParenExpr:
			cur = v.X
		case *ast.Ident:
			if info.Uses[v] == recv {
				return strings.Join(parts, ".") == path
			}
			def := singleDef(info, fd, v)
			du, ok := def.(*ast.UnaryExpr)
			if !ok || du.Op != token.AND {
				return false // a value copy is not the node's own storage
			}
			cur = du.X
		default:
			return false
		}
	}
	return false
}
