package rules

import (
	"fmt"
	"go/ast"
	"go/constant"
	"go/token"
	"go/types"
	"sort"
	"strings"

	"dstverif/load"
)

// R-NILFILE: (*token.FileSet).File returns nil for a position that is in no file (NoPos: the
// parser's placeholder file for input without a package clause). Its result must be nil-checked
// before it is dereferenced, in every function on the parse/decorate path.
func (e *Env) RNilFile() {
	pkg := e.Prog.Pkg(load.PkgDecorator)
	info := pkg.TypesInfo
	n := 0
	for _, fd := range load.AllFuncDecls(pkg) {
		if fd.Body == nil || isRestorePath(fd) {
			continue
		}
		if strings.HasSuffix(e.Prog.File(fd.Pos()), "decorator/load.go") {
			// frozen: the files handled in load.go come from go/packages together with their
			// FileSet; Load is not a parse entry point of C15
			continue
		}
		var stack []ast.Node
		ast.Inspect(fd.Body, func(nd ast.Node) bool {
			if nd == nil {
				stack = stack[:len(stack)-1]
				return true
			}
			stack = append(stack, nd)
			call, ok := nd.(*ast.CallExpr)
			if !ok || funcKey(calleeFunc(info, call)) != "(*go/token.FileSet).File" {
				return true
			}
			n++
			parent := stack[len(stack)-2]
			key := fmt.Sprintf("%s: result of FileSet.File(%s) checked for nil before use", load.FuncName(fd), types.ExprString(call.Args[0]))
			pos := e.Prog.Pos(call.Pos())
			switch p := parent.(type) {
			case *ast.BinaryExpr:
				e.Run.OK("R-NILFILE", key, pos, "only compared")
			case *ast.SelectorExpr:
				_ = p
				e.Run.Violation("R-NILFILE", key, pos, "the *token.File is dereferenced at once; for a file without positions (empty input, no package clause) FileSet.File returns nil and this panics instead of surfacing the parse error")
			case *ast.AssignStmt:
				// L := fset.File(p): every use of L other than a comparison must be nil-guarded
				var obj types.Object
				for i, r := range p.Rhs {
					if r == ast.Expr(call) && i < len(p.Lhs) {
						if id, ok := p.Lhs[i].(*ast.Ident); ok {
							obj = info.Defs[id]
							if obj == nil {
								obj = info.Uses[id]
							}
						}
					}
				}
				if obj == nil {
					e.Run.Undecided("R-NILFILE", key, pos, "result stored in something other than a local")
					return true
				}
				bad := e.unguardedDeref(info, fd, obj, p)
				e.Run.Check("R-NILFILE", key, pos, bad == token.NoPos,
					"local "+obj.Name()+" is dereferenced at "+e.Prog.Pos(bad)+" without a dominating nil test (`if "+obj.Name()+" == nil { return }` before it, or inside `if "+obj.Name()+" != nil`)")
			default:
				e.Run.Undecided("R-NILFILE", key, pos, fmt.Sprintf("result used in %T", parent))
			}
			return true
		})
	}
	e.Run.Analysed("FileSet.File call sites", n)
	e.Run.Floor("R-NILFILE", "FileSet.File call sites on the decorate path", n, 2)
}

// unguardedDeref returns the position of a dereference of obj (selector / method call on it) that
// is not dominated by a nil test, or NoPos.
func (e *Env) unguardedDeref(info *types.Info, fd *ast.FuncDecl, obj types.Object, def ast.Stmt) token.Pos {
	isObj := func(x ast.Expr) bool {
		id, ok := x.(*ast.Ident)
		return ok && info.Uses[id] == obj
	}
	var nilTest func(cond ast.Expr, op token.Token) bool
	nilTest = func(cond ast.Expr, op token.Token) bool {
		if p, ok := cond.(*ast.ParenExpr); ok {
			return nilTest(p.X, op)
		}
		be, ok := cond.(*ast.BinaryExpr)
		if !ok {
			return false
		}
		// `a && L != nil` guards the body; `a || L == nil` guards what follows a leaving body
		if (op == token.NEQ && be.Op == token.LAND) || (op == token.EQL && be.Op == token.LOR) {
			return nilTest(be.X, op) || nilTest(be.Y, op)
		}
		return be.Op == op && ((isObj(be.X) && info.Types[be.Y].IsNil()) || (isObj(be.Y) && info.Types[be.X].IsNil()))
	}
	leaves := func(list []ast.Stmt) bool {
		if len(list) == 0 {
			return false
		}
		switch s := list[len(list)-1].(type) {
		case *ast.ReturnStmt:
			return true
		case *ast.BranchStmt:
			return s.Tok == token.CONTINUE || s.Tok == token.BREAK
		case *ast.ExprStmt:
			if call, ok := s.X.(*ast.CallExpr); ok {
				if id, ok := call.Fun.(*ast.Ident); ok && id.Name == "panic" {
					return true
				}
			}
		}
		return false
	}
	bad := token.NoPos
	var walk func(list []ast.Stmt, guarded bool)
	checkExpr := func(n ast.Node, guarded bool) {
		ast.Inspect(n, func(m ast.Node) bool {
			if _, ok := m.(*ast.FuncLit); ok {
				return true
			}
			if se, ok := m.(*ast.SelectorExpr); ok && isObj(se.X) && !guarded && bad == token.NoPos {
				bad = se.Pos()
			}
			return true
		})
	}
	walk = func(list []ast.Stmt, guarded bool) {
		for _, st := range list {
			switch s := st.(type) {
			case *ast.IfStmt:
				if s.Init != nil {
					checkExpr(s.Init, guarded)
				}
				if !nilTest(s.Cond, token.NEQ) {
					checkExpr(s.Cond, guarded)
				}
				switch {
				case nilTest(s.Cond, token.NEQ):
					walk(s.Body.List, true)
					if el, ok := s.Else.(*ast.BlockStmt); ok {
						walk(el.List, guarded)
					}
				case nilTest(s.Cond, token.EQL):
					walk(s.Body.List, guarded)
					if leaves(s.Body.List) {
						guarded = true // everything after this statement runs with a non-nil value
					}
					if el, ok := s.Else.(*ast.BlockStmt); ok {
						walk(el.List, true)
					}
				default:
					walk(s.Body.List, guarded)
					switch el := s.Else.(type) {
					case *ast.BlockStmt:
						walk(el.List, guarded)
					case *ast.IfStmt:
						walk([]ast.Stmt{el}, guarded)
					}
				}
			case *ast.ForStmt:
				if s.Init != nil {
					checkExpr(s.Init, guarded)
				}
				if s.Cond != nil {
					checkExpr(s.Cond, guarded)
				}
				walk(s.Body.List, guarded)
			case *ast.RangeStmt:
				checkExpr(s.X, guarded)
				walk(s.Body.List, guarded)
			case *ast.BlockStmt:
				walk(s.List, guarded)
			case *ast.SwitchStmt:
				for _, cl := range s.Body.List {
					walk(cl.(*ast.CaseClause).Body, guarded)
				}
			case *ast.TypeSwitchStmt:
				for _, cl := range s.Body.List {
					walk(cl.(*ast.CaseClause).Body, guarded)
				}
			default:
				if st != def {
					checkExpr(st, guarded)
				}
			}
		}
	}
	// analyse the innermost function body (closure or declaration) that contains the definition
	body := fd.Body
	ast.Inspect(fd.Body, func(n ast.Node) bool {
		if fl, ok := n.(*ast.FuncLit); ok && fl.Body.Pos() <= def.Pos() && def.End() <= fl.Body.End() {
			body = fl.Body
		}
		return true
	})
	walk(body.List, false)
	return bad
}

// R-INDEX: inventory of index and slice expressions on slices, arrays and strings in the
// decorate path, by function and class. The confirmed counts are the sites read during the build
// (each is in range by construction: loop index of the same slice, last element after a length
// test, first element of a list known to be non-empty, ...). An additional site of class "var"
// (index computed from run-time quantities) or "const" is not proven in range and is reported.

type indexClass string

var indexConfirmed = map[string]map[indexClass]int{
	// sort comparator indices (valid by sort's contract); f.fragments[i-1] under `i == 0 ||`
	"(*fileDecorator).fragment": {"var": 3},
	// endFrags[0:len-1] and endFrags[len-1] under len(endFrags) > 0
	"(*fileDecorator).link": {"var": 1, "const": 1, "last": 1},
	// (f.fragments[i], f.fragments[from], f.fragments[from-1] are proven by loopBounded;
	// frags[stage] / indents[stage] on [2] arrays with stage ∈ {0, 1} by constBoundedIndex)
	// decs[len(decs)-1] under len(decs) > 0
	"appendNewLine": {"last": 1},
	// v[len(v)-1] after `if len(v) == 0 { continue }`
	"mergeDecorations": {"last": 2},
}

func (e *Env) RIndex() {
	pkg := e.Prog.Pkg(load.PkgDecorator)
	info := pkg.TypesInfo
	nonNegParamFiles = pkg.Syntax
	type site struct {
		pos  token.Pos
		expr string
	}
	found := map[string]map[indexClass][]site{}
	for _, fd := range load.AllFuncDecls(pkg) {
		if fd.Body == nil || isRestorePath(fd) || fd.Name.Name == "Load" || fd.Name.Name == "save" {
			continue
		}
		if strings.HasSuffix(e.Prog.File(fd.Pos()), "-generated.go") {
			continue // generated converters index nothing but maps (checked: R-COVER keeps their shape)
		}
		name := load.FuncName(fd)
		add := func(c indexClass, p token.Pos, x ast.Expr) {
			if found[name] == nil {
				found[name] = map[indexClass][]site{}
			}
			found[name][c] = append(found[name][c], site{p, types.ExprString(x)})
		}
		isSeq := func(x ast.Expr) bool {
			t := info.TypeOf(x)
			if t == nil {
				return false
			}
			switch u := t.Underlying().(type) {
			case *types.Slice, *types.Array:
				return true
			case *types.Basic:
				// string slicing (stripVendor, debug output) is left out of the inventory: the
				// offsets there come from strings.Index/LastIndex on the same string
				return false
			case *types.Pointer:
				_, isArr := u.Elem().Underlying().(*types.Array)
				return isArr
			}
			return false
		}
		isConst := func(x ast.Expr) bool {
			if x == nil {
				return true
			}
			tv, ok := info.Types[x]
			return ok && tv.Value != nil
		}
		isLast := func(base, idx ast.Expr) bool {
			return types.ExprString(idx) == "len("+types.ExprString(base)+")-1" || types.ExprString(idx) == "len("+types.ExprString(base)+") - 1"
		}
		// range keys / for indices over a given expression text
		rangeKey := map[types.Object]string{}
		ast.Inspect(fd.Body, func(n ast.Node) bool {
			if rs, ok := n.(*ast.RangeStmt); ok {
				if id, ok := rs.Key.(*ast.Ident); ok && id.Name != "_" {
					rangeKey[info.Defs[id]] = types.ExprString(rs.X)
				}
			}
			return true
		})
		// locals that carry a line/column/offset of a token.Position (unbounded: //line directives)
		tainted := map[types.Object]bool{}
		isPosField := func(x ast.Expr) bool {
			se, ok := x.(*ast.SelectorExpr)
			if !ok {
				return false
			}
			if p, n := namedOf(info.TypeOf(se.X)); p == "go/token" && n == "Position" {
				return se.Sel.Name == "Line" || se.Sel.Name == "Column" || se.Sel.Name == "Offset"
			}
			return false
		}
		taintedExpr := func(x ast.Expr) bool {
			t := false
			ast.Inspect(x, func(m ast.Node) bool {
				if ex, ok := m.(ast.Expr); ok && isPosField(ex) {
					t = true
				}
				if id, ok := m.(*ast.Ident); ok && tainted[info.Uses[id]] {
					t = true
				}
				return true
			})
			return t
		}
		for changed := true; changed; {
			changed = false
			ast.Inspect(fd.Body, func(n ast.Node) bool {
				as, ok := n.(*ast.AssignStmt)
				if !ok || len(as.Lhs) != len(as.Rhs) {
					return true
				}
				for i, l := range as.Lhs {
					id, ok := l.(*ast.Ident)
					if !ok {
						continue
					}
					o := info.Defs[id]
					if o == nil {
						o = info.Uses[id]
					}
					if o != nil && !tainted[o] && taintedExpr(as.Rhs[i]) {
						tainted[o] = true
						changed = true
					}
				}
				return true
			})
		}
		ast.Inspect(fd.Body, func(n ast.Node) bool {
			switch x := n.(type) {
			case *ast.IndexExpr:
				if !isSeq(x.X) {
					return true
				}
				if taintedExpr(x.Index) {
					e.Run.Violation("R-INDEX", fmt.Sprintf("%s: %s indexed by a source line/column number", name, types.ExprString(x.X)), e.Prog.Pos(x.Pos()),
						"index "+types.ExprString(x.Index)+" derives from token.Position.Line/Column/Offset, which //line directives (and other files of a package) make arbitrarily large: indexing a slice with it panics with index out of range on legal input (a map keyed by it is fine)")
					return true
				}
				switch {
				case isConst(x.Index):
					if arr, ok := info.TypeOf(x.X).Underlying().(*types.Array); ok {
						_ = arr // constant index into an array is checked by the compiler
						return true
					}
					if e.lenGuarded(fd, x, x.X, types.ExprString(x.Index)) {
						return true // S[k] where the path condition has len(S) > k
					}
					add("const", x.Pos(), x)
				case isLast(x.X, x.Index):
					if e.lenGuarded(fd, x, x.X, "0") {
						return true // S[len(S)-1] where the path condition has len(S) > 0
					}
					add("last", x.Pos(), x)
				default:
					if id, ok := x.Index.(*ast.Ident); ok && rangeKey[info.Uses[id]] == types.ExprString(x.X) {
						return true // the range key of the same slice
					}
					if loopBounded(info, fd, x) {
						return true // proven by the enclosing loop's condition
					}
					if constBoundedIndex(info, fd, x) {
						return true // array indexed by a variable that only ever holds in-range constants
					}
					if sortCallbackIndex(info, fd, x) || lenGuardedSearchIndex(info, fd, x) {
						return true // valid by the contract of package sort / guarded by i < len(S)
					}
					if mirrorIndex(info, fd, x, rangeKey) {
						return true // out[len(S)-1-i], i the range key of S, out made with len(S)
					}
					if descBounded(info, fd, x) {
						return true // a parameter that every caller sets to a range key of S, or a loop counting down from it to 0
					}
					if e.idxInRange(pkg, fd, x) {
						return true // 0 <= index < len(S) from loops, path conditions, definitions and call sites (rangeproof.go)
					}
					add("var", x.Pos(), x)
				}
			case *ast.SliceExpr:
				if !isSeq(x.X) {
					return true
				}
				if isConst(x.Low) && isConst(x.High) && isConst(x.Max) {
					if x.Low == nil && x.High == nil {
						return true
					}
					add("const", x.Pos(), x)
					return true
				}
				add("var", x.Pos(), x)
			}
			return true
		})
	}
	total := 0
	var names []string
	for k := range found {
		names = append(names, k)
	}
	sort.Strings(names)
	for _, name := range names {
		for _, c := range []indexClass{"var", "const", "last"} {
			sites := found[name][c]
			total += len(sites)
			conf, known := indexConfirmed[name]
			limit := 0
			if known {
				limit = conf[c]
			}
			if len(sites) > limit {
				var where []string
				for _, s := range sites {
					where = append(where, s.expr+" ("+e.Prog.Pos(s.pos)+")")
				}
				e.Run.Undecided("R-INDEX", fmt.Sprintf("%s: %s-indexed slice/string expressions", name, c), e.Prog.Pos(sites[0].pos),
					fmt.Sprintf("%d sites, %d confirmed in range at build time: %s — an index computed from run-time quantities (line numbers, positions) is not proven in range; on the parse path an out-of-range index is a panic", len(sites), limit, strings.Join(where, "; ")))
			} else if len(sites) > 0 {
				e.Run.OK("R-INDEX", fmt.Sprintf("%s: %s-indexed slice/string expressions", name, c), e.Prog.Pos(sites[0].pos), fmt.Sprintf("%d sites (confirmed %d)", len(sites), limit))
			}
		}
	}
	e.Run.Analysed("index/slice expressions on the decorate path", total)
}

// RNilResults: a helper of the attachment code that can return a nil pointer without an
// accompanying ok/found result must have that result nil-checked at every call site before it is
// dereferenced.
func (e *Env) RNilResults() {
	pkg := e.Prog.Pkg(load.PkgDecorator)
	info := pkg.TypesInfo
	// callee → index of the nil-able pointer result
	nilable := map[types.Object]int{}
	for _, fd := range load.AllFuncDecls(pkg) {
		if fd.Body == nil || fd.Type.Results == nil || isRestorePath(fd) {
			continue
		}
		var resTypes []types.Type
		var resObjs []types.Object
		for _, r := range fd.Type.Results.List {
			k := len(r.Names)
			if k == 0 {
				k = 1
			}
			for i := 0; i < k; i++ {
				resTypes = append(resTypes, info.TypeOf(r.Type))
				if i < len(r.Names) {
					resObjs = append(resObjs, info.Defs[r.Names[i]])
				} else {
					resObjs = append(resObjs, nil)
				}
			}
		}
		hasBool := false
		for _, t := range resTypes {
			if b, ok := t.Underlying().(*types.Basic); ok && b.Kind() == types.Bool {
				hasBool = true
			}
		}
		if hasBool {
			continue
		}
		for i, t := range resTypes {
			if _, isPtr := t.Underlying().(*types.Pointer); !isPtr {
				continue
			}
			mayNil := false
			ast.Inspect(fd.Body, func(n ast.Node) bool {
				if _, isLit := n.(*ast.FuncLit); isLit {
					return false
				}
				rs, ok := n.(*ast.ReturnStmt)
				if !ok {
					return true
				}
				if len(rs.Results) == 0 && resObjs[i] != nil {
					mayNil = true // bare return of a named result (zero unless assigned on every path)
				}
				if i < len(rs.Results) && info.Types[rs.Results[i]].IsNil() {
					mayNil = true
				}
				return true
			})
			if mayNil {
				nilable[info.Defs[fd.Name]] = i
			}
		}
	}
	n := 0
	for _, fd := range load.AllFuncDecls(pkg) {
		if fd.Body == nil {
			continue
		}
		ast.Inspect(fd.Body, func(nd ast.Node) bool {
			as, ok := nd.(*ast.AssignStmt)
			if !ok || len(as.Rhs) != 1 {
				return true
			}
			call, ok := as.Rhs[0].(*ast.CallExpr)
			if !ok {
				return true
			}
			fn := calleeFunc(info, call)
			if fn == nil {
				return true
			}
			idx, ok := nilable[fn]
			if !ok || idx >= len(as.Lhs) {
				return true
			}
			id, ok := as.Lhs[idx].(*ast.Ident)
			if !ok || id.Name == "_" {
				return true
			}
			obj := info.Defs[id]
			if obj == nil {
				obj = info.Uses[id]
			}
			n++
			bad := e.unguardedDeref(info, fd, obj, as)
			e.Run.Check("R-NILRESULT", fmt.Sprintf("%s: %s (may be nil, from %s) is checked before use", load.FuncName(fd), id.Name, fn.Name()), e.Prog.Pos(as.Pos()), bad == token.NoPos,
				fmt.Sprintf("%s returns a nil %s on some paths and has no ok/found result; %s is dereferenced at %s without a dominating nil test: a panic on inputs that take that path", fn.Name(), id.Name, id.Name, e.Prog.Pos(bad)))
			return true
		})
	}
	e.Run.Analysed("call sites of nil-able helpers", n)
	e.Run.Floor("R-NILRESULT", "call sites of helpers with a nil-able pointer result", n, 1)
}

// loopBounded proves S[E] in range from the enclosing `for i := from; … i < len(S) … i >= 0 …; post`
// loop (S not assigned inside the loop, i written only by the post statement):
//   - E is i;
//   - E is `from`, the unassigned variable i starts from (the body only runs while i is in
//     range, the first time with i == from, and len(S) does not change);
//   - E is `from - 1` at a point dominated by `from > 0` in the same if condition.
func loopBounded(info *types.Info, fd *ast.FuncDecl, x *ast.IndexExpr) bool {
	base := types.ExprString(x.X)
	var loop *ast.ForStmt
	ast.Inspect(fd.Body, func(n ast.Node) bool {
		if fs, ok := n.(*ast.ForStmt); ok && fs.Body.Pos() <= x.Pos() && x.End() <= fs.Body.End() {
			loop = fs // innermost wins (visited last)
		}
		return true
	})
	if loop == nil || loop.Init == nil || loop.Cond == nil {
		return false
	}
	init, ok := loop.Init.(*ast.AssignStmt)
	if !ok || init.Tok != token.DEFINE || len(init.Lhs) != 1 || len(init.Rhs) != 1 {
		return false
	}
	iv, ok := init.Lhs[0].(*ast.Ident)
	if !ok {
		return false
	}
	iObj := info.Defs[iv]
	// condition: conjunction containing i < len(S) and (i >= 0 or the loop only counts up from a non-negative start)
	upper, lower := false, false
	var conj func(e ast.Expr)
	conj = func(e ast.Expr) {
		e = ast.Unparen(e)
		if be, ok := e.(*ast.BinaryExpr); ok {
			if be.Op == token.LAND {
				conj(be.X)
				conj(be.Y)
				return
			}
			if id, ok := be.X.(*ast.Ident); ok && info.Uses[id] == iObj {
				if be.Op == token.LSS && types.ExprString(be.Y) == "len("+base+")" {
					upper = true
				}
				if be.Op == token.GEQ && types.ExprString(be.Y) == "0" {
					lower = true
				}
			}
		}
	}
	conj(loop.Cond)
	if !lower {
		if _, isInc := loop.Post.(*ast.IncDecStmt); isInc && loop.Post.(*ast.IncDecStmt).Tok == token.INC {
			if tv, ok := info.Types[init.Rhs[0]]; ok && tv.Value != nil && tv.Value.String() == "0" {
				lower = true
			}
			// counting up from a parameter that every call site (same file set of functions) sets
			// to a range key plus a non-negative constant
			if pid, ok := ast.Unparen(init.Rhs[0]).(*ast.Ident); ok && nonNegParam(info, fd, info.Uses[pid]) {
				lower = true
			}
		}
	}
	if !upper || !lower {
		return false
	}
	// no write to i or to S inside the body
	clean := true
	ast.Inspect(loop.Body, func(n ast.Node) bool {
		switch s := n.(type) {
		case *ast.AssignStmt:
			for _, l := range s.Lhs {
				if id, ok := l.(*ast.Ident); ok && info.Uses[id] == iObj {
					clean = false
				}
				if types.ExprString(l) == base {
					clean = false
				}
			}
		case *ast.IncDecStmt:
			if id, ok := s.X.(*ast.Ident); ok && info.Uses[id] == iObj {
				clean = false
			}
		}
		return true
	})
	if !clean {
		return false
	}
	idx := ast.Unparen(x.Index)
	if id, ok := idx.(*ast.Ident); ok && info.Uses[id] == iObj {
		return true
	}
	from, ok := ast.Unparen(init.Rhs[0]).(*ast.Ident)
	if !ok {
		return false
	}
	fObj := info.Uses[from]
	// from is never assigned in the function
	assigned := false
	ast.Inspect(fd.Body, func(n ast.Node) bool {
		switch s := n.(type) {
		case *ast.AssignStmt:
			for _, l := range s.Lhs {
				if id, ok := l.(*ast.Ident); ok && info.Uses[id] == fObj {
					assigned = true
				}
			}
		case *ast.IncDecStmt:
			if id, ok := s.X.(*ast.Ident); ok && info.Uses[id] == fObj {
				assigned = true
			}
		case *ast.UnaryExpr:
			if id, ok := s.X.(*ast.Ident); ok && s.Op == token.AND && info.Uses[id] == fObj {
				assigned = true
			}
		}
		return true
	})
	if assigned {
		return false
	}
	if id, ok := idx.(*ast.Ident); ok && info.Uses[id] == fObj {
		return true
	}
	// from - 1 under `from > 0 && …` in the innermost enclosing if condition (left of the use)
	if be, ok := idx.(*ast.BinaryExpr); ok && be.Op == token.SUB && types.ExprString(be.Y) == "1" {
		if id, ok := be.X.(*ast.Ident); ok && info.Uses[id] == fObj {
			guarded := false
			ast.Inspect(loop.Body, func(n ast.Node) bool {
				is, ok := n.(*ast.IfStmt)
				if !ok || !(is.Cond.Pos() <= x.Pos() && x.End() <= is.Cond.End()) {
					return true
				}
				var walk func(e ast.Expr)
				walk = func(e ast.Expr) {
					e = ast.Unparen(e)
					if b2, ok := e.(*ast.BinaryExpr); ok && b2.Op == token.LAND {
						// the use must be in the right operand of an && whose left side has from > 0
						if b2.Y.Pos() <= x.Pos() && x.End() <= b2.Y.End() {
							var has func(e ast.Expr) bool
							has = func(e ast.Expr) bool {
								e = ast.Unparen(e)
								if b3, ok := e.(*ast.BinaryExpr); ok {
									if b3.Op == token.LAND {
										return has(b3.X) || has(b3.Y)
									}
									if l, ok := b3.X.(*ast.Ident); ok && info.Uses[l] == fObj && b3.Op == token.GTR && types.ExprString(b3.Y) == "0" {
										return true
									}
								}
								return false
							}
							if has(b2.X) {
								guarded = true
							}
							walk(b2.Y)
						} else {
							walk(b2.X)
						}
					}
				}
				walk(is.Cond)
				return true
			})
			return guarded
		}
	}
	return false
}

// nonNegParam: p is a parameter of fd and every call of fd in the files that were type-checked
// with it passes, for p, a non-negative constant or `<range key or loop index> + <non-negative
// constant>`.
var nonNegParamFiles []*ast.File

func nonNegParam(info *types.Info, fd *ast.FuncDecl, p types.Object) bool {
	idx := -1
	k := 0
	for _, f := range fd.Type.Params.List {
		for _, nm := range f.Names {
			if info.Defs[nm] == p {
				idx = k
			}
			k++
		}
	}
	if idx < 0 {
		return false
	}
	target := info.Defs[fd.Name]
	calls, good := 0, true
	for _, file := range nonNegParamFiles {
		var ranges []*ast.RangeStmt
		ast.Inspect(file, func(n ast.Node) bool {
			if rs, ok := n.(*ast.RangeStmt); ok {
				ranges = append(ranges, rs)
			}
			call, ok := n.(*ast.CallExpr)
			if !ok || idx >= len(call.Args) {
				return true
			}
			if fn := calleeFunc(info, call); fn == nil || types.Object(fn) != target {
				return true
			}
			calls++
			arg := ast.Unparen(call.Args[idx])
			nonNegConst := func(x ast.Expr) bool {
				tv, ok := info.Types[x]
				return ok && tv.Value != nil && !strings.HasPrefix(tv.Value.String(), "-")
			}
			isKey := func(x ast.Expr) bool {
				id, ok := ast.Unparen(x).(*ast.Ident)
				if !ok {
					return false
				}
				for _, rs := range ranges {
					if kid, ok := rs.Key.(*ast.Ident); ok && info.Defs[kid] == info.Uses[id] && rs.Body.Pos() <= call.Pos() && call.End() <= rs.Body.End() {
						if _, isMap := info.TypeOf(rs.X).Underlying().(*types.Map); !isMap {
							return true
						}
					}
				}
				// the index of a loop that counts up from a non-negative constant
				return countingLoop(info, file, info.Uses[id], call) != nil
			}
			switch {
			case nonNegConst(arg), isKey(arg):
			default:
				if be, ok := arg.(*ast.BinaryExpr); ok && be.Op == token.ADD && ((isKey(be.X) && nonNegConst(be.Y)) || (nonNegConst(be.X) && isKey(be.Y))) {
					break
				}
				good = false
			}
			return true
		})
	}
	return calls > 0 && good
}

// countingLoop: the enclosing loop `for k := C; …; k++` (C a non-negative constant) whose index k
// is the object o and is written by nothing but its own post statement; nil if there is none.
func countingLoop(info *types.Info, file ast.Node, o types.Object, at ast.Node) *ast.ForStmt {
	var found *ast.ForStmt
	ast.Inspect(file, func(n ast.Node) bool {
		fs, ok := n.(*ast.ForStmt)
		if !ok || fs.Init == nil || fs.Post == nil || !(fs.Body.Pos() <= at.Pos() && at.End() <= fs.Body.End()) {
			return true
		}
		init, ok := fs.Init.(*ast.AssignStmt)
		if !ok || init.Tok != token.DEFINE || len(init.Lhs) != 1 || len(init.Rhs) != 1 {
			return true
		}
		if id, ok := init.Lhs[0].(*ast.Ident); !ok || info.Defs[id] != o {
			return true
		}
		if tv, ok := info.Types[init.Rhs[0]]; !ok || tv.Value == nil || strings.HasPrefix(tv.Value.String(), "-") {
			return true
		}
		post, ok := fs.Post.(*ast.IncDecStmt)
		if !ok || post.Tok != token.INC {
			return true
		}
		if id, ok := post.X.(*ast.Ident); !ok || info.Uses[id] != o {
			return true
		}
		clean := true
		ast.Inspect(fs.Body, func(m ast.Node) bool {
			switch st := m.(type) {
			case *ast.AssignStmt:
				for _, l := range st.Lhs {
					if id, ok := ast.Unparen(l).(*ast.Ident); ok && info.Uses[id] == o {
						clean = false
					}
				}
			case *ast.IncDecStmt:
				if id, ok := ast.Unparen(st.X).(*ast.Ident); ok && info.Uses[id] == o {
					clean = false
				}
			case *ast.UnaryExpr:
				if st.Op == token.AND {
					if id, ok := ast.Unparen(st.X).(*ast.Ident); ok && info.Uses[id] == o {
						clean = false
					}
				}
			}
			return true
		})
		if clean {
			found = fs
		}
		return true
	})
	return found
}

// countsBelowLen: the loop's condition has the conjunct k < len(S) with S naming the field bf.
func countsBelowLen(info *types.Info, fs *ast.ForStmt, o types.Object, bf types.Object) bool {
	ok := false
	var conj func(e ast.Expr)
	conj = func(e ast.Expr) {
		e = ast.Unparen(e)
		be, isBin := e.(*ast.BinaryExpr)
		if !isBin {
			return
		}
		if be.Op == token.LAND {
			conj(be.X)
			conj(be.Y)
			return
		}
		if be.Op != token.LSS {
			return
		}
		id, isID := ast.Unparen(be.X).(*ast.Ident)
		call, isCall := ast.Unparen(be.Y).(*ast.CallExpr)
		if !isID || !isCall || info.Uses[id] != o || len(call.Args) != 1 {
			return
		}
		if fid, isF := call.Fun.(*ast.Ident); !isF || fid.Name != "len" {
			return
		}
		if se, isSel := ast.Unparen(call.Args[0]).(*ast.SelectorExpr); isSel && info.Uses[se.Sel] == bf {
			ok = true
		}
	}
	if fs.Cond != nil {
		conj(fs.Cond)
	}
	return ok
}

// constBoundedIndex: A[v] with A of array type [N]T (or *[N]T) and v an int variable whose every
// write in the function is a constant in [0, N) (a declaration without value counts as 0; no
// ++/--, no op-assignment, address not taken).
func constBoundedIndex(info *types.Info, fd *ast.FuncDecl, x *ast.IndexExpr) bool {
	t := info.TypeOf(x.X)
	if t == nil {
		return false
	}
	if p, ok := t.Underlying().(*types.Pointer); ok {
		t = p.Elem()
	}
	arr, ok := t.Underlying().(*types.Array)
	if !ok {
		return false
	}
	id, ok := ast.Unparen(x.Index).(*ast.Ident)
	if !ok {
		return false
	}
	v, ok := info.Uses[id].(*types.Var)
	if !ok || v.IsField() {
		return false
	}
	// parameters are not bounded
	if fd.Type.Params != nil {
		for _, p := range fd.Type.Params.List {
			for _, nm := range p.Names {
				if info.Defs[nm] == types.Object(v) {
					return false
				}
			}
		}
	}
	good, seen := true, false
	inRange := func(e ast.Expr) bool {
		tv, ok := info.Types[e]
		if !ok || tv.Value == nil {
			return false
		}
		n, exact := constant.Int64Val(tv.Value)
		return exact && n >= 0 && n < arr.Len()
	}
	ast.Inspect(fd.Body, func(n ast.Node) bool {
		switch s := n.(type) {
		case *ast.ValueSpec:
			for i, nm := range s.Names {
				if info.Defs[nm] != types.Object(v) {
					continue
				}
				seen = true
				if i < len(s.Values) && !inRange(s.Values[i]) {
					good = false
				}
			}
		case *ast.AssignStmt:
			for i, l := range s.Lhs {
				lid, ok := l.(*ast.Ident)
				if !ok || (info.Defs[lid] != types.Object(v) && info.Uses[lid] != types.Object(v)) {
					continue
				}
				seen = true
				if (s.Tok != token.ASSIGN && s.Tok != token.DEFINE) || len(s.Lhs) != len(s.Rhs) || !inRange(s.Rhs[i]) {
					good = false
				}
			}
		case *ast.IncDecStmt:
			if lid, ok := s.X.(*ast.Ident); ok && info.Uses[lid] == types.Object(v) {
				good = false
			}
		case *ast.UnaryExpr:
			if lid, ok := s.X.(*ast.Ident); ok && s.Op == token.AND && info.Uses[lid] == types.Object(v) {
				good = false
			}
		case *ast.RangeStmt:
			for _, kv := range []ast.Expr{s.Key, s.Value} {
				if lid, ok := kv.(*ast.Ident); ok && (info.Defs[lid] == types.Object(v) || info.Uses[lid] == types.Object(v)) {
					good = false
				}
			}
		}
		return true
	})
	return good && seen
}

// sortCallbackIndex: S[i] inside the function literal passed to sort.Slice/SliceStable(S, …) or
// sort.Search(len(S), …), i being a parameter of that literal: in range by the contract of sort.
func sortCallbackIndex(info *types.Info, fd *ast.FuncDecl, x *ast.IndexExpr) bool {
	id, ok := ast.Unparen(x.Index).(*ast.Ident)
	if !ok {
		return false
	}
	base := types.ExprString(x.X)
	found := false
	ast.Inspect(fd.Body, func(n ast.Node) bool {
		call, ok := n.(*ast.CallExpr)
		if !ok || len(call.Args) != 2 {
			return true
		}
		lit, ok := call.Args[1].(*ast.FuncLit)
		if !ok || !(lit.Body.Pos() <= x.Pos() && x.End() <= lit.Body.End()) {
			return true
		}
		isParam := false
		for _, p := range lit.Type.Params.List {
			for _, nm := range p.Names {
				if info.Defs[nm] == info.Uses[id] {
					isParam = true
				}
			}
		}
		if !isParam {
			return true
		}
		switch funcKey(calleeFunc(info, call)) {
		case "sort.Slice", "sort.SliceStable":
			found = types.ExprString(call.Args[0]) == base
		case "sort.Search":
			found = types.ExprString(call.Args[0]) == "len("+base+")"
		}
		return true
	})
	return found
}

// lenGuardedSearchIndex: S[i] with i the result of sort.Search (>= 0), used to the right of
// `i < len(S) &&` or inside an if whose condition has i < len(S) as a conjunct.
func lenGuardedSearchIndex(info *types.Info, fd *ast.FuncDecl, x *ast.IndexExpr) bool {
	id, ok := ast.Unparen(x.Index).(*ast.Ident)
	if !ok {
		return false
	}
	o := info.Uses[id]
	base := types.ExprString(x.X)
	// every definition of i is a sort.Search call
	defs, good := 0, true
	ast.Inspect(fd.Body, func(n ast.Node) bool {
		as, ok := n.(*ast.AssignStmt)
		if !ok || len(as.Lhs) != len(as.Rhs) {
			return true
		}
		for k, l := range as.Lhs {
			if lid, ok := l.(*ast.Ident); ok && (info.Defs[lid] == o || info.Uses[lid] == o) {
				defs++
				if cl, ok := as.Rhs[k].(*ast.CallExpr); !ok || funcKey(calleeFunc(info, cl)) != "sort.Search" {
					good = false
				}
			}
		}
		return true
	})
	if defs == 0 || !good {
		return false
	}
	isGuard := func(e ast.Expr) bool {
		be, ok := ast.Unparen(e).(*ast.BinaryExpr)
		if !ok || be.Op != token.LSS {
			return false
		}
		l, ok := ast.Unparen(be.X).(*ast.Ident)
		return ok && info.Uses[l] == o && types.ExprString(be.Y) == "len("+base+")"
	}
	var conj func(e ast.Expr) bool
	conj = func(e ast.Expr) bool {
		e = ast.Unparen(e)
		if isGuard(e) {
			return true
		}
		if be, ok := e.(*ast.BinaryExpr); ok && be.Op == token.LAND {
			return conj(be.X) || conj(be.Y)
		}
		return false
	}
	guarded := false
	ast.Inspect(fd.Body, func(n ast.Node) bool {
		switch v := n.(type) {
		case *ast.BinaryExpr:
			if v.Op == token.LAND && v.Y.Pos() <= x.Pos() && x.End() <= v.Y.End() && conj(v.X) {
				guarded = true
			}
		case *ast.IfStmt:
			if v.Body.Pos() <= x.Pos() && x.End() <= v.Body.End() && conj(v.Cond) {
				guarded = true
			}
		}
		return true
	})
	return guarded
}

// RDeadAppend (R-LOST): `v = append(v, x)` on a local slice whose value is never read afterwards
// loses x. The classic form is a slice read out of a map (v := m[k]), appended to, and not stored
// back: the map keeps the shorter slice. Checked in every function of the in-scope packages: after
// the append (or anywhere in an enclosing loop) v must be read — stored, passed, returned, ranged
// over — or be a named result.
func (e *Env) RDeadAppend() {
	n := 0
	for _, pkg := range e.Prog.InScopePkgs() {
		info := pkg.TypesInfo
		for _, fd := range load.AllFuncDecls(pkg) {
			if fd.Body == nil {
				continue
			}
			named := map[types.Object]bool{}
			if fd.Type.Results != nil {
				for _, r := range fd.Type.Results.List {
					for _, nm := range r.Names {
						named[info.Defs[nm]] = true
					}
				}
			}
			var loops []ast.Node
			ast.Inspect(fd.Body, func(nd ast.Node) bool {
				switch nd.(type) {
				case *ast.ForStmt, *ast.RangeStmt:
					loops = append(loops, nd)
				}
				return true
			})
			ast.Inspect(fd.Body, func(nd ast.Node) bool {
				as, ok := nd.(*ast.AssignStmt)
				if !ok || len(as.Lhs) != 1 || len(as.Rhs) != 1 || as.Tok != token.ASSIGN {
					return true
				}
				lid, ok := as.Lhs[0].(*ast.Ident)
				if !ok {
					return true
				}
				call, ok := as.Rhs[0].(*ast.CallExpr)
				if !ok || len(call.Args) < 1 {
					return true
				}
				if fid, ok := call.Fun.(*ast.Ident); !ok || fid.Name != "append" {
					return true
				} else if _, isB := info.Uses[fid].(*types.Builtin); !isB {
					return true
				}
				aid, ok := ast.Unparen(call.Args[0]).(*ast.Ident)
				v, isVar := info.Uses[lid].(*types.Var)
				if !ok || !isVar || info.Uses[aid] != types.Object(v) || v.IsField() || named[v] {
					return true
				}
				if v.Parent() == pkg.Types.Scope() {
					return true // package-level variable
				}
				n++
				// region in which a read counts: after the statement, or anywhere in an enclosing loop
				from, to := as.End(), fd.Body.End()
				for _, l := range loops {
					if l.Pos() <= as.Pos() && as.End() <= l.End() && l.Pos() < from {
						from = l.Pos()
					}
				}
				read := false
				ast.Inspect(fd.Body, func(m ast.Node) bool {
					if inner, ok := m.(*ast.AssignStmt); ok && inner == as {
						return false // the append itself
					}
					id, ok := m.(*ast.Ident)
					if !ok || info.Uses[id] != types.Object(v) || id.Pos() < from || id.Pos() > to {
						return true
					}
					read = true
					return true
				})
				// uses that are only further self-appends or plain overwrites are not reads; keep it
				// simple: any other mention counts
				e.Run.Check("R-LOST", fmt.Sprintf("%s: the slice %s is used after being appended to", load.FuncName(fd), v.Name()), e.Prog.Pos(as.Pos()), read,
					fmt.Sprintf("`%s` is the last mention of %s: the appended element is lost (a slice taken out of a map or struct and appended to must be stored back)", types.ExprString(as.Lhs[0])+" = "+types.ExprString(as.Rhs[0]), v.Name()))
				return true
			})
		}
	}
	e.Run.Analysed("self-appends to local slices", n)
	e.Run.Floor("R-LOST", "self-appends to local slices", n, 5)
}

// lenGuarded: the path condition of at (inside fd) has a conjunct that makes len(S) > k: for k = 0
// `len(S) > 0`, `len(S) != 0`, `len(S) >= 1`; in general `len(S) > k` or `len(S) >= k+1`.
func (e *Env) lenGuarded(fd *ast.FuncDecl, at ast.Node, base ast.Expr, k string) bool {
	pkg := e.Prog.Pkg(load.PkgDecorator)
	c := e.Sib.Ctx[load.PkgDecorator]
	_ = pkg
	// innermost function body that contains at
	body := fd.Body.List
	ast.Inspect(fd.Body, func(m ast.Node) bool {
		if fl, ok := m.(*ast.FuncLit); ok && fl.Body.Pos() <= at.Pos() && at.End() <= fl.Body.End() {
			body = fl.Body.List
		}
		return true
	})
	cond, ok := pathCond(c, body, at)
	if !ok {
		return false
	}
	// short-circuit operators: inside the right operand of `A && B` A holds, inside that of
	// `A || B` it does not
	ast.Inspect(fd.Body, func(m ast.Node) bool {
		be, ok := m.(*ast.BinaryExpr)
		if !ok || (be.Op != token.LAND && be.Op != token.LOR) || !(be.Y.Pos() <= at.Pos() && at.End() <= be.Y.End()) {
			return true
		}
		left := c.ExprStr(be.X)
		if be.Op == token.LOR {
			neg := ""
			if cmp, ok := ast.Unparen(be.X).(*ast.BinaryExpr); ok {
				flip := map[token.Token]string{token.NEQ: "==", token.EQL: "!=", token.LSS: ">=", token.GEQ: "<", token.GTR: "<=", token.LEQ: ">"}
				if op, ok := flip[cmp.Op]; ok {
					neg = c.ExprStr(cmp.X) + " " + op + " " + c.ExprStr(cmp.Y)
				}
			}
			if neg == "" {
				return true
			}
			left = neg
		}
		if cond == "" {
			cond = left
		} else {
			cond = cond + " && " + left
		}
		return true
	})
	l := "len(" + c.ExprStr(base) + ")"
	kn := 0
	fmt.Sscan(k, &kn)
	want := map[string]bool{
		fmt.Sprintf("%s > %d", l, kn):    true,
		fmt.Sprintf("%s >= %d", l, kn+1): true,
	}
	for m := kn + 1; m <= kn+8; m++ {
		want[fmt.Sprintf("%s == %d", l, m)] = true // exactly m > k elements
	}
	if kn == 0 {
		want[l+" != 0"] = true
	}
	var conj func(s string) bool
	conj = func(s string) bool {
		for _, cj := range splitTop(s, " && ") {
			cj = strings.TrimSpace(cj)
			for strings.HasPrefix(cj, "(") && strings.HasSuffix(cj, ")") && balanced(cj[1:len(cj)-1]) {
				cj = cj[1 : len(cj)-1]
				if len(splitTop(cj, " && ")) > 1 {
					if conj(cj) {
						return true
					}
				}
			}
			if want[cj] {
				return true
			}
		}
		return false
	}
	return conj(cond)
}

// inRangeParam: p is a parameter of fd that is never assigned in fd, and at every call site of fd
// (in the package) the argument is the key variable of an enclosing `for k := range S'` where S'
// names the same field as base (so 0 <= p < len(S) as long as S is not shortened in between, which
// the decorator never does: fragments are only appended before link() runs).
func inRangeParam(info *types.Info, fd *ast.FuncDecl, p types.Object, base ast.Expr) bool {
	fieldOf := func(x ast.Expr) types.Object {
		if se, ok := ast.Unparen(x).(*ast.SelectorExpr); ok {
			return info.Uses[se.Sel]
		}
		return nil
	}
	bf := fieldOf(base)
	if bf == nil || p == nil {
		return false
	}
	idx, k := -1, 0
	if fd.Type.Params == nil {
		return false
	}
	for _, f := range fd.Type.Params.List {
		for _, nm := range f.Names {
			if info.Defs[nm] == p {
				idx = k
			}
			k++
		}
	}
	if idx < 0 {
		return false
	}
	assigned := false
	ast.Inspect(fd.Body, func(n ast.Node) bool {
		switch st := n.(type) {
		case *ast.AssignStmt:
			for _, l := range st.Lhs {
				if id, ok := l.(*ast.Ident); ok && info.Uses[id] == p {
					assigned = true
				}
			}
		case *ast.IncDecStmt:
			if id, ok := st.X.(*ast.Ident); ok && info.Uses[id] == p {
				assigned = true
			}
		}
		return true
	})
	if assigned {
		return false
	}
	target := info.Defs[fd.Name]
	calls, good := 0, true
	for _, file := range nonNegParamFiles {
		var ranges []*ast.RangeStmt
		ast.Inspect(file, func(n ast.Node) bool {
			if rs, ok := n.(*ast.RangeStmt); ok {
				ranges = append(ranges, rs)
			}
			call, ok := n.(*ast.CallExpr)
			if !ok || idx >= len(call.Args) {
				return true
			}
			if fn := calleeFunc(info, call); fn == nil || types.Object(fn) != target {
				return true
			}
			calls++
			id, ok := ast.Unparen(call.Args[idx]).(*ast.Ident)
			okArg := false
			if ok {
				for _, rs := range ranges {
					if kid, isID := rs.Key.(*ast.Ident); isID && info.Defs[kid] == info.Uses[id] && rs.Body.Pos() <= call.Pos() && call.End() <= rs.Body.End() && fieldOf(rs.X) == bf {
						okArg = true
					}
				}
				// or the index of `for k := C; k < len(S'); k++`
				if fs := countingLoop(info, file, info.Uses[id], call); fs != nil && countsBelowLen(info, fs, info.Uses[id], bf) {
					okArg = true
				}
			}
			if !okArg {
				good = false
			}
			return true
		})
	}
	return calls > 0 && good
}

// descBounded: S[p] with p an in-range parameter (inRangeParam), or S[i] in (the body or, after the
// test i >= 0, the condition of) a loop `for i := p - K; i >= 0 && …; i--` that counts down from
// such a parameter (K a non-negative constant) and writes neither i nor S.
func descBounded(info *types.Info, fd *ast.FuncDecl, x *ast.IndexExpr) bool {
	idx, ok := ast.Unparen(x.Index).(*ast.Ident)
	if !ok {
		return false
	}
	iObj := info.Uses[idx]
	if inRangeParam(info, fd, iObj, x.X) {
		return true
	}
	var loop *ast.ForStmt
	ast.Inspect(fd.Body, func(n ast.Node) bool {
		if fs, ok := n.(*ast.ForStmt); ok && fs.Pos() <= x.Pos() && x.End() <= fs.End() {
			loop = fs
		}
		return true
	})
	if loop == nil || loop.Init == nil || loop.Cond == nil || loop.Post == nil {
		return false
	}
	init, ok := loop.Init.(*ast.AssignStmt)
	if !ok || init.Tok != token.DEFINE || len(init.Lhs) != 1 || len(init.Rhs) != 1 {
		return false
	}
	if iv, ok := init.Lhs[0].(*ast.Ident); !ok || info.Defs[iv] != iObj {
		return false
	}
	start := ast.Unparen(init.Rhs[0])
	if be, ok := start.(*ast.BinaryExpr); ok && be.Op == token.SUB {
		if tv, ok := info.Types[be.Y]; !ok || tv.Value == nil || strings.HasPrefix(tv.Value.String(), "-") {
			return false
		}
		start = ast.Unparen(be.X)
	}
	pid, ok := start.(*ast.Ident)
	if !ok || !inRangeParam(info, fd, info.Uses[pid], x.X) {
		return false
	}
	if post, ok := loop.Post.(*ast.IncDecStmt); !ok || post.Tok != token.DEC {
		return false
	} else if id, ok := post.X.(*ast.Ident); !ok || info.Uses[id] != iObj {
		return false
	}
	// the lower bound test, and where it ends (uses in the condition must come after it)
	var lowerEnd token.Pos
	var conj func(e ast.Expr)
	conj = func(e ast.Expr) {
		e = ast.Unparen(e)
		if be, ok := e.(*ast.BinaryExpr); ok {
			if be.Op == token.LAND {
				conj(be.X)
				conj(be.Y)
				return
			}
			if id, ok := be.X.(*ast.Ident); ok && info.Uses[id] == iObj && be.Op == token.GEQ && types.ExprString(be.Y) == "0" && lowerEnd == token.NoPos {
				lowerEnd = be.End()
			}
		}
	}
	conj(loop.Cond)
	if lowerEnd == token.NoPos {
		return false
	}
	inBody := loop.Body.Pos() <= x.Pos() && x.End() <= loop.Body.End()
	inCond := loop.Cond.Pos() <= x.Pos() && x.End() <= loop.Cond.End() && x.Pos() > lowerEnd
	if !inBody && !inCond {
		return false
	}
	base := types.ExprString(x.X)
	clean := true
	ast.Inspect(loop.Body, func(n ast.Node) bool {
		switch st := n.(type) {
		case *ast.AssignStmt:
			for _, l := range st.Lhs {
				if id, ok := l.(*ast.Ident); ok && info.Uses[id] == iObj {
					clean = false
				}
				if types.ExprString(l) == base {
					clean = false
				}
			}
		case *ast.IncDecStmt:
			if id, ok := st.X.(*ast.Ident); ok && info.Uses[id] == iObj {
				clean = false
			}
		}
		return true
	})
	return clean
}

// mirrorIndex: O[len(S)-1-i] where i is the key of an enclosing range over S and O is a local
// defined once as make([]T, len(S)) (and never re-sliced or reassigned): 0 <= len(S)-1-i < len(O).
func mirrorIndex(info *types.Info, fd *ast.FuncDecl, x *ast.IndexExpr, rangeKey map[types.Object]string) bool {
	oid, ok := ast.Unparen(x.X).(*ast.Ident)
	if !ok {
		return false
	}
	// index: len(S) - 1 - i
	outer, ok := ast.Unparen(x.Index).(*ast.BinaryExpr)
	if !ok || outer.Op != token.SUB {
		return false
	}
	iid, ok := ast.Unparen(outer.Y).(*ast.Ident)
	if !ok {
		return false
	}
	inner, ok := ast.Unparen(outer.X).(*ast.BinaryExpr)
	if !ok || inner.Op != token.SUB || types.ExprString(inner.Y) != "1" {
		return false
	}
	lenCall, ok := ast.Unparen(inner.X).(*ast.CallExpr)
	if !ok || types.ExprString(lenCall.Fun) != "len" || len(lenCall.Args) != 1 {
		return false
	}
	S := types.ExprString(lenCall.Args[0])
	if rangeKey[info.Uses[iid]] != S {
		return false
	}
	// O := make([]T, len(S)), the only write to O
	o := info.Uses[oid]
	defs, good := 0, false
	ast.Inspect(fd.Body, func(n ast.Node) bool {
		as, ok := n.(*ast.AssignStmt)
		if !ok {
			return true
		}
		for i, l := range as.Lhs {
			id, ok := l.(*ast.Ident)
			if !ok || (info.Defs[id] != o && info.Uses[id] != o) {
				continue
			}
			defs++
			if len(as.Lhs) == len(as.Rhs) {
				if mk, ok := ast.Unparen(as.Rhs[i]).(*ast.CallExpr); ok && types.ExprString(mk.Fun) == "make" && len(mk.Args) == 2 && types.ExprString(mk.Args[1]) == "len("+S+")" {
					good = true
				}
			}
		}
		return true
	})
	return defs == 1 && good
}
