package rules

// ssaState holds the lazily built SSA program (rules that need value identity or CFG paths).
type ssaState struct{}
