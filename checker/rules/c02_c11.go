package rules

func init() {
	register("C03", Meta{
		Explanation: "Static completeness: every go/ast node type has a fragger and a decorate case and every dst node type a restore case (panicking default); every token, string, value and child field of every go/ast struct is consumed by decorate and written back by restore; fragger and restore agree on children and tokens; converter type assertions cannot fail; comment sinks agree. Decides that no token/child/value field is dropped in either direction for any input; line discovery does not measure texts in bytes of scanner-normalised text (CRLF) and does not decide emptiness of a line by a fixed byte distance (known finding); a line-break decoration never puts the End() of the restored content on the next line. Does not decide token text equality after go/printer.",
		NotCovered:  []string{"token text equality after go/printer", "BOM handling inside go/scanner", "whether link() finds a decoration point for every comment (positional)"},
	}, func(e *Env) {
		e.RCover("fragger", e.astNodeNames(), false)
		e.RCover("decorate", e.astNodeNames(), false)
		e.RCover("restore", e.dstNodeNames(), true)
		e.RSym()
		e.RSeq()
		e.RAssert()
		e.RSink()
		e.RFragHelpers()
		e.RFragOrder()
		e.RNewlineScan()
		e.RBlankLine()
		e.RDecs(false)
		e.RPackageCommentGap()
		e.RGuard("fragger", "decorate", "restore")
		e.RCommentLines()
	})
	register("C04", Meta{
		Explanation: "Static render-site analysis: for all 54 node types every decoration point of the type's Decorations struct is rendered exactly once, unconditionally, by restore, with the end flag only on the own End point, in an order consistent with the point's name (after its namesake token/child, only tokens in between), with the fragger's order and with the struct's declaration order; the listing helper exposes the same points in render order backed by n.Decs.<name>; the accessor returns &n.Decs.NodeDecs; on the decorate side every attachment search collects a comment or line break only while it is unattached (path conditions of the appends in the comment and line-break arms). Listing and accessor clauses are decided; placement is decided relative to the restorer's synthetic positions, not through go/printer.",
		NotCovered:  []string{"that go/printer prints a comment where its position says", "that the token stream is otherwise unchanged"},
	}, func(e *Env) {
		e.RCover("restore", e.dstNodeNames(), true)
		e.RCover("listing", e.dstNodeNames(), false)
		e.RDecs(true)
		e.RName()
		e.RSeq()
		e.RSink()
		e.RCommentsNotShared()
		e.RCommentLines()
		// a comment or line break that one attachment search has stored is not collected by a later one
		e.RSearchTransparency()
	})
	register("C06", Meta{
		Explanation: "Static completeness and alias-freedom of Clone by induction over node types: for every type, every struct field and every decoration list the restorer reads (nested signature decorations included) is written by Clone from a recursive clone, a rebuilt list/map, a fresh append or a plain copy of an immutable kind; out is a fresh allocation and the only value returned; objects/scopes are dropped; restoreNode rejects a node met twice and every recursive call forwards the flag. Decides the whole statement structurally.",
	}, func(e *Env) {
		e.RCover("clone", e.dstNodeNames(), true)
		e.RCover("restore", e.dstNodeNames(), true)
		e.RClone()
		e.RAssert()
		e.RMemo()
		e.RMaps() // duplicate detection looks the node up in Ast.Nodes: every restore path must have registered it
		e.RGuard("clone")
	})
	register("C11", Meta{
		Explanation: "Static registration analysis: in every decorate and restore case (and the two hand-written special cases) each node allocation, inline sub-allocations included, is stored in both direction maps with itself as key/value, before any recursive conversion, under a key that cannot be nil; converters look up before creating; conversions read and write the same field (commutation with parent/child); the maps are never shrunk except for temporaries; the resolvers' classification of qualified identifiers (which licenses the selector-collapse exception) is exact. Decides the map laws for all inputs.",
	}, func(e *Env) {
		e.RCover("decorate", e.astNodeNames(), false)
		e.RCover("restore", e.dstNodeNames(), true)
		e.RMaps()
		e.RSyntheticBackMap()
		e.RMemo()
		e.RSym()
		e.RSharedMapsNotReplaced()
		e.RDeadAppend()
		// the collapse of a selector onto one Ident (the documented exception to the inverse laws)
		// happens for whatever the resolver classifies as a qualified identifier: the exception is
		// only as exact as that classification
		e.RResolverClauses()
	})
}
