package rules

import (
	"fmt"
	"go/ast"
	"go/parser"
	"go/token"
	"go/types"
	"sort"
	"strings"

	"golang.org/x/tools/go/cfg"

	"dstverif/load"
	"dstverif/schema"
)

// Rules added after the second round of seeded changes.

// RPerFileState: state that accumulates per-file quantities inside fragment()'s per-file pass
// (the set of suppressed line numbers) is allocated inside that pass: a map or slice that is
// declared outside processFile and written inside it carries one file's line numbers into the next
// file of the package.
func (e *Env) RPerFileState() {
	pkg := e.Prog.Pkg(load.PkgDecorator)
	info := pkg.TypesInfo
	fd := load.FuncDecl(pkg, "fileDecorator", "fragment")
	if fd == nil || fd.Body == nil {
		return
	}
	lit := e.perFilePass(pkg, fd)
	if lit == nil {
		e.Run.Undecided("R-FILESCOPE", "per-file pass of fragment()", e.Prog.Pos(fd.Pos()), "no function that fragment() calls for an *ast.File and for each file of an *ast.Package")
		return
	}
	n := 0
	seen := map[types.Object]bool{}
	// the per-file pass is processFile's body and the bodies of the local closures it calls
	// (a marking helper declared beside it writes on its behalf)
	closures := map[types.Object]*ast.FuncLit{}
	ast.Inspect(fd.Body, func(nd ast.Node) bool {
		if as, ok := nd.(*ast.AssignStmt); ok && len(as.Lhs) == len(as.Rhs) {
			for i, l := range as.Lhs {
				if id, ok := l.(*ast.Ident); ok {
					if fl, ok := as.Rhs[i].(*ast.FuncLit); ok && fl != lit {
						if o := info.ObjectOf(id); o != nil {
							closures[o] = fl
						}
					}
				}
			}
		}
		return true
	})
	bodies := []*ast.BlockStmt{lit.Body}
	inPass := map[*ast.FuncLit]bool{}
	for i := 0; i < len(bodies); i++ {
		ast.Inspect(bodies[i], func(nd ast.Node) bool {
			if call, ok := nd.(*ast.CallExpr); ok {
				if id, ok := call.Fun.(*ast.Ident); ok {
					if fl := closures[info.Uses[id]]; fl != nil && !inPass[fl] && !(lit.Body.Pos() <= fl.Pos() && fl.End() <= lit.Body.End()) {
						inPass[fl] = true
						bodies = append(bodies, fl.Body)
					}
				}
			}
			return true
		})
	}
	for _, b := range bodies {
		e.perFileStores(info, lit, b, seen, &n)
	}
	// a function of the package that fills a set it is handed writes on behalf of the pass too: the
	// set it is handed must be one of the pass's own
	for _, b := range bodies {
		ast.Inspect(b, func(nd ast.Node) bool {
			call, ok := nd.(*ast.CallExpr)
			if !ok {
				return true
			}
			mk := e.markingFuncOf(pkg, call)
			if mk == nil {
				return true
			}
			arg := ast.Unparen(call.Args[mk.mapIdx])
			id, ok := arg.(*ast.Ident)
			if !ok {
				e.Run.Undecided("R-FILESCOPE", "processFile: the set handed to "+mk.decl.Name.Name+" is allocated per file", e.Prog.Pos(call.Pos()), "the argument is not a plain variable: "+types.ExprString(arg))
				return true
			}
			obj := info.Uses[id]
			if obj == nil || seen[obj] {
				return true
			}
			seen[obj] = true
			n++
			inside := lit.Body.Pos() <= obj.Pos() && obj.Pos() < lit.Body.End()
			e.Run.Check("R-FILESCOPE", "processFile: "+obj.Name()+" (written per file) is allocated per file", e.Prog.Pos(obj.Pos()), inside,
				"the collection is declared outside the per-file pass but filled inside it (by "+mk.decl.Name.Name+", called at "+e.Prog.Pos(call.Pos())+"): when a package is decorated, entries of one file (line numbers) leak into the files processed after it")
			return true
		})
	}
	e.Run.Floor("R-FILESCOPE", "per-file collections in processFile", n, 1)
}

func (e *Env) perFileStores(info *types.Info, lit *ast.FuncLit, body *ast.BlockStmt, seen map[types.Object]bool, n *int) {
	ast.Inspect(body, func(nd ast.Node) bool {
		as, ok := nd.(*ast.AssignStmt)
		if !ok {
			return true
		}
		for _, l := range as.Lhs {
			ix, ok := l.(*ast.IndexExpr)
			if !ok {
				continue
			}
			id, ok := ix.X.(*ast.Ident)
			if !ok {
				// a line set kept in a field (f.avoid[line] = true): the field must be given a new
				// map inside the pass, otherwise the set of one file is still there for the next
				if se, isSel := ast.Unparen(ix.X).(*ast.SelectorExpr); isSel {
					fv, isField := info.Uses[se.Sel].(*types.Var)
					mt, isMap := info.TypeOf(se).Underlying().(*types.Map)
					if isField && fv.IsField() && isMap && types.Identical(mt.Key(), types.Typ[types.Int]) && !seen[fv] {
						seen[fv] = true
						*n++
						fresh := false
						ast.Inspect(lit.Body, func(m ast.Node) bool {
							if a2, ok := m.(*ast.AssignStmt); ok && len(a2.Lhs) == 1 && len(a2.Rhs) == 1 {
								if l2, ok := a2.Lhs[0].(*ast.SelectorExpr); ok && info.Uses[l2.Sel] == types.Object(fv) {
									switch r := ast.Unparen(a2.Rhs[0]).(type) {
									case *ast.CompositeLit:
										fresh = len(r.Elts) == 0
									case *ast.CallExpr:
										fresh = types.ExprString(r.Fun) == "make"
									}
								}
							}
							return true
						})
						e.Run.Check("R-FILESCOPE", "processFile: "+fv.Name()+" (written per file) is allocated per file", e.Prog.Pos(as.Pos()), fresh,
							"the set lives in the field "+fv.Name()+" and the per-file pass never gives it a new map: when a package is decorated, entries of one file (line numbers) leak into the files processed after it")
					}
				}
				continue
			}
			obj := info.Uses[id]
			if obj == nil || seen[obj] {
				continue
			}
			if _, isVar := obj.(*types.Var); !isVar {
				continue
			}
			// a store through a parameter of a merged helper is a store into the variable it is bound to
			for hops := 0; hops < 4 && passHelperParams[obj]; hops++ {
				a := passHelperArg[obj]
				if a == nil {
					break
				}
				obj = a
			}
			if passHelperParams[obj] || seen[obj] {
				continue
			}
			seen[obj] = true
			*n++
			inside := lit.Body.Pos() <= obj.Pos() && obj.Pos() < lit.Body.End()
			e.Run.Check("R-FILESCOPE", "processFile: "+obj.Name()+" (written per file) is allocated per file", e.Prog.Pos(obj.Pos()), inside,
				"the collection is declared outside the per-file pass but filled inside it (at "+e.Prog.Pos(as.Pos())+"): when a package is decorated, entries of one file (line numbers) leak into the files processed after it")
		}
		return true
	})
}

// RResolverErrorsFirst: the syntax-only resolver's "cannot decide" errors (dot-import, duplicate
// name) are raised by imports(); it must run before ResolveIdent can return without error, on
// every path — otherwise a file whose identifiers never reach the lookup is decorated with
// guessed (empty) paths instead of an error.
func (e *Env) RResolverErrorsFirst() {
	pkg := e.Prog.Pkg(load.PkgGoast)
	c := schema.CtxFor(e.Prog, load.PkgGoast)
	fd := load.FuncDecl(pkg, "DecoratorResolver", "ResolveIdent")
	if fd == nil || fd.Body == nil {
		e.Run.Violation("R-RESOLVER", "goast.ResolveIdent exists", "", "missing")
		return
	}
	callIdx, checkIdx, firstOKRet := -1, -1, -1
	for i, st := range fd.Body.List {
		hasCall := false
		ast.Inspect(st, func(n ast.Node) bool {
			if call, ok := n.(*ast.CallExpr); ok && schema.IsMethod(c.Callee(call), load.PkgGoast, "DecoratorResolver", "imports") {
				hasCall = true
			}
			return true
		})
		if hasCall && callIdx < 0 {
			callIdx = i
			// the check may be in the same statement (if-init) or the next one
			if is, ok := st.(*ast.IfStmt); ok && strings.Contains(c.ExprStr(is.Cond), "err != nil") {
				checkIdx = i
			} else if i+1 < len(fd.Body.List) {
				if is, ok := fd.Body.List[i+1].(*ast.IfStmt); ok && strings.Contains(c.ExprStr(is.Cond), "err != nil") {
					checkIdx = i + 1
				}
			}
		}
		// a return with a nil error anywhere inside this statement
		ast.Inspect(st, func(n ast.Node) bool {
			if _, ok := n.(*ast.FuncLit); ok {
				return false
			}
			if rs, ok := n.(*ast.ReturnStmt); ok && len(rs.Results) == 2 && pkg.TypesInfo.Types[rs.Results[1]].IsNil() && firstOKRet < 0 {
				firstOKRet = i
			}
			return true
		})
	}
	ok := callIdx >= 0 && checkIdx >= callIdx && (firstOKRet < 0 || firstOKRet > checkIdx)
	e.Run.Check("R-RESOLVER", "goast.ResolveIdent builds (and validates) the import table before any error-free return", e.Prog.Pos(fd.Pos()), ok,
		fmt.Sprintf("imports() is called in top-level statement %d, its error checked in %d, the first `return …, nil` sits in statement %d: dot-import and duplicate-name errors are only raised by imports(); a path that returns before it decorates the file with guessed paths instead of an error", callIdx, checkIdx, firstOKRet))
}

// RSharedMapsNotReplaced: the Restorer's / Decorator's node maps are shared by all files of a
// package (FileRestorer and fileDecorator embed a pointer to them): they may be filled, never
// replaced or cleared, outside the constructors.
func (e *Env) RSharedMapsNotReplaced() {
	pkg := e.Prog.Pkg(load.PkgDecorator)
	info := pkg.TypesInfo
	n := 0
	for _, fd := range load.AllFuncDecls(pkg) {
		if fd.Body == nil {
			continue
		}
		switch fd.Name.Name {
		case "NewRestorer", "NewDecorator", "newMap":
			continue
		}
		ast.Inspect(fd.Body, func(nd ast.Node) bool {
			as, ok := nd.(*ast.AssignStmt)
			if !ok {
				return true
			}
			for _, l := range as.Lhs {
				se, ok := l.(*ast.SelectorExpr)
				if !ok {
					continue
				}
				v, ok := info.Uses[se.Sel].(*types.Var)
				if !ok || !v.IsField() {
					continue
				}
				// a field of Map / AstMap / DstMap, or the Map field itself
				owner := ""
				if sel := info.Selections[se]; sel != nil {
					_, owner = namedOf(sel.Recv())
				}
				_, ftn := namedOf(v.Type())
				isMapField := ftn == "Map" || ftn == "AstMap" || ftn == "DstMap"
				if !isMapField {
					if _, isM := v.Type().Underlying().(*types.Map); isM && (owner == "AstMap" || owner == "DstMap") {
						isMapField = true
					}
				}
				if !isMapField {
					continue
				}
				n++
				e.Run.Violation("R-MAPS", fmt.Sprintf("%s replaces the shared %s", load.FuncName(fd), types.ExprString(se)), e.Prog.Pos(as.Pos()),
					"the node/object/scope maps belong to the Restorer/Decorator and cover every file it has processed; replacing them (instead of adding entries) discards the correspondences of all earlier files")
			}
			return true
		})
	}
	e.Run.OK("R-MAPS", "shared node maps are only filled, never replaced, outside the constructors", "", fmt.Sprintf("%d replacing assignments", n))
}

// RNewlineScan: processFile discovers line breaks by visiting every byte position of the file:
// the loop runs from tokenf.Base() to tokenf.Base()+tokenf.Size() (exclusive) in steps of one, and
// the look-ahead at i+1 is guarded against the end of the file.
func (e *Env) RNewlineScan() {
	e.RSearchLoops(e.pkgs(load.PkgDecorator))
	pkg := e.Prog.Pkg(load.PkgDecorator)
	info := pkg.TypesInfo
	c := e.Sib.Ctx[load.PkgDecorator]
	fd := load.FuncDecl(pkg, "fileDecorator", "fragment")
	if fd == nil {
		return
	}
	lit := e.perFilePass(pkg, fd)
	if lit == nil {
		e.Run.Undecided("R-SCAN", "per-file pass of fragment()", e.Prog.Pos(fd.Pos()), "no function that fragment() calls for an *ast.File and for each file of an *ast.Package")
		return
	}
	// locals print as their definitions within the pass (which may be a merged body)
	undoR := c.InstallReachingIn(lit.Body)
	defer undoR()
	il := func(x ast.Expr) string {
		if x == nil {
			return ""
		}
		return c.ExprStr(x)
	}
	var loop *ast.ForStmt
	ast.Inspect(lit.Body, func(n ast.Node) bool {
		if fs, ok := n.(*ast.ForStmt); ok && fs.Init != nil && fs.Cond != nil && fs.Post != nil {
			if strings.Contains(il(initRHS(fs.Init)), ".Base()") {
				loop = fs
			}
		}
		return true
	})
	e.avoidKeyProvenance(lit)
	if loop == nil {
		// the other way to find every line break: the file's line table, from line 1 or 2 up to
		// LineCount() inclusive, one line per step
		var tloop *ast.ForStmt
		ast.Inspect(lit.Body, func(n ast.Node) bool {
			if fs, ok := n.(*ast.ForStmt); ok && fs.Init != nil && fs.Cond != nil && fs.Post != nil {
				if be, ok := fs.Cond.(*ast.BinaryExpr); ok && strings.HasSuffix(il(be.Y), ".LineCount()") {
					tloop = fs
				}
			}
			return true
		})
		if tloop == nil {
			e.Run.Undecided("R-SCAN", "newline discovery loop", e.Prog.Pos(lit.Pos()), "neither a byte-position loop from the file's Base() nor a loop over its line table in processFile")
			return
		}
		be := tloop.Cond.(*ast.BinaryExpr)
		lvar := c.ExprStr(be.X)
		initS := c.ExprStr(initRHS(tloop.Init))
		okT := be.Op == token.LEQ && (initS == "1" || initS == "2") && stmtNorm(c, tloop.Post) == lvar+"++"
		e.Run.Check("R-SCAN", "newline discovery visits every byte position of the file", e.Prog.Pos(tloop.Pos()), okT,
			fmt.Sprintf("line-table loop from %s while %s %s LineCount(): every line from the second to the last (inclusive) must be visited, one per step", initS, lvar, be.Op))
		// LineStart(line+1) panics beyond the last line: guarded by line < LineCount()
		guarded := true
		ast.Inspect(tloop.Body, func(n ast.Node) bool {
			call, ok := n.(*ast.CallExpr)
			if !ok || funcKey(calleeFunc(info, call)) != "(*go/token.File).LineStart" || len(call.Args) != 1 {
				return true
			}
			arg := c.ExprStr(call.Args[0])
			if !strings.Contains(arg, lvar+" + 1") && !strings.Contains(arg, lvar+"+1") {
				return true
			}
			in := false
			// left operand of an && or an enclosing if
			ast.Inspect(tloop.Body, func(m ast.Node) bool {
				switch x := m.(type) {
				case *ast.BinaryExpr:
					if x.Op == token.LAND && x.Y.Pos() <= call.Pos() && call.End() <= x.Y.End() {
						l := il(x.X)
						if strings.HasPrefix(l, lvar+" < ") && strings.HasSuffix(l, ".LineCount()") {
							in = true
						}
					}
				case *ast.IfStmt:
					if x.Body.Pos() <= call.Pos() && call.End() <= x.Body.End() {
						l := il(x.Cond)
						if strings.HasPrefix(l, lvar+" < ") && strings.HasSuffix(l, ".LineCount()") {
							in = true
						}
					}
				}
				return true
			})
			if !in {
				guarded = false
			}
			return true
		})
		e.Run.Check("R-SCAN", "look-ahead past the current position is guarded against the end of the file", e.Prog.Pos(tloop.Pos()), guarded,
			"tokenf.LineStart(line+1) panics for a line beyond the last: it must sit under `line < tokenf.LineCount()`")
		return
	}
	pos := e.Prog.Pos(loop.Pos())
	initS := il(initRHS(loop.Init))
	var condS string
	var ivar string
	if be, ok := loop.Cond.(*ast.BinaryExpr); ok && be.Op == token.LSS {
		ivar = c.ExprStr(be.X)
		condS = il(be.Y)
		for strings.HasPrefix(condS, "(") && strings.HasSuffix(condS, ")") && balanced(condS[1:len(condS)-1]) {
			condS = condS[1 : len(condS)-1]
		}
	}
	postOK := stmtNorm(c, loop.Post) == ivar+"++"
	recv := strings.TrimSuffix(initS, ".Base()")
	okBounds := strings.HasSuffix(initS, ".Base()") && condS == recv+".Base() + "+recv+".Size()" && postOK
	e.Run.Check("R-SCAN", "newline discovery visits every byte position of the file", pos, okBounds,
		fmt.Sprintf("loop from %s while %s < %s: must run from Base() to Base()+Size() exclusive in steps of one — a line break is recognised at the first byte of the following line, so a position that is not visited loses the break before it (and with it the trailing comma go/printer would print)", initS, ivar, condS))
	// the look-ahead Position(i+1) is guarded by i < max-1
	guarded := true
	ast.Inspect(loop.Body, func(n ast.Node) bool {
		call, ok := n.(*ast.CallExpr)
		if !ok {
			return true
		}
		_, parg, isLookup := e.posLookup(pkg, call, 0)
		if !isLookup {
			return true
		}
		if !strings.Contains(c.ExprStr(parg), ivar+" + 1") && !strings.Contains(c.ExprStr(parg), ivar+"+1") {
			return true
		}
		in := false
		ast.Inspect(loop.Body, func(m ast.Node) bool {
			if is, ok := m.(*ast.IfStmt); ok && is.Body.Pos() <= call.Pos() && call.End() <= is.Body.End() {
				cond := il(is.Cond)
				if strings.HasPrefix(cond, ivar+" < ") && (strings.HasSuffix(cond, " - 1") || strings.HasSuffix(cond, "-1")) {
					in = true
				}
			}
			return true
		})
		if !in {
			guarded = false
		}
		return true
	})
	e.Run.Check("R-SCAN", "look-ahead past the current position is guarded against the end of the file", pos, guarded,
		"f.Fset.Position(i+1) for the last position of the file is outside the file: it must sit under `if i < max-1`")
}

func initRHS(s ast.Stmt) ast.Expr {
	if as, ok := s.(*ast.AssignStmt); ok && len(as.Rhs) == 1 {
		return as.Rhs[0]
	}
	return &ast.Ident{Name: "?"}
}

// RCommentLines: in applyDecorations the line starts inside a multi-line comment are recorded
// for every such comment, whichever sink it goes to, before the cursor passes it.
func (e *Env) RCommentLines() {
	e.RSearchLoops(e.pkgs(load.PkgDecorator)) // a search loop over the comment text must not stop at a hit at index 0
	pkg := e.Prog.Pkg(load.PkgDecorator)
	info := pkg.TypesInfo
	c := e.Sib.Ctx[load.PkgDecorator]
	fd := load.FuncDecl(pkg, "FileRestorer", "applyDecorations")
	if fd == nil || fd.Body == nil {
		return
	}
	c.ComputeSubst(fd.Body.List, nil)
	defer func() { c.Subst = nil }()
	// the loop (or helper call) that appends per-'\n' line offsets
	isLineRecorder := func(n ast.Node) bool {
		switch x := n.(type) {
		case *ast.RangeStmt, *ast.ForStmt:
			return e.isTextLoop(info, x)
		case *ast.ExprStmt:
			if call, ok := x.X.(*ast.CallExpr); ok {
				if fn := c.Callee(call); fn != nil && fn.Pkg() == pkg.Types {
					// a helper whose body contains such a loop
					for _, h := range load.AllFuncDecls(pkg) {
						if info.Defs[h.Name] == types.Object(fn) && h.Body != nil {
							rec := false
							ast.Inspect(h.Body, func(m ast.Node) bool {
								if loopBody(m) != nil && e.isTextLoop(info, m) {
									rec = true
								}
								return true
							})
							return rec
						}
					}
				}
			}
		}
		return false
	}
	var recorder ast.Node
	var conds []string
	var stack []ast.Node
	ast.Inspect(fd.Body, func(n ast.Node) bool {
		if n == nil {
			stack = stack[:len(stack)-1]
			return true
		}
		if recorder == nil && isLineRecorder(n) {
			recorder = n
			for i, s := range stack {
				if is, ok := s.(*ast.IfStmt); ok {
					// which branch?
					next := n
					if i+1 < len(stack) {
						next = stack[i+1]
					}
					cond := c.ExprStr(is.Cond)
					if is.Else != nil && next == is.Else {
						cond = schema.NegGuard(cond)
					}
					conds = append(conds, cond)
				}
			}
		}
		stack = append(stack, n)
		return true
	})
	pos := e.Prog.Pos(fd.Pos())
	if recorder == nil {
		e.Run.Violation("R-CURSOR", "applyDecorations records the line starts inside multi-line comments", pos, "no loop over the comment text that appends to the line table")
		return
	}
	// (that the recording happens for every multi-line comment on every path is decided by the
	// line-state machine; the textual test below is kept only for code in the original shape)
	e.lineStateApplyDecorations()
	okConds := true
	for _, cd := range conds {
		g := parseGuard(cd)
		atoms := map[string]bool{}
		if g.ok && g.expr != nil {
			collectAtoms(g.expr, atoms)
		}
		for a := range atoms {
			multi := strings.Contains(a, `strings.HasPrefix(d, "/*")`) || strings.Contains(a, `strings.Contains(d, "\n")`) || a == "isMultiLineComment" || a == "isInlineComment"
			if !multi && (strings.Contains(a, "firstLine") || strings.Contains(a, "hasCommentField") || a == "end") {
				okConds = false // nested under the choice of sink
			}
		}
	}
	e.Run.Check("R-CURSOR", "applyDecorations records the line starts inside every multi-line comment, whichever sink it goes to", e.Prog.Pos(recorder.Pos()), okConds,
		fmt.Sprintf("the recording loop is nested under %v: it may depend only on the comment being a block comment that contains a newline — under any other condition (e.g. the choice of sink) some multi-line comments pass without their lines, the line table falls behind and the following element is printed on the comment's line", conds))
}

// RCommentsNotShared: the *ast.File handed back by RestoreFile does not share the restorer's
// working comment list (which the next RestoreFile call resets).
func (e *Env) RCommentsNotShared() {
	pkg := e.Prog.Pkg(load.PkgDecorator)
	info := pkg.TypesInfo
	for _, fd := range load.AllFuncDecls(pkg) {
		if fd.Body == nil || !isRestorePath(fd) {
			continue
		}
		ast.Inspect(fd.Body, func(n ast.Node) bool {
			as, ok := n.(*ast.AssignStmt)
			if !ok || len(as.Lhs) != len(as.Rhs) {
				return true
			}
			for i, r := range as.Rhs {
				if !e.isRestorerField(info, r, "comments") && !(isSliceOf(r) && e.isRestorerField(info, r.(*ast.SliceExpr).X, "comments")) {
					continue
				}
				// storing the slice itself somewhere other than back into r.comments
				if e.isRestorerField(info, as.Lhs[i], "comments") {
					continue
				}
				if _, isIdent := as.Lhs[i].(*ast.Ident); isIdent {
					continue // a local alias; what happens to it is covered by the append-only rule
				}
				e.Run.Violation("R-CURSOR", "RestoreFile result shares the restorer's comment list: "+types.ExprString(as.Lhs[i]), e.Prog.Pos(as.Pos()),
					"the working list r.comments is stored as is; the next RestoreFile on the same FileRestorer resets/overwrites it and the file returned earlier prints another file's comments — copy the elements (append to the file's own slice)")
			}
			return true
		})
	}
	e.Run.OK("R-CURSOR", "the restorer's working comment list is never handed out", "", "")
}

func isSliceOf(x ast.Expr) bool { _, ok := x.(*ast.SliceExpr); return ok }

// RCacheAfterSuccess: the shared resolver's per-file cache receives an entry only once the entry
// is complete: no error return is reachable (CFG) after the store. Otherwise a failed resolution
// leaves a partial import table behind and a retry with a working resolver silently uses it.
func (e *Env) RCacheAfterSuccess() {
	n := 0
	for _, path := range []string{load.PkgGoast, load.PkgGotypes, load.PkgGuess, load.PkgSimple, load.ModPath + "/decorator/resolver/gopackages", load.ModPath + "/decorator/resolver/gobuild"} {
		n += e.cacheAfterSuccess(path)
	}
	e.Run.Floor("R-CACHE", "stores to resolver state", n, 1)
}

func (e *Env) cacheAfterSuccess(pkgPath string) int {
	pkg := e.Prog.Pkg(pkgPath)
	info := pkg.TypesInfo
	n := 0
	for _, fd := range load.AllFuncDecls(pkg) {
		if fd.Body == nil || fd.Recv == nil {
			continue
		}
		recv := info.Defs[fd.Recv.List[0].Names[0]]
		var stores []ast.Node
		ast.Inspect(fd.Body, func(nd ast.Node) bool {
			as, ok := nd.(*ast.AssignStmt)
			if !ok {
				return true
			}
			for _, l := range as.Lhs {
				if ix, ok := l.(*ast.IndexExpr); ok {
					if se, ok := ix.X.(*ast.SelectorExpr); ok {
						if id, ok := se.X.(*ast.Ident); ok && info.Uses[id] == recv {
							stores = append(stores, as)
						}
					}
					if id, ok := ix.X.(*ast.Ident); ok && info.Uses[id] == recv {
						stores = append(stores, as) // map-typed receiver
					}
				}
			}
			return true
		})
		if len(stores) == 0 {
			continue
		}
		g := cfg.New(fd.Body, func(*ast.CallExpr) bool { return true })
		blockOf := func(p token.Pos) *cfg.Block {
			for _, b := range g.Blocks {
				for _, nd := range b.Nodes {
					if nd.Pos() <= p && p < nd.End() {
						return b
					}
				}
			}
			return nil
		}
		for _, st := range stores {
			n++
			sb := blockOf(st.Pos())
			bad := token.NoPos
			for _, b := range g.Blocks {
				if !b.Live {
					continue
				}
				for _, nd := range b.Nodes {
					rs, ok := nd.(*ast.ReturnStmt)
					if !ok || len(rs.Results) == 0 {
						continue
					}
					last := rs.Results[len(rs.Results)-1]
					if info.Types[last].IsNil() || !returnsErrorResult(info, fd) {
						continue
					}
					if sb != nil && (ancestors(g, b)[sb] || (b == sb && rs.Pos() > st.Pos())) {
						bad = rs.Pos()
					}
				}
			}
			e.Run.Check("R-CACHE", fmt.Sprintf("%s: cache entry %s stored only after it is complete", load.FuncName(fd), types.ExprString(st.(*ast.AssignStmt).Lhs[0])), e.Prog.Pos(st.Pos()), bad == token.NoPos,
				"an error return at "+e.Prog.Pos(bad)+" is reachable after the store: a resolution that fails half-way leaves a partial entry in the shared resolver, and a later retry (fresh decorator, same resolver, same file) silently uses it")
		}
	}
	return n
}

// RParenSync: in updateImports, every import declaration whose spec list is changed also has its
// Lparen/Rparen flags set: the restorer records the positions of "(" and ")" only when the flags
// are true, while go/printer prints the parentheses whenever there is more than one spec.
func (e *Env) RParenSync() {
	pkg := e.Prog.Pkg(load.PkgDecorator)
	info := pkg.TypesInfo
	c := e.Sib.Ctx[load.PkgDecorator]
	fd := load.FuncDecl(pkg, "FileRestorer", "updateImports")
	if fd == nil || fd.Body == nil {
		return
	}
	specsBase := map[string]token.Pos{}
	flagBase := map[string]map[string]bool{}
	undoReach := c.InstallReaching(fd) // `first := blocks[0]` is blocks[0]
	defer undoReach()
	isGenDecl := func(x ast.Expr) bool { _, n := namedOf(info.TypeOf(x)); return n == "GenDecl" }
	record := func(l ast.Expr, p token.Pos) {
		se, ok := l.(*ast.SelectorExpr)
		if !ok || !isGenDecl(se.X) {
			return
		}
		base := c.ExprStr(se.X)
		switch se.Sel.Name {
		case "Specs":
			if _, seen := specsBase[base]; !seen {
				specsBase[base] = p
			}
		case "Lparen", "Rparen":
			if flagBase[base] == nil {
				flagBase[base] = map[string]bool{}
			}
			flagBase[base][se.Sel.Name] = true
		}
	}
	// helpers that set the flags for their argument (one level)
	ast.Inspect(fd.Body, func(n ast.Node) bool {
		switch x := n.(type) {
		case *ast.AssignStmt:
			for _, l := range x.Lhs {
				record(l, x.Pos())
			}
		case *ast.CallExpr:
			fn := c.Callee(x)
			if fn == nil || fn.Pkg() != pkg.Types {
				return true
			}
			for _, h := range load.AllFuncDecls(pkg) {
				if info.Defs[h.Name] != types.Object(fn) || h.Body == nil {
					continue
				}
				var params []types.Object
				for _, p := range h.Type.Params.List {
					for _, nm := range p.Names {
						params = append(params, info.Defs[nm])
					}
				}
				ast.Inspect(h.Body, func(m ast.Node) bool {
					as, ok := m.(*ast.AssignStmt)
					if !ok {
						return true
					}
					for _, l := range as.Lhs {
						se, ok := l.(*ast.SelectorExpr)
						if !ok || (se.Sel.Name != "Lparen" && se.Sel.Name != "Rparen") {
							continue
						}
						if id, ok := se.X.(*ast.Ident); ok {
							for i, p := range params {
								if info.Uses[id] == p && i < len(x.Args) && isGenDecl(x.Args[i]) {
									base := c.ExprStr(x.Args[i])
									if flagBase[base] == nil {
										flagBase[base] = map[string]bool{}
									}
									flagBase[base][se.Sel.Name] = true
								}
							}
						}
					}
					return true
				})
			}
		}
		return true
	})
	n := 0
	for _, base := range sortedKeys(specsBase) {
		n++
		ok := flagBase[base]["Lparen"] && flagBase[base]["Rparen"]
		e.Run.Check("R-PAREN", "updateImports: "+base+".Specs is changed and its Lparen/Rparen flags are set", e.Prog.Pos(specsBase[base]), ok,
			"the spec list of "+base+" is modified but its parenthesis flags are never assigned: a declaration that grows from one spec to several keeps Lparen=false, the restored ast has NoPos for parentheses that are printed, and GenDecl.End() stops at the last spec")
	}
	e.Run.Floor("R-PAREN", "import declarations whose specs updateImports changes", n, 2)
	e.RParenKeep()
}

// RParenKeep (R-PAREN): the parentheses of an import declaration are dropped only when the spec
// that is left has no comments above it. `import\n// comment\n"path"` no longer attaches the
// comment to the spec (go/parser gives an unparenthesised spec no doc); for import "C" that
// comment is the cgo preamble and the file stops building. For every store that can clear a
// GenDecl's Lparen in the restorer's import code — `X.Lparen = false` under a condition, or
// `X.Lparen = E` when E is false — the condition under which it clears must be impossible while
// the Start decorations of the remaining spec are non-empty.
func (e *Env) RParenKeep() {
	pkg := e.Prog.Pkg(load.PkgDecorator)
	info := pkg.TypesInfo
	c := e.Sib.Ctx[load.PkgDecorator]
	restoreHelpers := e.restoreOnly(pkg)
	n := 0
	type clearing struct {
		cond string
		ok   bool
		at   token.Pos
		fn   string
	}
	var cs []clearing
	for _, fd := range load.AllFuncDecls(pkg) {
		// the restorer's hand-written code (the generated converters copy the flag of the node)
		if fd.Body == nil || !(isRestorePath(fd) || restoreHelpers[fd]) || strings.HasSuffix(e.Prog.File(fd.Pos()), "-generated.go") {
			continue
		}
		var stores []*ast.AssignStmt
		ast.Inspect(fd.Body, func(nd ast.Node) bool {
			if as, ok := nd.(*ast.AssignStmt); ok && len(as.Lhs) == len(as.Rhs) {
				for _, l := range as.Lhs {
					if se, ok := ast.Unparen(l).(*ast.SelectorExpr); ok && se.Sel.Name == "Lparen" {
						if _, tn := namedOf(info.TypeOf(se.X)); tn == "GenDecl" {
							stores = append(stores, as)
						}
					}
				}
			}
			return true
		})
		if len(stores) == 0 {
			continue
		}
		var params []types.Object
		if fd.Type.Params != nil {
			for _, f := range fd.Type.Params.List {
				for _, nm := range f.Names {
					params = append(params, info.Defs[nm])
				}
			}
		}
		undo := c.InstallReaching(fd)
		for _, as := range stores {
			for i, l := range as.Lhs {
				se, ok := ast.Unparen(l).(*ast.SelectorExpr)
				if !ok || se.Sel.Name != "Lparen" {
					continue
				}
				val := c.ExprStr(as.Rhs[i])
				if val == "true" {
					continue // sets the parentheses
				}
				pc, okp := pathCond(c, fd.Body.List, as)
				and := func(a, b string) string {
					switch {
					case a == "":
						return b
					case b == "":
						return a
					}
					return "(" + a + ") && (" + b + ")"
				}
				// the value is a bool parameter: what the callers hand in, where they do
				pidx := -1
				if id, isID := ast.Unparen(as.Rhs[i]).(*ast.Ident); isID {
					for k, po := range params {
						if info.Uses[id] == po {
							pidx = k
						}
					}
				}
				if pidx >= 0 {
					target := info.Defs[fd.Name]
					for _, g := range load.AllFuncDecls(pkg) {
						if g.Body == nil {
							continue
						}
						var calls []*ast.CallExpr
						ast.Inspect(g.Body, func(nd ast.Node) bool {
							if call, ok := nd.(*ast.CallExpr); ok && pidx < len(call.Args) {
								if fn := calleeFunc(info, call); fn != nil && types.Object(fn) == target {
									calls = append(calls, call)
								}
							}
							return true
						})
						if len(calls) == 0 {
							continue
						}
						undoG := c.InstallReaching(g)
						for _, call := range calls {
							arg := c.ExprStr(call.Args[pidx])
							if arg == "true" {
								continue
							}
							pcG, okG := pathCond(c, g.Body.List, call)
							cond := and(pc, pcG)
							if arg != "false" {
								cond = and(cond, "!("+arg+")")
							}
							cs = append(cs, clearing{cond, okp && okG, call.Pos(), load.FuncName(g) + " → " + load.FuncName(fd)})
						}
						undoG()
					}
					continue
				}
				cond := pc
				if val != "false" {
					cond = and(cond, "!("+val+")")
				}
				cs = append(cs, clearing{cond, okp, as.Pos(), load.FuncName(fd)})
			}
		}
		undo()
	}
	for _, cl := range cs {
		n++
		key := fmt.Sprintf("%s: the parentheses of an import declaration are dropped only for a spec without comments above it", cl.fn)
		g := parseGuard(cl.cond)
		if !cl.ok || !g.ok {
			e.Run.Undecided("R-PAREN", key, e.Prog.Pos(cl.at), "condition not propositional: "+cl.cond)
			continue
		}
		atoms := map[string]bool{}
		if g.expr != nil {
			collectAtoms(g.expr, atoms)
		}
		vals, okv := valuations(atoms, 12)
		if !okv {
			e.Run.Undecided("R-PAREN", key, e.Prog.Pos(cl.at), "too many conditions: "+cl.cond)
			continue
		}
		// atoms that say "the list is non-empty" (0 < len(…), len(…) != 0) for the Start
		// decorations and for the spec list itself: the world of interest is a declaration with a
		// remaining spec that has comments above it
		nonEmpty := func(a, of string) bool {
			return strings.Contains(a, "len(") && strings.Contains(a, of) &&
				(strings.HasPrefix(a, "0 < len(") || strings.HasSuffix(a, " != 0") || strings.HasPrefix(a, "0 != "))
		}
		hasStart := false
		for a := range atoms {
			if nonEmpty(a, ".Start)") {
				hasStart = true
			}
		}
		bad := ""
		for _, v := range vals {
			skip := false
			for a, tv := range v {
				if (nonEmpty(a, ".Start)") || nonEmpty(a, "Specs)")) && !tv {
					skip = true
				}
			}
			if skip {
				continue
			}
			if evalGuard(g.expr, v) {
				bad = valString(v)
				break
			}
		}
		// … and only for a declaration with exactly one spec: a conjunct len(<specs>) == 1
		one := false
		for _, cj := range flatConjuncts(cl.cond) {
			cj = strings.TrimSpace(cj)
			if m := strings.TrimSuffix(cj, " == 1"); m != cj && (strings.HasPrefix(m, "len(") || m == "count") {
				one = true
			}
			if m := strings.TrimPrefix(cj, "1 == "); m != cj && strings.HasPrefix(m, "len(") {
				one = true
			}
		}
		e.Run.Check("R-PAREN", fmt.Sprintf("%s: the parentheses of an import declaration are dropped only when one spec is left", cl.fn), e.Prog.Pos(cl.at), one,
			"Lparen is cleared when «"+cl.cond+"», which does not say that the declaration has exactly one spec: several specs without parentheses are not a declaration go/printer can print (the restored GenDecl ends at its first spec, the others are printed as if they followed it)")
		e.Run.Check("R-PAREN", key, e.Prog.Pos(cl.at), hasStart && bad == "",
			"Lparen is cleared when «"+cl.cond+"», which does not exclude a remaining spec with Start decorations (comments above it): printed without parentheses the comment is detached from the spec — the preamble of import \"C\" is lost and the file no longer builds")
	}
	e.Run.Floor("R-PAREN", "stores that can clear the parentheses of an import declaration", n, 1)
	// the two flags of a declaration are always written together and alike: go/printer looks at
	// Lparen to decide whether the declaration is parenthesised, GenDecl.End() at Rparen
	for _, fd := range load.AllFuncDecls(pkg) {
		if fd.Body == nil || !(isRestorePath(fd) || restoreHelpers[fd]) || strings.HasSuffix(e.Prog.File(fd.Pos()), "-generated.go") {
			continue
		}
		ast.Inspect(fd.Body, func(nd ast.Node) bool {
			var list []ast.Stmt
			switch b := nd.(type) {
			case *ast.BlockStmt:
				list = b.List
			case *ast.CaseClause:
				list = b.Body
			}
			vals := map[string]map[string]string{} // base → flag → value
			var first ast.Node
			for _, st := range list {
				as, ok := st.(*ast.AssignStmt)
				if !ok || len(as.Lhs) != len(as.Rhs) {
					continue
				}
				for i, l := range as.Lhs {
					se, ok := ast.Unparen(l).(*ast.SelectorExpr)
					if !ok || (se.Sel.Name != "Lparen" && se.Sel.Name != "Rparen") {
						continue
					}
					if _, tn := namedOf(info.TypeOf(se.X)); tn != "GenDecl" {
						continue
					}
					base := types.ExprString(se.X)
					if vals[base] == nil {
						vals[base] = map[string]string{}
					}
					vals[base][se.Sel.Name] = types.ExprString(as.Rhs[i])
					if first == nil {
						first = as
					}
				}
			}
			for base, m := range vals {
				l, hasL := m["Lparen"]
				r, hasR := m["Rparen"]
				e.Run.Check("R-PAREN", fmt.Sprintf("%s: Lparen and Rparen of %s are stored together, with the same value", load.FuncName(fd), base), e.Prog.Pos(first.Pos()), hasL && hasR && l == r,
					fmt.Sprintf("Lparen = %q, Rparen = %q in one statement list (a missing store shows as \"\"): with one flag set and the other not, the restored declaration has an opening parenthesis without a closing one (or the reverse) — End() of the declaration and what go/printer prints disagree", l, r))
			}
			return true
		})
	}
}

// RHangGuard: in link(), the search for the hanging comments of a case / comm clause is made with
// the indent of the clause's body, start+1, wherever the last line of the clause sits: a clause
// without items ends on the line it starts on (end == start), a clause whose last statement is
// wrapped ends on a continuation line (end >= start+2). The rule follows the local that is read
// from endIndents:
//
//	H1  every write to it after its definition gives it the value start+1: `end = start + 1`, or
//	    an increment that executes only when start == end;
//	H2  for a node that is a CaseClause, and for one that is a CommClause, every path from the
//	    definition to the hanging test reaches such a write (or has end == start+1 already);
//	H3  a node of another kind never reaches the unconditional form.
//
// The path conditions are taken relative to the definition of the local; the tests of the node's
// kind (comma-ok assertions and type-switch clauses on *ast.CaseClause / *ast.CommClause) are
// fixed per kind, every other condition is left free.
func (e *Env) RHangGuard() {
	pkg := e.Prog.Pkg(load.PkgDecorator)
	// the function that reads the two indents of a node: link(), or a helper it was moved to
	n := 0
	for _, fd := range load.AllFuncDecls(pkg) {
		if fd.Body != nil && e.hangGuardIn(fd) {
			n++
		}
	}
	if n == 0 {
		e.Run.Floor("R-HANG", "spoofed end indents in link", 0, 1)
	}
	e.RHangNext()
}

func (e *Env) hangGuardIn(fd *ast.FuncDecl) bool {
	pkg := e.Prog.Pkg(load.PkgDecorator)
	c := e.Sib.Ctx[load.PkgDecorator]
	info := pkg.TypesInfo
	// the locals that hold the two indents of the node, and the booleans that say it is a clause
	var startV, endV types.Object
	var endDef ast.Stmt
	var startKey, endKey string
	kindVar := map[string]string{}
	ast.Inspect(fd.Body, func(nd ast.Node) bool {
		as, ok := nd.(*ast.AssignStmt)
		if !ok || as.Tok != token.DEFINE {
			return true
		}
		if len(as.Lhs) == len(as.Rhs) {
			for i := range as.Lhs {
				id, _ := as.Lhs[i].(*ast.Ident)
				ix, _ := ast.Unparen(as.Rhs[i]).(*ast.IndexExpr)
				if id == nil || ix == nil {
					continue
				}
				if sel, ok := ast.Unparen(ix.X).(*ast.SelectorExpr); ok {
					switch sel.Sel.Name {
					case "startIndents":
						if startV == nil {
							startV, startKey = info.Defs[id], c.ExprStr(ix.Index)
						}
					case "endIndents":
						if endV == nil {
							endV, endDef, endKey = info.Defs[id], as, c.ExprStr(ix.Index)
						}
					}
				}
			}
		}
		if len(as.Lhs) == 2 && len(as.Rhs) == 1 {
			id, _ := as.Lhs[1].(*ast.Ident)
			ta, _ := ast.Unparen(as.Rhs[0]).(*ast.TypeAssertExpr)
			if id == nil || ta == nil || ta.Type == nil || id.Name == "_" {
				return true
			}
			if p, nme := namedOf(info.TypeOf(ta.Type)); p == "go/ast" && (nme == "CaseClause" || nme == "CommClause") {
				kindVar[id.Name] = nme
			}
		}
		return true
	})
	if startV == nil || endV == nil || startKey != endKey {
		return false
	}
	const cons = "link: the hanging comments of a case / comm clause are searched at the indent of its body"
	startN, endN := startV.Name(), endV.Name()
	// the statements from the definition on, in the list that holds the definition
	var rel []ast.Stmt
	ast.Inspect(fd.Body, func(nd ast.Node) bool {
		var list []ast.Stmt
		switch v := nd.(type) {
		case *ast.BlockStmt:
			list = v.List
		case *ast.CaseClause:
			list = v.Body
		case *ast.CommClause:
			list = v.Body
		}
		for i, st := range list {
			if st == endDef {
				rel = list[i:]
			}
		}
		return rel == nil
	})
	isStartPlus1 := func(x ast.Expr) bool {
		be, ok := ast.Unparen(x).(*ast.BinaryExpr)
		if !ok || be.Op != token.ADD {
			return false
		}
		l, r := ast.Unparen(be.X), ast.Unparen(be.Y)
		if lit, ok := l.(*ast.BasicLit); ok && lit.Value == "1" {
			l, r = r, l
		}
		id, ok1 := l.(*ast.Ident)
		lit, ok2 := r.(*ast.BasicLit)
		return ok1 && ok2 && info.Uses[id] == startV && lit.Value == "1"
	}
	isEnd := func(x ast.Expr) bool {
		id, ok := ast.Unparen(x).(*ast.Ident)
		return ok && info.Uses[id] == endV
	}
	type write struct {
		at     ast.Stmt
		incr   bool // end++, end += 1, end = end + 1
		direct bool // end = start + 1
	}
	var writes []write
	ast.Inspect(fd.Body, func(nd ast.Node) bool {
		switch v := nd.(type) {
		case *ast.IncDecStmt:
			if isEnd(v.X) {
				writes = append(writes, write{at: v, incr: v.Tok == token.INC})
			}
		case *ast.AssignStmt:
			if v == endDef {
				return true
			}
			for i, l := range v.Lhs {
				if !isEnd(l) {
					continue
				}
				w := write{at: v}
				if len(v.Lhs) == len(v.Rhs) {
					r := v.Rhs[i]
					one := func(x ast.Expr) bool {
						lit, ok := ast.Unparen(x).(*ast.BasicLit)
						return ok && lit.Value == "1"
					}
					switch v.Tok {
					case token.ASSIGN:
						w.direct = isStartPlus1(r)
						if be, ok := ast.Unparen(r).(*ast.BinaryExpr); ok && be.Op == token.ADD &&
							(isEnd(be.X) && one(be.Y) || isEnd(be.Y) && one(be.X)) {
							w.incr = true
						}
					case token.ADD_ASSIGN:
						w.incr = one(r)
					}
				}
				writes = append(writes, w)
			}
		}
		return true
	})
	saved := c.TypeSwitchConds
	c.TypeSwitchConds = true
	defer func() { c.TypeSwitchConds = saved }()
	type reached struct {
		w  write
		pc guardExpr
	}
	var rs []reached
	atoms := map[string]bool{}
	for _, w := range writes {
		pos := e.Prog.Pos(w.at.Pos())
		if !w.incr && !w.direct {
			e.Run.Check("R-HANG", cons, pos, false,
				"the write at "+pos+" gives the end indent a value that is neither "+startN+"+1 nor an increment: the comments behind a clause are searched at another indent than that of its body")
			continue
		}
		pc, okp := "", false
		if rel != nil {
			pc, okp = pathCond(c, rel, w.at)
		}
		g := parseGuard(pc)
		if !okp || !g.ok {
			e.Run.Undecided("R-HANG", cons, pos, "path condition outside the propositional subset: "+pc)
			return true
		}
		if w.incr {
			un, dec := unsatWith(pc, startN+" != "+endN)
			if !dec {
				e.Run.Undecided("R-HANG", cons, pos, "path condition outside the propositional subset: "+pc)
				return true
			}
			if !un {
				e.Run.Check("R-HANG", cons, pos, false,
					"the increment of the end indent executes when «"+pc+"»; without the "+startN+" == "+endN+" test a clause with a body gets "+startN+"+2, loses the hanging-indent handling, and its trailing comments attach to the next clause")
				continue
			}
		}
		if g.expr != nil {
			collectAtoms(g.expr, atoms)
		}
		rs = append(rs, reached{w, g})
	}
	// conditions that say the end indent is start+1 already
	seKey, _ := atomKey(mustParseExpr(startN + " != " + endN))
	var eqAtoms []string
	for a := range atoms {
		switch strings.NewReplacer("(", "", ")", "").Replace(a) {
		case endN + " != " + startN + " + 1", startN + " + 1 != " + endN, endN + " != 1 + " + startN, "1 + " + startN + " != " + endN:
			eqAtoms = append(eqAtoms, a)
		}
	}
	vals, ok := valuations(atoms, 12)
	if !ok {
		e.Run.Undecided("R-HANG", cons, e.Prog.Pos(endDef.Pos()), "too many conditions between the definition of the end indent and its writes")
		return true
	}
	kindOfAtom := func(a string) string {
		if k, ok := kindVar[a]; ok {
			return k
		}
		for _, k := range []string{"CaseClause", "CommClause"} {
			if strings.HasPrefix(a, "ok(") && (strings.HasSuffix(a, ".(*ast."+k+"))") || strings.HasSuffix(a, ".(*"+k+"))")) {
				return k
			}
		}
		return ""
	}
	n := 0
	for _, world := range []string{"CaseClause", "CommClause", ""} {
		bad := ""
	vals:
		for _, v := range vals {
			for a, tv := range v {
				if k := kindOfAtom(a); k != "" && tv != (k == world) {
					continue vals
				}
			}
			atBody := false
			for _, a := range eqAtoms {
				atBody = atBody || !v[a]
			}
			if sv, has := v[seKey]; atBody && has && !sv {
				// start == end: the end indent is not start+1
				continue
			}
			hit, direct := false, false
			for _, r := range rs {
				if evalGuard(r.pc.expr, v) {
					hit = true
					direct = direct || r.w.direct
				}
			}
			switch {
			case world != "" && !hit && !atBody:
				bad = valString(v)
				break vals
			case world == "" && direct:
				bad = valString(v)
				break vals
			}
		}
		n++
		if world != "" {
			e.Run.Check("R-HANG", cons+" ("+world+")", e.Prog.Pos(endDef.Pos()), bad == "",
				"a "+world+" keeps an end indent other than "+startN+"+1 when «"+bad+"»: the comments at the end of its body are not found by the hanging-indent search, attach to the next clause and are printed at its indent")
		} else {
			e.Run.Check("R-HANG", "link: only clauses are given the indent of a body they do not end in", e.Prog.Pos(endDef.Pos()), bad == "",
				"a node that is neither a CaseClause nor a CommClause has its end indent replaced by "+startN+"+1 when «"+bad+"»")
		}
	}
	e.Run.Floor("R-HANG", "spoofed end indents in link", len(rs), 1)
	_ = n
	// H4: a node that is no clause is searched for hanging comments whenever it ends deeper than
	// it starts — on a continuation line, however deep. The search is the call that is handed a
	// [2]int in this function, or, when this function is a helper that tells its caller whether
	// to search, a return whose last (bool) result is true.
	var hangConds []string
	searchAt := token.NoPos
	if rel != nil {
		ast.Inspect(fd.Body, func(nd ast.Node) bool {
			switch v := nd.(type) {
			case *ast.CallExpr:
				if v.Pos() < endDef.End() {
					return true
				}
				for _, a := range v.Args {
					if at, ok := info.TypeOf(a).Underlying().(*types.Array); ok && at.Len() == 2 {
						if pc, okp := pathCond(c, rel, v); okp {
							if pc == "" {
								pc = "true"
							}
							hangConds = append(hangConds, pc)
							searchAt = v.Pos()
						}
					}
				}
			case *ast.ReturnStmt:
				if v.Pos() < endDef.End() || len(v.Results) == 0 {
					return true
				}
				last := v.Results[len(v.Results)-1]
				if b, ok := info.TypeOf(last).Underlying().(*types.Basic); !ok || b.Kind() != types.Bool {
					return true
				}
				if pc, okp := pathCond(c, rel, v); okp {
					cond := c.ExprStr(last)
					if pc != "" {
						cond = "(" + pc + ") && (" + cond + ")"
					}
					hangConds = append(hangConds, cond)
					if searchAt == token.NoPos {
						searchAt = v.Pos()
					}
				}
			}
			return true
		})
	}
	if len(hangConds) > 0 {
		var parts []string
		for _, hc := range hangConds {
			parts = append(parts, "("+hc+")")
		}
		all := strings.Join(parts, " || ")
		deeper, _ := atomKey(mustParseExpr(startN + " < " + endN))
		hg := parseGuard(all)
		hatoms := map[string]bool{deeper: true}
		if hg.ok && hg.expr != nil {
			collectAtoms(hg.expr, hatoms)
		}
		hvals, okh := valuations(hatoms, 12)
		const key4 = "link: a statement or declaration that ends deeper than it starts is searched for hanging comments"
		if !hg.ok || !okh {
			e.Run.Undecided("R-HANG", key4, e.Prog.Pos(searchAt), "condition not propositional: "+all)
		} else {
			bad := ""
			for _, v := range hvals {
				skip := false
				for a, tv := range v {
					if k := kindOfAtom(a); k != "" && tv {
						skip = true // a clause: its end indent is rewritten first (H2)
					}
				}
				if skip || !v[deeper] {
					continue
				}
				if !evalGuard(hg.expr, v) {
					bad = valString(v)
					break
				}
			}
			e.Run.Check("R-HANG", key4, e.Prog.Pos(searchAt), bad == "",
				"the search is not made when «"+bad+"» although "+startN+" < "+endN+": after a statement whose last line is two or more levels deeper (a wrapped call inside a wrapped expression) a comment at the statement's own indent is attached to the End of the statement and printed one tab deeper")
		}
	}
	return true
}

// RHangNext: the hanging-indent search is handed two indents, [2]int{that of the hanging comments,
// that of the comments of whatever follows}; the comments of the second group are attached to the
// next node only when that node starts at the second of them. The rule compares the indent the
// start of the next node is tested against with the second element of what the search was given —
// a literal's second element, or X[1] of an array value X.
func (e *Env) RHangNext() {
	pkg := e.Prog.Pkg(load.PkgDecorator)
	c := e.Sib.Ctx[load.PkgDecorator]
	info := pkg.TypesInfo
	fd := load.FuncDecl(pkg, "fileDecorator", "link")
	if fd == nil || fd.Body == nil {
		return
	}
	undo := c.InstallReaching(fd)
	defer undo()
	n := 0
	ast.Inspect(fd.Body, func(nd ast.Node) bool {
		call, ok := nd.(*ast.CallExpr)
		if !ok || len(call.Args) != 2 {
			return true
		}
		fn := calleeFunc(info, call)
		if fn == nil || fn.Pkg() != pkg.Types {
			return true
		}
		at, ok := info.TypeOf(call.Args[1]).Underlying().(*types.Array)
		if !ok || at.Len() != 2 {
			return true
		}
		// the indent of the second group
		second := ""
		switch v := ast.Unparen(call.Args[1]).(type) {
		case *ast.CompositeLit:
			if len(v.Elts) == 2 {
				second = c.ExprStr(v.Elts[1])
			}
		default:
			second = c.ExprStr(&ast.IndexExpr{X: call.Args[1], Index: &ast.BasicLit{Kind: token.INT, Value: "1"}})
		}
		if second == "" {
			return true
		}
		// comparisons of a start indent of another node with something, after the call
		ast.Inspect(fd.Body, func(m ast.Node) bool {
			be, ok := m.(*ast.BinaryExpr)
			if !ok || be.Op != token.EQL || be.Pos() < call.End() {
				return true
			}
			x, y := c.ExprStr(be.X), c.ExprStr(be.Y)
			if !strings.Contains(x, ".startIndents[") && !strings.Contains(y, ".startIndents[") {
				return true
			}
			n++
			other := y
			if !strings.Contains(x, ".startIndents[") || x == second {
				other = x
			}
			e.Run.Check("R-HANG", "link: the comments of the second group go to the next node when it starts at the indent they were collected at", e.Prog.Pos(be.Pos()), x == second || y == second,
				"the hanging-indent search collects its second group at indent `"+second+"`, but the start of the next node is compared with `"+other+"`: a comment lined up with the next clause, written directly under a hanging comment, stays with the previous clause and is printed one level too deep")
			return true
		})
		return true
	})
	e.Run.Floor("R-HANG", "tests of the next node's start indent in link", n, 1)
}

func mustParseExpr(s string) ast.Expr {
	x, err := parser.ParseExpr(s)
	if err != nil {
		panic("mustParseExpr: " + s + ": " + err.Error())
	}
	return x
}

func returnsErrorResult(info *types.Info, fd *ast.FuncDecl) bool {
	if fd.Type.Results == nil || len(fd.Type.Results.List) == 0 {
		return false
	}
	last := fd.Type.Results.List[len(fd.Type.Results.List)-1]
	return types.Identical(info.TypeOf(last.Type), types.Universe.Lookup("error").Type())
}

// avoidKeyProvenance (R-SCAN): the set of lines on which no newline fragment is emitted is filled
// and consulted with line numbers of one kind. token.FileSet.Position(p).Line is adjusted by
// //line directives; token.File.LineCount / LineStart / Line count physical lines. Filling the
// set with one kind and consulting it with the other marks the wrong lines whenever the file has a
// //line directive (generated code): newlines inside raw strings are emitted, others are dropped.
func (e *Env) avoidKeyProvenance(lit *ast.FuncLit) {
	pkg := e.Prog.Pkg(load.PkgDecorator)
	info := pkg.TypesInfo
	defsRoot := lit.Body
	// parameters of local closures and of marking functions, with the arguments of their calls
	paramArgs := map[types.Object][]ast.Expr{}
	{
		lits := map[types.Object]*ast.FuncLit{}
		ast.Inspect(lit.Body, func(nd ast.Node) bool {
			if as, ok := nd.(*ast.AssignStmt); ok && len(as.Lhs) == 1 && len(as.Rhs) == 1 {
				if fl, ok := as.Rhs[0].(*ast.FuncLit); ok {
					if id, ok := as.Lhs[0].(*ast.Ident); ok && info.Defs[id] != nil {
						lits[info.Defs[id]] = fl
					}
				}
			}
			return true
		})
		ast.Inspect(lit.Body, func(nd ast.Node) bool {
			call, ok := nd.(*ast.CallExpr)
			if !ok {
				return true
			}
			var params []*ast.Ident
			if id, ok := call.Fun.(*ast.Ident); ok && lits[info.Uses[id]] != nil {
				for _, f := range lits[info.Uses[id]].Type.Params.List {
					params = append(params, f.Names...)
				}
			} else if mk := e.markingFuncOf(pkg, call); mk != nil {
				for _, f := range mk.decl.Type.Params.List {
					params = append(params, f.Names...)
				}
			}
			if len(params) != len(call.Args) {
				return true
			}
			for i, pid := range params {
				if o := info.Defs[pid]; o != nil {
					paramArgs[o] = append(paramArgs[o], call.Args[i])
				}
			}
			return true
		})
	}
	kindOf := func(x ast.Expr) string {
		seen := map[types.Object]bool{}
		var walk func(x ast.Expr, depth int) string
		walk = func(x ast.Expr, depth int) string {
			out := ""
			merge := func(k string) {
				switch {
				case k == "" || out == k:
				case out == "":
					out = k
				default:
					out = "mixed"
				}
			}
			ast.Inspect(x, func(n ast.Node) bool {
				switch v := n.(type) {
				case *ast.SelectorExpr:
					if v.Sel.Name == "Line" {
						if p, nme := namedOf(info.TypeOf(v.X)); p == "go/token" && nme == "Position" {
							// which numbering: that of the look-up the position comes from
							k := "adjusted"
							src := ast.Unparen(v.X)
							if id, isID := src.(*ast.Ident); isID {
								if def := singleDefIn(info, defsRoot.List, info.Uses[id]); def != nil {
									src = ast.Unparen(def)
								}
							}
							if call, isCall := src.(*ast.CallExpr); isCall {
								if kk, _, okL := e.posLookup(pkg, call, 0); okL {
									k = kk
								}
							}
							merge(k)
							return false
						}
					}
				case *ast.CallExpr:
					switch funcKey(calleeFunc(info, v)) {
					case "(*go/token.File).LineCount", "(*go/token.File).Line":
						merge("physical")
					}
				case *ast.Ident:
					o := info.Uses[v]
					if o == nil || seen[o] || depth > 3 {
						return true
					}
					if _, isVar := o.(*types.Var); !isVar {
						return true
					}
					seen[o] = true
					// a parameter of a closure or marking function: what the calls hand it, read
					// in the per-file pass
					if args := paramArgs[o]; len(args) > 0 {
						savedRoot := defsRoot
						defsRoot = lit.Body
						for _, a := range args {
							merge(walk(a, depth+1))
						}
						defsRoot = savedRoot
					}
					// definitions of the local, and the bound of a loop that counts it
					ast.Inspect(defsRoot, func(m ast.Node) bool {
						switch st := m.(type) {
						case *ast.AssignStmt:
							for i, l := range st.Lhs {
								if id, ok := l.(*ast.Ident); ok && (info.Defs[id] == o || info.Uses[id] == o) && len(st.Lhs) == len(st.Rhs) {
									merge(walk(st.Rhs[i], depth+1))
								}
							}
						case *ast.ForStmt:
							if be, ok := st.Cond.(*ast.BinaryExpr); ok {
								if id, ok := be.X.(*ast.Ident); ok && info.Uses[id] == o {
									merge(walk(be.Y, depth+1))
								}
							}
						}
						return true
					})
				}
				return true
			})
			return out
		}
		return walk(x, 0)
	}
	kinds := map[string][]string{}
	n := 0
	// the per-file pass and the functions of the package that fill the set on its behalf
	scan := []ast.Node{lit.Body}
	ast.Inspect(lit.Body, func(nd ast.Node) bool {
		if call, ok := nd.(*ast.CallExpr); ok {
			if mk := e.markingFuncOf(pkg, call); mk != nil {
				dup := false
				for _, sc := range scan {
					if sc == ast.Node(mk.decl.Body) {
						dup = true
					}
				}
				if !dup {
					scan = append(scan, mk.decl.Body)
				}
			}
		}
		return true
	})
	for _, root := range scan {
		defsRoot = root.(*ast.BlockStmt)
		ast.Inspect(root, func(nd ast.Node) bool {
			ix, ok := nd.(*ast.IndexExpr)
			if !ok {
				return true
			}
			mt, ok := info.TypeOf(ix.X).Underlying().(*types.Map)
			if !ok || !types.Identical(mt.Key(), types.Typ[types.Int]) || !types.Identical(mt.Elem(), types.Typ[types.Bool]) {
				return true
			}
			n++
			k := kindOf(ix.Index)
			kinds[k] = append(kinds[k], types.ExprString(ix)+" ("+e.Prog.Pos(ix.Pos())+")")
			return true
		})
	}
	var names []string
	for k := range kinds {
		names = append(names, k)
	}
	sort.Strings(names)
	ok := len(names) == 1 && (names[0] == "adjusted" || names[0] == "physical")
	e.Run.Check("R-SCAN", "the avoided-lines set is filled and consulted with line numbers of one kind", e.Prog.Pos(lit.Pos()), ok || n == 0,
		fmt.Sprintf("keys by kind %v — FileSet.Position().Line follows //line directives, File.LineCount/LineStart count physical lines: with a //line directive the set marks other lines than the ones that are looked up", kinds))
	e.Run.Floor("R-SCAN", "accesses to the avoided-lines set", n, 2)
}
