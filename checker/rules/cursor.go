package rules

import (
	"fmt"
	"go/ast"
	"go/token"
	"go/types"
	"golang.org/x/tools/go/packages"
	"strings"

	"dstverif/load"
	"dstverif/schema"
)

// R-CURSOR: the restorer's synthetic position space.

func (e *Env) isRestorerField(info *types.Info, x ast.Expr, field string) bool {
	se, ok := x.(*ast.SelectorExpr)
	if !ok || se.Sel.Name != field {
		return false
	}
	v, ok := info.Uses[se.Sel].(*types.Var)
	if !ok || !v.IsField() {
		return false
	}
	_, n := namedOf(info.TypeOf(se.X))
	return n == "FileRestorer"
}

func isTokenPos(t types.Type) bool {
	p, n := namedOf(t)
	_, isPtr := types.Unalias(t).(*types.Pointer)
	return p == "go/token" && n == "Pos" && !isPtr
}

func (e *Env) RCursor(withFileOrder bool) {
	pkg := e.Prog.Pkg(load.PkgDecorator)
	info := pkg.TypesInfo
	c := e.Sib.Ctx[load.PkgDecorator]
	nCursor, nPos, nLines, nComments, nMarker := 0, 0, 0, 0, 0

	isCursor := func(x ast.Expr) bool { return e.isRestorerField(info, x, "cursor") }
	isNoPos := func(x ast.Expr) bool {
		if se, ok := x.(*ast.SelectorExpr); ok {
			if cst, ok := info.Uses[se.Sel].(*types.Const); ok && cst.Pkg() != nil && cst.Pkg().Path() == "go/token" && cst.Name() == "NoPos" {
				return true
			}
		}
		return false
	}
	// token.Pos parameters that receive the cursor at every call site
	posParamOK := map[types.Object]bool{}
	for _, fd := range load.AllFuncDecls(pkg) {
		if fd.Body == nil || !isRestorePath(fd) {
			continue
		}
		fnObj, _ := info.Defs[fd.Name].(*types.Func)
		idx := 0
		for _, p := range fd.Type.Params.List {
			for _, nm := range p.Names {
				o := info.Defs[nm]
				if isTokenPos(o.Type()) {
					all, any := true, false
					for _, g := range load.AllFuncDecls(pkg) {
						if g.Body == nil {
							continue
						}
						ast.Inspect(g.Body, func(n ast.Node) bool {
							call, ok := n.(*ast.CallExpr)
							if !ok || calleeFunc(info, call) != fnObj || fnObj == nil || len(call.Args) <= idx {
								return true
							}
							any = true
							if !isCursor(call.Args[idx]) {
								all = false
							}
							return true
						})
					}
					posParamOK[o] = all && any
				}
				idx++
			}
		}
	}

	for _, fd := range load.AllFuncDecls(pkg) {
		if fd.Body == nil || !isRestorePath(fd) {
			continue
		}
		fname := load.FuncName(fd)
		generated := fd.Name.Name == "restoreNode" // the generated cases are checked through the schema events
		ast.Inspect(fd.Body, func(n ast.Node) bool {
			switch s := n.(type) {
			case *ast.IncDecStmt:
				if isCursor(s.X) {
					nCursor++
					e.Run.Check("R-CURSOR", fmt.Sprintf("cursor %s in %s", s.Tok, fname), e.Prog.Pos(s.Pos()), s.Tok == token.INC, "the cursor must never move backwards: positions would no longer be monotone")
				}
			case *ast.AssignStmt:
				for i, l := range s.Lhs {
					var rhs ast.Expr
					if len(s.Rhs) == len(s.Lhs) {
						rhs = s.Rhs[i]
					}
					switch {
					case isCursor(l):
						if generated {
							continue
						}
						nCursor++
						ok, why := false, ""
						switch s.Tok {
						case token.ASSIGN:
							ok = fd.Name.Name == "RestoreFile" && rhs != nil && c.ExprStr(rhs) == "token.Pos(r.base)"
							why = "the cursor may only be reset to the file base at the start of RestoreFile"
						case token.ADD_ASSIGN:
							ok = rhs != nil && e.positiveAdvance(info, rhs)
							why = "advance must be token.Pos(len(x)) or a positive constant"
						default:
							why = "operator " + s.Tok.String()
						}
						e.Run.Check("R-CURSOR", fmt.Sprintf("cursor %s %s in %s", s.Tok, exprOr(c, rhs), fname), e.Prog.Pos(s.Pos()), ok, why)
					case e.isRestorerField(info, l, "lines"):
						nLines++
						ok, why := e.linesStore(c, info, fd, s, rhs)
						e.Run.Check("R-CURSOR", fmt.Sprintf("line table store in %s: %s", fname, exprOr(c, rhs)), e.Prog.Pos(s.Pos()), ok, why)
					case e.isRestorerField(info, l, "comments"):
						nComments++
						ok := false
						if rhs != nil {
							r := c.ExprStr(rhs)
							ok = strings.HasPrefix(r, "append(r.comments, ") || (fd.Name.Name == "RestoreFile" && r == "[]*CommentGroup{}")
						}
						e.Run.Check("R-CURSOR", fmt.Sprintf("comment list store in %s: %s", fname, exprOr(c, rhs)), e.Prog.Pos(s.Pos()), ok,
							"the free comment list is append-only (comments stay in position order because the cursor is monotone)")
					case e.isRestorerField(info, l, "cursorAtNewLine"):
						nMarker++
						ok := rhs != nil && (isCursor(rhs) || (fd.Name.Name == "RestoreFile" && c.ExprStr(rhs) == "0"))
						e.Run.Check("R-CURSOR", fmt.Sprintf("fresh-line marker store in %s: %s", fname, exprOr(c, rhs)), e.Prog.Pos(s.Pos()), ok,
							"the marker must be the cursor itself (position directly after a line break)")
					default:
						// position fields of go/ast structs
						if generated || rhs == nil {
							continue
						}
						if tv, ok := info.Types[l]; ok && isTokenPos(tv.Type) {
							if se, ok := l.(*ast.SelectorExpr); ok {
								if p, _ := namedOf(info.TypeOf(se.X)); p == "go/ast" {
									nPos++
									e.Run.Check("R-CURSOR", fmt.Sprintf("position %s in %s", c.ExprStr(l), fname), e.Prog.Pos(s.Pos()), isCursor(rhs) || isNoPos(rhs),
										"every position written into the ast must be the cursor or NoPos; found "+c.ExprStr(rhs))
								}
							}
						}
					}
				}
			case *ast.CompositeLit:
				// &ast.Comment{Slash: X, ...}
				if p, _ := namedOf(info.TypeOf(s)); p != "go/ast" {
					return true
				}
				for _, el := range s.Elts {
					kv, ok := el.(*ast.KeyValueExpr)
					if !ok {
						continue
					}
					if tv, ok := info.Types[kv.Value]; ok && isTokenPos(tv.Type) {
						nPos++
						good := isCursor(kv.Value) || isNoPos(kv.Value)
						if id, ok := kv.Value.(*ast.Ident); ok && posParamOK[info.Uses[id]] {
							good = true
						}
						e.Run.Check("R-CURSOR", fmt.Sprintf("position %s in literal in %s", c.ExprStr(kv.Key), fname), e.Prog.Pos(kv.Pos()), good,
							"a position in an ast literal must be the cursor, NoPos, or a parameter that receives the cursor at every call site; found "+c.ExprStr(kv.Value))
					}
				}
			}
			return true
		})
	}
	// generated cases through the schema
	rs := e.Sib.ByName["restore"]
	cases := append([]*schema.Case{}, e.Sib.RestoreIdent)
	for _, tn := range rs.Order {
		cases = append(cases, rs.Cases[tn])
	}
	for _, cs := range cases {
		if cs == nil {
			continue
		}
		for _, ev := range cs.Events {
			switch ev.Kind {
			case schema.KAdvance:
				nCursor++
				ok := ev.Token != "" || ev.Src != "" || strings.HasSuffix(ev.Expr, ".Length")
				e.Run.Check("R-CURSOR", fmt.Sprintf("restore %s: cursor advance %s%s%s", cs.Type, ev.Token, ev.Src, ev.Expr), e.Prog.Pos(ev.Pos), ok,
					"cursor must advance by len(<token>.String()), len(<string field>) or a bad node's Length; found r.cursor "+ev.Expr)
			case schema.KPosStore:
				nPos++
			}
		}
		_, problems := e.restoreElems(cs, e.decorateValues(cs.Type))
		for _, p := range problems {
			e.Run.Violation("R-CURSOR", fmt.Sprintf("restore %s: %s", cs.Type, p), e.casePos(cs), p)
		}
	}
	e.Run.Analysed("cursor writes", nCursor)
	e.Run.Analysed("position stores", nPos)
	e.Run.Floor("R-CURSOR", "cursor advances", nCursor, 70)
	e.Run.Floor("R-CURSOR", "position stores", nPos, 55)
	e.Run.Floor("R-CURSOR", "line table stores", nLines, 2)
	e.Run.Floor("R-CURSOR", "comment list stores", nComments, 2)
	e.lineBreaksAdvance(c)
	e.RSearchLoops(e.pkgs(load.PkgDecorator))
	if withFileOrder {
		e.restoreFileOrder(c)
	}
	e.fileSizeCovers(c)
}

func exprOr(c *schema.Ctx, x ast.Expr) string {
	if x == nil {
		return "-"
	}
	return c.ExprStr(x)
}

// positiveAdvance: token.Pos(len(x)) or a positive integer constant.
func (e *Env) positiveAdvance(info *types.Info, rhs ast.Expr) bool {
	if tv, ok := info.Types[rhs]; ok && tv.Value != nil {
		return tv.Value.String() != "0" && !strings.HasPrefix(tv.Value.String(), "-")
	}
	if conv, ok := rhs.(*ast.CallExpr); ok && len(conv.Args) == 1 {
		if tv, ok := info.Types[conv.Fun]; ok && tv.IsType() && isTokenPos(tv.Type) {
			if lc, ok := conv.Args[0].(*ast.CallExpr); ok && len(lc.Args) == 1 {
				if id, ok := lc.Fun.(*ast.Ident); ok && id.Name == "len" {
					_, isB := info.Uses[id].(*types.Builtin)
					return isB
				}
			}
		}
	}
	return false
}

// linesStore: r.lines = []int{0} (reset) or append(r.lines, off) with off = int(r.cursor) - r.base
// [+ i], i the index variable of a range over a string, either inline or through a local defined
// by exactly that expression.
func (e *Env) linesStore(c *schema.Ctx, info *types.Info, fd *ast.FuncDecl, s *ast.AssignStmt, rhs ast.Expr) (bool, string) {
	if rhs == nil {
		return false, "multi-assignment"
	}
	r := c.ExprStr(rhs)
	if r == "[]int{0}" {
		return fd.Name.Name == "RestoreFile", "the line table may only be reset in RestoreFile"
	}
	call, ok := rhs.(*ast.CallExpr)
	if !ok || len(call.Args) != 2 || c.ExprStr(call.Fun) != "append" || c.ExprStr(call.Args[0]) != "r.lines" {
		return false, "the line table is append-only: expected append(r.lines, <offset>)"
	}
	// inline single-assignment locals (hoisted sub-expressions) before comparing
	o := e.inlineLocals(c, info, fd, call.Args[1], s.Pos(), 0)
	if o == "int(r.cursor) - r.base" {
		return true, ""
	}
	if strings.HasPrefix(o, "int(r.cursor) - r.base + ") {
		ix := strings.TrimPrefix(o, "int(r.cursor) - r.base + ")
		// must be the key variable of an enclosing range over a string
		okIdx := false
		ast.Inspect(fd.Body, func(n ast.Node) bool {
			rs, ok := n.(*ast.RangeStmt)
			if !ok || rs.Body.Pos() > s.Pos() || s.End() > rs.Body.End() {
				return true
			}
			if kid, ok := rs.Key.(*ast.Ident); ok && kid.Name == ix {
				if b, ok := info.TypeOf(rs.X).Underlying().(*types.Basic); ok && b.Info()&types.IsString != 0 {
					okIdx = true
				}
			}
			return true
		})
		if okIdx {
			return true, ""
		}
		return false, "offset adds " + ix + ", which is not the byte index of an enclosing range over the text"
	}
	// accumulator form: a local that starts at the base-relative cursor and is only ever moved
	// forward (by a positive constant, a length, or the result of a string search)
	if id, ok := call.Args[1].(*ast.Ident); ok {
		if why := e.forwardAccumulator(c, info, fd, info.Uses[id]); why == "" {
			return true, ""
		} else if why != "-" {
			return false, "line offsets are relative to the file base: " + why
		}
	}
	return false, "line offsets are relative to the file base: expected int(r.cursor) - r.base [+ byte index]; found " + o
}

// forwardAccumulator: "" when v is first defined as int(r.cursor) - r.base and every other write
// is v += E, v = v + E or v++ with E a positive constant, len(…) or a local holding the result of a
// strings/bytes search; "-" when v is not of that form at all; otherwise what is wrong.
func (e *Env) forwardAccumulator(c *schema.Ctx, info *types.Info, fd *ast.FuncDecl, v types.Object) string {
	if v == nil {
		return "-"
	}
	type write struct {
		tok token.Token
		rhs ast.Expr
		pos token.Pos
	}
	var ws []write
	ast.Inspect(fd.Body, func(n ast.Node) bool {
		switch s := n.(type) {
		case *ast.AssignStmt:
			for i, l := range s.Lhs {
				id, ok := l.(*ast.Ident)
				if !ok || (info.Defs[id] != v && info.Uses[id] != v) {
					continue
				}
				var rhs ast.Expr
				if len(s.Lhs) == len(s.Rhs) {
					rhs = s.Rhs[i]
				}
				ws = append(ws, write{s.Tok, rhs, s.Pos()})
			}
		case *ast.IncDecStmt:
			if id, ok := s.X.(*ast.Ident); ok && info.Uses[id] == v {
				ws = append(ws, write{s.Tok, nil, s.Pos()})
			}
		}
		return true
	})
	if len(ws) < 2 || ws[0].tok != token.DEFINE || ws[0].rhs == nil {
		return "-"
	}
	if init := c.ExprStr(ws[0].rhs); init != "int(r.cursor) - r.base" {
		return "the running offset starts at `" + init + "`, not at int(r.cursor) - r.base"
	}
	isSearch := func(x ast.Expr) bool {
		id, ok := ast.Unparen(x).(*ast.Ident)
		if !ok {
			return false
		}
		o := info.Uses[id]
		found, other := false, false
		ast.Inspect(fd.Body, func(n ast.Node) bool {
			as, ok := n.(*ast.AssignStmt)
			if !ok || len(as.Lhs) != len(as.Rhs) {
				return true
			}
			for i, l := range as.Lhs {
				lid, ok := l.(*ast.Ident)
				if !ok || (info.Defs[lid] != o && info.Uses[lid] != o) {
					continue
				}
				if cl, ok := as.Rhs[i].(*ast.CallExpr); ok && isStringSearch(calleeFunc(info, cl)) {
					found = true
				} else {
					other = true
				}
			}
			return true
		})
		return found && !other
	}
	forward := func(x ast.Expr) bool {
		x = ast.Unparen(x)
		if tv, ok := info.Types[x]; ok && tv.Value != nil {
			return !strings.HasPrefix(tv.Value.String(), "-") && tv.Value.String() != "0"
		}
		if cl, ok := x.(*ast.CallExpr); ok {
			if id, ok := cl.Fun.(*ast.Ident); ok && id.Name == "len" {
				return true
			}
		}
		return isSearch(x)
	}
	var sum func(x ast.Expr) bool // v + forward terms
	sum = func(x ast.Expr) bool {
		x = ast.Unparen(x)
		if id, ok := x.(*ast.Ident); ok {
			return info.Uses[id] == v
		}
		be, ok := x.(*ast.BinaryExpr)
		if !ok || be.Op != token.ADD {
			return false
		}
		return (sum(be.X) && forward(be.Y)) || (forward(be.X) && sum(be.Y))
	}
	for _, w := range ws[1:] {
		ok := false
		switch w.tok {
		case token.INC:
			ok = true
		case token.ADD_ASSIGN:
			ok = w.rhs != nil && forward(w.rhs)
		case token.ASSIGN:
			ok = w.rhs != nil && sum(w.rhs)
		}
		if !ok {
			return "the running offset is rewritten at " + e.Prog.Pos(w.pos) + " by something other than a forward step"
		}
	}
	return ""
}

func isStringSearch(fn *types.Func) bool {
	if fn == nil || fn.Pkg() == nil {
		return false
	}
	if p := fn.Pkg().Path(); p != "strings" && p != "bytes" {
		return false
	}
	return strings.HasPrefix(fn.Name(), "Index") || strings.HasPrefix(fn.Name(), "LastIndex")
}

// RSearchLoops: a loop driven by a string search goes on for every hit. Wherever the result of
// strings/bytes Index* is compared with a constant in a loop condition (or in the test of a
// break/return directly inside a loop), the comparison separates "found" (>= 0) from "not found"
// (-1); a comparison that treats a hit at index 0 as the end (i > 0, i >= 1, i != 0, i <= 0 …)
// stops the scan early whenever the sought byte is the first one of the remaining text.
func (e *Env) RSearchLoops(pkgs []*packages.Package) {
	n := 0
	for _, pkg := range pkgs {
		info := pkg.TypesInfo
		for _, fd := range load.AllFuncDecls(pkg) {
			if fd.Body == nil {
				continue
			}
			searchVar := func(x ast.Expr) bool {
				id, ok := ast.Unparen(x).(*ast.Ident)
				if !ok {
					return false
				}
				o := info.Uses[id]
				found := false
				ast.Inspect(fd.Body, func(m ast.Node) bool {
					as, ok := m.(*ast.AssignStmt)
					if !ok || len(as.Lhs) != len(as.Rhs) {
						return true
					}
					for i, l := range as.Lhs {
						if lid, ok := l.(*ast.Ident); ok && (info.Defs[lid] == o || info.Uses[lid] == o) {
							if cl, ok := as.Rhs[i].(*ast.CallExpr); ok && isStringSearch(calleeFunc(info, cl)) {
								found = true
							}
						}
					}
					return true
				})
				return found
			}
			check := func(cond ast.Expr, where string) {
				ast.Inspect(cond, func(m ast.Node) bool {
					be, ok := m.(*ast.BinaryExpr)
					if !ok {
						return true
					}
					var cst ast.Expr
					op := be.Op
					switch {
					case searchVar(be.X):
						cst = be.Y
					case searchVar(be.Y):
						cst = be.X
						op = map[token.Token]token.Token{token.LSS: token.GTR, token.GTR: token.LSS, token.LEQ: token.GEQ, token.GEQ: token.LEQ, token.EQL: token.EQL, token.NEQ: token.NEQ}[be.Op]
					default:
						return true
					}
					tv, ok := info.Types[cst]
					if !ok || tv.Value == nil {
						return true
					}
					n++
					k := tv.Value.String()
					good := (k == "0" && (op == token.GEQ || op == token.LSS)) || (k == "-1" && (op == token.EQL || op == token.NEQ || op == token.GTR || op == token.LEQ))
					e.Run.Check("R-SCAN", fmt.Sprintf("%s: %s separates found from not found", load.FuncName(fd), where), e.Prog.Pos(be.Pos()), good,
						"`"+types.ExprString(be)+"` treats a hit at index 0 like no hit: the scan stops early when the sought text is at the very start of what remains (two adjacent newlines, a leading separator)")
					return true
				})
			}
			var loops []ast.Node
			ast.Inspect(fd.Body, func(m ast.Node) bool {
				switch l := m.(type) {
				case *ast.ForStmt:
					loops = append(loops, l)
					if l.Cond != nil {
						check(l.Cond, "search-loop condition")
					}
				case *ast.RangeStmt:
					loops = append(loops, l)
				case *ast.IfStmt:
					if len(loops) == 0 || len(l.Body.List) != 1 {
						return true
					}
					inLoop := false
					for _, lp := range loops {
						if lp.Pos() <= l.Pos() && l.End() <= lp.End() {
							inLoop = true
						}
					}
					if !inLoop {
						return true
					}
					switch b := l.Body.List[0].(type) {
					case *ast.BranchStmt:
						if b.Tok == token.BREAK {
							check(l.Cond, "search-loop exit test")
						}
					case *ast.ReturnStmt:
						check(l.Cond, "search-loop exit test")
					}
				}
				return true
			})
		}
	}
	e.Run.Analysed("search-result comparisons in loops", n)
}

// lineBreaksAdvance: after every non-indexed line-table append the cursor advances (r.cursor++)
// before the block ends, and the fresh-line marker is set right after.
func (e *Env) lineBreaksAdvance(c *schema.Ctx) {
	pkg := e.Prog.Pkg(load.PkgDecorator)
	info := pkg.TypesInfo
	n := 0
	for _, name := range []string{"applySpace", "applyDecorations"} {
		fd := load.FuncDecl(pkg, "FileRestorer", name)
		if fd == nil || fd.Body == nil {
			e.Run.Violation("R-CURSOR", name+" exists", "", "function missing")
			continue
		}
		ast.Inspect(fd.Body, func(nd ast.Node) bool {
			blk, ok := nd.(*ast.BlockStmt)
			if !ok {
				return true
			}
			for i, st := range blk.List {
				as, ok := st.(*ast.AssignStmt)
				if !ok || len(as.Lhs) != 1 || !e.isRestorerField(info, as.Lhs[0], "lines") {
					continue
				}
				// indexed appends (inside a range over the text) are covered by the caller's len() advance
				if id, ok := as.Rhs[0].(*ast.CallExpr).Args[1].(*ast.Ident); ok {
					_ = id
				}
				inIndexed := false
				ast.Inspect(fd.Body, func(x ast.Node) bool {
					if rs, ok := x.(*ast.RangeStmt); ok && rs.Body.Pos() <= as.Pos() && as.End() <= rs.Body.End() {
						if b, ok := info.TypeOf(rs.X).Underlying().(*types.Basic); ok && b.Info()&types.IsString != 0 {
							inIndexed = true
						}
					}
					return true
				})
				if inIndexed {
					continue
				}
				n++
				rest := blk.List[i+1:]
				adv := len(rest) >= 1 && stmtNorm(c, rest[0]) == "r.cursor++"
				mark := len(rest) >= 2 && stmtNorm(c, rest[1]) == "r.cursorAtNewLine = r.cursor"
				e.Run.Check("R-CURSOR", fmt.Sprintf("%s: line break advances the cursor and sets the fresh-line marker", name), e.Prog.Pos(as.Pos()), adv && mark,
					"after recording a line start the cursor must step over the newline byte (r.cursor++) and the marker must be set to the new cursor; otherwise two line starts can coincide (SetLines fails) or the next spacing is miscounted")
			}
			return true
		})
	}
	e.Run.Floor("R-CURSOR", "line-break sites", n, 1)
}

// restoreFileOrder: base before cursor; AddFile after the root restore with fileSize(); SetLines
// checked; nothing assigns positions after the file is registered.
func (e *Env) restoreFileOrder(c *schema.Ctx) {
	pkg := e.Prog.Pkg(load.PkgDecorator)
	fd := load.FuncDecl(pkg, "FileRestorer", "RestoreFile")
	if fd == nil || fd.Body == nil {
		e.Run.Violation("R-CURSOR", "RestoreFile exists", "", "function missing")
		return
	}
	idx := func(pred func(string, ast.Stmt) bool) int {
		for i, st := range fd.Body.List {
			if pred(stmtNorm(c, st), st) {
				return i
			}
		}
		return -1
	}
	iBase := idx(func(s string, _ ast.Stmt) bool { return s == "r.base = r.Fset.Base()" })
	iCur := idx(func(s string, _ ast.Stmt) bool { return s == "r.cursor = token.Pos(r.base)" })
	iRoot := idx(func(s string, _ ast.Stmt) bool { return strings.Contains(s, "r.restoreNode(r.file,") })
	iAdd := idx(func(s string, _ ast.Stmt) bool { return strings.Contains(s, "r.Fset.AddFile(") })
	iSet := idx(func(s string, st ast.Stmt) bool {
		is, ok := st.(*ast.IfStmt)
		return ok && strings.Contains(c.ExprStr(is.Cond), ".SetLines(r.lines)") && strings.HasPrefix(c.ExprStr(is.Cond), "!") && c.PanicsOnly(is.Body.List)
	})
	iImp := idx(func(s string, _ ast.Stmt) bool { return strings.Contains(s, "r.updateImports()") })
	pos := e.Prog.Pos(fd.Pos())
	e.Run.Check("R-CURSOR", "RestoreFile: base taken from the file set before the cursor starts", pos, iBase >= 0 && iCur > iBase, "expected r.base = r.Fset.Base() followed by r.cursor = token.Pos(r.base)")
	e.Run.Check("R-CURSOR", "RestoreFile: imports updated before any position is assigned", pos, iImp > iCur && iRoot > iImp, "updateImports must run after the reset and before the root restore")
	addOK := false
	if iAdd >= 0 {
		addOK = strings.Contains(stmtNorm(c, fd.Body.List[iAdd]), "r.Fset.AddFile(r.Name, r.base, r.fileSize())")
	}
	e.Run.Check("R-CURSOR", "RestoreFile: file registered at its base with the computed size, after the tree is restored", pos, addOK && iAdd > iRoot && iRoot >= 0,
		"expected ff := r.Fset.AddFile(r.Name, r.base, r.fileSize()) after the root restoreNode (the size must cover every position assigned)")
	e.Run.Check("R-CURSOR", "RestoreFile: SetLines failure is not ignored", pos, iSet > iAdd && iAdd >= 0, "expected `if !ff.SetLines(r.lines) { panic(...) }` after AddFile")
	// after AddFile: no call that assigns positions
	if iAdd >= 0 {
		for _, st := range fd.Body.List[iAdd+1:] {
			ast.Inspect(st, func(n ast.Node) bool {
				call, ok := n.(*ast.CallExpr)
				if !ok {
					return true
				}
				fn := calleeFunc(pkg.TypesInfo, call)
				if fn == nil || fn.Pkg() == nil || fn.Pkg().Path() != load.PkgDecorator {
					return true
				}
				switch fn.Name() {
				case "restoreNode", "applySpace", "applyDecorations", "applyLiteral", "restoreIdent":
					e.Run.Violation("R-CURSOR", "RestoreFile: "+fn.Name()+" after the file is registered", e.Prog.Pos(call.Pos()),
						"positions assigned after AddFile lie outside the registered file (its size was computed before) and, when ranging over a map, depend on iteration order")
				}
				return true
			})
		}
	}
}

// fileSizeCovers: fileSize starts from the cursor and only grows.
func (e *Env) fileSizeCovers(c *schema.Ctx) {
	pkg := e.Prog.Pkg(load.PkgDecorator)
	fd := load.FuncDecl(pkg, "FileRestorer", "fileSize")
	if fd == nil || fd.Body == nil {
		e.Run.Violation("R-CURSOR", "fileSize exists", "", "function missing")
		return
	}
	pos := e.Prog.Pos(fd.Pos())
	okInit, okRet, okGrow := false, false, true
	for _, st := range fd.Body.List {
		s := stmtNorm(c, st)
		if s == "end := int(r.cursor)" {
			okInit = true
		}
		if s == "return end - r.base" {
			okRet = true
		}
	}
	ast.Inspect(fd.Body, func(n ast.Node) bool {
		as, ok := n.(*ast.AssignStmt)
		if !ok || as.Tok != token.ASSIGN || len(as.Lhs) != 1 || c.ExprStr(as.Lhs[0]) != "end" {
			return true
		}
		// must sit under `if X >= end` and assign X + 1
		r := c.ExprStr(as.Rhs[0])
		if !strings.HasSuffix(r, " + 1") {
			okGrow = false
			return true
		}
		x := strings.TrimSuffix(r, " + 1")
		guarded := false
		ast.Inspect(fd.Body, func(m ast.Node) bool {
			if is, ok := m.(*ast.IfStmt); ok && is.Body.Pos() <= as.Pos() && as.End() <= is.Body.End() && c.ExprStr(is.Cond) == x+" >= end" {
				guarded = true
			}
			return true
		})
		if !guarded {
			okGrow = false
		}
		return true
	})
	e.Run.Check("R-CURSOR", "fileSize covers the cursor and only grows", pos, okInit && okRet && okGrow,
		"expected end := int(r.cursor); end only raised to X+1 under X >= end; return end - r.base — so the registered size is ≥ every position assigned")
}

// ---------------------------------------------------------------------------------------------
// R-ASTORDER: positions and children are written in the declaration order of the go/ast struct
// (go/ast declares fields in source order), so relative order matches a real parse.

var astOrderFrozen = map[string]string{
	"FuncDecl Type.Func<Recv": "the func keyword's position lives in the signature (FuncDecl.Type.Func) but is written first",
}

func (e *Env) RAstOrder() {
	rs := e.Sib.ByName["restore"]
	n := 0
	for _, tn := range e.dstNodeNames() {
		cs := rs.Cases[tn]
		ant := e.astTypes[tn]
		if cs == nil || ant == nil {
			continue
		}
		// flattened declaration order
		rank := map[string]int{}
		k := 0
		var flat func(prefix string, t *NodeType, depth int)
		flat = func(prefix string, t *NodeType, depth int) {
			for _, f := range t.Fields {
				rank[prefix+f.Name] = k
				k++
				if f.Kind == FNode && f.Ptr && depth == 0 {
					// inline children (FuncDecl.Type)
					for _, ev := range cs.Events {
						if ev.Kind == schema.KInit && ev.Field == prefix+f.Name {
							flat(prefix+f.Name+".", e.astTypes[f.Elem], depth+1)
						}
					}
				}
			}
		}
		flat("", ant, 0)
		type w struct {
			field string
			pos   token.Pos
		}
		var seq []w
		for _, ev := range cs.Events {
			switch ev.Kind {
			case schema.KPosStore:
				if ev.Expr == "cursor" {
					seq = append(seq, w{ev.Field, ev.Pos})
				}
			case schema.KChild, schema.KList:
				seq = append(seq, w{ev.Field, ev.Pos})
			}
		}
		for i := 1; i < len(seq); i++ {
			a, b := seq[i-1], seq[i]
			ra, oka := rank[a.field]
			rb, okb := rank[b.field]
			if !oka || !okb || a.field == b.field {
				continue
			}
			n++
			key := fmt.Sprintf("%s %s<%s", tn, a.field, b.field)
			if ra > rb {
				if why, frozen := astOrderFrozen[key]; frozen {
					e.Run.OK("R-ASTORDER", "restore "+key+" in go/ast declaration order", e.Prog.Pos(b.pos), "frozen exception: "+why)
					continue
				}
			}
			e.Run.Check("R-ASTORDER", "restore "+key+" in go/ast declaration order", e.Prog.Pos(b.pos), ra < rb,
				fmt.Sprintf("restore case %s writes out.%s before out.%s, but go/ast.%s declares %s first (source order): restored positions of the two are in the opposite order of a real parse", tn, a.field, b.field, tn, b.field))
		}
	}
	e.Run.Analysed("adjacent position/child pairs", n)
	e.Run.Floor("R-ASTORDER", "ordered pairs", n, 100)
}

// inlineLocals renders x with every local that is defined exactly once (:=, never reassigned,
// before `before`) replaced by its defining expression, recursively.
func (e *Env) inlineLocals(c *schema.Ctx, info *types.Info, fd *ast.FuncDecl, x ast.Expr, before token.Pos, depth int) string {
	if depth > 4 {
		return c.ExprStr(x)
	}
	defs := map[types.Object]ast.Expr{}
	writes := map[types.Object]int{}
	ast.Inspect(fd.Body, func(n ast.Node) bool {
		switch s := n.(type) {
		case *ast.AssignStmt:
			for i, l := range s.Lhs {
				id, ok := l.(*ast.Ident)
				if !ok {
					continue
				}
				obj := info.Defs[id]
				if obj == nil {
					obj = info.Uses[id]
				}
				if obj == nil {
					continue
				}
				writes[obj]++
				if s.Tok == token.DEFINE && len(s.Lhs) == len(s.Rhs) && s.Pos() < before {
					defs[obj] = s.Rhs[i]
				}
			}
		case *ast.IncDecStmt:
			if id, ok := s.X.(*ast.Ident); ok {
				writes[info.Uses[id]]++
			}
		case *ast.RangeStmt:
			for _, kv := range []ast.Expr{s.Key, s.Value} {
				if id, ok := kv.(*ast.Ident); ok {
					writes[info.Defs[id]] += 2 // loop variables are never inlined
				}
			}
		}
		return true
	})
	out := c.ExprStr(x)
	ast.Inspect(x, func(n ast.Node) bool {
		id, ok := n.(*ast.Ident)
		if !ok {
			return true
		}
		obj := info.Uses[id]
		if def, ok := defs[obj]; ok && writes[obj] == 1 {
			rep := e.inlineLocals(c, info, fd, def, before, depth+1)
			out = replaceIdent(out, id.Name, rep)
		}
		return true
	})
	return out
}

func replaceIdent(s, name, rep string) string {
	var b strings.Builder
	i := 0
	isIdentChar := func(r byte) bool {
		return r == '_' || r == '.' || (r >= '0' && r <= '9') || (r >= 'a' && r <= 'z') || (r >= 'A' && r <= 'Z')
	}
	for i < len(s) {
		if strings.HasPrefix(s[i:], name) && (i == 0 || !isIdentChar(s[i-1])) && (i+len(name) == len(s) || !isIdentChar(s[i+len(name)]) || s[i+len(name)] == '.') && (i+len(name) >= len(s) || s[i+len(name)] != '.') {
			b.WriteString(rep)
			i += len(name)
			continue
		}
		b.WriteByte(s[i])
		i++
	}
	return b.String()
}
