package rules

import (
	"fmt"
	"go/ast"
	"go/constant"
	"go/parser"
	"go/token"
	"go/types"
	"golang.org/x/tools/go/packages"
	"reflect"
	"strings"

	"dstverif/load"
	"dstverif/schema"
)

// R-CURSOR: the restorer's synthetic position space.

func (e *Env) isRestorerField(info *types.Info, x ast.Expr, field string) bool {
	se, ok := x.(*ast.SelectorExpr)
	if !ok || se.Sel.Name != field {
		return false
	}
	v, ok := info.Uses[se.Sel].(*types.Var)
	if !ok || !v.IsField() {
		return false
	}
	_, n := namedOf(info.TypeOf(se.X))
	return n == "FileRestorer"
}

func isTokenPos(t types.Type) bool {
	p, n := namedOf(t)
	_, isPtr := types.Unalias(t).(*types.Pointer)
	return p == "go/token" && n == "Pos" && !isPtr
}

func (e *Env) RCursor(withFileOrder bool) {
	pkg := e.Prog.Pkg(load.PkgDecorator)
	info := pkg.TypesInfo
	c := e.Sib.Ctx[load.PkgDecorator]
	nCursor, nPos, nLines, nComments, nMarker := 0, 0, 0, 0, 0

	isCursor := func(x ast.Expr) bool { return e.isRestorerField(info, x, "cursor") }
	isNoPos := func(x ast.Expr) bool {
		if se, ok := x.(*ast.SelectorExpr); ok {
			if cst, ok := info.Uses[se.Sel].(*types.Const); ok && cst.Pkg() != nil && cst.Pkg().Path() == "go/token" && cst.Name() == "NoPos" {
				return true
			}
		}
		return false
	}
	// token.Pos parameters that receive the cursor at every call site
	posParamOK := map[types.Object]bool{}
	for _, fd := range load.AllFuncDecls(pkg) {
		if fd.Body == nil || !isRestorePath(fd) {
			continue
		}
		fnObj, _ := info.Defs[fd.Name].(*types.Func)
		idx := 0
		for _, p := range fd.Type.Params.List {
			for _, nm := range p.Names {
				o := info.Defs[nm]
				if isTokenPos(o.Type()) {
					all, any := true, false
					for _, g := range load.AllFuncDecls(pkg) {
						if g.Body == nil {
							continue
						}
						ast.Inspect(g.Body, func(n ast.Node) bool {
							call, ok := n.(*ast.CallExpr)
							if !ok || calleeFunc(info, call) != fnObj || fnObj == nil || len(call.Args) <= idx {
								return true
							}
							any = true
							if !isCursor(call.Args[idx]) {
								all = false
							}
							return true
						})
					}
					posParamOK[o] = all && any
				}
				idx++
			}
		}
	}

	for _, fd := range load.AllFuncDecls(pkg) {
		if fd.Body == nil || !isRestorePath(fd) {
			continue
		}
		fname := load.FuncName(fd)
		generated := fd.Name.Name == "restoreNode" // the generated cases are checked through the schema events
		// statements of line-break blocks are decided by their effect (lineBreaksAdvance)
		var lbStmts []ast.Stmt
		if fd.Name.Name == "applySpace" || fd.Name.Name == "applyDecorations" {
			for _, blk := range e.lineBreakBlocks(info, fd) {
				lbStmts = append(lbStmts, blk...)
			}
		}
		inLB := func(n ast.Node) bool {
			for _, st := range lbStmts {
				if st.Pos() <= n.Pos() && n.End() <= st.End() {
					if _, nested := st.(*ast.AssignStmt); nested {
						return true
					}
					if _, nested := st.(*ast.IncDecStmt); nested {
						return true
					}
				}
			}
			return false
		}
		curAlias, linesAlias := e.stateAliases(info, fd)
		isAliasOf := func(x ast.Expr, o types.Object) bool {
			id, ok := ast.Unparen(x).(*ast.Ident)
			return ok && o != nil && info.Uses[id] == o
		}
		ast.Inspect(fd.Body, func(n ast.Node) bool {
			// write-back of a local copy of the cursor / line table (its changes are decided as
			// line-break effects on the copy)
			if as, ok := n.(*ast.AssignStmt); ok && len(as.Lhs) == 1 && len(as.Rhs) == 1 && as.Tok == token.ASSIGN {
				if (isCursor(as.Lhs[0]) && isAliasOf(as.Rhs[0], curAlias)) ||
					(e.isRestorerField(info, as.Lhs[0], "lines") && isAliasOf(as.Rhs[0], linesAlias)) ||
					(e.isRestorerField(info, as.Lhs[0], "cursorAtNewLine") && isAliasOf(as.Rhs[0], curAlias)) {
					nCursor++
					nLines++
					nMarker++
					return false
				}
			}
			if st, ok := n.(ast.Stmt); ok && inLB(st) {
				switch st.(type) {
				case *ast.AssignStmt, *ast.IncDecStmt:
					nCursor++
					nLines++
					nMarker++
					return false
				}
			}
			switch s := n.(type) {
			case *ast.IncDecStmt:
				if isCursor(s.X) {
					nCursor++
					e.Run.Check("R-CURSOR", fmt.Sprintf("cursor %s in %s", s.Tok, fname), e.Prog.Pos(s.Pos()), s.Tok == token.INC, "the cursor must never move backwards: positions would no longer be monotone")
				}
			case *ast.AssignStmt:
				for i, l := range s.Lhs {
					var rhs ast.Expr
					if len(s.Rhs) == len(s.Lhs) {
						rhs = s.Rhs[i]
					}
					switch {
					case isCursor(l):
						if generated {
							continue
						}
						nCursor++
						ok, why := false, ""
						switch s.Tok {
						case token.ASSIGN:
							ok = e.isResetCtx(fd) && rhs != nil && strings.HasPrefix(c.ExprStr(rhs), "token.Pos(") // (that it is the file base is decided by restoreFileOrder)
							why = "the cursor may only be reset to the file base at the start of RestoreFile"
						case token.ADD_ASSIGN:
							ok = rhs != nil && e.positiveAdvance(info, rhs)
							why = "advance must be token.Pos(len(x)) or a positive constant"
						default:
							why = "operator " + s.Tok.String()
						}
						e.Run.Check("R-CURSOR", fmt.Sprintf("cursor %s %s in %s", s.Tok, exprOr(c, rhs), fname), e.Prog.Pos(s.Pos()), ok, why)
					case e.isRestorerField(info, l, "lines"):
						nLines++
						ok, why := e.linesStore(c, info, fd, s, rhs)
						e.Run.Check("R-CURSOR", fmt.Sprintf("line table store in %s: %s", fname, exprOr(c, rhs)), e.Prog.Pos(s.Pos()), ok, why)
					case e.isRestorerField(info, l, "comments"):
						nComments++
						ok := false
						why := "the free comment list is append-only (comments stay in position order because the cursor is monotone)"
						if rhs != nil {
							r := c.ExprStr(rhs)
							ok = strings.HasPrefix(r, "append(r.comments, ")
							if !ok && e.isResetCtx(fd) {
								switch form, first := e.resetForm(c, info, rhs, "comments"); {
								case form == "fresh" && first == "":
									ok = true
								case form == "truncate" && first == "":
									if at, esc := e.bufferEscapes("comments"); esc {
										why = "the comment buffer is cut to length 0 and refilled for the next file, but the same array was handed out at " + at + ": the comments of the file restored before are overwritten"
									} else {
										ok = true
									}
								}
							}
						}
						e.Run.Check("R-CURSOR", fmt.Sprintf("comment list store in %s: %s", fname, exprOr(c, rhs)), e.Prog.Pos(s.Pos()), ok, why)
					case e.isRestorerField(info, l, "cursorAtNewLine"):
						nMarker++
						zero := false // 0, token.NoPos, token.Pos(0)
						if rhs != nil {
							if tv, okv := info.Types[rhs]; okv && tv.Value != nil && tv.Value.String() == "0" {
								zero = true
							}
						}
						ok := rhs != nil && (isCursor(rhs) || (e.isResetCtx(fd) && zero))
						e.Run.Check("R-CURSOR", fmt.Sprintf("fresh-line marker store in %s: %s", fname, exprOr(c, rhs)), e.Prog.Pos(s.Pos()), ok,
							"the marker must be the cursor itself (position directly after a line break)")
					default:
						// position fields of go/ast structs
						if generated || rhs == nil {
							continue
						}
						if tv, ok := info.Types[l]; ok && isTokenPos(tv.Type) {
							if se, ok := l.(*ast.SelectorExpr); ok {
								if p, _ := namedOf(info.TypeOf(se.X)); p == "go/ast" {
									nPos++
									e.Run.Check("R-CURSOR", fmt.Sprintf("position %s in %s", c.ExprStr(l), fname), e.Prog.Pos(s.Pos()), isCursor(rhs) || isNoPos(rhs),
										"every position written into the ast must be the cursor or NoPos; found "+c.ExprStr(rhs))
								}
							}
						}
					}
				}
			case *ast.CompositeLit:
				// &ast.Comment{Slash: X, ...}
				if p, _ := namedOf(info.TypeOf(s)); p != "go/ast" {
					return true
				}
				for _, el := range s.Elts {
					kv, ok := el.(*ast.KeyValueExpr)
					if !ok {
						continue
					}
					if tv, ok := info.Types[kv.Value]; ok && isTokenPos(tv.Type) {
						nPos++
						good := isCursor(kv.Value) || isNoPos(kv.Value)
						if id, ok := kv.Value.(*ast.Ident); ok && posParamOK[info.Uses[id]] {
							good = true
						}
						e.Run.Check("R-CURSOR", fmt.Sprintf("position %s in literal in %s", c.ExprStr(kv.Key), fname), e.Prog.Pos(kv.Pos()), good,
							"a position in an ast literal must be the cursor, NoPos, or a parameter that receives the cursor at every call site; found "+c.ExprStr(kv.Value))
					}
				}
			}
			return true
		})
	}
	// generated cases through the schema
	rs := e.Sib.ByName["restore"]
	cases := append([]*schema.Case{}, e.Sib.RestoreIdent)
	for _, tn := range rs.Order {
		cases = append(cases, rs.Cases[tn])
	}
	for _, cs := range cases {
		if cs == nil {
			continue
		}
		for _, ev := range cs.Events {
			switch ev.Kind {
			case schema.KAdvance:
				nCursor++
				ok := ev.Token != "" || ev.Src != "" || strings.HasSuffix(ev.Expr, ".Length")
				e.Run.Check("R-CURSOR", fmt.Sprintf("restore %s: cursor advance %s%s%s", cs.Type, ev.Token, ev.Src, ev.Expr), e.Prog.Pos(ev.Pos), ok,
					"cursor must advance by len(<token>.String()), len(<string field>) or a bad node's Length; found r.cursor "+ev.Expr)
			case schema.KPosStore:
				nPos++
			}
		}
		_, problems := e.restoreElems(cs, e.decorateValues(cs.Type))
		for _, p := range problems {
			e.Run.Violation("R-CURSOR", fmt.Sprintf("restore %s: %s", cs.Type, p), e.casePos(cs), p)
		}
	}
	e.Run.Analysed("cursor writes", nCursor)
	e.Run.Analysed("position stores", nPos)
	e.Run.Floor("R-CURSOR", "cursor advances", nCursor, 70)
	e.Run.Floor("R-CURSOR", "position stores", nPos, 55)
	e.Run.Floor("R-CURSOR", "line table stores", nLines, 2)
	e.Run.Floor("R-CURSOR", "comment list stores", nComments, 2)
	e.lineBreaksAdvance(c)
	e.RInnerLineStarts()
	e.RRawLiteralMark()
	e.RSearchLoops(e.pkgs(load.PkgDecorator))
	if withFileOrder {
		e.restoreFileOrder(c)
	}
	e.fileSizeCovers(c)
}

func exprOr(c *schema.Ctx, x ast.Expr) string {
	if x == nil {
		return "-"
	}
	return c.ExprStr(x)
}

// positiveAdvance: token.Pos(len(x)) or a positive integer constant.
func (e *Env) positiveAdvance(info *types.Info, rhs ast.Expr) bool {
	if tv, ok := info.Types[rhs]; ok && tv.Value != nil {
		return tv.Value.String() != "0" && !strings.HasPrefix(tv.Value.String(), "-")
	}
	if conv, ok := rhs.(*ast.CallExpr); ok && len(conv.Args) == 1 {
		if tv, ok := info.Types[conv.Fun]; ok && tv.IsType() && isTokenPos(tv.Type) {
			if lc, ok := conv.Args[0].(*ast.CallExpr); ok && len(lc.Args) == 1 {
				if id, ok := lc.Fun.(*ast.Ident); ok && id.Name == "len" {
					_, isB := info.Uses[id].(*types.Builtin)
					return isB
				}
			}
		}
	}
	return false
}

// linesStore: r.lines = []int{0} (reset) or append(r.lines, off) with off = int(r.cursor) - r.base
// [+ i], i the index variable of a range over a string, either inline or through a local defined
// by exactly that expression.
func (e *Env) linesStore(c *schema.Ctx, info *types.Info, fd *ast.FuncDecl, s *ast.AssignStmt, rhs ast.Expr) (bool, string) {
	if rhs == nil {
		return false, "multi-assignment"
	}
	if form, first := e.resetForm(c, info, rhs, "lines"); form != "" && first == "0" {
		if !e.isResetCtx(fd) {
			return false, "the line table may only be reset in RestoreFile"
		}
		if form == "truncate" {
			if at, esc := e.bufferEscapes("lines"); esc {
				return false, "the line table is cut to length 0 and refilled for the next file, but the same array was handed out at " + at + " (token.File.SetLines keeps the slice it is given): the line table of the file restored before is overwritten"
			}
		}
		return true, ""
	}
	// the drop of a repeated first entry: r.lines = r.lines[1:] where r.lines[1] == r.lines[0]
	if sl, ok := ast.Unparen(rhs).(*ast.SliceExpr); ok && e.isRestorerField(info, sl.X, "lines") && sl.High == nil && sl.Low != nil && c.ExprStr(sl.Low) == "1" {
		cond, okc := pathCond(c, fd.Body.List, s)
		same, dec := unsatWith(orTrue(cond), "r.lines[0] != r.lines[1]")
		if okc && dec && same {
			return true, ""
		}
		return false, "the first line start is dropped under `" + cond + "`, which does not say that it is repeated by the second (r.lines[1] == r.lines[0])"
	}
	call, ok := rhs.(*ast.CallExpr)
	if !ok || len(call.Args) != 2 || c.ExprStr(call.Fun) != "append" || c.ExprStr(call.Args[0]) != "r.lines" {
		return false, "the line table is append-only: expected append(r.lines, <offset>)"
	}
	if why, ok := e.offsetSum(c, info, fd, call.Args[1]); ok {
		if why == "" {
			return true, ""
		}
		return false, "line offsets are relative to the file base: " + why
	}
	// inline single-assignment locals (hoisted sub-expressions) before comparing
	o := e.inlineLocals(c, info, fd, call.Args[1], s.Pos(), 0)
	if o == "int(r.cursor) - r.base" {
		return true, ""
	}
	if strings.HasPrefix(o, "int(r.cursor) - r.base + ") {
		ix := strings.TrimPrefix(o, "int(r.cursor) - r.base + ")
		// must be the key variable of an enclosing range over a string
		okIdx := false
		ast.Inspect(fd.Body, func(n ast.Node) bool {
			rs, ok := n.(*ast.RangeStmt)
			if !ok || rs.Body.Pos() > s.Pos() || s.End() > rs.Body.End() {
				return true
			}
			if kid, ok := rs.Key.(*ast.Ident); ok && kid.Name == ix {
				if b, ok := info.TypeOf(rs.X).Underlying().(*types.Basic); ok && b.Info()&types.IsString != 0 {
					okIdx = true
				}
			}
			return true
		})
		if okIdx {
			return true, ""
		}
		return false, "offset adds " + ix + ", which is not the byte index of an enclosing range over the text"
	}
	// sum form: the offset, with locals replaced by their definitions, is
	// int(r.cursor) - r.base plus forward terms (the byte index of a range over the text, a
	// string-search result, a running count of bytes already searched, a length, a constant >= 0)
	// accumulator form: a local that starts at the base-relative cursor and is only ever moved
	// forward (by a positive constant, a length, or the result of a string search)
	if id, ok := call.Args[1].(*ast.Ident); ok {
		if why := e.forwardAccumulator(c, info, fd, info.Uses[id]); why == "" {
			return true, ""
		} else if why != "-" {
			return false, "line offsets are relative to the file base: " + why
		}
	}
	// … or that accumulator plus the result of a string search in the rest of the text
	if be, ok := ast.Unparen(call.Args[1]).(*ast.BinaryExpr); ok && be.Op == token.ADD {
		for _, pr := range [][2]ast.Expr{{be.X, be.Y}, {be.Y, be.X}} {
			acc, ok1 := ast.Unparen(pr[0]).(*ast.Ident)
			hit, ok2 := ast.Unparen(pr[1]).(*ast.Ident)
			if !ok1 || !ok2 {
				continue
			}
			why := e.forwardAccumulator(c, info, fd, info.Uses[acc])
			if why == "-" {
				continue
			}
			if why != "" {
				return false, "line offsets are relative to the file base: " + why
			}
			// the other term holds nothing but string-search results
			isHit, other := false, false
			ho := info.Uses[hit]
			ast.Inspect(fd.Body, func(n ast.Node) bool {
				as, ok := n.(*ast.AssignStmt)
				if !ok || len(as.Lhs) != len(as.Rhs) {
					return true
				}
				for i, l := range as.Lhs {
					if lid, ok := l.(*ast.Ident); ok && (info.Defs[lid] == ho || info.Uses[lid] == ho) {
						if cl, ok := as.Rhs[i].(*ast.CallExpr); ok && isStringSearch(calleeFunc(info, cl)) {
							isHit = true
						} else {
							other = true
						}
					}
				}
				return true
			})
			if isHit && !other {
				return true, ""
			}
		}
	}
	return false, "line offsets are relative to the file base: expected int(r.cursor) - r.base [+ byte index]; found " + o
}

// forwardAccumulator: "" when v is first defined as int(r.cursor) - r.base and every other write
// is v += E, v = v + E or v++ with E a positive constant, len(…) or a local holding the result of a
// strings/bytes search; "-" when v is not of that form at all; otherwise what is wrong.
func (e *Env) forwardAccumulator(c *schema.Ctx, info *types.Info, fd *ast.FuncDecl, v types.Object) string {
	if v == nil {
		return "-"
	}
	type write struct {
		tok token.Token
		rhs ast.Expr
		pos token.Pos
	}
	var ws []write
	ast.Inspect(fd.Body, func(n ast.Node) bool {
		switch s := n.(type) {
		case *ast.AssignStmt:
			for i, l := range s.Lhs {
				id, ok := l.(*ast.Ident)
				if !ok || (info.Defs[id] != v && info.Uses[id] != v) {
					continue
				}
				var rhs ast.Expr
				if len(s.Lhs) == len(s.Rhs) {
					rhs = s.Rhs[i]
				}
				ws = append(ws, write{s.Tok, rhs, s.Pos()})
			}
		case *ast.IncDecStmt:
			if id, ok := s.X.(*ast.Ident); ok && info.Uses[id] == v {
				ws = append(ws, write{s.Tok, nil, s.Pos()})
			}
		}
		return true
	})
	if len(ws) < 2 || ws[0].tok != token.DEFINE || ws[0].rhs == nil {
		return "-"
	}
	if init := c.ExprStr(ws[0].rhs); init != "int(r.cursor) - r.base" {
		return "the running offset starts at `" + init + "`, not at int(r.cursor) - r.base"
	}
	isSearch := func(x ast.Expr) bool {
		id, ok := ast.Unparen(x).(*ast.Ident)
		if !ok {
			return false
		}
		o := info.Uses[id]
		found, other := false, false
		ast.Inspect(fd.Body, func(n ast.Node) bool {
			as, ok := n.(*ast.AssignStmt)
			if !ok || len(as.Lhs) != len(as.Rhs) {
				return true
			}
			for i, l := range as.Lhs {
				lid, ok := l.(*ast.Ident)
				if !ok || (info.Defs[lid] != o && info.Uses[lid] != o) {
					continue
				}
				if cl, ok := as.Rhs[i].(*ast.CallExpr); ok && isStringSearch(calleeFunc(info, cl)) {
					found = true
				} else {
					other = true
				}
			}
			return true
		})
		return found && !other
	}
	var forward func(x ast.Expr) bool
	forward = func(x ast.Expr) bool {
		x = ast.Unparen(x)
		if tv, ok := info.Types[x]; ok && tv.Value != nil {
			return !strings.HasPrefix(tv.Value.String(), "-") && tv.Value.String() != "0"
		}
		if cl, ok := x.(*ast.CallExpr); ok {
			if id, ok := cl.Fun.(*ast.Ident); ok && id.Name == "len" {
				return true
			}
		}
		// a sum of forward terms (a search result plus the byte it found)
		if be, ok := x.(*ast.BinaryExpr); ok && be.Op == token.ADD {
			return forward(be.X) && forward(be.Y)
		}
		return isSearch(x)
	}
	var sum func(x ast.Expr) bool // v + forward terms
	sum = func(x ast.Expr) bool {
		x = ast.Unparen(x)
		if id, ok := x.(*ast.Ident); ok {
			return info.Uses[id] == v
		}
		be, ok := x.(*ast.BinaryExpr)
		if !ok || be.Op != token.ADD {
			return false
		}
		return (sum(be.X) && forward(be.Y)) || (forward(be.X) && sum(be.Y))
	}
	for _, w := range ws[1:] {
		ok := false
		switch w.tok {
		case token.INC:
			ok = true
		case token.ADD_ASSIGN:
			ok = w.rhs != nil && forward(w.rhs)
		case token.ASSIGN:
			ok = w.rhs != nil && sum(w.rhs)
		}
		if !ok {
			return "the running offset is rewritten at " + e.Prog.Pos(w.pos) + " by something other than a forward step"
		}
	}
	// when the searched text is cut at each hit (text = text[K:]), the running offset moves by the
	// same K in that iteration: otherwise every later hit is recorded K - step bytes off
	var mismatch string
	ast.Inspect(fd.Body, func(n ast.Node) bool {
		body := loopBody(n)
		if body == nil {
			return true
		}
		var cut, step ast.Expr
		for _, st := range body.List {
			as, ok := st.(*ast.AssignStmt)
			if !ok || len(as.Lhs) != 1 || len(as.Rhs) != 1 {
				continue
			}
			if id, ok := as.Lhs[0].(*ast.Ident); ok {
				if sl, ok := ast.Unparen(as.Rhs[0]).(*ast.SliceExpr); ok && as.Tok == token.ASSIGN && sl.High == nil && sl.Low != nil {
					if xid, ok := ast.Unparen(sl.X).(*ast.Ident); ok && info.Uses[xid] == info.Uses[id] {
						if b, ok := info.TypeOf(id).Underlying().(*types.Basic); ok && b.Info()&types.IsString != 0 {
							cut = sl.Low
						}
					}
				}
				if info.Uses[id] == v && as.Tok == token.ADD_ASSIGN {
					step = as.Rhs[0]
				}
			}
		}
		if cut != nil && step != nil && types.ExprString(ast.Unparen(cut)) != types.ExprString(ast.Unparen(step)) {
			mismatch = "the text is cut by `" + types.ExprString(cut) + "` at each line break but the running offset moves by `" + types.ExprString(step) + "` (" + e.Prog.Pos(step.Pos()) + "): every later line start is recorded off by the difference"
		}
		return true
	})
	return mismatch
}

func isStringSearch(fn *types.Func) bool {
	if fn == nil || fn.Pkg() == nil {
		return false
	}
	if p := fn.Pkg().Path(); p != "strings" && p != "bytes" {
		return false
	}
	return strings.HasPrefix(fn.Name(), "Index") || strings.HasPrefix(fn.Name(), "LastIndex")
}

// RSearchLoops: a loop driven by a string search goes on for every hit. Wherever the result of
// strings/bytes Index* is compared with a constant in a loop condition (or in the test of a
// break/return directly inside a loop), the comparison separates "found" (>= 0) from "not found"
// (-1); a comparison that treats a hit at index 0 as the end (i > 0, i >= 1, i != 0, i <= 0 …)
// stops the scan early whenever the sought byte is the first one of the remaining text.
func (e *Env) RSearchLoops(pkgs []*packages.Package) {
	n := 0
	for _, pkg := range pkgs {
		info := pkg.TypesInfo
		for _, fd := range load.AllFuncDecls(pkg) {
			if fd.Body == nil {
				continue
			}
			searchVar := func(x ast.Expr) bool {
				id, ok := ast.Unparen(x).(*ast.Ident)
				if !ok {
					return false
				}
				o := info.Uses[id]
				found := false
				ast.Inspect(fd.Body, func(m ast.Node) bool {
					as, ok := m.(*ast.AssignStmt)
					if !ok || len(as.Lhs) != len(as.Rhs) {
						return true
					}
					for i, l := range as.Lhs {
						if lid, ok := l.(*ast.Ident); ok && (info.Defs[lid] == o || info.Uses[lid] == o) {
							if cl, ok := as.Rhs[i].(*ast.CallExpr); ok && isStringSearch(calleeFunc(info, cl)) {
								found = true
							}
						}
					}
					return true
				})
				return found
			}
			check := func(cond ast.Expr, where string) {
				ast.Inspect(cond, func(m ast.Node) bool {
					be, ok := m.(*ast.BinaryExpr)
					if !ok {
						return true
					}
					var cst ast.Expr
					op := be.Op
					switch {
					case searchVar(be.X):
						cst = be.Y
					case searchVar(be.Y):
						cst = be.X
						op = map[token.Token]token.Token{token.LSS: token.GTR, token.GTR: token.LSS, token.LEQ: token.GEQ, token.GEQ: token.LEQ, token.EQL: token.EQL, token.NEQ: token.NEQ}[be.Op]
					default:
						return true
					}
					tv, ok := info.Types[cst]
					if !ok || tv.Value == nil {
						return true
					}
					n++
					k := tv.Value.String()
					good := (k == "0" && (op == token.GEQ || op == token.LSS)) || (k == "-1" && (op == token.EQL || op == token.NEQ || op == token.GTR || op == token.LEQ))
					e.Run.Check("R-SCAN", fmt.Sprintf("%s: %s separates found from not found", load.FuncName(fd), where), e.Prog.Pos(be.Pos()), good,
						"`"+types.ExprString(be)+"` treats a hit at index 0 like no hit: the scan stops early when the sought text is at the very start of what remains (two adjacent newlines, a leading separator)")
					return true
				})
			}
			var loops []ast.Node
			ast.Inspect(fd.Body, func(m ast.Node) bool {
				switch l := m.(type) {
				case *ast.ForStmt:
					loops = append(loops, l)
					if l.Cond != nil {
						check(l.Cond, "search-loop condition")
					}
				case *ast.RangeStmt:
					loops = append(loops, l)
				case *ast.IfStmt:
					if len(loops) == 0 || len(l.Body.List) != 1 {
						return true
					}
					inLoop := false
					for _, lp := range loops {
						if lp.Pos() <= l.Pos() && l.End() <= lp.End() {
							inLoop = true
						}
					}
					if !inLoop {
						return true
					}
					switch b := l.Body.List[0].(type) {
					case *ast.BranchStmt:
						if b.Tok == token.BREAK {
							check(l.Cond, "search-loop exit test")
						}
					case *ast.ReturnStmt:
						check(l.Cond, "search-loop exit test")
					}
				}
				return true
			})
		}
	}
	e.Run.Analysed("search-result comparisons in loops", n)
}

// ---- line-break blocks, decided on their effect ------------------------------------------------
// A line-break block is the innermost statement block that appends a plain (not byte-indexed)
// offset to the line table. Its statements are evaluated symbolically over c0 = the cursor on
// entry: r.cursor++ / += k / = E, locals defined from the cursor, the appended offset
// int(E) - r.base, the marker store. The rules speak about the effect, not the statements:
//   recorded line start = c0 + a;  cursor on exit = c0 + b;  marker on exit = cursor on exit.

type lbEffect struct {
	starts    []int // a for every append
	exit      int   // b
	markerSet bool
	markerVal int // relative to c0
	why       string
	pos       token.Pos
}

func (e *Env) lineBreakEffect(info *types.Info, block []ast.Stmt) lbEffect {
	return e.lineBreakEffectA(info, block, nil, nil)
}

// lineBreakEffectA: curAlias / linesAlias are locals that stand for r.cursor / r.lines in the block
// (a function that works on local copies and writes them back at the end).
func (e *Env) lineBreakEffectA(info *types.Info, block []ast.Stmt, curAlias, linesAlias types.Object) lbEffect {
	eff := lbEffect{}
	cur := 0
	pos := map[types.Object]int{}  // token.Pos locals: value - c0
	offs := map[types.Object]int{} // int locals: value - (c0 - base)
	isCursor := func(x ast.Expr) bool {
		if e.isRestorerField(info, ast.Unparen(x), "cursor") {
			return true
		}
		id, ok := ast.Unparen(x).(*ast.Ident)
		return ok && curAlias != nil && info.Uses[id] == curAlias
	}
	isLines := func(x ast.Expr) bool {
		if e.isRestorerField(info, ast.Unparen(x), "lines") {
			return true
		}
		id, ok := ast.Unparen(x).(*ast.Ident)
		return ok && linesAlias != nil && info.Uses[id] == linesAlias
	}
	isBase := func(x ast.Expr) bool { return e.isRestorerField(info, ast.Unparen(x), "base") }
	constInt := func(x ast.Expr) (int, bool) {
		x = ast.Unparen(x)
		if cl, ok := x.(*ast.CallExpr); ok && len(cl.Args) == 1 {
			if tv, ok := info.Types[cl.Fun]; ok && tv.IsType() {
				x = ast.Unparen(cl.Args[0])
			}
		}
		if tv, ok := info.Types[x]; ok && tv.Value != nil && tv.Value.Kind() == constant.Int {
			v, ok := constant.Int64Val(tv.Value)
			return int(v), ok
		}
		return 0, false
	}
	var posVal func(x ast.Expr) (int, bool) // token.Pos-valued, relative to c0
	posVal = func(x ast.Expr) (int, bool) {
		x = ast.Unparen(x)
		if isCursor(x) {
			return cur, true
		}
		switch v := x.(type) {
		case *ast.Ident:
			r, ok := pos[info.Uses[v]]
			return r, ok
		case *ast.BinaryExpr:
			if v.Op == token.ADD {
				if a, ok := posVal(v.X); ok {
					if k, ok := constInt(v.Y); ok {
						return a + k, true
					}
				}
				if a, ok := posVal(v.Y); ok {
					if k, ok := constInt(v.X); ok {
						return a + k, true
					}
				}
			}
		}
		return 0, false
	}
	var offVal func(x ast.Expr) (int, bool) // int-valued file offset, relative to c0 - base
	offVal = func(x ast.Expr) (int, bool) {
		// a sum with exactly one cursor-derived position (converted to int) and r.base subtracted
		// once — or an int local that already holds such an offset — plus integer constants
		type term struct {
			x   ast.Expr
			neg bool
		}
		var terms []term
		var flat func(e ast.Expr, neg bool)
		flat = func(e ast.Expr, neg bool) {
			e = ast.Unparen(e)
			if be, ok := e.(*ast.BinaryExpr); ok && (be.Op == token.ADD || be.Op == token.SUB) {
				flat(be.X, neg)
				flat(be.Y, neg != (be.Op == token.SUB))
				return
			}
			terms = append(terms, term{e, neg})
		}
		flat(x, false)
		sum, nPos, nBase := 0, 0, 0
		for _, t := range terms {
			switch {
			case isBase(t.x):
				if !t.neg {
					return 0, false
				}
				nBase++
			default:
				if k, ok := constInt(t.x); ok {
					if t.neg {
						sum -= k
					} else {
						sum += k
					}
					continue
				}
				if id, ok := t.x.(*ast.Ident); ok {
					if r, ok := offs[info.Uses[id]]; ok && !t.neg {
						sum += r
						nPos++
						nBase++
						continue
					}
				}
				if cl, ok := t.x.(*ast.CallExpr); ok && len(cl.Args) == 1 && !t.neg {
					if tv, ok := info.Types[cl.Fun]; ok && tv.IsType() {
						if v, ok := posVal(cl.Args[0]); ok {
							sum += v
							nPos++
							continue
						}
					}
				}
				return 0, false
			}
		}
		if nPos != 1 || nBase != 1 {
			return 0, false
		}
		return sum, true
	}
	for _, st := range block {
		switch x := st.(type) {
		case *ast.IncDecStmt:
			if isCursor(x.X) {
				if x.Tok == token.INC {
					cur++
				} else {
					cur--
				}
			}
		case *ast.AssignStmt:
			if len(x.Lhs) != 1 || len(x.Rhs) != 1 {
				continue
			}
			l, r := x.Lhs[0], x.Rhs[0]
			switch {
			case isCursor(l):
				switch x.Tok {
				case token.ADD_ASSIGN:
					k, ok := constInt(r)
					if !ok {
						eff.why = "cursor advanced by a non-constant inside a line-break block"
						eff.pos = x.Pos()
						return eff
					}
					cur += k
				case token.ASSIGN:
					v, ok := posVal(r)
					if !ok {
						eff.why = "cursor set to a value that is not derived from the cursor"
						eff.pos = x.Pos()
						return eff
					}
					cur = v
				default:
					eff.why = "cursor operator " + x.Tok.String()
					eff.pos = x.Pos()
					return eff
				}
			case isLines(l):
				cl, ok := ast.Unparen(r).(*ast.CallExpr)
				if !ok || len(cl.Args) != 2 {
					eff.why = "line table store is not append(r.lines, offset)"
					eff.pos = x.Pos()
					return eff
				}
				a, ok := offVal(cl.Args[1])
				if !ok {
					eff.why = "recorded offset is not int(<cursor-derived position>) - r.base"
					eff.pos = x.Pos()
					return eff
				}
				eff.starts = append(eff.starts, a)
			case e.isRestorerField(info, l, "cursorAtNewLine"):
				v, ok := posVal(r)
				if !ok {
					eff.why = "marker set to a value that is not derived from the cursor"
					eff.pos = x.Pos()
					return eff
				}
				eff.markerSet, eff.markerVal = true, v
			default:
				id, ok := l.(*ast.Ident)
				if !ok {
					continue
				}
				o := info.Defs[id]
				if o == nil {
					o = info.Uses[id]
				}
				if o == nil {
					continue
				}
				if isTokenPos(o.Type()) {
					if v, ok := posVal(r); ok {
						pos[o] = v
					} else {
						delete(pos, o)
					}
				} else if v, ok := offVal(r); ok {
					offs[o] = v
				} else {
					delete(offs, o)
				}
			}
		}
	}
	eff.exit = cur
	return eff
}

// lineBreakBlocks: the innermost blocks of fd that append a plain offset to the line table.
func (e *Env) lineBreakBlocks(info *types.Info, fd *ast.FuncDecl) [][]ast.Stmt {
	curAlias, linesAlias := e.stateAliases(info, fd)
	var out [][]ast.Stmt
	ast.Inspect(fd.Body, func(nd ast.Node) bool {
		blk, ok := nd.(*ast.BlockStmt)
		if !ok {
			return true
		}
		for _, st := range blk.List {
			as, ok := st.(*ast.AssignStmt)
			if !ok || len(as.Lhs) != 1 || len(as.Rhs) != 1 {
				continue
			}
			isLines := e.isRestorerField(info, as.Lhs[0], "lines")
			if id, ok := as.Lhs[0].(*ast.Ident); ok && linesAlias != nil && info.Uses[id] == linesAlias {
				isLines = true
			}
			if !isLines {
				continue
			}
			// the write-back of a local copy (r.lines = lines) is not a line break
			if rid, ok := ast.Unparen(as.Rhs[0]).(*ast.Ident); ok && linesAlias != nil && info.Uses[rid] == linesAlias {
				continue
			}
			_ = curAlias
			// byte-indexed entries (line starts inside a literal or comment, in a loop over its
			// text) do not move the cursor: the caller advances by len(text)
			inTextLoop := false
			ast.Inspect(fd.Body, func(x ast.Node) bool {
				if body := loopBody(x); body != nil && body.Pos() <= as.Pos() && as.End() <= body.End() && e.isTextLoop(info, x) {
					inTextLoop = true
				}
				return true
			})
			if !inTextLoop {
				out = append(out, blk.List)
				break
			}
		}
		return true
	})
	return out
}

// lineBreaksAdvance: every line-break block records its line start(s) at or after the entry
// cursor, leaves the cursor strictly behind the last recorded line start (it steps over the
// newline byte), and sets the fresh-line marker to the exit cursor.
func (e *Env) lineBreaksAdvance(c *schema.Ctx) {
	pkg := e.Prog.Pkg(load.PkgDecorator)
	info := pkg.TypesInfo
	n := 0
	atEntry := false
	fds := e.spacingFuncs(pkg)
	for _, fd := range fds {
		name := fd.Name.Name
		ca, la := e.stateAliases(info, fd)
		for _, blk := range e.lineBreakBlocks(info, fd) {
			n++
			eff := e.lineBreakEffectA(info, blk, ca, la)
			key := fmt.Sprintf("%s: line break advances the cursor and sets the fresh-line marker", name)
			if eff.why != "" {
				e.Run.Check("R-CURSOR", key, e.Prog.Pos(eff.pos), false, eff.why)
				continue
			}
			// (whether and where the marker is set is decided by the line-state machine, R-SPACE; if
			// it is set inside the block it must be the exit cursor)
			if len(eff.starts) == 1 && eff.starts[0] == 0 {
				atEntry = true
			}
			good := len(eff.starts) == 1 && eff.starts[0] >= 0 && eff.exit > eff.starts[0] && (!eff.markerSet || eff.markerVal == eff.exit)
			e.Run.Check("R-CURSOR", key, e.Prog.Pos(blk[0].Pos()), good,
				fmt.Sprintf("effect of the block over the entry cursor c0: line starts recorded at c0+%v, cursor on exit c0+%d, marker set=%v to c0+%d — one line start must be recorded at or after c0, the cursor must end strictly after it (it steps over the newline byte) and a marker set here must equal the exit cursor; otherwise two line starts can coincide (SetLines fails) or the next spacing is miscounted",
					eff.starts, eff.exit, eff.markerSet, eff.markerVal))
		}
	}
	e.Run.Floor("R-CURSOR", "line-break sites", n, 1)
	// a line break that records its line start at the entry cursor itself (k = 0: the "\n" and
	// line-comment breaks of applyDecorations) repeats the initial line start 0 when it is the very
	// first thing in the file (a "\n" decoration at the head of File.Decs.Start): every later entry
	// is larger because the cursor moves on, so only the first can repeat — and RestoreFile must drop
	// it before SetLines, which rejects a table that is not strictly increasing.
	if atEntry {
		rf := load.FuncDecl(pkg, "FileRestorer", "RestoreFile")
		dropped := false
		if rf != nil && rf.Body != nil {
			// RestoreFile with the methods it calls as statements spliced in, in order
			flat := c.FlattenBody(rf.Body.List)
			c.Subst = nil
			setLinesAt, dropAt := -1, -1
			for k, st := range flat {
				ast.Inspect(st, func(nd ast.Node) bool {
					if call, ok := nd.(*ast.CallExpr); ok {
						if se, ok := call.Fun.(*ast.SelectorExpr); ok && se.Sel.Name == "SetLines" && setLinesAt < 0 {
							setLinesAt = k
						}
					}
					if as, ok := nd.(*ast.AssignStmt); ok && len(as.Lhs) == 1 && len(as.Rhs) == 1 && e.isRestorerField(info, as.Lhs[0], "lines") {
						if sl, ok := ast.Unparen(as.Rhs[0]).(*ast.SliceExpr); ok && e.isRestorerField(info, sl.X, "lines") && sl.Low != nil && types.ExprString(sl.Low) == "1" && dropAt < 0 {
							// under exactly the condition that the second entry repeats the first
							// (offset 0): conjuncts lines[1] == lines[0] (or == 0, or <=) and
							// len(lines) > 1
							if pc, okp := pathCond(c, flat, as); okp {
								hasEq, others := false, true
								for _, cj := range splitTopAnd(pc) {
									cj = strings.TrimSpace(strings.TrimSuffix(strings.TrimPrefix(strings.TrimSpace(cj), "("), ")"))
									switch cj {
									case "r.lines[1] == r.lines[0]", "r.lines[0] == r.lines[1]", "r.lines[1] == 0", "r.lines[1] <= r.lines[0]", "r.lines[1] <= 0", "r.lines[0] >= r.lines[1]":
										hasEq = true
									case "len(r.lines) > 1", "len(r.lines) >= 2", "1 < len(r.lines)":
									default:
										// conditions on anything else (an earlier error return) do not
										// matter; another condition on the line table does
										if strings.Contains(cj, "lines") {
											others = false
										}
									}
								}
								// the if statement that holds the store tests the line table and
								// nothing else (a further operand — a flag, a constant — would keep
								// the repeated entry on some runs)
								own := false
								ast.Inspect(st, func(m ast.Node) bool {
									is, ok := m.(*ast.IfStmt)
									if !ok || !(is.Body.Pos() <= as.Pos() && as.End() <= is.Body.End()) {
										return true
									}
									own = true
									for _, cj := range splitTopAnd(c.ExprStr(is.Cond)) {
										cj = strings.TrimSpace(strings.TrimSuffix(strings.TrimPrefix(strings.TrimSpace(cj), "("), ")"))
										if !strings.Contains(cj, "lines") {
											own = false
										}
									}
									return true
								})
								if hasEq && others && own {
									dropAt = k
								}
							}
						}
					}
					return true
				})
			}
			dropped = dropAt >= 0 && (setLinesAt < 0 || dropAt <= setLinesAt)
		}
		pos := ""
		if rf != nil {
			pos = e.Prog.Pos(rf.Pos())
		}
		e.Run.Check("R-CURSOR", "RestoreFile: a first line start that repeats offset 0 is dropped before SetLines", pos, dropped,
			"a line break can record its line start at the cursor it finds (offset 0 for a \"\\n\" decoration at the head of File.Decs.Start), next to the initial entry 0: SetLines rejects the table and RestoreFile panics on a legal tree")
	}
}

// restoreFileOrder: base before cursor; AddFile after the root restore with fileSize(); SetLines
// checked; nothing assigns positions after the file is registered.
func (e *Env) restoreFileOrder(c *schema.Ctx) {
	pkg := e.Prog.Pkg(load.PkgDecorator)
	fd := load.FuncDecl(pkg, "FileRestorer", "RestoreFile")
	if fd == nil || fd.Body == nil {
		e.Run.Violation("R-CURSOR", "RestoreFile exists", "", "function missing")
		return
	}
	info := pkg.TypesInfo
	// RestoreFile with its void helper methods spliced in (reset / register helpers), one level
	helperOf := func(st ast.Stmt) *ast.FuncDecl {
		es, ok := st.(*ast.ExprStmt)
		if !ok {
			return nil
		}
		call, ok := es.X.(*ast.CallExpr)
		if !ok {
			return nil
		}
		fn := calleeFunc(info, call)
		if fn == nil || fn.Pkg() != pkg.Types {
			return nil
		}
		if sig, ok := fn.Type().(*types.Signature); !ok || sig.Results().Len() != 0 || sig.Recv() == nil {
			return nil
		}
		for _, d := range load.AllFuncDecls(pkg) {
			if info.Defs[d.Name] == types.Object(fn) && d.Body != nil && d != fd {
				return d
			}
		}
		return nil
	}
	var flat []ast.Stmt
	for _, st := range fd.Body.List {
		if h := helperOf(st); h != nil {
			flat = append(flat, h.Body.List...)
			continue
		}
		flat = append(flat, st)
	}
	idx := func(pred func(ast.Stmt) bool) int {
		for i, st := range flat {
			if pred(st) {
				return i
			}
		}
		return -1
	}
	storeOf := func(st ast.Stmt, field string) ast.Expr {
		as, ok := st.(*ast.AssignStmt)
		if !ok || len(as.Lhs) != len(as.Rhs) || as.Tok != token.ASSIGN {
			return nil
		}
		for k, l := range as.Lhs {
			if e.isRestorerField(info, l, field) {
				return as.Rhs[k]
			}
		}
		return nil
	}
	containsCall := func(st ast.Stmt, name string) *ast.CallExpr {
		var out *ast.CallExpr
		ast.Inspect(st, func(n ast.Node) bool {
			if call, ok := n.(*ast.CallExpr); ok && out == nil {
				if se, ok := call.Fun.(*ast.SelectorExpr); ok && se.Sel.Name == name {
					out = call
				}
			}
			return true
		})
		return out
	}
	iBase := idx(func(st ast.Stmt) bool { return storeOf(st, "base") != nil })
	iCur := idx(func(st ast.Stmt) bool { return storeOf(st, "cursor") != nil })
	iRoot := idx(func(st ast.Stmt) bool {
		cl := containsCall(st, "restoreNode")
		return cl != nil && len(cl.Args) > 0 && c.ExprStr(cl.Args[0]) == "r.file"
	})
	iAdd := idx(func(st ast.Stmt) bool { return containsCall(st, "AddFile") != nil })
	iSet := idx(func(st ast.Stmt) bool {
		is, ok := st.(*ast.IfStmt)
		return ok && strings.Contains(c.ExprStr(is.Cond), ".SetLines(r.lines)") && strings.HasPrefix(c.ExprStr(is.Cond), "!") && c.PanicsOnly(is.Body.List)
	})
	iImp := idx(func(st ast.Stmt) bool { return containsCall(st, "updateImports") != nil })
	pos := e.Prog.Pos(fd.Pos())
	// base comes from the file set; the cursor starts at that same value
	okBase := false
	if iBase >= 0 && iCur >= 0 {
		bs, cs := c.ExprStr(storeOf(flat[iBase], "base")), c.ExprStr(storeOf(flat[iCur], "cursor"))
		fromFset := bs == "r.Fset.Base()"
		if !fromFset {
			// a local that holds r.Fset.Base()
			for _, st := range flat[:iBase] {
				if as, ok := st.(*ast.AssignStmt); ok && as.Tok == token.DEFINE && len(as.Lhs) == 1 && len(as.Rhs) == 1 {
					if c.ExprStr(as.Lhs[0]) == bs && c.ExprStr(as.Rhs[0]) == "r.Fset.Base()" {
						fromFset = true
					}
				}
			}
		}
		okBase = fromFset && ((cs == "token.Pos(r.base)" && iCur > iBase) || cs == "token.Pos("+bs+")")
	}
	e.Run.Check("R-CURSOR", "RestoreFile: base taken from the file set before the cursor starts", pos, okBase, "expected r.base = r.Fset.Base() and r.cursor = token.Pos(<that base>) in the reset")
	e.Run.Check("R-CURSOR", "RestoreFile: imports updated before any position is assigned", pos, iImp > iCur && iImp > iBase && iRoot > iImp, "updateImports must run after the reset and before the root restore")
	addOK := false
	if iAdd >= 0 {
		addOK = strings.Contains(stmtNorm(c, flat[iAdd]), "r.Fset.AddFile(r.Name, r.base, r.fileSize())")
	}
	e.Run.Check("R-CURSOR", "RestoreFile: file registered at its base with the computed size, after the tree is restored", pos, addOK && iAdd > iRoot && iRoot >= 0,
		"expected ff := r.Fset.AddFile(r.Name, r.base, r.fileSize()) after the root restoreNode (the size must cover every position assigned)")
	e.Run.Check("R-CURSOR", "RestoreFile: SetLines failure is not ignored", pos, iSet > iAdd && iAdd >= 0, "expected `if !ff.SetLines(r.lines) { panic(...) }` after AddFile")
	// after AddFile: no call that assigns positions (directly or through a helper method)
	if iAdd >= 0 {
		for _, st := range flat[iAdd+1:] {
			var visit func(n ast.Node, depth int)
			visit = func(root ast.Node, depth int) {
				ast.Inspect(root, func(n ast.Node) bool {
					call, ok := n.(*ast.CallExpr)
					if !ok {
						return true
					}
					fn := calleeFunc(info, call)
					if fn == nil || fn.Pkg() == nil || fn.Pkg().Path() != load.PkgDecorator {
						return true
					}
					switch fn.Name() {
					case "restoreNode", "applySpace", "applyDecorations", "applyLiteral", "restoreIdent":
						e.Run.Violation("R-CURSOR", "RestoreFile: "+fn.Name()+" after the file is registered", e.Prog.Pos(call.Pos()),
							"positions assigned after AddFile lie outside the registered file (its size was computed before) and, when ranging over a map, depend on iteration order")
						return true
					}
					if depth < 1 {
						for _, d := range load.AllFuncDecls(pkg) {
							if info.Defs[d.Name] == types.Object(fn) && d.Body != nil && d != fd {
								if sig, ok := fn.Type().(*types.Signature); ok && sig.Results().Len() == 0 && sig.Recv() != nil {
									visit(d.Body, depth+1)
								}
							}
						}
					}
					return true
				})
			}
			visit(st, 0)
		}
	}
}

// fileSizeCovers: fileSize starts from the cursor and only grows.
func (e *Env) fileSizeCovers(c *schema.Ctx) {
	pkg := e.Prog.Pkg(load.PkgDecorator)
	fd := load.FuncDecl(pkg, "FileRestorer", "fileSize")
	if fd == nil || fd.Body == nil {
		e.Run.Violation("R-CURSOR", "fileSize exists", "", "function missing")
		return
	}
	pos := e.Prog.Pos(fd.Pos())
	info := pkg.TypesInfo
	undo := c.InstallReaching(fd)
	defer undo()
	// the accumulator: the variable the function returns minus the base
	var endObj types.Object
	okRet := false
	rets, _ := returnsOf(c, fd)
	for _, r := range rets {
		if len(r.results) == 1 && strings.HasSuffix(r.results[0], " - r.base") {
			name := strings.TrimSuffix(r.results[0], " - r.base")
			ast.Inspect(fd.Body, func(n ast.Node) bool {
				if id, ok := n.(*ast.Ident); ok && id.Name == name && info.Defs[id] != nil && endObj == nil {
					endObj = info.Defs[id]
				}
				return true
			})
			okRet = endObj != nil
		} else {
			okRet = false
		}
	}
	okInit, okGrow, nGrow := false, true, 0
	growOver := map[string]bool{}
	if endObj != nil {
		ast.Inspect(fd.Body, func(n ast.Node) bool {
			as, ok := n.(*ast.AssignStmt)
			if !ok || len(as.Lhs) != 1 || len(as.Rhs) != 1 {
				return true
			}
			id, ok := as.Lhs[0].(*ast.Ident)
			if !ok || (info.Defs[id] != endObj && info.Uses[id] != endObj) {
				return true
			}
			if as.Tok == token.DEFINE {
				okInit = c.ExprStr(as.Rhs[0]) == "int(r.cursor)"
				return true
			}
			// raised to X+1, and only where X >= end is known
			nGrow++
			// where the store runs: at its own place, or — inside a local closure — at every call
			// of the closure
			sites := []ast.Node{as}
			ast.Inspect(fd.Body, func(m ast.Node) bool {
				def, ok := m.(*ast.AssignStmt)
				if !ok || len(def.Lhs) != 1 || len(def.Rhs) != 1 {
					return true
				}
				fl, ok := def.Rhs[0].(*ast.FuncLit)
				fid, ok2 := def.Lhs[0].(*ast.Ident)
				if !ok || !ok2 || !(fl.Body.Pos() <= as.Pos() && as.End() <= fl.Body.End()) {
					return true
				}
				sites = nil
				ast.Inspect(fd.Body, func(x ast.Node) bool {
					if call, ok := x.(*ast.CallExpr); ok {
						if cid, ok := call.Fun.(*ast.Ident); ok && info.Uses[cid] != nil && info.Uses[cid] == info.Defs[fid] {
							sites = append(sites, call)
						}
					}
					return true
				})
				return true
			})
			for _, site := range sites {
				as := site
				ast.Inspect(fd.Body, func(m ast.Node) bool {
					// the loop around the store: a range over, or an index loop up to the length of,
					// the comment list / the line table
					var header []ast.Node
					var body *ast.BlockStmt
					switch l := m.(type) {
					case *ast.RangeStmt:
						header, body = []ast.Node{l.X}, l.Body
					case *ast.ForStmt:
						body = l.Body
						for _, h := range []ast.Node{l.Init, l.Cond, l.Post} {
							if h != nil && !reflect.ValueOf(h).IsNil() {
								header = append(header, h)
							}
						}
					}
					if body == nil || !(body.Pos() <= as.Pos() && as.End() <= body.End()) {
						return true
					}
					for _, h := range header {
						ast.Inspect(h, func(x ast.Node) bool {
							if ex, ok := x.(ast.Expr); ok {
								if e.isRestorerField(info, ex, "comments") {
									growOver["comments"] = true
								}
								if e.isRestorerField(info, ex, "lines") {
									growOver["lines"] = true
								}
							}
							return true
						})
					}
					return true
				})
			}
			// … or through a helper that returns its first argument, or its second plus one when
			// the second is not below the first
			if call, isCall := as.Rhs[0].(*ast.CallExpr); isCall && as.Tok == token.ASSIGN && len(call.Args) == 2 {
				if aid, ok := call.Args[0].(*ast.Ident); ok && info.Uses[aid] == endObj && e.isExtendPast(c, pkg, call) {
					return true
				}
			}
			r := canonText(c.ExprStr(as.Rhs[0]))
			if as.Tok != token.ASSIGN || !strings.HasSuffix(r, " + 1") {
				okGrow = false
				return true
			}
			x := strings.TrimSuffix(r, " + 1")
			// innermost function body that contains the assignment
			body := fd.Body.List
			ast.Inspect(fd.Body, func(m ast.Node) bool {
				if fl, ok := m.(*ast.FuncLit); ok && fl.Body.Pos() <= as.Pos() && as.End() <= fl.Body.End() {
					body = fl.Body.List
				}
				return true
			})
			cond, okc := pathCond(c, body, as)
			guarded := false
			if okc {
				for _, cj := range splitTop(cond, " && ") {
					cj = canonText(strings.TrimSpace(cj))
					if cj == x+" >= "+endObj.Name() || cj == endObj.Name()+" <= "+x {
						guarded = true
					}
				}
			}
			if !guarded {
				okGrow = false
			}
			return true
		})
	}
	e.Run.Check("R-CURSOR", "fileSize covers the cursor and only grows", pos, okInit && okRet && okGrow && nGrow > 0,
		"expected an accumulator that starts at int(r.cursor), is only raised to X+1 where X >= it is known, and is returned minus r.base — so the registered size is ≥ every position assigned")
	if nGrow > 0 && okGrow {
		e.Run.Check("R-CURSOR", "fileSize covers every comment and every line start", pos, growOver["comments"] && growOver["lines"],
			fmt.Sprintf("the size is raised in a loop over the comment list: %v, over the line table: %v — a comment at the end of the file ends behind the cursor, and so does the line start its line break records: a file registered with a smaller size has positions outside itself (token.File panics or maps them to the next file)", growOver["comments"], growOver["lines"]))
	}
}

// ---------------------------------------------------------------------------------------------
// R-ASTORDER: positions and children are written in the declaration order of the go/ast struct
// (go/ast declares fields in source order), so relative order matches a real parse.

var astOrderFrozen = map[string]string{
	"FuncDecl Type.Func<Recv": "the func keyword's position lives in the signature (FuncDecl.Type.Func) but is written first",
}

func (e *Env) RAstOrder() {
	rs := e.Sib.ByName["restore"]
	n := 0
	for _, tn := range e.dstNodeNames() {
		cs := rs.Cases[tn]
		ant := e.astTypes[tn]
		if cs == nil || ant == nil {
			continue
		}
		// flattened declaration order
		rank := map[string]int{}
		k := 0
		var flat func(prefix string, t *NodeType, depth int)
		flat = func(prefix string, t *NodeType, depth int) {
			for _, f := range t.Fields {
				rank[prefix+f.Name] = k
				k++
				if f.Kind == FNode && f.Ptr && depth == 0 {
					// inline children (FuncDecl.Type)
					for _, ev := range cs.Events {
						if ev.Kind == schema.KInit && ev.Field == prefix+f.Name {
							flat(prefix+f.Name+".", e.astTypes[f.Elem], depth+1)
						}
					}
				}
			}
		}
		flat("", ant, 0)
		type w struct {
			field string
			pos   token.Pos
		}
		var seq []w
		for _, ev := range cs.Events {
			switch ev.Kind {
			case schema.KPosStore:
				if ev.Expr == "cursor" {
					seq = append(seq, w{ev.Field, ev.Pos})
				}
			case schema.KChild, schema.KList:
				seq = append(seq, w{ev.Field, ev.Pos})
			}
		}
		for i := 1; i < len(seq); i++ {
			a, b := seq[i-1], seq[i]
			ra, oka := rank[a.field]
			rb, okb := rank[b.field]
			if !oka || !okb || a.field == b.field {
				continue
			}
			n++
			key := fmt.Sprintf("%s %s<%s", tn, a.field, b.field)
			if ra > rb {
				if why, frozen := astOrderFrozen[key]; frozen {
					e.Run.OK("R-ASTORDER", "restore "+key+" in go/ast declaration order", e.Prog.Pos(b.pos), "frozen exception: "+why)
					continue
				}
			}
			e.Run.Check("R-ASTORDER", "restore "+key+" in go/ast declaration order", e.Prog.Pos(b.pos), ra < rb,
				fmt.Sprintf("restore case %s writes out.%s before out.%s, but go/ast.%s declares %s first (source order): restored positions of the two are in the opposite order of a real parse", tn, a.field, b.field, tn, b.field))
		}
	}
	e.Run.Analysed("adjacent position/child pairs", n)
	e.Run.Floor("R-ASTORDER", "ordered pairs", n, 100)
	// every position field of a go/ast node that stands for a token of the source is given a
	// position by the restore case (the cursor, under whatever guard the token has): a field that
	// is never written stays NoPos — invalid for position reporting, and out of rank order with its
	// neighbours compared with a real parse
	m := 0
	for _, tn := range e.dstNodeNames() {
		cs := rs.Cases[tn]
		ant := e.astTypes[tn]
		if cs == nil || ant == nil {
			continue
		}
		stored := map[string]bool{}
		guards := map[string][]string{}
		for _, ev := range cs.Events {
			if ev.Kind == schema.KPosStore {
				stored[ev.Field] = true
				guards[ev.Field] = append(guards[ev.Field], ev.Guard)
			}
		}
		for _, f := range ant.Fields {
			if f.Kind != FPos {
				continue
			}
			key := tn + "." + f.Name
			if why, always := posAlways[key]; always {
				// a position the parser sets whether or not the token is written: stored on every
				// path (an unguarded store, or stores whose guards cover everything)
				every := false
				var gs []string
				for _, g := range guards[f.Name] {
					if g == "" {
						every = true
					}
					gs = append(gs, "("+g+")")
				}
				if !every && len(gs) > 0 {
					if un, dec := unsatWith("!("+strings.Join(gs, " || ")+")", ""); dec && un {
						every = true
					}
				}
				m++
				e.Run.Check("R-ASTORDER", "restore "+key+" is given a position on every path", e.casePos(cs), every,
					fmt.Sprintf("restore case %s writes out.%s only under %v: %s; where it stays NoPos, End() of the node and of every statement that ends with it is invalid (smaller than its own Pos())", tn, f.Name, guards[f.Name], why))
				continue
			}
			if why, ok := posNotRestored[key]; ok {
				e.Run.OK("R-ASTORDER", "restore "+key+" is given a position", e.casePos(cs), "frozen exception: "+why)
				continue
			}
			m++
			if tn == "File" && !stored[f.Name] && e.restoreFileStores(f.Name) {
				// the extent of the file is known only when it is registered: stored by RestoreFile
				// (or a function it calls) instead of the restore case
				e.Run.OK("R-ASTORDER", "restore "+key+" is given a position", e.casePos(cs), "stored by RestoreFile after the file is registered")
				continue
			}
			e.Run.Check("R-ASTORDER", "restore "+key+" is given a position", e.casePos(cs), stored[f.Name],
				fmt.Sprintf("restore case %s never writes out.%s: the token's position stays NoPos (IsValid() false, rank 0 among its neighbours) while a parse of the same text sets it", tn, f.Name))
		}
	}
	e.Run.Floor("R-ASTORDER", "position fields", m, 60)
}

// restoreFileStores: RestoreFile, or a function of the package it calls, assigns the field of a
// go/ast.File.
func (e *Env) restoreFileStores(field string) bool {
	pkg := e.Prog.Pkg(load.PkgDecorator)
	info := pkg.TypesInfo
	rf := load.FuncDecl(pkg, "FileRestorer", "RestoreFile")
	if rf == nil || rf.Body == nil {
		return false
	}
	assigns := func(body ast.Node) bool {
		hit := false
		ast.Inspect(body, func(n ast.Node) bool {
			if as, ok := n.(*ast.AssignStmt); ok {
				for _, l := range as.Lhs {
					if se, ok := ast.Unparen(l).(*ast.SelectorExpr); ok && se.Sel.Name == field {
						if p, tn := namedOf(info.TypeOf(se.X)); p == "go/ast" && tn == "File" {
							hit = true
						}
					}
				}
			}
			return true
		})
		return hit
	}
	if assigns(rf.Body) {
		return true
	}
	// … or a function it calls does, up to three calls deep
	var reaches func(body ast.Node, depth int) bool
	reaches = func(body ast.Node, depth int) bool {
		if assigns(body) {
			return true
		}
		if depth >= 3 {
			return false
		}
		found := false
		ast.Inspect(body, func(n ast.Node) bool {
			if call, ok := n.(*ast.CallExpr); ok && !found {
				if fn := calleeFunc(info, call); fn != nil && fn.Pkg() == pkg.Types {
					for _, d := range load.AllFuncDecls(pkg) {
						if info.Defs[d.Name] == types.Object(fn) && d.Body != nil && d != rf && !isGeneratedConverter(d) && reaches(d.Body, depth+1) {
							found = true
						}
					}
				}
			}
			return !found
		})
		return found
	}
	return reaches(rf.Body, 0)
}

// isGeneratedConverter: restoreNode and the other big converters are not followed when looking
// for a helper of RestoreFile.
func isGeneratedConverter(d *ast.FuncDecl) bool {
	return d.Body != nil && len(d.Body.List) > 0 && d.End()-d.Pos() > 20000
}

// posAlways: position fields that go/parser sets even when their token is not written.
var posAlways = map[string]string{
	"EmptyStmt.Semicolon": "go/parser gives an omitted semicolon (a label directly before `}`) the position of what follows it",
}

// posNotRestored: position fields that legitimately have no token of their own in the restored text.
var posNotRestored = map[string]string{
	"ImportSpec.EndPos": "not set by the parser either: only ast.SortImports fills it (it overrides Path.Pos as the spec's end when non-zero)",
}

// inlineLocals renders x with every local that is defined exactly once (:=, never reassigned,
// before `before`) replaced by its defining expression, recursively.
func (e *Env) inlineLocals(c *schema.Ctx, info *types.Info, fd *ast.FuncDecl, x ast.Expr, before token.Pos, depth int) string {
	if depth > 4 {
		return c.ExprStr(x)
	}
	defs := map[types.Object]ast.Expr{}
	writes := map[types.Object]int{}
	ast.Inspect(fd.Body, func(n ast.Node) bool {
		switch s := n.(type) {
		case *ast.AssignStmt:
			for i, l := range s.Lhs {
				id, ok := l.(*ast.Ident)
				if !ok {
					continue
				}
				obj := info.Defs[id]
				if obj == nil {
					obj = info.Uses[id]
				}
				if obj == nil {
					continue
				}
				writes[obj]++
				if s.Tok == token.DEFINE && len(s.Lhs) == len(s.Rhs) && s.Pos() < before {
					defs[obj] = s.Rhs[i]
				}
			}
		case *ast.IncDecStmt:
			if id, ok := s.X.(*ast.Ident); ok {
				writes[info.Uses[id]]++
			}
		case *ast.RangeStmt:
			for _, kv := range []ast.Expr{s.Key, s.Value} {
				if id, ok := kv.(*ast.Ident); ok {
					writes[info.Defs[id]] += 2 // loop variables are never inlined
				}
			}
		}
		return true
	})
	out := c.ExprStr(x)
	ast.Inspect(x, func(n ast.Node) bool {
		id, ok := n.(*ast.Ident)
		if !ok {
			return true
		}
		obj := info.Uses[id]
		if def, ok := defs[obj]; ok && writes[obj] == 1 {
			rep := e.inlineLocals(c, info, fd, def, before, depth+1)
			out = replaceIdent(out, id.Name, rep)
		}
		return true
	})
	return out
}

func replaceIdent(s, name, rep string) string {
	var b strings.Builder
	i := 0
	isIdentChar := func(r byte) bool {
		return r == '_' || r == '.' || (r >= '0' && r <= '9') || (r >= 'a' && r <= 'z') || (r >= 'A' && r <= 'Z')
	}
	for i < len(s) {
		if strings.HasPrefix(s[i:], name) && (i == 0 || !isIdentChar(s[i-1])) && (i+len(name) == len(s) || !isIdentChar(s[i+len(name)]) || s[i+len(name)] == '.') && (i+len(name) >= len(s) || s[i+len(name)] != '.') {
			b.WriteString(rep)
			i += len(name)
			continue
		}
		b.WriteByte(s[i])
		i++
	}
	return b.String()
}

// offsetSum: x, printed over reaching definitions, as a flat sum. ok=false: not a +/- sum that
// mentions the cursor at all (other forms apply). why != "": a sum, but not a legal offset.
func (e *Env) offsetSum(c *schema.Ctx, info *types.Info, fd *ast.FuncDecl, x ast.Expr) (why string, ok bool) {
	undo := c.InstallReaching(fd)
	text := c.ExprStr(x)
	undo()
	expr, err := parser.ParseExpr(text)
	if err != nil {
		return "", false
	}
	type term struct {
		x   ast.Expr
		neg bool
	}
	var terms []term
	var flat func(e ast.Expr, neg bool)
	flat = func(e ast.Expr, neg bool) {
		e = ast.Unparen(e)
		if be, ok := e.(*ast.BinaryExpr); ok && (be.Op == token.ADD || be.Op == token.SUB) {
			flat(be.X, neg)
			flat(be.Y, neg != (be.Op == token.SUB))
			return
		}
		terms = append(terms, term{e, neg})
	}
	flat(expr, false)
	nCursor, nBase := 0, 0
	var rest []term
	for _, t := range terms {
		s := types.ExprString(t.x)
		switch {
		case s == "int(r.cursor)" && !t.neg:
			nCursor++
		case s == "r.base" && t.neg:
			nBase++
		default:
			rest = append(rest, t)
		}
	}
	if nCursor == 0 && nBase == 0 {
		return "", false
	}
	if nCursor != 1 || nBase != 1 {
		return fmt.Sprintf("`%s` has %d cursor terms and %d base terms (one of each expected)", text, nCursor, nBase), true
	}
	// names → objects of the function (for forward-term checks)
	lookup := func(name string) types.Object {
		var o types.Object
		ast.Inspect(fd.Body, func(n ast.Node) bool {
			if id, ok := n.(*ast.Ident); ok && id.Name == name && o == nil {
				if d := info.Defs[id]; d != nil {
					o = d
				}
			}
			return true
		})
		return o
	}
	for _, t := range rest {
		if t.neg {
			return "`" + types.ExprString(t.x) + "` is subtracted from the offset", true
		}
		switch v := t.x.(type) {
		case *ast.BasicLit:
			continue
		case *ast.CallExpr:
			fn := types.ExprString(v.Fun)
			if fn == "len" || strings.HasPrefix(fn, "strings.Index") || strings.HasPrefix(fn, "strings.LastIndex") || strings.HasPrefix(fn, "bytes.Index") {
				continue
			}
		case *ast.Ident:
			o := lookup(v.Name)
			if o == nil {
				break
			}
			// range key over a string
			isKey := false
			ast.Inspect(fd.Body, func(n ast.Node) bool {
				if rs, ok := n.(*ast.RangeStmt); ok {
					if kid, ok := rs.Key.(*ast.Ident); ok && info.Defs[kid] == o {
						if b, ok := info.TypeOf(rs.X).Underlying().(*types.Basic); ok && b.Info()&types.IsString != 0 {
							isKey = true
						}
					}
				}
				return true
			})
			if isKey || e.forwardCounter(info, fd, o) {
				continue
			}
		}
		return "`" + types.ExprString(t.x) + "` added to the offset is not a forward term (byte index, search result, running count, length, constant)", true
	}
	return "", true
}

// forwardCounter: an int local that starts at a constant >= 0 and is only increased (+=, ++, or
// = itself + …) by constants >= 0, lengths, or string-search results.
func (e *Env) forwardCounter(info *types.Info, fd *ast.FuncDecl, o types.Object) bool {
	good, seen := true, false
	nonneg := func(x ast.Expr) bool {
		ok := true
		var walk func(x ast.Expr)
		walk = func(x ast.Expr) {
			x = ast.Unparen(x)
			if tv, found := info.Types[x]; found && tv.Value != nil {
				if strings.HasPrefix(tv.Value.String(), "-") {
					ok = false
				}
				return
			}
			switch v := x.(type) {
			case *ast.BinaryExpr:
				if v.Op != token.ADD {
					ok = false
					return
				}
				walk(v.X)
				walk(v.Y)
			case *ast.CallExpr:
				if id, isID := v.Fun.(*ast.Ident); isID && id.Name == "len" {
					return
				}
				if !isStringSearch(calleeFunc(info, v)) {
					ok = false
				}
			case *ast.Ident:
				// a local that only ever holds search results
				so := info.Uses[v]
				only := false
				ast.Inspect(fd.Body, func(n ast.Node) bool {
					if as, isAs := n.(*ast.AssignStmt); isAs && len(as.Lhs) == len(as.Rhs) {
						for i, l := range as.Lhs {
							if lid, isID := l.(*ast.Ident); isID && (info.Defs[lid] == so || info.Uses[lid] == so) {
								if cl, isCall := as.Rhs[i].(*ast.CallExpr); isCall && isStringSearch(calleeFunc(info, cl)) {
									only = true
								} else {
									ok = false
								}
							}
						}
					}
					return true
				})
				if !only {
					ok = false
				}
			default:
				ok = false
			}
		}
		walk(x)
		return ok
	}
	ast.Inspect(fd.Body, func(n ast.Node) bool {
		switch s := n.(type) {
		case *ast.AssignStmt:
			for i, l := range s.Lhs {
				id, ok := l.(*ast.Ident)
				if !ok || (info.Defs[id] != o && info.Uses[id] != o) || len(s.Lhs) != len(s.Rhs) {
					continue
				}
				seen = true
				switch s.Tok {
				case token.DEFINE:
					if tv, found := info.Types[s.Rhs[i]]; !found || tv.Value == nil || strings.HasPrefix(tv.Value.String(), "-") {
						good = false
					}
				case token.ADD_ASSIGN:
					if !nonneg(s.Rhs[i]) {
						good = false
					}
				default:
					good = false
				}
			}
		case *ast.IncDecStmt:
			if id, ok := s.X.(*ast.Ident); ok && info.Uses[id] == o && s.Tok != token.INC {
				good = false
			}
		}
		return true
	})
	return good && seen
}

func loopBody(n ast.Node) *ast.BlockStmt {
	switch l := n.(type) {
	case *ast.RangeStmt:
		return l.Body
	case *ast.ForStmt:
		return l.Body
	}
	return nil
}

// isTextLoop: a loop over the text of a literal or comment that records the line starts inside it:
// a range over a string, or a for loop (a string search), whose body appends to the line table
// and writes neither the cursor nor the fresh-line marker.
func (e *Env) isTextLoop(info *types.Info, n ast.Node) bool {
	body := loopBody(n)
	if body == nil {
		return false
	}
	if rs, ok := n.(*ast.RangeStmt); ok {
		if b, ok := info.TypeOf(rs.X).Underlying().(*types.Basic); !ok || b.Info()&types.IsString == 0 {
			return false
		}
	}
	appends, moves := false, false
	ast.Inspect(n, func(m ast.Node) bool {
		switch x := m.(type) {
		case *ast.AssignStmt:
			for _, l := range x.Lhs {
				if e.isRestorerField(info, l, "lines") {
					appends = true
				}
				if e.isRestorerField(info, l, "cursor") || e.isRestorerField(info, l, "cursorAtNewLine") {
					moves = true
				}
			}
		case *ast.IncDecStmt:
			if e.isRestorerField(info, x.X, "cursor") {
				moves = true
			}
		}
		return true
	})
	return appends && !moves
}

// isExtendPast: the callee is a same-package function h(a, b int) int whose every return is
// either a — reachable only where b < a — or b + 1.
func (e *Env) isExtendPast(c *schema.Ctx, pkg *packages.Package, call *ast.CallExpr) bool {
	fn := c.Callee(call)
	if fn == nil || fn.Pkg() != pkg.Types {
		return false
	}
	for _, h := range load.AllFuncDecls(pkg) {
		if c.Info.Defs[h.Name] != types.Object(fn) || h.Body == nil || h.Recv != nil {
			continue
		}
		var ps []string
		for _, p := range h.Type.Params.List {
			for _, nm := range p.Names {
				ps = append(ps, nm.Name)
			}
		}
		if len(ps) != 2 {
			return false
		}
		rets, ok := returnsOf(c, h)
		if !ok || len(rets) == 0 {
			return false
		}
		for _, r := range rets {
			if len(r.results) != 1 {
				return false
			}
			switch canonText(r.results[0]) {
			case ps[1] + " + 1":
			case ps[0]:
				imp, dec := unsatWith(r.cond, ps[1]+" >= "+ps[0])
				if !dec || !imp {
					return false
				}
			default:
				return false
			}
		}
		return true
	}
	return false
}

// stateAliases: locals of fd that are copies of r.cursor / r.lines, worked on and written back
// (cursor := r.cursor … r.cursor = cursor;  lines := r.lines … r.lines = lines).
func (e *Env) stateAliases(info *types.Info, fd *ast.FuncDecl) (curAlias, linesAlias types.Object) {
	ast.Inspect(fd.Body, func(n ast.Node) bool {
		as, ok := n.(*ast.AssignStmt)
		if !ok || as.Tok != token.DEFINE || len(as.Lhs) != len(as.Rhs) {
			return true
		}
		for i, l := range as.Lhs {
			id, ok := l.(*ast.Ident)
			if !ok {
				continue
			}
			o := info.Defs[id]
			if o == nil {
				continue
			}
			back := func(field string) bool {
				found := false
				ast.Inspect(fd.Body, func(m ast.Node) bool {
					if b, ok := m.(*ast.AssignStmt); ok && len(b.Lhs) == len(b.Rhs) {
						for j, bl := range b.Lhs {
							if e.isRestorerField(info, bl, field) {
								if rid, ok := ast.Unparen(b.Rhs[j]).(*ast.Ident); ok && info.Uses[rid] == o {
									found = true
								}
							}
						}
					}
					return true
				})
				return found
			}
			if e.isRestorerField(info, ast.Unparen(as.Rhs[i]), "cursor") && back("cursor") {
				curAlias = o
			}
			if e.isRestorerField(info, ast.Unparen(as.Rhs[i]), "lines") && back("lines") {
				linesAlias = o
			}
		}
		return true
	})
	return
}

// isResetCtx: fd is RestoreFile, or a void method of the restorer that RestoreFile calls as a
// statement before it restores the root node (a reset helper): the per-file state may be
// (re)initialised there.
func (e *Env) isResetCtx(fd *ast.FuncDecl) bool {
	if fd.Name.Name == "RestoreFile" && fd.Recv != nil {
		return true
	}
	pkg := e.Prog.Pkg(load.PkgDecorator)
	info := pkg.TypesInfo
	rf := load.FuncDecl(pkg, "FileRestorer", "RestoreFile")
	if rf == nil || rf.Body == nil {
		return false
	}
	for _, st := range rf.Body.List {
		// stop at the root restore
		root := false
		ast.Inspect(st, func(n ast.Node) bool {
			if call, ok := n.(*ast.CallExpr); ok {
				if se, ok := call.Fun.(*ast.SelectorExpr); ok && se.Sel.Name == "restoreNode" {
					root = true
				}
			}
			return true
		})
		if root {
			return false
		}
		if es, ok := st.(*ast.ExprStmt); ok {
			if call, ok := es.X.(*ast.CallExpr); ok {
				if fn := calleeFunc(info, call); fn != nil && info.Defs[fd.Name] == types.Object(fn) {
					if sig, ok := fn.Type().(*types.Signature); ok && sig.Results().Len() == 0 && sig.Recv() != nil {
						return true
					}
				}
			}
		}
	}
	return false
}

// resetForm classifies the right-hand side of a reset of a per-file buffer (r.lines or
// r.comments): "fresh" — a new empty slice (empty composite literal, nil, make with length 0);
// "truncate" — the old array cut to length 0 (r.F[:0]); "" — neither. first, when not nil, is the
// single element a fresh table starts with ([]int{0}, append(<empty>, 0), make([]int, 1)).
func (e *Env) resetForm(c *schema.Ctx, info *types.Info, rhs ast.Expr, field string) (form string, first string) {
	rhs = ast.Unparen(rhs)
	switch x := rhs.(type) {
	case *ast.Ident:
		if x.Name == "nil" && info.Types[x].IsNil() {
			return "fresh", ""
		}
	case *ast.CompositeLit:
		if _, ok := info.TypeOf(x).Underlying().(*types.Slice); ok {
			switch len(x.Elts) {
			case 0:
				return "fresh", ""
			case 1:
				if _, kv := x.Elts[0].(*ast.KeyValueExpr); !kv {
					return "fresh", c.ExprStr(x.Elts[0])
				}
			}
		}
	case *ast.SliceExpr:
		if e.isRestorerField(info, x.X, field) && x.Low == nil && x.High != nil && !x.Slice3 {
			if tv := info.Types[x.High]; tv.Value != nil && tv.Value.String() == "0" {
				return "truncate", ""
			}
		}
	case *ast.CallExpr:
		id, ok := x.Fun.(*ast.Ident)
		if !ok {
			return "", ""
		}
		if _, isB := info.Uses[id].(*types.Builtin); !isB {
			return "", ""
		}
		switch id.Name {
		case "make":
			if len(x.Args) >= 2 {
				if tv := info.Types[x.Args[1]]; tv.Value != nil {
					switch tv.Value.String() {
					case "0":
						return "fresh", ""
					case "1":
						return "fresh", "0" // the zero value
					}
				}
			}
		case "append":
			if len(x.Args) == 2 && !x.Ellipsis.IsValid() {
				if f, fst := e.resetForm(c, info, x.Args[0], field); f != "" && fst == "" {
					return f, c.ExprStr(x.Args[1])
				}
			}
		}
	}
	return "", ""
}

// bufferEscapes: is the slice held in FileRestorer.<field> ever handed out by reference (passed
// to a function that may keep it, assigned to another variable or field, returned, stored in a
// literal)? Reading it (len, cap, range, index), appending to it in place and copying its elements
// (append(x, r.F...), copy(dst, r.F)) do not hand it out. Returns the first place where it does.
func (e *Env) bufferEscapes(field string) (string, bool) {
	pkg := e.Prog.Pkg(load.PkgDecorator)
	info := pkg.TypesInfo
	where := ""
	for _, fd := range load.AllFuncDecls(pkg) {
		if fd.Body == nil || where != "" {
			continue
		}
		var stack []ast.Node
		ast.Inspect(fd.Body, func(n ast.Node) bool {
			if n == nil {
				stack = stack[:len(stack)-1]
				return true
			}
			stack = append(stack, n)
			x, ok := n.(ast.Expr)
			if !ok || where != "" || !e.isRestorerField(info, x, field) {
				return true
			}
			// climb through slicing and parentheses
			i := len(stack) - 2
			cur := ast.Node(x)
			for i >= 0 {
				switch p := stack[i].(type) {
				case *ast.ParenExpr:
					cur = p
					i--
					continue
				case *ast.SliceExpr:
					if p.X == cur {
						cur = p
						i--
						continue
					}
				}
				break
			}
			if i < 0 {
				return true
			}
			esc := false
			switch p := stack[i].(type) {
			case *ast.AssignStmt:
				for _, l := range p.Lhs {
					if l == cur {
						return true // a store into the field
					}
				}
				// on the right: only `r.F = r.F[...]`
				for k, r := range p.Rhs {
					if r == cur {
						esc = !(len(p.Lhs) == len(p.Rhs) && e.isRestorerField(info, p.Lhs[k], field))
					}
				}
			case *ast.IndexExpr:
				esc = p.X != cur // r.F[i] reads an element; x[r.F] cannot be
			case *ast.RangeStmt:
				esc = false
			case *ast.CallExpr:
				id, isID := p.Fun.(*ast.Ident)
				_, isB := info.Uses[id].(*types.Builtin)
				switch {
				case isID && isB && (id.Name == "len" || id.Name == "cap"):
				case isID && isB && id.Name == "copy":
				case isID && isB && id.Name == "append":
					if len(p.Args) > 0 && p.Args[0] == cur {
						// append(r.F, …): the result must go back into the field
						esc = true
						if i-1 >= 0 {
							if as, ok := stack[i-1].(*ast.AssignStmt); ok && len(as.Lhs) == 1 && e.isRestorerField(info, as.Lhs[0], field) {
								esc = false
							}
						}
					} else if !(p.Ellipsis.IsValid() && p.Args[len(p.Args)-1] == cur) {
						esc = true // appended as one element (a slice of slices)
					}
				default:
					esc = true
				}
			default:
				esc = true
			}
			if esc {
				where = e.Prog.Pos(x.Pos())
			}
			return true
		})
	}
	return where, where != ""
}

// RColumnOne (C01): can anything be restored in column 1 of a line? Every line-break block
// records a line start and leaves the cursor strictly behind it (it has to: two consecutive
// breaks would otherwise record the same offset), so the first position of every restored line
// is at column 2 or later. go/printer keeps a comment that is a line directive (`//line f:n`) in
// column 1 only when its position says column 1 — everything else on the line is placed by the
// printer, but such a directive inside an indented block is indented with the block and stops
// being a directive.
func (e *Env) RColumnOne() {
	pkg := e.Prog.Pkg(load.PkgDecorator)
	info := pkg.TypesInfo
	n := 0
	var sites []string
	first := ""
	for _, fd := range e.spacingFuncs(pkg) {
		ca, la := e.stateAliases(info, fd)
		for _, blk := range e.lineBreakBlocks(info, fd) {
			eff := e.lineBreakEffectA(info, blk, ca, la)
			if eff.why != "" || len(eff.starts) != 1 {
				continue
			}
			n++
			if eff.exit != eff.starts[0] {
				sites = append(sites, fmt.Sprintf("%s (%s): line start at c0+%d, cursor left at c0+%d", fd.Name.Name, e.Prog.Pos(blk[0].Pos()), eff.starts[0], eff.exit))
				if first == "" {
					first = e.Prog.Pos(blk[0].Pos())
				}
			}
		}
	}
	// one obligation for the restorer as a whole (where its line breaks live is a matter of layout)
	e.Run.Check("R-CURSOR", "restorer: the position after a synthesized line break can be column 1", first, len(sites) == 0,
		"whatever is restored after a line break sits in column 2 or later ("+strings.Join(sites, "; ")+"), so a `//line` directive that the source has in column 1 inside an indented block (goyacc, cgo, templates) is printed indented and is no longer a directive")
	e.Run.Floor("R-CURSOR", "line breaks examined for column 1", n, 1)
}

// spacingFuncs: applySpace, applyDecorations and the restorer methods they call (a line break may
// live in a helper).
func (e *Env) spacingFuncs(pkg *packages.Package) []*ast.FuncDecl {
	info := pkg.TypesInfo
	var fds []*ast.FuncDecl
	seenFd := map[*ast.FuncDecl]bool{}
	for _, name := range []string{"applySpace", "applyDecorations"} {
		fd := load.FuncDecl(pkg, "FileRestorer", name)
		if fd == nil || fd.Body == nil {
			e.Run.Violation("R-CURSOR", name+" exists", "", "function missing")
			continue
		}
		fds = append(fds, fd)
		seenFd[fd] = true
	}
	for i := 0; i < len(fds) && i < 12; i++ {
		ast.Inspect(fds[i].Body, func(nd ast.Node) bool {
			call, ok := nd.(*ast.CallExpr)
			if !ok {
				return true
			}
			fn := calleeFunc(info, call)
			if fn == nil || fn.Pkg() != pkg.Types {
				return true
			}
			if sig, ok := fn.Type().(*types.Signature); !ok || sig.Recv() == nil {
				return true
			}
			for _, d := range load.AllFuncDecls(pkg) {
				if info.Defs[d.Name] == types.Object(fn) && d.Body != nil && !seenFd[d] && d.Name.Name != "restoreNode" {
					seenFd[d] = true
					fds = append(fds, d)
				}
			}
			return true
		})
	}
	return fds
}

// RPackageCommentGap (R-CURSOR): behind the decoration lists it renders, applyDecorations moves
// the cursor only off a fresh line. A position inserted unconditionally after the file's Start
// decorations (the header comments) separates a comment from the package clause that follows it
// on the same line: `/* … */package p` is restored with the keyword one byte behind the comment,
// which is go/printer's test for a doc comment — a multi-line comment in that place is
// re-formatted (its text changes). Every cursor advance after the loop over the decorations must
// be guarded by a comparison of the cursor with the fresh-line marker.
func (e *Env) RPackageCommentGap() {
	pkg := e.Prog.Pkg(load.PkgDecorator)
	info := pkg.TypesInfo
	c := e.Sib.Ctx[load.PkgDecorator]
	fd := load.FuncDecl(pkg, "FileRestorer", "applyDecorations")
	if fd == nil || fd.Body == nil {
		return
	}
	seenLoop := false
	n := 0
	for _, st := range fd.Body.List {
		if _, ok := st.(*ast.RangeStmt); ok {
			seenLoop = true
			continue
		}
		if !seenLoop {
			continue
		}
		ast.Inspect(st, func(nd ast.Node) bool {
			var at ast.Node
			switch v := nd.(type) {
			case *ast.IncDecStmt:
				if e.isRestorerField(info, ast.Unparen(v.X), "cursor") {
					at = v
				}
			case *ast.AssignStmt:
				for _, l := range v.Lhs {
					if e.isRestorerField(info, ast.Unparen(l), "cursor") {
						at = v
					}
				}
			}
			if at == nil {
				return true
			}
			n++
			pc, _ := pathCond(c, fd.Body.List, at)
			guarded := strings.Contains(pc, "cursorAtNewLine")
			e.Run.Check("R-CURSOR", "applyDecorations: no position is inserted between a comment and the token that follows it on the same line", e.Prog.Pos(at.Pos()), guarded,
				"after the list the cursor is advanced under «"+pc+"», whether or not the list ended with a line break: a header comment that is directly followed by the package clause (`/* … */package p`, legal and left alone by gofmt) gets the keyword at comment.End()+1 in column-1 context — go/printer takes the comment for a doc comment and rewrites a multi-line one")
			return true
		})
	}
	e.Run.Analysed("cursor advances behind the decoration loop", n)
}

// RInnerLineStarts (R-CURSOR): where the restorer walks over a text (a multi-line comment, a raw
// string literal) to record the line starts inside it, it records one for exactly the newline
// characters: the append to the line table inside a `for i, ch := range text` loop is reached
// under `ch == '\n'` and nothing else.
func (e *Env) RInnerLineStarts() {
	pkg := e.Prog.Pkg(load.PkgDecorator)
	info := pkg.TypesInfo
	c := e.Sib.Ctx[load.PkgDecorator]
	n := 0
	for _, fd := range load.AllFuncDecls(pkg) {
		if fd.Body == nil || !isRestorePath(fd) || strings.HasSuffix(e.Prog.File(fd.Pos()), "-generated.go") {
			continue
		}
		ast.Inspect(fd.Body, func(nd ast.Node) bool {
			rs, ok := nd.(*ast.RangeStmt)
			if !ok || rs.Value == nil {
				return true
			}
			if b, ok := info.TypeOf(rs.X).Underlying().(*types.Basic); !ok || b.Info()&types.IsString == 0 {
				return true
			}
			val, ok := rs.Value.(*ast.Ident)
			if !ok {
				return true
			}
			ast.Inspect(rs.Body, func(m ast.Node) bool {
				as, ok := m.(*ast.AssignStmt)
				if !ok || len(as.Lhs) != 1 || !e.isRestorerField(info, ast.Unparen(as.Lhs[0]), "lines") {
					return true
				}
				n++
				// the loop itself is reachable (not behind a return that is always taken)
				if lpc, okl := pathCond(c, fd.Body.List, rs); okl {
					if dead, dec := unsatWith(orTrue(lpc), "true"); dec && dead {
						e.Run.Violation("R-CURSOR", load.FuncName(fd)+": the walk over the text that records its inner line starts is reachable", e.Prog.Pos(rs.Pos()), "the loop sits under «"+lpc+"», which cannot hold: the lines inside multi-line literals / comments are never recorded")
					}
				}
				pc, okp := pathCond(c, rs.Body.List, as)
				eq, dec := equivalentGuards(orTrue(pc), val.Name+` == '\n'`)
				e.Run.Check("R-CURSOR", load.FuncName(fd)+": inside a text a line start is recorded for exactly its newline characters", e.Prog.Pos(as.Pos()), okp && dec && eq,
					"the line table is extended under «"+pc+"» (specified: `"+val.Name+` == '\n'`+"`): the lines inside a multi-line comment or raw string are not recorded (everything behind it is printed on its first line), or a line start is recorded for every other character")
				return true
			})
			return true
		})
	}
	e.Run.Analysed("R-CURSOR line starts recorded inside texts", n)
}

// RRawLiteralMark (R-CURSOR): the position right behind a raw string literal that spans lines is
// remembered when the literal is rendered (the comment-field rule of the line-state machine reads
// it): a store `r.rawLiteralEnd = <cursor> + <length of the text>` in the function that records
// the literal's inner line starts.
func (e *Env) RRawLiteralMark() {
	pkg := e.Prog.Pkg(load.PkgDecorator)
	info := pkg.TypesInfo
	n := 0
	at := ""
	for _, fd := range load.AllFuncDecls(pkg) {
		if fd.Body == nil || !isRestorePath(fd) {
			continue
		}
		ast.Inspect(fd.Body, func(nd ast.Node) bool {
			as, ok := nd.(*ast.AssignStmt)
			if !ok || len(as.Lhs) != 1 || len(as.Rhs) != 1 || !e.isRestorerField(info, ast.Unparen(as.Lhs[0]), "rawLiteralEnd") {
				return true
			}
			if tv, ok := info.Types[as.Rhs[0]]; ok && tv.Value != nil {
				return true // the reset
			}
			hasCur, hasLen := false, false
			ast.Inspect(as.Rhs[0], func(m ast.Node) bool {
				if ex, ok := m.(ast.Expr); ok && e.isRestorerField(info, ex, "cursor") {
					hasCur = true
				}
				if call, ok := m.(*ast.CallExpr); ok {
					if id, ok := call.Fun.(*ast.Ident); ok && id.Name == "len" {
						hasLen = true
					}
				}
				return true
			})
			if hasCur && hasLen {
				n++
				at = e.Prog.Pos(as.Pos())
			}
			return true
		})
	}
	e.Run.Check("R-CURSOR", "the end of a multi-line raw string literal is remembered when it is rendered", at, n > 0,
		"no store `r.rawLiteralEnd = r.cursor + token.Pos(len(text))`: the restorer cannot tell that a comment sits behind a literal that began on an earlier line, and puts it into the node's Comment field, which go/parser does not (go/printer then aligns it with an extra cell)")
}
