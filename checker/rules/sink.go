package rules

import (
	"fmt"
	"go/ast"
	"go/token"
	"sort"
	"strings"

	"dstverif/load"
	"dstverif/schema"
)

// R-SINK: every comment rendered by the restorer ends up exactly once in the file's comment list.
// Two sinks exist: a free-standing group appended to r.comments, or the node's Comment field
// (Field, ValueSpec, TypeSpec, ImportSpec), whose group must itself be registered in r.comments
// exactly once — when it is created. go/printer only prints comments reachable from File.Comments.
func (e *Env) RSink() {
	pkg := e.Prog.Pkg(load.PkgDecorator)
	c := e.Sib.Ctx[load.PkgDecorator]
	info := pkg.TypesInfo

	// (1) hasCommentField's type list
	has := map[string]bool{}
	if fd := load.FuncDecl(pkg, "FileRestorer", "hasCommentField"); fd != nil && fd.Body != nil {
		ast.Inspect(fd.Body, func(n ast.Node) bool {
			cc, ok := n.(*ast.CaseClause)
			if !ok {
				return true
			}
			returnsTrue := false
			for _, st := range cc.Body {
				if rs, ok := st.(*ast.ReturnStmt); ok && len(rs.Results) == 1 && c.ExprStr(rs.Results[0]) == "true" {
					returnsTrue = true
				}
			}
			if returnsTrue {
				for _, te := range cc.List {
					_, tn := schema.NamedTypeName(info.TypeOf(te))
					has[tn] = true
				}
			}
			return true
		})
	} else {
		e.Run.Violation("R-SINK", "hasCommentField exists", "", "function missing")
	}
	// (2) addCommentField's cases
	fd := load.FuncDecl(pkg, "FileRestorer", "addCommentField")
	if fd == nil || fd.Body == nil {
		e.Run.Violation("R-SINK", "addCommentField exists", "", "function missing")
		return
	}
	recv := c.ObjOf(fd.Recv.List[0].Names[0])
	// the comment value: c := &ast.Comment{Slash: slash, Text: text}
	var commentObj interface{}
	params := map[string]interface{}{}
	for _, p := range fd.Type.Params.List {
		for _, nm := range p.Names {
			params[nm.Name] = info.Defs[nm]
		}
	}
	okComment := false
	for _, st := range fd.Body.List {
		if as, ok := st.(*ast.AssignStmt); ok && as.Tok == token.DEFINE && len(as.Lhs) == 1 && len(as.Rhs) == 1 {
			if got := c.ExprStr(as.Rhs[0]); got == "&Comment{Slash: slash, Text: text}" {
				commentObj = info.Defs[as.Lhs[0].(*ast.Ident)]
				okComment = true
			}
		}
	}
	e.Run.Check("R-SINK", "addCommentField builds the comment from its position and text parameters", e.Prog.Pos(fd.Pos()), okComment, "expected c := &ast.Comment{Slash: slash, Text: text}")
	adds := map[string]string{}
	var ts *ast.TypeSwitchStmt
	for _, st := range fd.Body.List {
		if t, ok := st.(*ast.TypeSwitchStmt); ok {
			ts = t
		}
	}
	if ts == nil {
		e.Run.Violation("R-SINK", "addCommentField dispatches on the node type", e.Prog.Pos(fd.Pos()), "no type switch")
		return
	}
	for _, st := range ts.Body.List {
		cc := st.(*ast.CaseClause)
		if cc.List == nil {
			continue
		}
		if len(cc.List) != 1 {
			e.Run.Violation("R-SINK", "addCommentField: one type per case", e.Prog.Pos(cc.Pos()), "multi-type case cannot access the Comment field")
			continue
		}
		_, tn := schema.NamedTypeName(info.TypeOf(cc.List[0]))
		nObj := info.Implicits[cc]
		// a branch that delegates to a helper is analysed through the helper's body (one level)
		caseBody, undo := c.ExpandCall(cc.Body)
		var body []string
		for _, s := range caseBody {
			body = append(body, stmtNorm(c, s))
		}
		adds[tn] = strings.Join(body, " ; ")
		pos := e.Prog.Pos(cc.Pos())
		// semantic content of the branch
		nReg, nRegGuarded, nAlloc, nAppend, nAppendGuarded := 0, 0, 0, 0, 0
		isComment := func(x ast.Expr) bool { p, ok := c.Path(x, nObj); return ok && p == "Comment" }
		isList := func(x ast.Expr) bool { p, ok := c.Path(x, nObj); return ok && p == "Comment.List" }
		isAppendTo := func(x ast.Expr, base func(ast.Expr) bool) (ast.Expr, bool) {
			call, ok := x.(*ast.CallExpr)
			if !ok || len(call.Args) != 2 || c.ExprStr(call.Fun) != "append" || !base(call.Args[0]) {
				return nil, false
			}
			return call.Args[1], true
		}
		var walk func(list []ast.Stmt, guard ast.Expr)
		walk = func(list []ast.Stmt, guard ast.Expr) {
			for _, s := range list {
				switch x := s.(type) {
				case *ast.IfStmt:
					walk(x.Body.List, x.Cond)
					if el, ok := x.Else.(*ast.BlockStmt); ok {
						walk(el.List, &ast.UnaryExpr{Op: token.NOT, X: x.Cond})
					}
				case *ast.AssignStmt:
					if len(x.Lhs) != 1 || len(x.Rhs) != 1 {
						continue
					}
					switch {
					case isComment(x.Lhs[0]):
						if _, isAlloc := c.AllocOf(x.Rhs[0]); isAlloc {
							nAlloc++
						}
					case func() bool { p, ok := c.Path(x.Lhs[0], recv); return ok && p == "comments" }():
						if arg, ok := isAppendTo(x.Rhs[0], func(b ast.Expr) bool { p, ok := c.Path(b, recv); return ok && p == "comments" }); ok && isComment(arg) {
							nReg++
							if be, ok := guard.(*ast.BinaryExpr); ok && be.Op == token.EQL && isComment(be.X) && info.Types[be.Y].IsNil() {
								nRegGuarded++
							}
						}
					case isList(x.Lhs[0]):
						if _, ok := isAppendTo(x.Rhs[0], isList); ok {
							nAppend++
							if guard != nil {
								nAppendGuarded++
							}
						}
					}
				}
			}
		}
		walk(caseBody, nil)
		undo()
		e.Run.Check("R-SINK", fmt.Sprintf("addCommentField %s: group registered in the file's comment list exactly once, when created", tn), pos,
			nAlloc == 1 && nReg == 1 && nRegGuarded == 1,
			fmt.Sprintf("the node's Comment group must be appended to r.comments once, inside `if n.Comment == nil` next to its allocation (allocations %d, registrations %d, of which under the nil test %d): registered never ⇒ go/printer drops the comment, registered per comment ⇒ printed repeatedly", nAlloc, nReg, nRegGuarded))
		e.Run.Check("R-SINK", fmt.Sprintf("addCommentField %s: comment appended to the group exactly once, unconditionally", tn), pos, nAppend == 1 && nAppendGuarded == 0,
			fmt.Sprintf("%d appends to n.Comment.List (%d conditional)", nAppend, nAppendGuarded))
		// the ast type must have a Comment *CommentGroup field
		nt := e.astTypes[tn]
		okField := nt != nil && nt.ByName["Comment"] != nil && nt.ByName["Comment"].Kind == FComment
		e.Run.Check("R-SINK", fmt.Sprintf("ast.%s has a Comment field", tn), pos, okField, "sink type without a Comment *CommentGroup field")
		_ = commentObj
	}
	// (3) same type set on both sides; every ast type with a line-comment field is a sink
	var hs, as []string
	for k := range has {
		hs = append(hs, k)
	}
	for k := range adds {
		as = append(as, k)
	}
	sort.Strings(hs)
	sort.Strings(as)
	e.Run.Check("R-SINK", "hasCommentField and addCommentField agree on the sink types", e.Prog.Pos(fd.Pos()), strings.Join(hs, ",") == strings.Join(as, ",") && len(hs) > 0,
		fmt.Sprintf("hasCommentField: %v; addCommentField: %v — a type only in the first routes End comments to a sink that drops them", hs, as))
	// (4) sibling cross-check: the branches are identical modulo the case type
	var ref, refT string
	for _, tn := range as {
		if ref == "" {
			ref, refT = adds[tn], tn
			continue
		}
		e.Run.Check("R-SINK", fmt.Sprintf("addCommentField branch %s equals branch %s", tn, refT), e.Prog.Pos(fd.Pos()), adds[tn] == ref,
			fmt.Sprintf("sibling branches must agree: %s: «%s»  vs  %s: «%s»", tn, adds[tn], refT, ref))
	}
	e.Run.Analysed("comment sink branches", len(as))
	e.Run.Floor("R-SINK", "sink branches", len(as), 3)
	e.applyDecorationsSinks()
}

// stmtNorm renders a statement's normal form (expressions through ExprStr).
func stmtNorm(c *schema.Ctx, s ast.Stmt) string {
	switch x := s.(type) {
	case *ast.AssignStmt:
		var l, r []string
		for _, e := range x.Lhs {
			l = append(l, c.ExprStr(e))
		}
		for _, e := range x.Rhs {
			r = append(r, c.ExprStr(e))
		}
		return strings.Join(l, ",") + " " + x.Tok.String() + " " + strings.Join(r, ",")
	case *ast.ExprStmt:
		return c.ExprStr(x.X)
	case *ast.IfStmt:
		out := "if "
		if x.Init != nil {
			out += stmtNorm(c, x.Init) + "; "
		}
		out += c.ExprStr(x.Cond) + " {"
		for _, b := range x.Body.List {
			out += " " + stmtNorm(c, b) + ";"
		}
		out += " }"
		switch el := x.Else.(type) {
		case *ast.BlockStmt:
			out += " else {"
			for _, b := range el.List {
				out += " " + stmtNorm(c, b) + ";"
			}
			out += " }"
		case *ast.IfStmt:
			out += " else " + stmtNorm(c, el)
		}
		return out
	case *ast.ReturnStmt:
		var r []string
		for _, e := range x.Results {
			r = append(r, c.ExprStr(e))
		}
		return "return " + strings.Join(r, ",")
	case *ast.IncDecStmt:
		return c.ExprStr(x.X) + x.Tok.String()
	case *ast.BlockStmt:
		out := "{"
		for _, b := range x.List {
			out += " " + stmtNorm(c, b) + ";"
		}
		return out + " }"
	case *ast.BranchStmt:
		return x.Tok.String()
	}
	return fmt.Sprintf("«%T»", s)
}

// applyDecorationsSinks: in applyDecorations every comment goes to exactly one sink, at the
// cursor, and then the cursor advances by its length. Decided on path conditions (truth tables
// over the atoms of the enclosing conditions, locals and named constants inlined), not on the
// shape of the statements.
func (e *Env) applyDecorationsSinks() {
	pkg := e.Prog.Pkg(load.PkgDecorator)
	c := e.Sib.Ctx[load.PkgDecorator]
	info := pkg.TypesInfo
	fd := load.FuncDecl(pkg, "FileRestorer", "applyDecorations")
	if fd == nil || fd.Body == nil {
		e.Run.Violation("R-SINK", "applyDecorations exists", "", "function missing")
		return
	}
	c.ComputeSubst(fd.Body.List, map[string]bool{"cursor": true, "cursorAtNewLine": true, "lines": true, "comments": true})
	defer func() { c.Subst = nil }()
	var loop *ast.RangeStmt
	for _, st := range fd.Body.List {
		if rs, ok := st.(*ast.RangeStmt); ok && c.ExprStr(rs.X) == "decorations" {
			loop = rs
		}
	}
	if loop == nil {
		e.Run.Violation("R-SINK", "applyDecorations ranges over its decorations parameter", e.Prog.Pos(fd.Pos()), "no `for _, d := range decorations`")
		return
	}
	// (whether a decoration can be skipped, which sink a comment goes to and that the cursor
	// advances once per comment is decided for every decoration list by the line-state machine)
	e.lineStateApplyDecorations()
	var dName string
	if id, ok := loop.Value.(*ast.Ident); ok {
		dName = id.Name
	}
	isComment := fmt.Sprintf("(strings.HasPrefix(%s, \"//\") || strings.HasPrefix(%s, \"/*\"))", dName, dName)
	toField := "firstLine && end && r.hasCommentField(node)"
	var fieldSite, freeSite, advSite ast.Node
	nField, nFree, nAdv := 0, 0, 0
	ast.Inspect(loop.Body, func(n ast.Node) bool {
		switch x := n.(type) {
		case *ast.CallExpr:
			if schema.IsMethod(c.Callee(x), load.PkgDecorator, "FileRestorer", "addCommentField") {
				nField++
				if len(x.Args) == 3 && c.ExprStr(x.Args[0]) == "node" && c.ExprStr(x.Args[1]) == "r.cursor" && c.ExprStr(x.Args[2]) == dName {
					fieldSite = x
				}
			}
		case *ast.AssignStmt:
			if len(x.Lhs) != 1 || len(x.Rhs) != 1 {
				return true
			}
			if e.isRestorerField(info, x.Lhs[0], "comments") {
				nFree++
				if c.ExprStr(x.Rhs[0]) == "append(r.comments, &CommentGroup{List: []*Comment{{Slash: r.cursor, Text: "+dName+"}}})" {
					freeSite = x
				}
			}
			if e.isRestorerField(info, x.Lhs[0], "cursor") && x.Tok == token.ADD_ASSIGN && c.ExprStr(x.Rhs[0]) == "token.Pos(len("+dName+"))" {
				nAdv++
				advSite = x
			}
		}
		return true
	})
	pos := e.Prog.Pos(loop.Pos())
	if fieldSite == nil || freeSite == nil || advSite == nil || nField != 1 || nFree != 1 || nAdv != 1 {
		e.Run.Violation("R-SINK", "applyDecorations: each comment goes to exactly one sink, at the cursor, then the cursor advances by its length", pos,
			fmt.Sprintf("expected exactly one r.addCommentField(node, r.cursor, %s), one append of a group {Slash: r.cursor, Text: %s} to r.comments and one r.cursor += token.Pos(len(%s)) per decoration; found %d/%d/%d (of the expected form: %v/%v/%v)", dName, dName, dName, nField, nFree, nAdv, fieldSite != nil, freeSite != nil, advSite != nil))
		return
	}
	order := fieldSite.Pos() < advSite.Pos() && freeSite.Pos() < advSite.Pos()
	e.Run.Check("R-SINK", "applyDecorations: each comment goes to exactly one sink, at the cursor, then the cursor advances by its length", pos, order,
		"both sinks take the comment at r.cursor; the advance by len(d) must come after them")
	_, _ = isComment, toField
}
