package rules

import (
	"fmt"
	"go/ast"
	"go/token"
	"go/types"
	"sort"
	"strings"

	"dstverif/load"
	"dstverif/schema"
)

// R-SINK: every comment rendered by the restorer ends up exactly once in the file's comment list.
// Two sinks exist: a free-standing group appended to r.comments, or the node's Comment field
// (Field, ValueSpec, TypeSpec, ImportSpec), whose group must itself be registered in r.comments
// exactly once — when it is created. go/printer only prints comments reachable from File.Comments.
func (e *Env) RSink() {
	pkg := e.Prog.Pkg(load.PkgDecorator)
	c := e.Sib.Ctx[load.PkgDecorator]
	info := pkg.TypesInfo

	// (1) hasCommentField's type list
	has := map[string]bool{}
	if fd := load.FuncDecl(pkg, "FileRestorer", "hasCommentField"); fd != nil && fd.Body != nil {
		ast.Inspect(fd.Body, func(n ast.Node) bool {
			cc, ok := n.(*ast.CaseClause)
			if !ok {
				return true
			}
			returnsTrue := false
			for _, st := range cc.Body {
				if rs, ok := st.(*ast.ReturnStmt); ok && len(rs.Results) == 1 && c.ExprStr(rs.Results[0]) == "true" {
					returnsTrue = true
				}
			}
			if returnsTrue {
				for _, te := range cc.List {
					_, tn := schema.NamedTypeName(info.TypeOf(te))
					has[tn] = true
				}
			}
			return true
		})
	} else {
		e.Run.Violation("R-SINK", "hasCommentField exists", "", "function missing")
	}
	// (2) addCommentField's cases
	fd := e.fieldSink()
	if fd == nil || fd.Body == nil {
		e.Run.Violation("R-SINK", "addCommentField exists", "", "no method of the restorer stores a comment in a node's Comment field")
		return
	}
	recv := c.ObjOf(fd.Recv.List[0].Names[0])
	// the comment value: c := &ast.Comment{Slash: slash, Text: text}
	var commentObj interface{}
	params := map[string]interface{}{}
	for _, p := range fd.Type.Params.List {
		for _, nm := range p.Names {
			params[nm.Name] = info.Defs[nm]
		}
	}
	// the comment: built here from a position and a text parameter, or handed in as a *ast.Comment
	// (then the call sites build it at the cursor: applyDecorationsSinks)
	okComment := false
	isParam := func(x ast.Expr) bool {
		id, ok := ast.Unparen(x).(*ast.Ident)
		if !ok {
			return false
		}
		for _, o := range params {
			if o == interface{}(info.Uses[id]) {
				return true
			}
		}
		return false
	}
	ast.Inspect(fd.Body, func(n ast.Node) bool {
		if cl, ok := n.(*ast.CompositeLit); ok {
			if p, tn := namedOf(info.TypeOf(cl)); p == "go/ast" && tn == "Comment" {
				slash, text := false, false
				for _, el := range cl.Elts {
					if kv, ok := el.(*ast.KeyValueExpr); ok {
						if k, ok := kv.Key.(*ast.Ident); ok {
							switch k.Name {
							case "Slash":
								slash = isParam(kv.Value) && isTokenPos(info.TypeOf(kv.Value))
							case "Text":
								text = isParam(kv.Value)
							}
						}
					}
				}
				if slash && text {
					okComment = true
				}
			}
		}
		return true
	})
	for _, pf := range fd.Type.Params.List {
		if p, tn := namedOf(info.TypeOf(pf.Type)); p == "go/ast" && tn == "Comment" {
			if _, isPtr := info.TypeOf(pf.Type).(*types.Pointer); isPtr {
				okComment = true
			}
		}
	}
	e.Run.Check("R-SINK", "addCommentField builds the comment from its position and text parameters", e.Prog.Pos(fd.Pos()), okComment, "expected &ast.Comment{Slash: <position parameter>, Text: <text parameter>}, or a *ast.Comment parameter")
	adds := map[string]string{}
	var ts *ast.TypeSwitchStmt
	for _, st := range fd.Body.List {
		if t, ok := st.(*ast.TypeSwitchStmt); ok {
			ts = t
		}
	}
	if ts == nil {
		e.Run.Violation("R-SINK", "addCommentField dispatches on the node type", e.Prog.Pos(fd.Pos()), "no type switch")
		return
	}
	if e.sinkFieldPointerForm(c, info, fd, ts, recv, has) {
		e.applyDecorationsSinks()
		return
	}
	for _, st := range ts.Body.List {
		cc := st.(*ast.CaseClause)
		if cc.List == nil {
			continue
		}
		if len(cc.List) != 1 {
			e.Run.Violation("R-SINK", "addCommentField: one type per case", e.Prog.Pos(cc.Pos()), "multi-type case cannot access the Comment field")
			continue
		}
		_, tn := schema.NamedTypeName(info.TypeOf(cc.List[0]))
		nObj := info.Implicits[cc]
		// a branch that delegates to a helper is analysed through the helper's body (one level)
		caseBody, undo := c.ExpandCall(cc.Body)
		var body []string
		for _, s := range caseBody {
			body = append(body, stmtNorm(c, s))
		}
		adds[tn] = strings.Join(body, " ; ")
		pos := e.Prog.Pos(cc.Pos())
		// semantic content of the branch
		nReg, nRegGuarded, nAlloc, nAppend, nAppendGuarded := 0, 0, 0, 0, 0
		isComment := func(x ast.Expr) bool { p, ok := c.Path(x, nObj); return ok && p == "Comment" }
		isList := func(x ast.Expr) bool { p, ok := c.Path(x, nObj); return ok && p == "Comment.List" }
		isAppendTo := func(x ast.Expr, base func(ast.Expr) bool) (ast.Expr, bool) {
			call, ok := x.(*ast.CallExpr)
			if !ok || len(call.Args) != 2 || c.ExprStr(call.Fun) != "append" || !base(call.Args[0]) {
				return nil, false
			}
			return call.Args[1], true
		}
		var walk func(list []ast.Stmt, guard ast.Expr)
		walk = func(list []ast.Stmt, guard ast.Expr) {
			for _, s := range list {
				switch x := s.(type) {
				case *ast.IfStmt:
					walk(x.Body.List, x.Cond)
					if el, ok := x.Else.(*ast.BlockStmt); ok {
						walk(el.List, &ast.UnaryExpr{Op: token.NOT, X: x.Cond})
					}
				case *ast.AssignStmt:
					if len(x.Lhs) != 1 || len(x.Rhs) != 1 {
						continue
					}
					switch {
					case isComment(x.Lhs[0]):
						if _, isAlloc := c.AllocOf(x.Rhs[0]); isAlloc {
							nAlloc++
						}
					case func() bool { p, ok := c.Path(x.Lhs[0], recv); return ok && p == "comments" }():
						if arg, ok := isAppendTo(x.Rhs[0], func(b ast.Expr) bool { p, ok := c.Path(b, recv); return ok && p == "comments" }); ok && isComment(arg) {
							nReg++
							if be, ok := guard.(*ast.BinaryExpr); ok && be.Op == token.EQL && isComment(be.X) && info.Types[be.Y].IsNil() {
								nRegGuarded++
							}
						}
					case isList(x.Lhs[0]):
						if _, ok := isAppendTo(x.Rhs[0], isList); ok {
							nAppend++
							if guard != nil {
								nAppendGuarded++
							}
						}
					}
				}
			}
		}
		walk(caseBody, nil)
		undo()
		e.Run.Check("R-SINK", fmt.Sprintf("addCommentField %s: group registered in the file's comment list exactly once, when created", tn), pos,
			nAlloc == 1 && nReg == 1 && nRegGuarded == 1,
			fmt.Sprintf("the node's Comment group must be appended to r.comments once, inside `if n.Comment == nil` next to its allocation (allocations %d, registrations %d, of which under the nil test %d): registered never ⇒ go/printer drops the comment, registered per comment ⇒ printed repeatedly", nAlloc, nReg, nRegGuarded))
		e.Run.Check("R-SINK", fmt.Sprintf("addCommentField %s: comment appended to the group exactly once, unconditionally", tn), pos, nAppend == 1 && nAppendGuarded == 0,
			fmt.Sprintf("%d appends to n.Comment.List (%d conditional)", nAppend, nAppendGuarded))
		// the ast type must have a Comment *CommentGroup field
		nt := e.astTypes[tn]
		okField := nt != nil && nt.ByName["Comment"] != nil && nt.ByName["Comment"].Kind == FComment
		e.Run.Check("R-SINK", fmt.Sprintf("ast.%s has a Comment field", tn), pos, okField, "sink type without a Comment *CommentGroup field")
		_ = commentObj
	}
	// (3) same type set on both sides; every ast type with a line-comment field is a sink
	var hs, as []string
	for k := range has {
		hs = append(hs, k)
	}
	for k := range adds {
		as = append(as, k)
	}
	sort.Strings(hs)
	sort.Strings(as)
	e.Run.Check("R-SINK", "hasCommentField and addCommentField agree on the sink types", e.Prog.Pos(fd.Pos()), strings.Join(hs, ",") == strings.Join(as, ",") && len(hs) > 0,
		fmt.Sprintf("hasCommentField: %v; addCommentField: %v — a type only in the first routes End comments to a sink that drops them", hs, as))
	// (4) sibling cross-check: the branches are identical modulo the case type
	var ref, refT string
	for _, tn := range as {
		if ref == "" {
			ref, refT = adds[tn], tn
			continue
		}
		e.Run.Check("R-SINK", fmt.Sprintf("addCommentField branch %s equals branch %s", tn, refT), e.Prog.Pos(fd.Pos()), adds[tn] == ref,
			fmt.Sprintf("sibling branches must agree: %s: «%s»  vs  %s: «%s»", tn, adds[tn], refT, ref))
	}
	e.Run.Analysed("comment sink branches", len(as))
	e.Run.Floor("R-SINK", "sink branches", len(as), 3)
	e.applyDecorationsSinks()
}

// fieldSink: the method of the restorer that puts a comment into a node's own Comment field — the
// one whose body stores into (or appends to the List of) the Comment field of a go/ast node. Found
// by what it does, not by its name.
func (e *Env) fieldSink() *ast.FuncDecl {
	if fd, ok := fieldSinkCache[e]; ok {
		return fd
	}
	pkg := e.Prog.Pkg(load.PkgDecorator)
	info := pkg.TypesInfo
	var found *ast.FuncDecl
	for _, fd := range load.AllFuncDecls(pkg) {
		if fd.Body == nil || fd.Recv == nil || found != nil {
			continue
		}
		if _, tn := namedOf(info.TypeOf(fd.Recv.List[0].Type)); tn != "FileRestorer" {
			continue
		}
		ast.Inspect(fd.Body, func(n ast.Node) bool {
			// p = &n.Comment (the address of the field is taken to store through it)
			if u, ok := n.(*ast.UnaryExpr); ok && u.Op == token.AND {
				if se, ok := ast.Unparen(u.X).(*ast.SelectorExpr); ok && se.Sel.Name == "Comment" {
					if p, _ := namedOf(info.TypeOf(se.X)); p == "go/ast" {
						found = fd
					}
				}
			}
			as, ok := n.(*ast.AssignStmt)
			if !ok {
				return true
			}
			for _, l := range as.Lhs {
				se, ok := ast.Unparen(l).(*ast.SelectorExpr)
				if !ok {
					continue
				}
				if se.Sel.Name == "List" {
					if inner, ok := ast.Unparen(se.X).(*ast.SelectorExpr); ok {
						se = inner
					}
				}
				if se.Sel.Name != "Comment" {
					continue
				}
				if p, _ := namedOf(info.TypeOf(se.X)); p == "go/ast" {
					found = fd
				}
			}
			return true
		})
	}
	if found == nil {
		found = load.FuncDecl(pkg, "FileRestorer", "addCommentField")
	}
	fieldSinkCache[e] = found
	return found
}

var fieldSinkCache = map[*Env]*ast.FuncDecl{}

func (e *Env) isFieldSinkCall(info *types.Info, call *ast.CallExpr) bool {
	fd := e.fieldSink()
	if fd == nil {
		return false
	}
	fn := calleeFunc(info, call)
	return fn != nil && types.Object(fn) == info.Defs[fd.Name]
}

// stmtNorm renders a statement's normal form (expressions through ExprStr).
func stmtNorm(c *schema.Ctx, s ast.Stmt) string {
	switch x := s.(type) {
	case *ast.AssignStmt:
		var l, r []string
		for _, e := range x.Lhs {
			l = append(l, c.ExprStr(e))
		}
		for _, e := range x.Rhs {
			r = append(r, c.ExprStr(e))
		}
		return strings.Join(l, ",") + " " + x.Tok.String() + " " + strings.Join(r, ",")
	case *ast.ExprStmt:
		return c.ExprStr(x.X)
	case *ast.IfStmt:
		out := "if "
		if x.Init != nil {
			out += stmtNorm(c, x.Init) + "; "
		}
		out += c.ExprStr(x.Cond) + " {"
		for _, b := range x.Body.List {
			out += " " + stmtNorm(c, b) + ";"
		}
		out += " }"
		switch el := x.Else.(type) {
		case *ast.BlockStmt:
			out += " else {"
			for _, b := range el.List {
				out += " " + stmtNorm(c, b) + ";"
			}
			out += " }"
		case *ast.IfStmt:
			out += " else " + stmtNorm(c, el)
		}
		return out
	case *ast.ReturnStmt:
		var r []string
		for _, e := range x.Results {
			r = append(r, c.ExprStr(e))
		}
		return "return " + strings.Join(r, ",")
	case *ast.IncDecStmt:
		return c.ExprStr(x.X) + x.Tok.String()
	case *ast.BlockStmt:
		out := "{"
		for _, b := range x.List {
			out += " " + stmtNorm(c, b) + ";"
		}
		return out + " }"
	case *ast.BranchStmt:
		return x.Tok.String()
	}
	return fmt.Sprintf("«%T»", s)
}

// applyDecorationsSinks: in applyDecorations every comment goes to exactly one sink, at the
// cursor, and then the cursor advances by its length. Decided on path conditions (truth tables
// over the atoms of the enclosing conditions, locals and named constants inlined), not on the
// shape of the statements.
func (e *Env) applyDecorationsSinks() {
	pkg := e.Prog.Pkg(load.PkgDecorator)
	c := e.Sib.Ctx[load.PkgDecorator]
	info := pkg.TypesInfo
	fd := load.FuncDecl(pkg, "FileRestorer", "applyDecorations")
	if fd == nil || fd.Body == nil {
		e.Run.Violation("R-SINK", "applyDecorations exists", "", "function missing")
		return
	}
	c.ComputeSubst(fd.Body.List, map[string]bool{"cursor": true, "cursorAtNewLine": true, "lines": true, "comments": true})
	defer func() { c.Subst = nil }()
	var loop *ast.RangeStmt
	for _, st := range fd.Body.List {
		if rs, ok := st.(*ast.RangeStmt); ok && c.ExprStr(rs.X) == "decorations" {
			loop = rs
		}
	}
	if loop == nil {
		e.Run.Violation("R-SINK", "applyDecorations ranges over its decorations parameter", e.Prog.Pos(fd.Pos()), "no `for _, d := range decorations`")
		return
	}
	// (whether a decoration can be skipped, which sink a comment goes to and that the cursor
	// advances once per comment is decided for every decoration list by the line-state machine)
	e.lineStateApplyDecorations()
	var dName string
	if id, ok := loop.Value.(*ast.Ident); ok {
		dName = id.Name
	}
	isComment := fmt.Sprintf("(strings.HasPrefix(%s, \"//\") || strings.HasPrefix(%s, \"/*\"))", dName, dName)
	toField := "firstLine && end && r.hasCommentField(node)"
	// the sites that take or step over a comment: in the loop body, or in a method of the restorer
	// that the loop body calls as a statement (its parameters stand for the arguments). Each site
	// must have the expected form; how often a sink is reached per decoration is the machine's
	// business (sinks and advances are counted there for every decoration list)
	nField, nFree, nAdv := 0, 0, 0
	bad := ""
	orderOK := true
	// a comment that stands at the cursor: &ast.Comment{Slash: r.cursor, Text: d} (the type may be
	// elided inside a []*ast.Comment literal), or a local defined as one with no cursor movement
	// between the definition and the use
	var commentAtCursor func(x ast.Expr, depth int) bool
	commentAtCursor = func(x ast.Expr, depth int) bool {
		x = ast.Unparen(x)
		if u, ok := x.(*ast.UnaryExpr); ok && u.Op == token.AND {
			x = ast.Unparen(u.X)
		}
		switch v := x.(type) {
		case *ast.CompositeLit:
			if p, tn := namedOf(info.TypeOf(v)); p != "go/ast" || tn != "Comment" {
				return false
			}
			slash, text := false, false
			for _, el := range v.Elts {
				if kv, ok := el.(*ast.KeyValueExpr); ok {
					if k, ok := kv.Key.(*ast.Ident); ok {
						switch k.Name {
						case "Slash":
							slash = c.ExprStr(kv.Value) == "r.cursor"
						case "Text":
							text = c.ExprStr(kv.Value) == dName
						}
					}
				}
			}
			return slash && text
		case *ast.Ident:
			if depth > 0 {
				return false
			}
			o := info.Uses[v]
			def := singleDefIn(info, loop.Body.List, o)
			if def == nil || !commentAtCursor(def, depth+1) {
				return false
			}
			moved := false
			ast.Inspect(loop.Body, func(n ast.Node) bool {
				switch w := n.(type) {
				case *ast.AssignStmt:
					for _, l := range w.Lhs {
						if e.isRestorerField(info, l, "cursor") && def.Pos() < w.Pos() && w.Pos() < v.Pos() {
							moved = true
						}
					}
				case *ast.IncDecStmt:
					if e.isRestorerField(info, w.X, "cursor") && def.Pos() < w.Pos() && w.Pos() < v.Pos() {
						moved = true
					}
				}
				return true
			})
			return !moved
		}
		return false
	}
	groupOfOneAtCursor := func(x ast.Expr) bool {
		// append(r.comments, &ast.CommentGroup{List: []*ast.Comment{C}})
		call, ok := ast.Unparen(x).(*ast.CallExpr)
		if !ok || len(call.Args) != 2 || !e.isRestorerField(info, call.Args[0], "comments") {
			return false
		}
		if id, ok := call.Fun.(*ast.Ident); !ok || id.Name != "append" {
			return false
		}
		g := ast.Unparen(call.Args[1])
		if u, ok := g.(*ast.UnaryExpr); ok && u.Op == token.AND {
			g = ast.Unparen(u.X)
		}
		gl, ok := g.(*ast.CompositeLit)
		if !ok || len(gl.Elts) != 1 {
			return false
		}
		if p, tn := namedOf(info.TypeOf(gl)); p != "go/ast" || tn != "CommentGroup" {
			return false
		}
		kv, ok := gl.Elts[0].(*ast.KeyValueExpr)
		if !ok {
			return false
		}
		if k, ok := kv.Key.(*ast.Ident); !ok || k.Name != "List" {
			return false
		}
		ll, ok := ast.Unparen(kv.Value).(*ast.CompositeLit)
		return ok && len(ll.Elts) == 1 && commentAtCursor(ll.Elts[0], 0)
	}
	nJoin := 0
	// r.comments = append(r.comments, G) where G was assigned a group of one comment at the cursor by
	// the statement before it
	groupVarAtCursor := func(body ast.Node, as *ast.AssignStmt) bool {
		call, ok := ast.Unparen(as.Rhs[0]).(*ast.CallExpr)
		if !ok || len(call.Args) != 2 || !e.isRestorerField(info, call.Args[0], "comments") {
			return false
		}
		gid, ok := ast.Unparen(call.Args[1]).(*ast.Ident)
		if !ok {
			return false
		}
		found := false
		ast.Inspect(body, func(n ast.Node) bool {
			var list []ast.Stmt
			switch b := n.(type) {
			case *ast.BlockStmt:
				list = b.List
			case *ast.CaseClause:
				list = b.Body
			}
			for i, st := range list {
				if st != ast.Stmt(as) || i == 0 {
					continue
				}
				prev, ok := list[i-1].(*ast.AssignStmt)
				if !ok || len(prev.Lhs) != 1 || len(prev.Rhs) != 1 {
					continue
				}
				pid, ok := prev.Lhs[0].(*ast.Ident)
				if !ok || pid.Name != gid.Name {
					continue
				}
				// wrap as append(r.comments, <rhs>) to reuse the literal check
				wrapped := &ast.CallExpr{Fun: call.Fun, Args: []ast.Expr{call.Args[0], prev.Rhs[0]}}
				if groupOfOneAtCursor(wrapped) {
					found = true
				}
			}
			return true
		})
		return found
	}
	scanBody := func(body ast.Node) {
		var sinks, advs []token.Pos
		ast.Inspect(body, func(n ast.Node) bool {
			switch x := n.(type) {
			case *ast.CallExpr:
				if e.isFieldSinkCall(info, x) {
					nField++
					sinks = append(sinks, x.Pos())
					three := len(x.Args) == 3 && c.ExprStr(x.Args[0]) == "node" && c.ExprStr(x.Args[1]) == "r.cursor" && c.ExprStr(x.Args[2]) == dName
					two := len(x.Args) == 2 && c.ExprStr(x.Args[0]) == "node" && commentAtCursor(x.Args[1], 0)
					if !three && !two {
						bad = "addCommentField(" + c.ExprStr(x.Args[0]) + ", …) at " + e.Prog.Pos(x.Pos()) + " does not take (node, r.cursor, " + dName + ")"
					}
				}
			case *ast.AssignStmt:
				if len(x.Lhs) != 1 || len(x.Rhs) != 1 {
					return true
				}
				if e.isRestorerField(info, x.Lhs[0], "comments") {
					nFree++
					sinks = append(sinks, x.Pos())
					if c.ExprStr(x.Rhs[0]) != "append(r.comments, &CommentGroup{List: []*Comment{{Slash: r.cursor, Text: "+dName+"}}})" && !groupOfOneAtCursor(x.Rhs[0]) && !groupVarAtCursor(body, x) {
						bad = "the free comment list receives `" + c.ExprStr(x.Rhs[0]) + "` at " + e.Prog.Pos(x.Pos())
					}
				}
				// G.List = append(G.List, &ast.Comment{Slash: r.cursor, Text: d}): the comment joins the
				// group that was appended to the free list for the comment before it
				if se, ok := ast.Unparen(x.Lhs[0]).(*ast.SelectorExpr); ok && se.Sel.Name == "List" {
					if p, tn := namedOf(info.TypeOf(se.X)); p == "go/ast" && tn == "CommentGroup" {
						nFree++
						nJoin++
						sinks = append(sinks, x.Pos())
						call, okc := ast.Unparen(x.Rhs[0]).(*ast.CallExpr)
						good := false
						if okc && len(call.Args) == 2 && types.ExprString(call.Args[0]) == types.ExprString(x.Lhs[0]) {
							if id, ok := call.Fun.(*ast.Ident); ok && id.Name == "append" {
								good = commentAtCursor(call.Args[1], 0)
							}
						}
						if !good {
							bad = "a comment group receives `" + c.ExprStr(x.Rhs[0]) + "` at " + e.Prog.Pos(x.Pos())
						}
					}
				}
				if e.isRestorerField(info, x.Lhs[0], "cursor") && x.Tok == token.ADD_ASSIGN && c.ExprStr(x.Rhs[0]) == "token.Pos(len("+dName+"))" {
					nAdv++
					advs = append(advs, x.Pos())
				}
			}
			return true
		})
		for _, sp := range sinks {
			for _, ap := range advs {
				if ap < sp {
					orderOK = false
				}
			}
		}
	}
	scanBody(loop.Body)
	ast.Inspect(loop.Body, func(n ast.Node) bool {
		es, ok := n.(*ast.ExprStmt)
		if !ok {
			return true
		}
		call, ok := es.X.(*ast.CallExpr)
		if !ok {
			return true
		}
		fn := c.Callee(call)
		if fn == nil || fn.Pkg() != pkg.Types || e.isFieldSinkCall(info, call) {
			return true
		}
		body, undo := c.ExpandCall([]ast.Stmt{es})
		if len(body) > 0 && body[0] != ast.Stmt(es) {
			scanBody(&ast.BlockStmt{List: body})
		}
		undo()
		return true
	})
	pos := e.Prog.Pos(loop.Pos())
	if bad != "" || nField < 1 || nFree < 1 || nAdv < 1 {
		e.Run.Violation("R-SINK", "applyDecorations: each comment goes to exactly one sink, at the cursor, then the cursor advances by its length", pos,
			fmt.Sprintf("expected r.addCommentField(node, r.cursor, %s), an append of a group {Slash: r.cursor, Text: %s} to r.comments and r.cursor += token.Pos(len(%s)); found %d/%d/%d sites; %s", dName, dName, dName, nField, nFree, nAdv, bad))
		return
	}
	e.Run.Check("R-SINK", "applyDecorations: each comment goes to exactly one sink, at the cursor, then the cursor advances by its length", pos, orderOK,
		"both sinks take the comment at r.cursor; the advance by len(d) must come after them")
	// the join is decided by a counter of the line breaks since the last comment: it is set to zero
	// with every comment and incremented with every line break (a counter that only grows splits
	// the group after its second comment)
	if nJoin > 0 {
		var counter types.Object
		ast.Inspect(loop.Body, func(n ast.Node) bool {
			if be, ok := n.(*ast.BinaryExpr); ok && (be.Op == token.LEQ || be.Op == token.LSS) {
				if id, ok := ast.Unparen(be.X).(*ast.Ident); ok {
					if b, ok := info.TypeOf(id).Underlying().(*types.Basic); ok && b.Info()&types.IsInteger != 0 && info.Uses[id] != nil && !(loop.Body.Pos() <= info.Uses[id].Pos() && info.Uses[id].Pos() <= loop.Body.End()) {
						counter = info.Uses[id]
					}
				}
			}
			return true
		})
		if counter != nil {
			reset, inc := false, false
			ast.Inspect(loop.Body, func(n ast.Node) bool {
				switch v := n.(type) {
				case *ast.AssignStmt:
					if len(v.Lhs) == 1 && len(v.Rhs) == 1 {
						if id, ok := v.Lhs[0].(*ast.Ident); ok && info.Uses[id] == counter {
							if tv, ok := info.Types[v.Rhs[0]]; ok && tv.Value != nil && tv.Value.String() == "0" {
								reset = true
							}
						}
					}
				case *ast.IncDecStmt:
					if id, ok := v.X.(*ast.Ident); ok && info.Uses[id] == counter && v.Tok == token.INC {
						inc = true
					}
				}
				return true
			})
			// joined when at most one line break lies between: `counter <= 1` (or `< 2`)
			exact := false
			ast.Inspect(loop.Body, func(n ast.Node) bool {
				if be, ok := n.(*ast.BinaryExpr); ok {
					if id, ok := ast.Unparen(be.X).(*ast.Ident); ok && info.Uses[id] == counter {
						if k, ok := constInt(info, be.Y); ok && ((be.Op == token.LEQ && k == 1) || (be.Op == token.LSS && k == 2)) {
							exact = true
						}
					}
				}
				return true
			})
			e.Run.Check("R-SINK", "applyDecorations: a comment joins the group before it when at most one line break lies between them", pos, exact,
				"the join test on "+counter.Name()+" is not `<= 1`: with `< 1` only comments on one line share a group (a block of // lines is split again), with a larger bound comments separated by an empty line are merged into one group and go/printer drops the empty line")
			e.Run.Check("R-SINK", "applyDecorations: the line breaks since the last comment are counted from zero after every comment", pos, reset && inc,
				fmt.Sprintf("the counter %s that decides whether a comment joins the group before it is reset to 0 in the loop: %v, incremented: %v — without the reset the third comment of a run starts a group of its own", counter.Name(), reset, inc))
		}
	}
	e.Run.Check("R-SINK", "applyDecorations: comments that follow each other without an empty line share a comment group", pos, nJoin > 0,
		"every comment is appended to the file's comment list as a group of its own: go/parser puts comments that follow each other without an empty line into one group, and go/printer decides per group whether the comments are printed before the next token — `for k,` / `/* int */ // the value` / `v := range m` is printed with the first comment in front of the comma and no longer parses")
	_, _ = isComment, toField
}

// sinkFieldPointerForm: addCommentField written as "select the address of the node's Comment field
// in a type switch, then one shared body": every arm is `p = &n.Comment` (other types return), and
// the tail creates the group when *p is nil — storing it back through p and registering it once in
// the file's comment list, both under that nil test — and appends the comment unconditionally.
// Returns false when the function is not of this form (the per-arm analysis applies).
func (e *Env) sinkFieldPointerForm(c *schema.Ctx, info *types.Info, fd *ast.FuncDecl, ts *ast.TypeSwitchStmt, recv types.Object, has map[string]bool) bool {
	var p types.Object
	arms := map[string]bool{}
	for _, st := range ts.Body.List {
		cc := st.(*ast.CaseClause)
		if cc.List == nil {
			continue
		}
		if len(cc.List) != 1 || len(cc.Body) != 1 {
			return false
		}
		as, ok := cc.Body[0].(*ast.AssignStmt)
		if !ok || len(as.Lhs) != 1 || len(as.Rhs) != 1 || as.Tok != token.ASSIGN {
			return false
		}
		lid, ok := as.Lhs[0].(*ast.Ident)
		u, ok2 := as.Rhs[0].(*ast.UnaryExpr)
		if !ok || !ok2 || u.Op != token.AND {
			return false
		}
		if path, okp := c.Path(u.X, info.Implicits[cc]); !okp || path != "Comment" {
			return false
		}
		if p == nil {
			p = info.Uses[lid]
		} else if info.Uses[lid] != p {
			return false
		}
		_, tn := schema.NamedTypeName(info.TypeOf(cc.List[0]))
		arms[tn] = true
	}
	if p == nil {
		return false
	}
	pos := e.Prog.Pos(fd.Pos())
	// the tail: statements after the switch
	var tail []ast.Stmt
	after := false
	for _, st := range fd.Body.List {
		if after {
			tail = append(tail, st)
		}
		if st == ast.Stmt(ts) {
			after = true
		}
	}
	undo := c.InstallReaching(fd)
	defer undo()
	// expressions that denote the field: *p, or a local defined as *p (before being re-assigned)
	isField := func(x ast.Expr) bool {
		s := c.ExprStr(x)
		return s == "*"+p.Name()
	}
	nAlloc, nBack, nReg, nAppend := 0, 0, 0, 0
	guardedAll, appendUnconditional := true, true
	var groupObj types.Object
	for _, st := range tail {
		ast.Inspect(st, func(n ast.Node) bool {
			as, ok := n.(*ast.AssignStmt)
			if !ok || len(as.Lhs) != len(as.Rhs) {
				return true
			}
			cond, _ := pathCond(c, tail, as)
			underNil := false
			for _, cj := range splitTop(cond, " && ") {
				cj = strings.TrimSpace(cj)
				if cj == "*"+p.Name()+" == nil" || (groupObj != nil && cj == groupObj.Name()+" == nil") {
					underNil = true
				}
			}
			for i, l := range as.Lhs {
				r := as.Rhs[i]
				// group := *p
				if id, ok := l.(*ast.Ident); ok && as.Tok == token.DEFINE {
					if st, ok := ast.Unparen(r).(*ast.StarExpr); ok {
						if sid, ok := st.X.(*ast.Ident); ok && info.Uses[sid] == p {
							groupObj = info.Defs[id]
						}
					}
					continue
				}
				lhsIsGroup := func() bool {
					if id, ok := l.(*ast.Ident); ok && groupObj != nil && info.Uses[id] == groupObj {
						return true
					}
					return false
				}()
				lhsIsField := func() bool {
					if st, ok := l.(*ast.StarExpr); ok {
						if sid, ok := st.X.(*ast.Ident); ok && info.Uses[sid] == p {
							return true
						}
					}
					return false
				}()
				if _, isAlloc := allocLit(r); isAlloc && (lhsIsGroup || lhsIsField) {
					nAlloc++
					if lhsIsField {
						nBack++
					}
					if !underNil {
						guardedAll = false
					}
					continue
				}
				if lhsIsField {
					if id, ok := ast.Unparen(r).(*ast.Ident); ok && groupObj != nil && info.Uses[id] == groupObj {
						nBack++
						if !underNil {
							guardedAll = false
						}
					}
					continue
				}
				if pth, okp := c.Path(l, recv); okp && pth == "comments" {
					if cl, ok := r.(*ast.CallExpr); ok && c.ExprStr(cl.Fun) == "append" && len(cl.Args) == 2 {
						arg := cl.Args[1]
						argIsGroup := isField(arg)
						if id, ok := ast.Unparen(arg).(*ast.Ident); ok && groupObj != nil && info.Uses[id] == groupObj {
							argIsGroup = true
						}
						if argIsGroup {
							nReg++
							if !underNil {
								guardedAll = false
							}
						}
					}
					continue
				}
				// <group>.List = append(<group>.List, …)
				if se, ok := l.(*ast.SelectorExpr); ok && se.Sel.Name == "List" {
					base := false
					if id, ok := se.X.(*ast.Ident); ok && groupObj != nil && info.Uses[id] == groupObj {
						base = true
					}
					if pe, ok := se.X.(*ast.ParenExpr); ok && isField(pe.X) {
						base = true
					}
					if base {
						nAppend++
						if cond != "" && cond != "true" {
							appendUnconditional = false
						}
					}
				}
			}
			return true
		})
	}
	var hs, as []string
	for k := range has {
		hs = append(hs, k)
	}
	for k := range arms {
		as = append(as, k)
	}
	sort.Strings(hs)
	sort.Strings(as)
	e.Run.Check("R-SINK", "hasCommentField and addCommentField agree on the sink types", pos, strings.Join(hs, ",") == strings.Join(as, ",") && len(hs) > 0,
		fmt.Sprintf("hasCommentField: %v; addCommentField: %v — a type only in the first routes End comments to a sink that drops them", hs, as))
	e.Run.Check("R-SINK", "addCommentField: group registered in the file's comment list exactly once, when created", pos,
		nAlloc == 1 && nBack >= 1 && nReg == 1 && guardedAll,
		fmt.Sprintf("shared body after the field selection: allocations %d, stored back through the field pointer %d, registrations %d, all under the nil test %v — the group must be created, stored in the node's Comment field and appended to r.comments once, only when the field was nil", nAlloc, nBack, nReg, guardedAll))
	e.Run.Check("R-SINK", "addCommentField: comment appended to the group exactly once, unconditionally", pos, nAppend == 1 && appendUnconditional,
		fmt.Sprintf("%d appends to the group's List (unconditional: %v)", nAppend, appendUnconditional))
	e.Run.Analysed("comment sink branches", len(as))
	e.Run.Floor("R-SINK", "sink branches", len(as), 3)
	return true
}
